(* Lemmas and theorems about Tunable/Model.v.  All statements are for every
   string / value / world / history; the only finite sweep is the type grid
   (bound = grid_decls, visible in the statement). *)
From Coq Require Import String Ascii List Bool ZArith NArith Arith Lia.
From RV Require Import Tunable.Model.
Import ListNotations.
Open Scope string_scope.

(* ================================================================== *)
(* A. Strings                                                          *)
(* ================================================================== *)

Lemma append_assoc : forall a b c : string, (a ++ b) ++ c = a ++ (b ++ c).
Proof. induction a; intros; simpl; [reflexivity | now rewrite IHa]. Qed.

Lemma append_inj_l : forall p a b : string, p ++ a = p ++ b -> a = b.
Proof.
  induction p; simpl; intros a0 b0 H; [assumption|].
  injection H as H. now apply IHp.
Qed.

Lemma no_slash_cons : forall c s, no_slash (String c s) = true ->
  c <> "/"%char /\ no_slash s = true.
Proof.
  simpl; intros c s H. apply andb_true_iff in H as [H1 H2]. split; [|assumption].
  apply negb_true_iff in H1. now apply Ascii.eqb_neq in H1.
Qed.

Lemma no_slash_app_slash' : forall y b, no_slash (y ++ String "/"%char b) = false.
Proof.
  induction y; intros; simpl; [reflexivity|].
  rewrite IHy. apply andb_false_r.
Qed.
Lemma no_slash_app_slash : forall y b, no_slash (y ++ "/" ++ b) = false.
Proof. exact no_slash_app_slash'. Qed.

(* the first "/"-free component of a path is determined by the path *)
Lemma first_component_inj : forall a b r1 r2,
  no_slash a = true -> no_slash b = true ->
  a ++ "/" ++ r1 = b ++ "/" ++ r2 -> a = b /\ r1 = r2.
Proof.
  induction a as [|c a IH]; intros [|d b] r1 r2 Ha Hb H; simpl in H.
  - injection H as H. now split.
  - injection H as Hc _. apply no_slash_cons in Hb as [Hd _]. now subst d.
  - injection H as Hc _. apply no_slash_cons in Ha as [Hd _]. now subst c.
  - injection H as Hc H. apply no_slash_cons in Ha as [_ Ha].
    apply no_slash_cons in Hb as [_ Hb].
    destruct (IH b r1 r2 Ha Hb H) as [E1 E2]. subst. now split.
Qed.

(* the last "/"-free component of a path is determined by the path *)
Lemma last_component_inj : forall x y a b,
  no_slash a = true -> no_slash b = true ->
  x ++ "/" ++ a = y ++ "/" ++ b -> x = y /\ a = b.
Proof.
  induction x as [|c x IH]; intros [|d y] a b Ha Hb H; simpl in H.
  - injection H as H. now split.
  - injection H as _ H. rewrite H in Ha.
    change (no_slash (y ++ "/" ++ b) = true) in Ha.
    now rewrite no_slash_app_slash in Ha.
  - injection H as _ H. rewrite <- H in Hb.
    change (no_slash (x ++ "/" ++ a) = true) in Hb.
    now rewrite no_slash_app_slash in Hb.
  - injection H as Hc H. destruct (IH y a b Ha Hb H) as [E1 E2]. subst. now split.
Qed.

Lemma starts_with_app : forall p r, starts_with p (p ++ r) = true.
Proof. induction p; intros; simpl; [reflexivity|]. now rewrite Ascii.eqb_refl, IHp. Qed.

Lemma starts_with_split : forall p s, starts_with p s = true ->
  s = p ++ drop (String.length p) s.
Proof.
  induction p as [|c p IH]; intros s H; simpl in *; [reflexivity|].
  destruct s as [|d s]; [discriminate|].
  apply andb_true_iff in H as [H1 H2]. apply Ascii.eqb_eq in H1. subst d.
  simpl. now rewrite <- (IH s H2).
Qed.

Lemma drop_app : forall p r, drop (String.length p) (p ++ r) = r.
Proof. induction p; intros; simpl; [reflexivity | apply IHp]. Qed.

Local Arguments starts_with : simpl never.

(* ================================================================== *)
(* B. Keys                                                             *)
(* ================================================================== *)

Lemma key_component : forall N A,
  owner_key (OComponent N) None A = "/components/" ++ N ++ "/" ++ A.
Proof. intros. unfold owner_key, key_of, key_in, key_prefix. simpl. reflexivity. Qed.

Lemma key_autonomous : forall N A,
  owner_key (OAutonomous N) None A = "/autonomous/" ++ N ++ "/" ++ A.
Proof. intros. unfold owner_key, key_of, key_in, key_prefix. simpl. reflexivity. Qed.

Lemma key_robot : forall A, owner_key ORobot None A = "/robot/" ++ A.
Proof. reflexivity. Qed.

Lemma key_component_sub : forall N S A, S <> "" ->
  owner_key (OComponent N) (Some S) A = "/components/" ++ N ++ "/" ++ S ++ "/" ++ A.
Proof.
  intros N S A HS. unfold owner_key, key_of, key_in, key_prefix.
  apply String.eqb_neq in HS. rewrite HS. simpl. reflexivity.
Qed.

Lemma key_autonomous_sub : forall N S A, S <> "" ->
  owner_key (OAutonomous N) (Some S) A = "/autonomous/" ++ N ++ "/" ++ S ++ "/" ++ A.
Proof.
  intros N S A HS. unfold owner_key, key_of, key_in, key_prefix.
  apply String.eqb_neq in HS. rewrite HS. simpl. reflexivity.
Qed.

Lemma key_robot_sub : forall S A, S <> "" ->
  owner_key ORobot (Some S) A = "/robot/" ++ S ++ "/" ++ A.
Proof.
  intros S A HS. unfold owner_key, key_of, key_in, key_prefix.
  apply String.eqb_neq in HS. now rewrite HS.
Qed.

(* an empty subtable string is "no subtable" (`if prop._ntsubtable:`) *)
Lemma key_empty_subtable : forall p c A, key_of p c (Some "") A = key_of p c None A.
Proof. reflexivity. Qed.

Lemma key_in_form : forall pfx s n, exists rest, key_in pfx s n = pfx ++ "/" ++ rest.
Proof.
  intros pfx [s|] n; unfold key_in; [destruct (String.eqb s "")|]; eauto.
Qed.

(* owners with different (slash-free) names have different path prefixes *)
Lemma owner_pfx_inj : forall o1 o2 r1 r2,
  owner_name_ok o1 = true -> owner_name_ok o2 = true ->
  owner_pfx o1 ++ "/" ++ r1 = owner_pfx o2 ++ "/" ++ r2 -> o1 = o2.
Proof.
  intros [n1|n1|] [n2|n2|] r1 r2 H1 H2 H;
    unfold owner_pfx, key_prefix in H; simpl in H;
    try reflexivity; try discriminate H.
  - repeat (injection H as H). rewrite ?append_assoc in H.
    destruct (first_component_inj _ _ _ _ H1 H2 H) as [E _]. now subst.
  - repeat (injection H as H). rewrite ?append_assoc in H.
    destruct (first_component_inj _ _ _ _ H1 H2 H) as [E _]. now subst.
Qed.

Lemma owner_keys_disjoint : forall o1 o2 s1 a1 s2 a2,
  owner_name_ok o1 = true -> owner_name_ok o2 = true -> o1 <> o2 ->
  owner_key o1 s1 a1 <> owner_key o2 s2 a2.
Proof.
  intros o1 o2 s1 a1 s2 a2 H1 H2 Hne E. unfold owner_key, key_of in E.
  destruct (key_in_form (key_prefix (owner_prefix o1) (owner_cname o1)) s1 a1) as [r1 E1].
  destruct (key_in_form (key_prefix (owner_prefix o2) (owner_cname o2)) s2 a2) as [r2 E2].
  rewrite E1, E2 in E. apply Hne. exact (owner_pfx_inj o1 o2 r1 r2 H1 H2 E).
Qed.

(* the effective subtable *)
Definition eff_sub (s : option string) : option string :=
  match s with Some x => if String.eqb x "" then None else Some x | None => None end.

Lemma key_in_eff : forall pfx s n,
  key_in pfx s n = match eff_sub s with
                   | None => pfx ++ "/" ++ n
                   | Some x => pfx ++ "/" ++ x ++ "/" ++ n
                   end.
Proof. intros pfx [x|] n; simpl; [destruct (String.eqb x "")|]; reflexivity. Qed.

(* within one owner the key determines the attribute (and the subtable) *)
Lemma key_in_inj : forall pfx s1 a1 s2 a2,
  no_slash a1 = true -> no_slash a2 = true ->
  key_in pfx s1 a1 = key_in pfx s2 a2 -> a1 = a2 /\ eff_sub s1 = eff_sub s2.
Proof.
  intros pfx s1 a1 s2 a2 H1 H2 E. rewrite !key_in_eff in E.
  destruct (eff_sub s1) as [x1|], (eff_sub s2) as [x2|];
    apply append_inj_l in E; simpl in E; injection E as E.
  - destruct (last_component_inj _ _ _ _ H1 H2 E). subst. now split.
  - rewrite <- E in H2. now rewrite no_slash_app_slash' in H2.
  - rewrite E in H1. now rewrite no_slash_app_slash' in H1.
  - now split.
Qed.

(* ================================================================== *)
(* C. The NetworkTables map                                            *)
(* ================================================================== *)

Lemma nt_get_set_same : forall m k ty v, nt_get (nt_set m k ty v) k = Some (ty, v).
Proof.
  induction m as [|[k' tv] m IH]; intros; simpl.
  - now rewrite String.eqb_refl.
  - destruct (String.eqb k' k) eqn:E; simpl; rewrite E; [reflexivity | apply IH].
Qed.

Lemma nt_get_set_other : forall m k ty v k', k <> k' ->
  nt_get (nt_set m k ty v) k' = nt_get m k'.
Proof.
  induction m as [|[k0 tv] m IH]; intros k ty v k' Hne; simpl.
  - apply String.eqb_neq in Hne. now rewrite Hne.
  - destruct (String.eqb k0 k) eqn:E; simpl.
    + apply String.eqb_eq in E. subst k0. apply String.eqb_neq in Hne. now rewrite Hne.
    + destruct (String.eqb k0 k'); [reflexivity | now apply IH].
Qed.

Lemma nt_get_set_default_same : forall m k ty v,
  nt_get (nt_set_default m k ty v) k =
  match nt_get m k with Some tv => Some tv | None => Some (ty, v) end.
Proof.
  intros. unfold nt_set_default. destruct (nt_get m k) eqn:E; [exact E | apply nt_get_set_same].
Qed.

Lemma nt_get_set_default_other : forall m k ty v k', k <> k' ->
  nt_get (nt_set_default m k ty v) k' = nt_get m k'.
Proof.
  intros. unfold nt_set_default. destruct (nt_get m k); [reflexivity | now apply nt_get_set_other].
Qed.

Definition nt_val (m : ntmap) (k : string) : option value := option_map snd (nt_get m k).

(* ================================================================== *)
(* D. Histories without Setup: a read returns the latest write         *)
(* ================================================================== *)

Lemma step_inst : forall w o, is_setup o = false -> w_inst (fst (step w o)) = w_inst w.
Proof.
  intros w [i cls p c|i a v|i a|k ty v|k] H; try discriminate H; simpl; try reflexivity.
  destruct (inst_get (w_inst w) i) as [b|]; [|reflexivity].
  destruct (bind_get b a) as [[[k ty] d]|]; reflexivity.
Qed.

Lemma op_writes_ext : forall w1 w2 o k, w_inst w1 = w_inst w2 ->
  op_writes w1 o k = op_writes w2 o k.
Proof. intros w1 w2 [] k E; simpl; try reflexivity. now rewrite E. Qed.

Lemma last_write_ext : forall w1 w2 h k, w_inst w1 = w_inst w2 ->
  last_write w1 h k = last_write w2 h k.
Proof.
  induction h; intros; simpl; [reflexivity|].
  rewrite (IHh k H). now rewrite (op_writes_ext w1 w2 a k H).
Qed.

Lemma step_nt_val : forall w o k, is_setup o = false ->
  nt_val (w_nt (fst (step w o))) k =
  match op_writes w o k with Some v => Some v | None => nt_val (w_nt w) k end.
Proof.
  intros w [i cls p c|i a v|i a|k' ty v|k'] k H; try discriminate H; simpl; try reflexivity.
  - destruct (inst_get (w_inst w) i) as [b|]; [|reflexivity].
    destruct (bind_get b a) as [[[k' ty] d]|]; [|reflexivity]. simpl.
    destruct (String.eqb k' k) eqn:E; unfold nt_val.
    + apply String.eqb_eq in E. subst. now rewrite nt_get_set_same.
    + apply String.eqb_neq in E. now rewrite nt_get_set_other.
  - destruct (String.eqb k' k) eqn:E; unfold nt_val.
    + apply String.eqb_eq in E. subst. now rewrite nt_get_set_same.
    + apply String.eqb_neq in E. now rewrite nt_get_set_other.
Qed.

Lemma run_cons : forall w o r,
  run w (o :: r) = (fst (run (fst (step w o)) r), snd (step w o) :: snd (run (fst (step w o)) r)).
Proof.
  intros. simpl. destruct (step w o) as [w1 e]. simpl. destruct (run w1 r). reflexivity.
Qed.

Lemma run_app : forall h1 h2 w,
  run w (h1 ++ h2)%list =
  (fst (run (fst (run w h1)) h2), (snd (run w h1) ++ snd (run (fst (run w h1)) h2))%list).
Proof.
  induction h1 as [|o h1 IH]; intros.
  - simpl. now destruct (run w h2).
  - rewrite <- app_comm_cons. rewrite !run_cons. rewrite IH. reflexivity.
Qed.

Lemma run_length : forall h w, length (snd (run w h)) = length h.
Proof.
  induction h; intros; [reflexivity|]. rewrite run_cons. simpl. now rewrite IHh.
Qed.

Definition no_setup (h : list op) : bool := forallb (fun o => negb (is_setup o)) h.

Lemma run_inst : forall h w, no_setup h = true -> w_inst (fst (run w h)) = w_inst w.
Proof.
  induction h as [|o h IH]; intros w H; [reflexivity|].
  simpl in H. apply andb_true_iff in H as [H1 H2]. apply negb_true_iff in H1.
  rewrite run_cons. simpl. rewrite (IH _ H2). now apply step_inst.
Qed.

Lemma run_nt_val : forall h w k, no_setup h = true ->
  nt_val (w_nt (fst (run w h))) k =
  match last_write w h k with Some v => Some v | None => nt_val (w_nt w) k end.
Proof.
  induction h as [|o h IH]; intros w k H; [reflexivity|].
  simpl in H. apply andb_true_iff in H as [H1 H2]. apply negb_true_iff in H1.
  rewrite run_cons. cbn [fst last_write]. rewrite (IH _ k H2).
  rewrite (last_write_ext _ w h k (step_inst w o H1)).
  destruct (last_write w h k); [reflexivity|]. now apply step_nt_val.
Qed.

(* After any interleaving [h] of attribute writes/reads and NT-side
   writes/reads, on any instances of any world [w], reading i.a gives the most
   recent write to the key i.a is bound to, and what it gave before [h] when
   [h] holds no such write. *)
Theorem read_latest : forall w h i b a k ty d,
  no_setup h = true ->
  inst_get (w_inst w) i = Some b -> bind_get b a = Some (k, ty, d) ->
  py_read (fst (run w h)) i a =
  match last_write w h k with Some v => EvVal v | None => py_read w i a end.
Proof.
  intros w h i b a k ty d Hh Hi Ha.
  pose proof (run_nt_val h w k Hh) as Hv. pose proof (run_inst h w Hh) as Hinst.
  unfold py_read. rewrite Hinst, Hi, Ha. unfold nt_val in Hv.
  destruct (last_write w h k) as [v|].
  - destruct (nt_get (w_nt (fst (run w h))) k) as [[t v']|]; simpl in Hv; [|discriminate].
    now injection Hv as ->.
  - destruct (nt_get (w_nt (fst (run w h))) k) as [[t v']|],
             (nt_get (w_nt w) k) as [[t0 v0]|]; simpl in Hv; try discriminate; [|reflexivity].
    now injection Hv as ->.
Qed.

(* the same, for the event a read emits in the middle of a history *)
Theorem read_latest_event : forall w h1 h2 i b a k ty d,
  no_setup h1 = true ->
  inst_get (w_inst w) i = Some b -> bind_get b a = Some (k, ty, d) ->
  nth (length h1) (snd (run w (h1 ++ PyRead i a :: h2)%list)) EvErr =
  match last_write w h1 k with Some v => EvVal v | None => py_read w i a end.
Proof.
  intros. rewrite run_app. cbn [snd].
  rewrite app_nth2; rewrite run_length; [|lia]. rewrite Nat.sub_diag.
  rewrite run_cons. cbn [snd nth step]. eapply read_latest; eassumption.
Qed.

(* the NT side sees the same thing at the key *)
Theorem nt_read_latest : forall w h k,
  no_setup h = true ->
  nt_val (w_nt (fst (run w h))) k =
  match last_write w h k with Some v => Some v | None => nt_val (w_nt w) k end.
Proof. intros. now apply run_nt_val. Qed.

(* ================================================================== *)
(* E. Setup                                                            *)
(* ================================================================== *)

Definition decl_key (pfx : string) (d : decl) : string :=
  key_in pfx (d_subtable d) (d_attr d).

Lemma class_topics_in : forall cls ds d, class_topics cls = Some ds -> In d cls ->
  exists ty, In (d, ty) ds /\ decl_topic (d_default d) (d_hint d) = Ok ty.
Proof.
  induction cls as [|d0 cls IH]; intros ds d H Hin; [destruct Hin|].
  simpl in H. destruct (decl_topic (d_default d0) (d_hint d0)) as [t| |] eqn:E; try discriminate.
  destruct (class_topics cls) as [l|] eqn:El; [|discriminate]. injection H as <-.
  destruct Hin as [<-|Hin].
  - exists t. split; [now left | assumption].
  - destruct (IH l d eq_refl Hin) as [ty [H1 H2]]. exists ty. split; [now right | assumption].
Qed.

Lemma class_topics_fst : forall cls ds, class_topics cls = Some ds -> map fst ds = cls.
Proof.
  induction cls as [|d0 cls IH]; intros ds H; simpl in H.
  - now injection H as <-.
  - destruct (decl_topic (d_default d0) (d_hint d0)) as [t| |]; try discriminate.
    destruct (class_topics cls) as [l|] eqn:El; [|discriminate]. injection H as <-.
    simpl. now rewrite (IH l eq_refl).
Qed.

(* keys the loop does not mention keep their topic *)
Lemma setup_loop_nt_notin : forall pfx ds nt b k,
  (forall d ty, In (d, ty) ds -> public d = true -> decl_key pfx d <> k) ->
  nt_get (fst (setup_loop pfx ds nt b)) k = nt_get nt k.
Proof.
  induction ds as [|[d ty] ds IH]; intros nt b k H; [reflexivity|].
  simpl. destruct (starts_with "_" (d_attr d)) eqn:E.
  - apply IH. intros d' ty' Hin. apply (H d' ty'). now right.
  - rewrite IH by (intros d' ty' Hin; apply (H d' ty'); now right).
    assert (Hk : decl_key pfx d <> k).
    { apply (H d ty); [now left|]. unfold public. now rewrite E. }
    destruct (d_wd d); [now apply nt_get_set_other | now apply nt_get_set_default_other].
Qed.

Lemma setup_loop_nt_other : forall pfx ds nt b k,
  (forall rest, k <> pfx ++ "/" ++ rest) ->
  nt_get (fst (setup_loop pfx ds nt b)) k = nt_get nt k.
Proof.
  intros. apply setup_loop_nt_notin. intros d ty _ _ E.
  destruct (key_in_form pfx (d_subtable d) (d_attr d)) as [rest Hr].
  unfold decl_key in E. rewrite Hr in E. now apply (H rest).
Qed.

Definition public_keys (pfx : string) (ds : list (decl * ntype)) : list string :=
  map (fun x => decl_key pfx (fst x)) (filter (fun x => public (fst x)) ds).

Lemma in_public_keys : forall pfx ds d ty, In (d, ty) ds -> public d = true ->
  In (decl_key pfx d) (public_keys pfx ds).
Proof.
  intros. unfold public_keys. apply in_map_iff. exists (d, ty). split; [reflexivity|].
  apply filter_In. now split.
Qed.

Lemma setup_loop_write_default : forall pfx ds nt b d ty,
  NoDup (public_keys pfx ds) -> In (d, ty) ds -> public d = true ->
  nt_get (fst (setup_loop pfx ds nt b)) (decl_key pfx d) =
  if d_wd d then Some (ty, entry_value ty (d_default d))
  else match nt_get nt (decl_key pfx d) with
       | Some tv => Some tv
       | None => Some (ty, entry_value ty (d_default d))
       end.
Proof.
  induction ds as [|[d0 t0] ds IH]; intros nt b d ty Hnd Hin Hpub; [destruct Hin|].
  simpl. unfold public_keys in Hnd. simpl in Hnd.
  destruct (starts_with "_" (d_attr d0)) eqn:E.
  - assert (Hp0 : public d0 = false) by (unfold public; now rewrite E).
    rewrite Hp0 in Hnd. destruct Hin as [Hin|Hin].
    + injection Hin as -> ->. congruence.
    + now apply IH.
  - assert (Hp0 : public d0 = true) by (unfold public; now rewrite E).
    rewrite Hp0 in Hnd. simpl in Hnd. inversion Hnd as [|x l Hnotin Hnd']. subst.
    destruct Hin as [Hin|Hin].
    + injection Hin as -> ->.
      rewrite setup_loop_nt_notin.
      * destruct (d_wd d); [apply nt_get_set_same | apply nt_get_set_default_same].
      * intros d' ty' Hin' Hp' Eq. apply Hnotin. rewrite <- Eq.
        now apply (in_public_keys pfx ds d' ty').
    + assert (Hne : decl_key pfx d0 <> decl_key pfx d).
      { intro Eq. apply Hnotin. rewrite Eq. now apply (in_public_keys pfx ds d ty). }
      rewrite (IH _ _ d ty Hnd' Hin Hpub).
      destruct (d_wd d0); [now rewrite nt_get_set_other | now rewrite nt_get_set_default_other].
Qed.

(* every entry of the binding the loop builds lives under pfx *)
Definition keys_under (pfx : string) (b : binding) : Prop :=
  forall a k ty d, In (a, (k, ty, d)) b -> exists rest, k = pfx ++ "/" ++ rest.

Lemma setup_loop_keys_under : forall pfx ds nt b,
  keys_under pfx b -> keys_under pfx (snd (setup_loop pfx ds nt b)).
Proof.
  induction ds as [|[d ty] ds IH]; intros nt b Hb; [assumption|].
  simpl. destruct (starts_with "_" (d_attr d)); [now apply IH|].
  apply IH. intros a k t v [Hin|Hin]; [|now apply (Hb a k t v)].
  injection Hin as _ <- _ _. apply key_in_form.
Qed.

(* the binding: every public tunable is bound to its documented key, with the
   topic type of its declaration *)
Lemma setup_loop_binds : forall pfx ds nt b d ty,
  NoDup (map (fun x => d_attr (fst x)) ds) -> In (d, ty) ds -> public d = true ->
  (forall e, bind_get b (d_attr d) = Some e -> False) ->
  bind_get (snd (setup_loop pfx ds nt b)) (d_attr d) =
  Some (decl_key pfx d, ty, entry_value ty (d_default d)).
Proof.
  assert (Hkeep : forall pfx ds nt b a,
    (forall d ty, In (d, ty) ds -> d_attr d <> a) ->
    bind_get (snd (setup_loop pfx ds nt b)) a = bind_get b a).
  { induction ds as [|[d ty] ds IH]; intros nt b a H; [reflexivity|].
    simpl. destruct (starts_with "_" (d_attr d)).
    - apply IH. intros d' ty' Hin. apply (H d' ty'). now right.
    - rewrite IH by (intros d' ty' Hin; apply (H d' ty'); now right).
      simpl. assert (d_attr d <> a) by (apply (H d ty); now left).
      apply String.eqb_neq in H0. now rewrite H0. }
  induction ds as [|[d0 t0] ds IH]; intros nt b d ty Hnd Hin Hpub Hfree; [destruct Hin|].
  simpl in Hnd. inversion Hnd as [|x l Hnotin Hnd']. subst.
  simpl. destruct Hin as [Hin|Hin].
  - injection Hin as -> ->. unfold public in Hpub. apply negb_true_iff in Hpub. rewrite Hpub.
    rewrite Hkeep.
    + simpl. now rewrite String.eqb_refl.
    + intros d' ty' Hin' Eq. apply Hnotin. rewrite <- Eq.
      apply in_map_iff. now exists (d', ty').
  - assert (Hne : d_attr d0 <> d_attr d).
    { intro Eq. apply Hnotin. rewrite Eq. apply in_map_iff. now exists (d, ty). }
    destruct (starts_with "_" (d_attr d0)).
    + now apply IH.
    + apply IH; try assumption. intros e. simpl.
      apply String.eqb_neq in Hne. rewrite Hne. apply Hfree.
Qed.

Lemma bind_get_In : forall b a e, bind_get b a = Some e -> In (a, e) b.
Proof.
  induction b as [|[a0 e0] b IH]; intros a e H; [discriminate|].
  simpl in H. destruct (String.eqb a0 a) eqn:E.
  - apply String.eqb_eq in E. subst. injection H as ->. now left.
  - right. now apply IH.
Qed.

Lemma inst_get_cons_same : forall i b l, inst_get ((i, b) :: l) i = Some b.
Proof. intros. simpl. now rewrite Nat.eqb_refl. Qed.

Lemma inst_get_cons_other : forall i j b l, j <> i -> inst_get ((j, b) :: l) i = inst_get l i.
Proof. intros. simpl. apply Nat.eqb_neq in H. now rewrite H. Qed.

Lemma step_setup : forall w i cls p c ds,
  class_topics cls = Some ds ->
  step w (Setup i cls p c) =
  (mkworld (fst (setup_loop (key_prefix p c) ds (w_nt w) []))
           ((i, snd (setup_loop (key_prefix p c) ds (w_nt w) [])) :: w_inst w),
   EvSetup true).
Proof.
  intros. simpl. rewrite H. now destruct (setup_loop (key_prefix p c) ds (w_nt w) []).
Qed.

Lemma NoDup_map_filter : forall (A B : Type) (f : A -> B) (p : A -> bool) l,
  NoDup (map f l) -> NoDup (map f (filter p l)).
Proof.
  induction l as [|x l IH]; intros H; [constructor|].
  simpl in H. inversion H as [|y m Hn Hd]. subst. simpl. destruct (p x); [|now apply IH].
  simpl. constructor; [|now apply IH].
  intro Hin. apply Hn. apply in_map_iff in Hin as [z [Ez Hz]]. apply filter_In in Hz as [Hz _].
  apply in_map_iff. now exists z.
Qed.

Lemma NoDup_map_inj_on : forall (A B C : Type) (f : A -> B) (g : A -> C) l,
  (forall x y, In x l -> In y l -> g x = g y -> f x = f y) ->
  NoDup (map f l) -> NoDup (map g l).
Proof.
  induction l as [|x l IH]; intros Hinj H; [constructor|].
  simpl in H. inversion H as [|y m Hn Hd]. subst. simpl. constructor.
  - intro Hin. apply Hn. apply in_map_iff in Hin as [z [Ez Hz]].
    apply in_map_iff. exists z. split; [|assumption].
    symmetry. apply Hinj; [now left | now right | now symmetry].
  - apply IH; [|assumption]. intros a b Ha Hb. apply Hinj; now right.
Qed.

(* distinct, slash-free attribute names give distinct keys *)
Lemma public_keys_nodup : forall pfx cls ds,
  class_topics cls = Some ds ->
  NoDup (map d_attr cls) -> (forall d, In d cls -> no_slash (d_attr d) = true) ->
  NoDup (public_keys pfx ds).
Proof.
  intros pfx cls ds Hc Hnd Hns. unfold public_keys.
  apply (NoDup_map_inj_on _ _ _ (fun x => d_attr (fst x))).
  - intros [d1 t1] [d2 t2] H1 H2 E. simpl in *.
    apply filter_In in H1 as [H1 _]. apply filter_In in H2 as [H2 _].
    assert (I1 : In d1 cls) by (rewrite <- (class_topics_fst _ _ Hc); apply in_map_iff; now exists (d1, t1)).
    assert (I2 : In d2 cls) by (rewrite <- (class_topics_fst _ _ Hc); apply in_map_iff; now exists (d2, t2)).
    unfold decl_key in E. now destruct (key_in_inj _ _ _ _ _ (Hns _ I1) (Hns _ I2) E).
  - apply NoDup_map_filter. rewrite <- (class_topics_fst _ _ Hc) in Hnd.
    now rewrite map_map in Hnd.
Qed.

(* C09_write_default, at the level of one Setup operation *)
Theorem setup_write_default : forall w i cls p c d,
  NoDup (map d_attr cls) -> (forall d, In d cls -> no_slash (d_attr d) = true) ->
  In d cls -> public d = true ->
  snd (step w (Setup i cls p c)) = EvSetup true ->
  exists ty, decl_topic (d_default d) (d_hint d) = Ok ty /\
  nt_get (w_nt (fst (step w (Setup i cls p c)))) (key_of p c (d_subtable d) (d_attr d)) =
  if d_wd d then Some (ty, entry_value ty (d_default d))
  else match nt_get (w_nt w) (key_of p c (d_subtable d) (d_attr d)) with
       | Some tv => Some tv
       | None => Some (ty, entry_value ty (d_default d))
       end.
Proof.
  intros w i cls p c d Hnd Hns Hin Hpub Hok.
  destruct (class_topics cls) as [ds|] eqn:Hc.
  - destruct (class_topics_in cls ds d Hc Hin) as [ty [Hty Htop]].
    exists ty. split; [assumption|].
    rewrite (step_setup w i cls p c ds Hc). cbn [fst w_nt].
    apply (setup_loop_write_default (key_prefix p c) ds (w_nt w) [] d ty); try assumption.
    now apply (public_keys_nodup _ cls).
  - simpl in Hok. rewrite Hc in Hok. discriminate.
Qed.

(* what a Setup must not change: topics that are not keys of the class *)
Theorem setup_untouched : forall w i cls p c k,
  (forall d, In d cls -> public d = true -> key_of p c (d_subtable d) (d_attr d) <> k) ->
  nt_get (w_nt (fst (step w (Setup i cls p c)))) k = nt_get (w_nt w) k.
Proof.
  intros w i cls p c k H. destruct (class_topics cls) as [ds|] eqn:Hc.
  - rewrite (step_setup w i cls p c ds Hc). cbn [fst w_nt].
    apply setup_loop_nt_notin. intros d ty Hin Hp. apply H; [|assumption].
    rewrite <- (class_topics_fst _ _ Hc). apply in_map_iff. now exists (d, ty).
  - simpl. now rewrite Hc.
Qed.

(* after a Setup every public tunable is bound to the documented key *)
Theorem setup_binds : forall w i cls p c d,
  NoDup (map d_attr cls) -> In d cls -> public d = true ->
  snd (step w (Setup i cls p c)) = EvSetup true ->
  exists b ty, inst_get (w_inst (fst (step w (Setup i cls p c)))) i = Some b /\
    decl_topic (d_default d) (d_hint d) = Ok ty /\
    bind_get b (d_attr d) = Some (key_of p c (d_subtable d) (d_attr d), ty, entry_value ty (d_default d)).
Proof.
  intros w i cls p c d Hnd Hin Hpub Hok.
  destruct (class_topics cls) as [ds|] eqn:Hc.
  - destruct (class_topics_in cls ds d Hc Hin) as [ty [Hty Htop]].
    rewrite (step_setup w i cls p c ds Hc). cbn [fst w_inst].
    eexists. exists ty. split; [apply inst_get_cons_same|]. split; [assumption|].
    apply (setup_loop_binds (key_prefix p c) ds (w_nt w) [] d ty); try assumption.
    + rewrite <- (class_topics_fst _ _ Hc) in Hnd. now rewrite map_map in Hnd.
    + intros e He. discriminate He.
  - simpl in Hok. rewrite Hc in Hok. discriminate.
Qed.

(* attribute access on a bound tunable goes to the topic at the documented key *)
Theorem bound_write_reaches_topic : forall w i b a k ty d v,
  inst_get (w_inst w) i = Some b -> bind_get b a = Some (k, ty, d) ->
  nt_get (w_nt (fst (step w (PyWrite i a v)))) k = Some (ty, entry_value ty v).
Proof.
  intros. simpl. rewrite H, H0. simpl. apply nt_get_set_same.
Qed.

Theorem bound_read_sees_topic : forall w i b a k ty d t v,
  inst_get (w_inst w) i = Some b -> bind_get b a = Some (k, ty, d) ->
  nt_get (w_nt w) k = Some (t, v) ->
  py_read w i a = EvVal v.
Proof. intros. unfold py_read. now rewrite H, H0, H1. Qed.

(* ================================================================== *)
(* F. Independence of instances bound under different names            *)
(* ================================================================== *)

Definition bound_under (w : world) (i : nat) (o : owner) : Prop :=
  exists b, inst_get (w_inst w) i = Some b /\ keys_under (owner_pfx o) b.

Lemma setup_bound_under : forall w i cls o,
  snd (step w (Setup i cls (owner_prefix o) (owner_cname o))) = EvSetup true ->
  bound_under (fst (step w (Setup i cls (owner_prefix o) (owner_cname o)))) i o.
Proof.
  intros w i cls o Hok. destruct (class_topics cls) as [ds|] eqn:Hc.
  - rewrite (step_setup _ _ _ _ _ ds Hc). cbn [fst]. eexists. split.
    + cbn [w_inst]. apply inst_get_cons_same.
    + apply setup_loop_keys_under. intros a k ty d [].
  - simpl in Hok. rewrite Hc in Hok. discriminate.
Qed.

(* operations on instance j, which is (re)bound under owner o2 only *)
Definition op_on (j : nat) (o2 : owner) (x : op) : Prop :=
  match x with
  | Setup j' _ p c => j' = j /\ p = owner_prefix o2 /\ c = owner_cname o2
  | PyWrite j' _ _ => j' = j
  | PyRead j' _ => j' = j
  | NtWrite _ _ _ => False
  | NtRead _ => True
  end.

Lemma bound_under_other : forall w i o x,
  (forall cls p c, x <> Setup i cls p c) ->
  bound_under w i o -> bound_under (fst (step w x)) i o.
Proof.
  intros w i o x Hx [b [Hb Hk]].
  destruct x as [i' cls p c|i' a v|i' a|k ty v|k].
  - destruct (Nat.eq_dec i' i) as [->|Hne]; [exfalso; now apply (Hx cls p c)|].
    simpl. destruct (class_topics cls) as [ds|]; [|now exists b].
    destruct (setup_loop (key_prefix p c) ds (w_nt w) []) as [nt' b'].
    exists b. split; [|assumption]. cbn [fst w_inst]. now rewrite inst_get_cons_other.
  - exists b. split; [|assumption]. now rewrite step_inst.
  - now exists b.
  - now exists b.
  - now exists b.
Qed.

Lemma under_distinct : forall o1 o2 r1 r2,
  owner_name_ok o1 = true -> owner_name_ok o2 = true -> o1 <> o2 ->
  owner_pfx o1 ++ "/" ++ r1 <> owner_pfx o2 ++ "/" ++ r2.
Proof. intros o1 o2 r1 r2 H1 H2 Hne E. apply Hne. exact (owner_pfx_inj _ _ _ _ H1 H2 E). Qed.

Lemma step_on_j : forall w i j o1 o2 x,
  i <> j -> o1 <> o2 -> owner_name_ok o1 = true -> owner_name_ok o2 = true ->
  bound_under w j o2 -> op_on j o2 x ->
  inst_get (w_inst (fst (step w x))) i = inst_get (w_inst w) i /\
  bound_under (fst (step w x)) j o2 /\
  (forall r, nt_get (w_nt (fst (step w x))) (owner_pfx o1 ++ "/" ++ r) =
             nt_get (w_nt w) (owner_pfx o1 ++ "/" ++ r)).
Proof.
  intros w i j o1 o2 x Hij Ho H1 H2 Hj Hx.
  destruct x as [j' cls p c|j' a v|j' a|k ty v|k]; simpl in Hx.
  - destruct Hx as [-> [-> ->]].
    destruct (class_topics cls) as [ds|] eqn:Hc.
    + split; [|split].
      * rewrite (step_setup _ _ _ _ _ ds Hc). cbn [fst w_inst].
        apply inst_get_cons_other. congruence.
      * apply setup_bound_under. now rewrite (step_setup _ _ _ _ _ ds Hc).
      * intros r. rewrite (step_setup _ _ _ _ _ ds Hc). cbn [fst w_nt].
        apply setup_loop_nt_other. intros rest.
        exact (under_distinct o1 o2 r rest H1 H2 Ho).
    + simpl. rewrite Hc. simpl. now repeat split.
  - subst j'. destruct Hj as [b [Hb Hk]]. simpl. rewrite Hb.
    destruct (bind_get b a) as [[[k ty] d]|] eqn:Ha.
    + simpl. split; [reflexivity|]. split; [now exists b|].
      intros r. apply nt_get_set_other.
      destruct (Hk a k ty d (bind_get_In _ _ _ Ha)) as [rest ->].
      intro E. symmetry in E. exact (under_distinct o1 o2 r rest H1 H2 Ho E).
    + simpl. split; [reflexivity|]. split; [now exists b | reflexivity].
  - simpl. now repeat split.
  - destruct Hx.
  - simpl. now repeat split.
Qed.

(* No operation on instance j (bound under o2) changes what instance i (bound
   under a different owner o1) reads.  Names contain no "/". *)
Theorem instances_independent : forall h w i j o1 o2,
  i <> j -> o1 <> o2 -> owner_name_ok o1 = true -> owner_name_ok o2 = true ->
  bound_under w i o1 -> bound_under w j o2 ->
  Forall (op_on j o2) h ->
  forall a, py_read (fst (run w h)) i a = py_read w i a.
Proof.
  intros h w i j o1 o2 Hij Ho H1 H2 Hi Hj Hh a.
  assert (G : inst_get (w_inst (fst (run w h))) i = inst_get (w_inst w) i /\
              forall r, nt_get (w_nt (fst (run w h))) (owner_pfx o1 ++ "/" ++ r) =
                        nt_get (w_nt w) (owner_pfx o1 ++ "/" ++ r)).
  { clear Hi a. revert w Hj. induction Hh as [|x h Hx Hh IH]; intros w Hj; [now split|].
    rewrite run_cons. cbn [fst].
    destruct (step_on_j w i j o1 o2 x Hij Ho H1 H2 Hj Hx) as [S1 [S2 S3]].
    destruct (IH _ S2) as [I1 I2]. split; [now rewrite I1|].
    intros r. now rewrite I2. }
  destruct G as [G1 G2]. destruct Hi as [b [Hb Hk]].
  unfold py_read. rewrite G1, Hb. destruct (bind_get b a) as [[[k ty] d]|] eqn:Ha; [|reflexivity].
  destruct (Hk a k ty d (bind_get_In _ _ _ Ha)) as [rest ->]. now rewrite G2.
Qed.

(* ================================================================== *)
(* G. Topic types                                                      *)
(* ================================================================== *)

Lemma array_topic_spec : forall b, array_topic b = spec_array b.
Proof. now destruct b. Qed.
Lemma scalar_topic_spec : forall b, scalar_topic b = spec_scalar b.
Proof. now destruct b. Qed.

Lemma base_eqb_refl : forall b, base_eqb b b = true.
Proof. destruct b; simpl; try reflexivity. apply String.eqb_refl. Qed.

Lemma base_eqb_eq : forall a b, base_eqb a b = true <-> a = b.
Proof.
  intros a b; split; [|intros ->; apply base_eqb_refl].
  destruct a, b; simpl; intros H; try discriminate; try reflexivity.
  apply String.eqb_eq in H. now subst.
Qed.

(* the code's table lookup is the documented table, for every type expression *)
Theorem get_topic_type_spec : forall h, get_topic_type h = spec_hint h.
Proof.
  intros [b|o|o args].
  - apply scalar_topic_spec.
  - reflexivity.
  - destruct args as [|a0 rest]; [now destruct o|].
    destruct o; simpl.
    + destruct a0; [apply array_topic_spec | reflexivity].
    + destruct a0 as [b|].
      * rewrite array_topic_spec.
        destruct rest as [|[c|] [|a2 rest]]; simpl; rewrite ?andb_true_r, ?orb_false_r;
          try reflexivity;
          match goal with |- context [negb ?x] => destruct x end; reflexivity.
      * destruct rest as [|a1 [|a2 rest]]; simpl; try reflexivity;
          match goal with |- context [negb ?x] => destruct x end; reflexivity.
    + destruct a0; [apply array_topic_spec | reflexivity].
Qed.

(* class creation: Some topic exactly as the documented table says, None
   (the class statement raises) otherwise -- for every default and hint *)
Ltac fin_hint h :=
  destruct h as [h|]; simpl;
  [rewrite get_topic_type_spec; now destruct (spec_hint h) | reflexivity].

Theorem decl_topic_spec : forall d h, res_to_option (decl_topic d h) = spec_decl d h.
Proof.
  intros d h. unfold spec_decl, decl_topic, tunable_init, tunable_set_name, topic_for_value.
  destruct d as [s|l|l].
  - destruct s as [b|z|n|s|l|sn f|]; simpl.
    + destruct b; fin_hint h.
    + destruct (Z.eqb z 0); fin_hint h.
    + destruct (Z.eqb n 0); fin_hint h.
    + destruct (String.eqb s ""); fin_hint h.
    + destruct l; fin_hint h.
    + fin_hint h.
    + reflexivity.
  - destruct l as [|e l]; simpl.
    + fin_hint h.
    + rewrite array_topic_spec. destruct (spec_array (base_of e)); simpl; [|reflexivity].
      fin_hint h.
  - destruct l as [|e l]; simpl.
    + fin_hint h.
    + rewrite array_topic_spec. destruct (spec_array (base_of e)); simpl; [|reflexivity].
      fin_hint h.
Qed.

Lemma ntype_eqb_eq : forall a b, ntype_eqb a b = true <-> a = b.
Proof.
  intros a b; split.
  - destruct a, b; simpl; intros H; try discriminate; try reflexivity;
      apply String.eqb_eq in H; now subst.
  - intros ->. destruct b; simpl; try reflexivity; apply String.eqb_refl.
Qed.

Lemma opt_ntype_eqb_eq : forall a b, opt_ntype_eqb a b = true <-> a = b.
Proof.
  intros [a|] [b|]; simpl; split; intros H; try discriminate; try reflexivity.
  - apply ntype_eqb_eq in H. now subst.
  - injection H as ->. now apply ntype_eqb_eq.
Qed.

(* the finite sweep: the whole grid of defaults x hints, by computation *)
Lemma grid_sweep :
  forallb (fun dh => opt_ntype_eqb (res_to_option (decl_topic (fst dh) (snd dh)))
                                   (spec_decl (fst dh) (snd dh))) grid_decls = true.
Proof. vm_compute. reflexivity. Qed.

Theorem grid_table : forall d h, In (d, h) grid_decls ->
  res_to_option (decl_topic d h) = spec_decl d h.
Proof.
  intros d h Hin. pose proof grid_sweep as G. rewrite forallb_forall in G.
  specialize (G (d, h) Hin). now apply opt_ntype_eqb_eq in G.
Qed.

(* readable consequences *)
Lemma topic_default_scalar : forall s,
  topic_of_default (VScalar s) = spec_scalar (base_of s).
Proof.
  intros s. unfold topic_of_default. rewrite decl_topic_spec. unfold spec_decl. now destruct s.
Qed.

Lemma topic_default_list : forall e l,
  topic_of_default (VList (e :: l)) = spec_array (base_of e) /\
  topic_of_default (VTuple (e :: l)) = spec_array (base_of e).
Proof.
  intros e l. unfold topic_of_default. rewrite !decl_topic_spec. unfold spec_decl. simpl.
  now destruct (spec_array (base_of e)).
Qed.

Lemma topic_default_empty :
  topic_of_default (VList []) = None /\ topic_of_default (VTuple []) = None.
Proof. now split. Qed.

Lemma topic_hint_spec : forall h d, init_rejects d = false ->
  topic_of_hint h d = spec_hint h.
Proof.
  intros h d H. unfold topic_of_hint. rewrite decl_topic_spec. unfold spec_decl. now rewrite H.
Qed.

Lemma forallb_base_all : forall b rest,
  forallb (targ_eqb (ABase b)) rest = true <-> Forall (fun a => a = ABase b) rest.
Proof.
  intros b rest. rewrite forallb_forall, Forall_forall. split; intros H a Ha.
  - specialize (H a Ha). destruct a as [c|]; simpl in H; [|discriminate].
    apply base_eqb_eq in H. now subst.
  - rewrite (H a Ha). simpl. apply base_eqb_refl.
Qed.

(* a tuple hint has a topic iff it is tuple[T, ...] or all its arguments are
   the same T, and T has an array topic *)
Lemma tuple_hint_supported : forall b rest t,
  spec_hint (TGen OTuple (ABase b :: rest)) = Some t <->
  (rest = [AEllipsis] \/ Forall (fun a => a = ABase b) rest) /\ spec_array b = Some t.
Proof.
  intros b rest t. split.
  - intros H. destruct rest as [|a1 rest].
    + simpl in H. split; [right; constructor | assumption].
    + destruct a1 as [c|].
      * assert (E : spec_hint (TGen OTuple (ABase b :: ABase c :: rest)) =
                    if forallb (targ_eqb (ABase b)) (ABase c :: rest) then spec_array b else None)
          by (destruct rest; reflexivity).
        rewrite E in H. destruct (forallb (targ_eqb (ABase b)) (ABase c :: rest)) eqn:F; [|discriminate].
        split; [right; now apply forallb_base_all | assumption].
      * destruct rest as [|a2 rest]; simpl in H; [split; [now left | assumption] | discriminate].
  - intros [[->|HF] Hs]; [exact Hs|].
    apply forallb_base_all in HF.
    destruct rest as [|a1 rest]; [exact Hs|].
    destruct a1 as [c|]; [|simpl in HF; discriminate].
    assert (E : spec_hint (TGen OTuple (ABase b :: ABase c :: rest)) =
                if forallb (targ_eqb (ABase b)) (ABase c :: rest) then spec_array b else None)
      by (destruct rest; reflexivity).
    rewrite E, HF. exact Hs.
Qed.

Lemma tuple_hint_hetero : forall b c, b <> c ->
  spec_hint (TGen OTuple [ABase b; ABase c]) = None.
Proof.
  intros b c Hne. simpl. destruct (base_eqb b c) eqn:E; [|reflexivity].
  apply base_eqb_eq in E. contradiction.
Qed.

(* ================================================================== *)
(* G2. How the hint is written: subscript, annotation (evaluated,       *)
(*     postponed / quoted, forward reference), ClassVar / tunable       *)
(*     wrappers                                                         *)
(* ================================================================== *)

(* the documented reading of an annotation: the H inside *)
Definition written_hint (a : annexpr) : tyexpr :=
  match a with
  | APlain (IType h) | APlain (ITunable h)
  | AClassVar (IType h) | AClassVar (ITunable h) => h
  end.

(* what __set_name__ resolves, for every class-body form: the subscript if
   there is one, else the H inside the (evaluated) annotation, else nothing *)
Theorem set_name_hint_char : forall o r,
  set_name_hint (mksrc o r) =
  match o with
  | Some h => Some h
  | None => option_map (fun x => written_hint (get_type_hints x)) r
  end.
Proof.
  intros [h|] [r|]; try reflexivity.
  unfold set_name_hint; simpl. now destruct (get_type_hints r) as [[h|h]|[h|h]].
Qed.

(* every accepted spelling of the hint H resolves to H *)
Theorem spelled_hint : forall sp h, set_name_hint (spell sp h) = Some h.
Proof. intros [|[] [] []] h; reflexivity. Qed.

Lemma unspelled_hint : forall sp, set_name_hint (spell_opt sp None) = None.
Proof. reflexivity. Qed.

Lemma spell_opt_hint : forall sp h, set_name_hint (spell_opt sp h) = h.
Proof. intros sp [h|]; [apply spelled_hint | reflexivity]. Qed.

Lemma all_spellings_complete : forall sp, In sp all_spellings.
Proof. intros [|[] [] []]; simpl; tauto. Qed.

(* a postponed (PEP 563) or quoted annotation, and one with a quoted
   argument, give the class statement the same outcome as the evaluated one *)
Theorem postponed_annotation_same : forall d o a,
  decl_topic_src d (mksrc o (Some (RStr a))) = decl_topic_src d (mksrc o (Some (RObj a))) /\
  decl_topic_src d (mksrc o (Some (RFwd a))) = decl_topic_src d (mksrc o (Some (RObj a))).
Proof. intros d [h|] a; split; reflexivity. Qed.

(* the class statement, from the way it is written: the documented table,
   for every default, every hint (or none) and every spelling *)
Theorem decl_topic_src_spec : forall d sp h,
  res_to_option (decl_topic_src d (spell_opt sp h)) = spec_decl d h.
Proof.
  intros d sp h. unfold decl_topic_src. rewrite spell_opt_hint. apply decl_topic_spec.
Qed.

Lemma res_to_option_some : forall (A : Type) (r : res A) a, res_to_option r = Some a -> r = Ok a.
Proof. intros A [x| |] a H; simpl in H; try discriminate. now injection H as ->. Qed.

(* type-hinted empty sequences: list[T], Sequence[T], tuple[T, ...] in any
   spelling give the array topic of T *)
Theorem hinted_empty_sequence : forall sp b t, spec_array b = Some t ->
  decl_topic_src (VList []) (spell sp (TGen OList [ABase b])) = Ok t /\
  decl_topic_src (VList []) (spell sp (TGen OSeq [ABase b])) = Ok t /\
  decl_topic_src (VTuple []) (spell sp (TGen OSeq [ABase b])) = Ok t /\
  decl_topic_src (VTuple []) (spell sp (TGen OTuple [ABase b; AEllipsis])) = Ok t.
Proof.
  intros sp b t H.
  repeat split; apply res_to_option_some;
    match goal with |- res_to_option (decl_topic_src ?d (spell sp ?h)) = _ =>
      change (res_to_option (decl_topic_src d (spell_opt sp (Some h))) = Some t) end;
    rewrite decl_topic_src_spec; exact H.
Qed.

(* a tunable whose hint H is written in any spelling is bound by a successful
   Setup at the documented key with the documented type of (default, H) *)
Theorem setup_binds_spelled : forall w i cls p c d sp h,
  NoDup (map d_attr cls) -> In d cls -> public d = true ->
  d_hint d = set_name_hint (spell_opt sp h) ->
  snd (step w (Setup i cls p c)) = EvSetup true ->
  exists b ty, inst_get (w_inst (fst (step w (Setup i cls p c)))) i = Some b /\
    spec_decl (d_default d) h = Some ty /\
    bind_get b (d_attr d) = Some (key_of p c (d_subtable d) (d_attr d), ty, entry_value ty (d_default d)).
Proof.
  intros w i cls p c d sp h Hnd Hin Hpub Hh Hs.
  destruct (setup_binds w i cls p c d Hnd Hin Hpub Hs) as (b & ty & Hb & Ht & Hg).
  exists b, ty. split; [exact Hb|]. split; [|exact Hg].
  rewrite Hh, spell_opt_hint in Ht. rewrite <- decl_topic_spec, Ht. reflexivity.
Qed.

(* ================================================================== *)
(* H. @feedback key and topic type (reused by C11)                     *)
(* ================================================================== *)

Lemma C11_key_explicit : forall k name, fb_key (Some k) name = k.
Proof. reflexivity. Qed.

Lemma C11_key_strips_get : forall r, fb_key None ("get_" ++ r) = r.
Proof.
  intros. unfold fb_key. rewrite starts_with_app.
  exact (drop_app "get_" r).
Qed.

Lemma C11_key_other : forall name, starts_with "get_" name = false -> fb_key None name = name.
Proof. intros. unfold fb_key. now rewrite H. Qed.

Lemma starts_with_iff : forall p s, starts_with p s = true <-> exists r, s = p ++ r.
Proof.
  intros p s; split.
  - intros H. eexists. now apply starts_with_split.
  - intros [r ->]. apply starts_with_app.
Qed.

(* both directions: which (explicit, name) give which key *)
Lemma C11_key_char : forall name k,
  fb_key None name = k <->
  (name = "get_" ++ k) \/ ((forall r, name <> "get_" ++ r) /\ name = k).
Proof.
  intros name k. unfold fb_key. destruct (starts_with "get_" name) eqn:E.
  - pose proof (starts_with_split _ _ E) as S. split.
    + intros <-. left. exact S.
    + intros [->|[Hn _]].
      * exact (drop_app "get_" k).
      * exfalso. exact (Hn _ S).
  - split.
    + intros <-. right. split; [|reflexivity]. intros r ->.
      now rewrite starts_with_app in E.
    + intros [->|[_ ->]]; [|reflexivity]. now rewrite starts_with_app in E.
Qed.

Lemma C11_topic_key_component : forall N e name,
  fb_owner_key (OComponent N) e name = "/components/" ++ N ++ "/" ++ fb_key e name.
Proof.
  intros. unfold fb_owner_key, fb_topic_key, key_prefix. simpl. reflexivity.
Qed.

Lemma C11_topic_key_robot : forall e name,
  fb_owner_key ORobot e name = "/robot/" ++ fb_key e name.
Proof. reflexivity. Qed.

Lemma C11_topic_type : forall ann,
  fb_publisher ann =
  match ann with
  | None => FbGeneric
  | Some a => match spec_hint a with
              | None => FbGeneric
              | Some NRaw => FbRaises
              | Some t => FbTyped t
              end
  end.
Proof. intros [a|]; [|reflexivity]. unfold fb_publisher. now rewrite get_topic_type_spec. Qed.

(* a typed publisher is created exactly for the documented annotations, and
   then with the documented type *)
Lemma C11_topic_type_typed : forall a t,
  fb_publisher (Some a) = FbTyped t <-> (spec_hint a = Some t /\ t <> NRaw).
Proof.
  intros a t. rewrite C11_topic_type. destruct (spec_hint a) as [u|]; split.
  - destruct u; intros H; try (injection H as <-); try discriminate; split; congruence.
  - intros [H Hn]. injection H as ->. now destruct t.
  - discriminate.
  - intros [H _]. discriminate.
Qed.

Lemma C11_topic_key_autonomous : forall N e name,
  fb_owner_key (OAutonomous N) e name = "/autonomous/" ++ N ++ "/" ++ fb_key e name.
Proof. intros. unfold fb_owner_key, fb_topic_key, key_prefix. simpl. reflexivity. Qed.

(* the key is stripped once only, and only of a leading "get_" *)
Example C11_key_examples :
  fb_key None "get_angle" = "angle" /\ fb_key None "get_get_x" = "get_x" /\
  fb_key None "getx" = "getx" /\ fb_key None "target_get_x" = "target_get_x" /\
  fb_key None "get_" = "" /\ fb_key None "_get_x" = "_get_x" /\
  fb_key (Some "k") "get_x" = "k" /\ fb_key (Some "") "get_x" = "".
Proof. repeat split. Qed.

(* the annotation table of collect_feedbacks, spelled out *)
Example C11_topic_type_table :
  fb_publisher None = FbGeneric /\
  fb_publisher (Some (TBase BBool)) = FbTyped NBoolean /\
  fb_publisher (Some (TBase BInt)) = FbTyped NInteger /\
  fb_publisher (Some (TBase BFloat)) = FbTyped NDouble /\
  fb_publisher (Some (TBase BStr)) = FbTyped NString /\
  fb_publisher (Some (TBase BBytes)) = FbRaises /\
  fb_publisher (Some (TBase BOther)) = FbGeneric /\
  (forall n, fb_publisher (Some (TBase (BStruct n))) = FbTyped (NStruct n)) /\
  (forall o b t, o <> OTuple -> spec_array b = Some t ->
     fb_publisher (Some (TGen o [ABase b])) = FbTyped t) /\
  (forall b t, spec_array b = Some t ->
     fb_publisher (Some (TGen OTuple [ABase b; AEllipsis])) = FbTyped t /\
     fb_publisher (Some (TGen OTuple [ABase b; ABase b])) = FbTyped t) /\
  (forall b c, b <> c -> fb_publisher (Some (TGen OTuple [ABase b; ABase c])) = FbGeneric).
Proof.
  repeat split; try reflexivity.
  - intros o b t Ho Hs. rewrite C11_topic_type.
    assert (E : spec_hint (TGen o [ABase b]) = spec_array b) by (destruct o; reflexivity).
    rewrite E. destruct b; simpl in *; try discriminate; now injection Hs as <-.
  - rewrite C11_topic_type. simpl. destruct b; simpl in *; try discriminate; now injection H as <-.
  - rewrite C11_topic_type. simpl. rewrite base_eqb_refl. simpl.
    destruct b; simpl in *; try discriminate; now injection H as <-.
  - intros b c Hne. rewrite C11_topic_type. now rewrite (tuple_hint_hetero b c Hne).
Qed.

(* ================================================================== *)
(* I. bool(instance) plays no role: falsy owners (a class with __len__ *)
(*    or __bool__) read and write their tunables like any other        *)
(* ================================================================== *)

(* __get__ on an instance: the result does not depend on the truthiness the
   object has at that moment *)
Lemma tunable_get_instance : forall w i t a,
  tunable_get w (Some (i, t)) a = GResult (py_read w i a).
Proof. reflexivity. Qed.

Lemma tunable_get_class : forall w a, tunable_get w None a = GSelf.
Proof. reflexivity. Qed.

Lemma tunable_set_instance : forall w i t a v,
  tunable_set w (i, t) a v = step w (PyWrite i a v).
Proof. reflexivity. Qed.

Lemma xstep_op : forall x o,
  xstep x (XOp o) =
  (mkx (fst (step (x_w x) o)) (x_truth x), XEv (snd (step (x_w x) o))).
Proof.
  intros [w tr] o. destruct o as [i cls p c|i a v|i a|k ty v|k].
  - cbn [xstep x_w x_truth]. destruct (step w (Setup i cls p c)). reflexivity.
  - cbn [xstep x_w x_truth]. unfold tunable_set, the_obj. cbn [fst x_truth].
    destruct (step w (PyWrite i a v)). reflexivity.
  - reflexivity.
  - reflexivity.
  - reflexivity.
Qed.

Lemma xstep_truth : forall x i t,
  xstep x (XSetTruth i t) = (mkx (x_w x) ((i, t) :: x_truth x), XDone).
Proof. reflexivity. Qed.

Lemma xrun_cons : forall x o r,
  xrun x (o :: r) =
  (fst (xrun (fst (xstep x o)) r), snd (xstep x o) :: snd (xrun (fst (xstep x o)) r)).
Proof.
  intros. simpl. destruct (xstep x o) as [x1 e]. simpl. destruct (xrun x1 r). reflexivity.
Qed.

Lemma xrun_app : forall h1 h2 x,
  xrun x (h1 ++ h2)%list =
  (fst (xrun (fst (xrun x h1)) h2), (snd (xrun x h1) ++ snd (xrun (fst (xrun x h1)) h2))%list).
Proof.
  induction h1 as [|o h1 IH]; intros.
  - simpl. now destruct (xrun x h2).
  - rewrite <- app_comm_cons. rewrite !xrun_cons. rewrite IH. reflexivity.
Qed.

Lemma xrun_length : forall h x, length (snd (xrun x h)) = length h.
Proof.
  induction h; intros; [reflexivity|]. rewrite xrun_cons. simpl. now rewrite IHh.
Qed.

(* Every history with truthiness changes behaves, operation by operation, as
   the same history on ordinary always-true objects: same NetworkTables
   contents, same bindings, same events; no read hands back the descriptor. *)
Theorem xrun_erase : forall h x,
  x_w (fst (xrun x h)) = fst (run (x_w x) (erase h)) /\
  xevents (snd (xrun x h)) = map Some (snd (run (x_w x) (erase h))).
Proof.
  induction h as [|o h IH]; intros x; [split; reflexivity|].
  rewrite xrun_cons. destruct o as [o|i t].
  - rewrite xstep_op. cbn [fst snd erase xevents]. rewrite run_cons. cbn [fst snd map].
    destruct (IH (mkx (fst (step (x_w x) o)) (x_truth x))) as [H1 H2].
    cbn [x_w] in H1, H2. split; [exact H1 | now rewrite H2].
  - rewrite xstep_truth. cbn [fst snd erase xevents].
    destruct (IH (mkx (x_w x) ((i, t) :: x_truth x))) as [H1 H2].
    cbn [x_w] in H1, H2. split; assumption.
Qed.

(* in particular two runs of one history that differ only in how (and when)
   bool() of the owners comes out emit the same events *)
Theorem truth_irrelevant : forall h1 h2 x1 x2,
  x_w x1 = x_w x2 -> erase h1 = erase h2 ->
  xevents (snd (xrun x1 h1)) = xevents (snd (xrun x2 h2)) /\
  x_w (fst (xrun x1 h1)) = x_w (fst (xrun x2 h2)).
Proof.
  intros h1 h2 x1 x2 Hw Hh.
  destruct (xrun_erase h1 x1) as [A1 A2], (xrun_erase h2 x2) as [B1 B2].
  rewrite A1, A2, B1, B2, Hw, Hh. split; reflexivity.
Qed.

(* an attribute read on an instance never returns the tunable object *)
Theorem read_never_self : forall h x, ~ In XSelf (snd (xrun x h)).
Proof.
  induction h as [|o h IH]; intros x; [intros []|].
  rewrite xrun_cons. cbn [snd]. intros [H|H]; [|exact (IH _ H)].
  destruct o as [o|i t]; [rewrite xstep_op in H | rewrite xstep_truth in H]; discriminate H.
Qed.

(* C09's read clause with the owner's truthiness in the picture: after ANY
   interleaving of attribute writes/reads, NT-side writes/reads and changes of
   the owners' truthiness, reading i.a -- whatever bool(i) is at that moment
   ([t] arbitrary, in particular TLen 0 and TBool false) -- gives the most
   recent write to its key *)
Theorem read_latest_any_truth : forall x h i t b a k ty d,
  no_setup (erase h) = true ->
  inst_get (w_inst (x_w x)) i = Some b -> bind_get b a = Some (k, ty, d) ->
  tunable_get (x_w (fst (xrun x h))) (Some (i, t)) a =
  GResult (match last_write (x_w x) (erase h) k with
           | Some v => EvVal v
           | None => py_read (x_w x) i a
           end).
Proof.
  intros x h i t b a k ty d Hh Hi Ha. rewrite tunable_get_instance.
  destruct (xrun_erase h x) as [-> _]. f_equal. eapply read_latest; eassumption.
Qed.

(* the event a read emits in the middle of such a history *)
Theorem read_latest_event_any_truth : forall x h1 h2 i b a k ty d,
  no_setup (erase h1) = true ->
  inst_get (w_inst (x_w x)) i = Some b -> bind_get b a = Some (k, ty, d) ->
  nth (length h1) (snd (xrun x (h1 ++ XOp (PyRead i a) :: h2)%list)) XDone =
  XEv (match last_write (x_w x) (erase h1) k with
       | Some v => EvVal v
       | None => py_read (x_w x) i a
       end).
Proof.
  intros. rewrite xrun_app. cbn [snd].
  rewrite app_nth2; rewrite xrun_length; [|lia]. rewrite Nat.sub_diag.
  rewrite xrun_cons. cbn [snd nth]. rewrite xstep_op. cbn [snd step].
  destruct (xrun_erase h1 x) as [-> _]. f_equal. eapply read_latest; eassumption.
Qed.

(* attribute assignment on a (possibly falsy) owner lands in its topic *)
Theorem write_reaches_topic_any_truth : forall w i t b a k ty d v,
  inst_get (w_inst w) i = Some b -> bind_get b a = Some (k, ty, d) ->
  nt_get (w_nt (fst (tunable_set w (i, t) a v))) k = Some (ty, entry_value ty v).
Proof.
  intros. rewrite tunable_set_instance. eapply bound_write_reaches_topic; eassumption.
Qed.

(* changing an owner's truthiness changes nothing else *)
Theorem set_truth_changes_nothing : forall x i t,
  x_w (fst (xstep x (XSetTruth i t))) = x_w x /\
  truth_get (x_truth (fst (xstep x (XSetTruth i t)))) i = t /\
  forall j, j <> i ->
    truth_get (x_truth (fst (xstep x (XSetTruth i t)))) j = truth_get (x_truth x) j.
Proof.
  intros. rewrite xstep_truth. cbn [fst x_w x_truth truth_get].
  split; [reflexivity|]. split; [now rewrite Nat.eqb_refl|].
  intros j Hj. destruct (Nat.eqb i j) eqn:E; [apply Nat.eqb_eq in E; congruence | reflexivity].
Qed.

(* ------------------------------------------------------------------ *)
(* Class hierarchies: dir(cls) / getattr(cls, n), redefined tunables    *)
(* ------------------------------------------------------------------ *)

Lemma body_get_name : forall b n m, body_get b n = Some m -> member_name m = n.
Proof.
  induction b as [|m0 b IH]; intros n m H; simpl in H; [discriminate|].
  destruct (String.eqb (member_name m0) n) eqn:E.
  - injection H as <-. now apply String.eqb_eq.
  - now apply IH.
Qed.

Lemma body_get_in : forall b n m, body_get b n = Some m -> In m b.
Proof.
  induction b as [|m0 b IH]; intros n m H; simpl in H; [discriminate|].
  destruct (String.eqb (member_name m0) n).
  - injection H as <-. now left.
  - right. now apply (IH n).
Qed.

Lemma class_getattr_name : forall mro n m, class_getattr mro n = Some m -> member_name m = n.
Proof.
  induction mro as [|b mro IH]; intros n m H; simpl in H; [discriminate|].
  destruct (body_get b n) as [m'|] eqn:E.
  - injection H as <-. now apply (body_get_name b).
  - now apply IH.
Qed.

Lemma class_getattr_in : forall mro n m, class_getattr mro n = Some m ->
  exists b, In b mro /\ In m b.
Proof.
  induction mro as [|b mro IH]; intros n m H; simpl in H; [discriminate|].
  destruct (body_get b n) as [m'|] eqn:E.
  - injection H as <-. exists b. split; [now left | now apply (body_get_in b n)].
  - destruct (IH n m H) as [b' [H1 H2]]. exists b'. split; [now right | assumption].
Qed.

(* attribute lookup on the class: the first class of the MRO that binds the name *)
Lemma class_getattr_first : forall pre C post n m,
  (forall b, In b pre -> body_get b n = None) -> body_get C n = Some m ->
  class_getattr (pre ++ C :: post) n = Some m.
Proof.
  induction pre as [|b pre IH]; intros C post n m Hpre HC; simpl.
  - now rewrite HC.
  - rewrite (Hpre b (or_introl eq_refl)). apply IH; [|assumption].
    intros b' Hb'. apply Hpre. now right.
Qed.

Lemma dedup_in : forall l x, In x (dedup l) <-> In x l.
Proof.
  induction l as [|y l IH]; intros x; simpl; [tauto|].
  destruct (existsb (String.eqb y) l) eqn:E.
  - rewrite IH. split; [now right|]. intros [<-|H]; [|assumption].
    apply existsb_exists in E as [z [Hz Ez]]. apply String.eqb_eq in Ez. now subst.
  - simpl. rewrite IH. tauto.
Qed.

Lemma dedup_nodup : forall l, NoDup (dedup l).
Proof.
  induction l as [|y l IH]; simpl; [constructor|].
  destruct (existsb (String.eqb y) l) eqn:E; [assumption|].
  constructor; [|assumption]. intro H. apply (proj1 (dedup_in l y)) in H.
  assert (existsb (String.eqb y) l = true); [|congruence].
  apply existsb_exists. exists y. split; [assumption | apply String.eqb_refl].
Qed.

Lemma insert_sorted_in : forall x l y, In y (insert_sorted x l) <-> y = x \/ In y l.
Proof.
  induction l as [|z l IH]; intros y; simpl.
  - split; [intros [<-|[]]; now left | intros [->|[]]; now left].
  - destruct (String.leb x z); simpl.
    + split; [intros [<-|H]; [now left | now right] | intros [->|H]; [now left | now right]].
    + rewrite IH. split; [intros [<-|[->|H]] | intros [->|[<-|H]]]; auto.
Qed.

Lemma insert_sorted_nodup : forall x l, ~ In x l -> NoDup l -> NoDup (insert_sorted x l).
Proof.
  induction l as [|z l IH]; intros Hx Hl; simpl.
  - constructor; [intros [] | constructor].
  - destruct (String.leb x z).
    + constructor; assumption.
    + inversion Hl as [|z' l' Hz Hl']. subst. constructor.
      * intro H. apply (proj1 (insert_sorted_in x l z)) in H as [->|H]; [apply Hx; now left | contradiction].
      * apply IH; [|assumption]. intro H. apply Hx. now right.
Qed.

Lemma sort_names_in : forall l x, In x (sort_names l) <-> In x l.
Proof.
  induction l as [|y l IH]; intros x; simpl; [tauto|].
  rewrite insert_sorted_in, IH. split; [intros [->|H] | intros [<-|H]]; auto.
Qed.

Lemma sort_names_nodup : forall l, NoDup l -> NoDup (sort_names l).
Proof.
  induction l as [|y l IH]; intros H; simpl; [constructor|].
  inversion H as [|y' l' Hy Hl]. subst.
  apply insert_sorted_nodup; [|now apply IH]. intro Hin. apply Hy. now apply sort_names_in.
Qed.

(* dir(cls) lists every name bound anywhere in the hierarchy, once *)
Lemma dir_names_in : forall mro n,
  In n (dir_names mro) <-> exists b m, In b mro /\ In m b /\ member_name m = n.
Proof.
  intros mro n. unfold dir_names. rewrite sort_names_in, dedup_in, in_flat_map. split.
  - intros [b [Hb Hn]]. apply in_map_iff in Hn as [m [Hm Hin]]. now exists b, m.
  - intros [b [m [Hb [Hm Hn]]]]. exists b. split; [assumption|]. apply in_map_iff. now exists m.
Qed.

Lemma dir_names_nodup : forall mro, NoDup (dir_names mro).
Proof. intros. unfold dir_names. apply sort_names_nodup, dedup_nodup. Qed.

(* the loop head of setup_tunables picks, per name, exactly the tunable that
   attribute lookup on the class finds *)
Theorem class_members_char : forall mro d,
  In d (class_members mro) <-> class_getattr mro (d_attr d) = Some (MTun d).
Proof.
  intros mro d. unfold class_members. rewrite in_flat_map. split.
  - intros [n [Hn Hd]]. destruct (class_getattr mro n) as [[d'|p]|] eqn:E; try destruct Hd.
    + subst d'. pose proof (class_getattr_name _ _ _ E) as Hname. simpl in Hname. now subst n.
    + destruct H.
  - intros H. exists (d_attr d). split.
    + apply dir_names_in. destruct (class_getattr_in _ _ _ H) as [b [Hb Hm]]. now exists b, (MTun d).
    + rewrite H. now left.
Qed.

Lemma NoDup_map_flat_map : forall (A B C : Type) (f : A -> list B) (g : B -> C) (key : A -> C) l,
  (forall a b, In b (f a) -> g b = key a) ->
  (forall a, NoDup (map g (f a))) ->
  NoDup (map key l) -> NoDup (map g (flat_map f l)).
Proof.
  induction l as [|a l IH]; intros Hk Hf Hl; simpl; [constructor|].
  inversion Hl as [|x m Hn Hd]. subst. rewrite map_app.
  assert (Hr : NoDup (map g (flat_map f l))) by now apply IH.
  revert Hr. generalize (Hf a). generalize (Hk a).
  induction (f a) as [|b fa IHa]; intros Hka Hfa Hr; simpl; [assumption|].
  inversion Hfa as [|x m Hnb Hdb]. subst. constructor.
  - intro Hin. apply in_app_or in Hin as [Hin|Hin]; [contradiction|].
    apply in_map_iff in Hin as [b' [Eb Hb']]. apply in_flat_map in Hb' as [a' [Ha' Hb']].
    apply Hn. apply in_map_iff. exists a'. split; [|assumption].
    rewrite <- (Hk a' b' Hb'), Eb. apply Hka. now left.
  - apply IHa; [|assumption|assumption]. intros b' Hb'. apply Hka. now right.
Qed.

(* one tunable per attribute name, however often the name is redefined *)
Theorem class_members_nodup : forall mro, NoDup (map d_attr (class_members mro)).
Proof.
  intros mro. unfold class_members.
  apply (NoDup_map_flat_map _ _ _ _ d_attr (fun n : string => n)).
  - intros n d Hd. destruct (class_getattr mro n) as [[d'|p]|] eqn:E; try destruct Hd.
    + subst d'. apply (class_getattr_name _ _ _ E).
    + destruct H.
  - intros n. destruct (class_getattr mro n) as [[d'|p]|]; simpl; repeat constructor. intros [].
  - rewrite map_id. apply dir_names_nodup.
Qed.

Lemma class_members_in_body : forall mro d, In d (class_members mro) ->
  exists b, In b mro /\ In (MTun d) b.
Proof.
  intros mro d H. apply class_members_char in H. apply (class_getattr_in _ _ _ H).
Qed.

(* a redefinition shadows: with the classes before C in the MRO not binding
   the name and C binding it to the tunable d, the class has d under that name
   and nothing else -- whatever the classes after C bind it to *)
Theorem redefinition_shadows : forall pre C post d,
  (forall b, In b pre -> body_get b (d_attr d) = None) ->
  body_get C (d_attr d) = Some (MTun d) ->
  class_getattr (pre ++ C :: post) (d_attr d) = Some (MTun d) /\
  In d (class_members (pre ++ C :: post)) /\
  forall d', In d' (class_members (pre ++ C :: post)) -> d_attr d' = d_attr d -> d' = d.
Proof.
  intros pre C post d Hpre HC.
  pose proof (class_getattr_first pre C post _ _ Hpre HC) as Hg.
  split; [assumption|]. split; [now apply class_members_char|].
  intros d' Hd' E. apply class_members_char in Hd'. rewrite E, Hg in Hd'. now injection Hd'.
Qed.

(* a name the class resolves to something that is not a tunable is not bound,
   even when a base class declares a tunable of that name *)
Theorem plain_member_shadows : forall mro n,
  class_getattr mro n = Some (MPlain n) ->
  forall d, In d (class_members mro) -> d_attr d <> n.
Proof.
  intros mro n H d Hd E. apply class_members_char in Hd. rewrite E, H in Hd. discriminate.
Qed.

Lemma class_topics_all_ok : forall cls,
  (forall d, In d cls -> exists t, decl_topic (d_default d) (d_hint d) = Ok t) ->
  exists ds, class_topics cls = Some ds.
Proof.
  induction cls as [|d cls IH]; intros H; simpl; [now eexists|].
  destruct (H d (or_introl eq_refl)) as [t ->].
  destruct IH as [ds ->]; [intros d' Hd'; apply H; now right|]. now eexists.
Qed.

Lemma body_decls_in : forall b d, In d (body_decls b) <-> In (MTun d) b.
Proof.
  intros b d. unfold body_decls. rewrite in_flat_map. split.
  - intros [[d'|n] [Hm Hd]]; [destruct Hd as [<-|[]]; assumption | destruct Hd].
  - intros H. exists (MTun d). split; [assumption | now left].
Qed.

(* when every class statement of the hierarchy executes, setup succeeds *)
Theorem hierarchy_setup_succeeds : forall w i mro p c,
  hier_defined mro = true -> snd (step w (setup_class i mro p c)) = EvSetup true.
Proof.
  intros w i mro p c H. unfold setup_class.
  destruct (class_topics_all_ok (class_members mro)) as [ds Hds].
  - intros d Hd. destruct (class_members_in_body _ _ Hd) as [b [Hb Hm]].
    unfold hier_defined in H. rewrite forallb_forall in H. specialize (H b Hb).
    destruct (class_topics (body_decls b)) as [l|] eqn:E; [|discriminate].
    destruct (class_topics_in _ _ d E) as [t [_ Ht]]; [now apply body_decls_in|]. now exists t.
  - now rewrite (step_setup w i _ p c ds Hds).
Qed.

(* setup of an instance of a class with redefinitions: the tunable that
   attribute lookup finds under the name is bound at the documented key, and
   ITS default and ITS writeDefault flag decide what the topic holds *)
Theorem setup_hierarchy : forall w i mro p c d,
  (forall b m, In b mro -> In m b -> no_slash (member_name m) = true) ->
  class_getattr mro (d_attr d) = Some (MTun d) -> public d = true ->
  snd (step w (setup_class i mro p c)) = EvSetup true ->
  exists b ty, inst_get (w_inst (fst (step w (setup_class i mro p c)))) i = Some b /\
    decl_topic (d_default d) (d_hint d) = Ok ty /\
    bind_get b (d_attr d) = Some (key_of p c (d_subtable d) (d_attr d), ty, entry_value ty (d_default d)) /\
    nt_get (w_nt (fst (step w (setup_class i mro p c)))) (key_of p c (d_subtable d) (d_attr d)) =
    if d_wd d then Some (ty, entry_value ty (d_default d))
    else match nt_get (w_nt w) (key_of p c (d_subtable d) (d_attr d)) with
         | Some tv => Some tv
         | None => Some (ty, entry_value ty (d_default d))
         end.
Proof.
  intros w i mro p c d Hns Hg Hpub Hok. unfold setup_class in *.
  apply class_members_char in Hg.
  destruct (setup_binds w i _ p c d (class_members_nodup mro) Hg Hpub Hok) as [b [ty [Hb [Hty Hbind]]]].
  destruct (setup_write_default w i _ p c d (class_members_nodup mro)) as [ty' [Hty' Hwd]];
    try assumption.
  - intros d' Hd'. destruct (class_members_in_body _ _ Hd') as [b' [Hb' Hm]].
    apply (Hns b' (MTun d') Hb' Hm).
  - rewrite Hty in Hty'. injection Hty' as <-. now exists b, ty.
Qed.

(* what such a setup must not touch: every topic that is not the key of a
   tunable the class resolves a public name to -- in particular the key a
   shadowed definition (other subtable) would have had *)
Theorem setup_hierarchy_untouched : forall w i mro p c k,
  (forall d, class_getattr mro (d_attr d) = Some (MTun d) -> public d = true ->
             key_of p c (d_subtable d) (d_attr d) <> k) ->
  nt_get (w_nt (fst (step w (setup_class i mro p c)))) k = nt_get (w_nt w) k.
Proof.
  intros w i mro p c k H. unfold setup_class. apply setup_untouched.
  intros d Hd. apply H. now apply class_members_char.
Qed.

(* ... and what the attribute reads right after that setup: the default of the
   definition the class resolves the name to, or the value the topic already
   had when that definition says writeDefault=False *)
Theorem setup_hierarchy_read : forall w i mro p c d,
  (forall b m, In b mro -> In m b -> no_slash (member_name m) = true) ->
  class_getattr mro (d_attr d) = Some (MTun d) -> public d = true ->
  snd (step w (setup_class i mro p c)) = EvSetup true ->
  exists ty, decl_topic (d_default d) (d_hint d) = Ok ty /\
  py_read (fst (step w (setup_class i mro p c))) i (d_attr d) =
  EvVal (if d_wd d then entry_value ty (d_default d)
         else match nt_get (w_nt w) (key_of p c (d_subtable d) (d_attr d)) with
              | Some (_, v) => v
              | None => entry_value ty (d_default d)
              end).
Proof.
  intros w i mro p c d Hns Hg Hpub Hok.
  destruct (setup_hierarchy w i mro p c d Hns Hg Hpub Hok) as [b [ty [Hb [Hty [Hbind Hnt]]]]].
  exists ty. split; [exact Hty|].
  destruct (d_wd d).
  - apply (bound_read_sees_topic _ i b _ _ _ _ ty _ Hb Hbind Hnt).
  - destruct (nt_get (w_nt w) (key_of p c (d_subtable d) (d_attr d))) as [[t v]|].
    + apply (bound_read_sees_topic _ i b _ _ _ _ t _ Hb Hbind Hnt).
    + apply (bound_read_sees_topic _ i b _ _ _ _ ty _ Hb Hbind Hnt).
Qed.

(* ================================================================== *)
(* K. What a typed entry stores: a value of the topic's type is stored  *)
(*    and read back as it is, whatever Python type the default has      *)
(* ================================================================== *)

Lemma map_id_on : forall (A : Type) (f : A -> A) l, (forall x, In x l -> f x = x) -> map f l = l.
Proof.
  induction l as [|x l IH]; intros H; simpl; [reflexivity|].
  rewrite (H x (or_introl eq_refl)), IH; [reflexivity|]. intros y Hy. apply H. now right.
Qed.

Lemma to_double_float : forall s, base_eqb (base_of s) BFloat = true -> to_double s = s.
Proof. destruct s; simpl; intros H; try discriminate H; reflexivity. Qed.
Lemma to_integer_int : forall s, base_eqb (base_of s) BInt = true -> to_integer s = s.
Proof. destruct s; simpl; intros H; try discriminate H; reflexivity. Qed.

(* no conversion happens to a value of the topic's type *)
Theorem entry_value_fits : forall ty v, fits ty v = true -> entry_value ty v = canon v.
Proof.
  intros ty v H. unfold fits in H. unfold entry_value.
  destruct ty; simpl in H; destruct v as [s|l|l]; simpl; try discriminate H; try reflexivity.
  - now rewrite to_integer_int.
  - now rewrite to_double_float.
  - rewrite map_id_on; [reflexivity|]. rewrite forallb_forall in H. intros x Hx. now apply to_integer_int, H.
  - rewrite map_id_on; [reflexivity|]. rewrite forallb_forall in H. intros x Hx. now apply to_integer_int, H.
  - rewrite map_id_on; [reflexivity|]. rewrite forallb_forall in H. intros x Hx. now apply to_double_float, H.
  - rewrite map_id_on; [reflexivity|]. rewrite forallb_forall in H. intros x Hx. now apply to_double_float, H.
Qed.

(* the numeric tower: an int handed to a double entry is that number as a
   float (floats are n/64: z = 64z/64), a bool handed to an int entry 0 / 1 *)
Lemma entry_value_int_on_double : forall z,
  entry_value NDouble (VScalar (SInt z)) = VScalar (SFloat (64 * z)) /\
  forall l, entry_value NDoubleArr (VList (map SInt l)) = VList (map (fun z => SFloat (64 * z)) l) /\
            entry_value NDoubleArr (VTuple (map SInt l)) = VList (map (fun z => SFloat (64 * z)) l).
Proof.
  intros z. split; [reflexivity|]. intros l. unfold entry_value. simpl. rewrite map_map. now split.
Qed.

(* the result of a conversion is always a value of the topic's type when the
   argument is one of the numeric tower below it *)
Lemma entry_value_double_fits : forall s,
  (exists z, s = SInt z) \/ (exists b, s = SBool b) \/ (exists n, s = SFloat n) ->
  fits NDouble (entry_value NDouble (VScalar s)) = true.
Proof. intros s [[z ->]|[[b ->]|[n ->]]]; reflexivity. Qed.

(* instance.attr = v ; instance.attr  -- what the entry made of v *)
Theorem py_write_read_back : forall w i b a k ty d v,
  inst_get (w_inst w) i = Some b -> bind_get b a = Some (k, ty, d) ->
  py_read (fst (step w (PyWrite i a v))) i a = EvVal (entry_value ty v).
Proof.
  intros w i b a k ty d v Hi Ha. simpl. rewrite Hi, Ha. simpl.
  unfold py_read. simpl. rewrite Hi, Ha. now rewrite nt_get_set_same.
Qed.

(* a python-side write of ANY value of the topic's type is what the topic
   holds and what the next read returns *)
Theorem write_typed_value_reads_back : forall w i b a k ty d v,
  inst_get (w_inst w) i = Some b -> bind_get b a = Some (k, ty, d) -> fits ty v = true ->
  py_read (fst (step w (PyWrite i a v))) i a = EvVal (canon v) /\
  nt_get (w_nt (fst (step w (PyWrite i a v)))) k = Some (ty, canon v).
Proof.
  intros w i b a k ty d v Hi Ha Hf. rewrite <- (entry_value_fits ty v Hf). split.
  - eapply py_write_read_back; eassumption.
  - eapply bound_write_reaches_topic; eassumption.
Qed.

Lemma op_writes_py_typed : forall w j a v k b ty d,
  inst_get (w_inst w) j = Some b -> bind_get b a = Some (k, ty, d) -> fits ty v = true ->
  op_writes w (PyWrite j a v) k = Some (canon v).
Proof.
  intros w j a v k b ty d Hj Ha Hf. simpl. rewrite Hj, Ha, String.eqb_refl.
  now rewrite (entry_value_fits ty v Hf).
Qed.

(* ... through setup: the topic type [ty] comes from the declaration (hint
   first, else the default); the Python type of the DEFAULT plays no role in
   what a later assignment stores *)
Theorem setup_then_write_reads_back : forall w i cls p c d v,
  NoDup (map d_attr cls) -> In d cls -> public d = true ->
  snd (step w (Setup i cls p c)) = EvSetup true ->
  exists ty, decl_topic (d_default d) (d_hint d) = Ok ty /\
    (fits ty v = true ->
     py_read (fst (step (fst (step w (Setup i cls p c))) (PyWrite i (d_attr d) v))) i (d_attr d)
       = EvVal (canon v) /\
     nt_get (w_nt (fst (step (fst (step w (Setup i cls p c))) (PyWrite i (d_attr d) v))))
            (key_of p c (d_subtable d) (d_attr d)) = Some (ty, canon v)).
Proof.
  intros w i cls p c d v Hnd Hin Hpub Hok.
  destruct (setup_binds w i cls p c d Hnd Hin Hpub Hok) as [b [ty [Hb [Hty Hbind]]]].
  exists ty. split; [exact Hty|]. intros Hf.
  exact (write_typed_value_reads_back _ i b _ _ ty _ v Hb Hbind Hf).
Qed.

(* ================================================================== *)
(* J. One tunable object bound by several classes under their own names *)
(* ================================================================== *)

Lemma opt_all_some : forall (A : Type) (l : list (option A)) r,
  opt_all l = Some r -> l = map Some r.
Proof.
  induction l as [|[x|] l IH]; intros r H; simpl in H; try discriminate.
  - now injection H as <-.
  - destruct (opt_all l) as [r'|]; [|discriminate]. injection H as <-.
    simpl. now rewrite (IH r' eq_refl).
Qed.

Lemma obind_member_name : forall pr ob m, obind_member pr ob = Some m -> member_name m = obind_name ob.
Proof.
  intros pr [n oid ann|n] m H; simpl in H.
  - unfold obj_decl in H. destruct (nth_error (p_objs pr) oid); simpl in H; [|discriminate].
    now injection H as <-.
  - now injection H as <-.
Qed.

(* attribute lookup on the class commutes with the translation of the class
   bodies: getattr(cls, n) finds the object the first binding class bound *)
Lemma body_get_commutes : forall pr b cb n, prog_body pr b = Some cb ->
  body_get cb n = match obody_get b n with Some ob => obind_member pr ob | None => None end.
Proof.
  intros pr. induction b as [|ob b IH]; intros cb n H; unfold prog_body in H; simpl in H.
  - now injection H as <-.
  - destruct (obind_member pr ob) as [m|] eqn:Em; [|discriminate].
    destruct (opt_all (map (obind_member pr) b)) as [cb'|] eqn:Eb; [|discriminate].
    injection H as <-. simpl. rewrite (obind_member_name pr ob m Em).
    destruct (String.eqb (obind_name ob) n); [now rewrite Em | now apply IH].
Qed.

Lemma getattr_commutes : forall pr om mro n, opt_all (map (prog_body pr) om) = Some mro ->
  class_getattr mro n = match omro_getattr om n with Some ob => obind_member pr ob | None => None end.
Proof.
  intros pr. induction om as [|b om IH]; intros mro n H; simpl in H.
  - now injection H as <-.
  - destruct (prog_body pr b) as [cb|] eqn:Eb; [|discriminate].
    destruct (opt_all (map (prog_body pr) om)) as [mro'|] eqn:Em; [|discriminate].
    injection H as <-. simpl. rewrite (body_get_commutes pr b cb n Eb).
    destruct (obody_get b n) as [ob|] eqn:Eo.
    + destruct (obind_member pr ob) as [m|] eqn:Emm; [reflexivity|].
      (* a body that translated has no untranslatable member *)
      exfalso. clear - Eb Eo Emm. revert cb Eb. induction b as [|ob' b IHb]; intros cb Eb; [discriminate|].
      unfold prog_body in Eb. simpl in Eb. simpl in Eo.
      destruct (obind_member pr ob') as [m'|] eqn:E'; [|discriminate].
      destruct (opt_all (map (obind_member pr) b)) as [cb'|] eqn:E''; [|discriminate].
      destruct (String.eqb (obind_name ob') n).
      * injection Eo as ->. congruence.
      * apply (IHb Eo cb'). exact E''.
    + now apply IH.
Qed.

Lemma obody_get_name : forall b n ob, obody_get b n = Some ob -> obind_name ob = n.
Proof.
  induction b as [|ob0 b IH]; intros n ob H; simpl in H; [discriminate|].
  destruct (String.eqb (obind_name ob0) n) eqn:E.
  - injection H as <-. now apply String.eqb_eq.
  - now apply IH.
Qed.
Lemma omro_getattr_name : forall om n ob, omro_getattr om n = Some ob -> obind_name ob = n.
Proof.
  induction om as [|b om IH]; intros n ob H; simpl in H; [discriminate|].
  destruct (obody_get b n) as [ob'|] eqn:E.
  - injection H as <-. now apply (obody_get_name b).
  - now apply IH.
Qed.

Lemma prog_body_names : forall pr b cb, prog_body pr b = Some cb ->
  forall m, In m cb -> exists ob, In ob b /\ member_name m = obind_name ob.
Proof.
  intros pr. induction b as [|ob b IH]; intros cb H m Hm; unfold prog_body in H; simpl in H.
  - injection H as <-. destruct Hm.
  - destruct (obind_member pr ob) as [m0|] eqn:Em; [|discriminate].
    destruct (opt_all (map (obind_member pr) b)) as [cb'|] eqn:Eb; [|discriminate].
    injection H as <-. destruct Hm as [<-|Hm].
    + exists ob. split; [now left | now apply (obind_member_name pr)].
    + destruct (IH cb' Eb m Hm) as [ob' [H1 H2]]. exists ob'. split; [now right | assumption].
Qed.

Lemma prog_mro_names : forall pr om mro, opt_all (map (prog_body pr) om) = Some mro ->
  (forall b ob, In b om -> In ob b -> no_slash (obind_name ob) = true) ->
  forall cb m, In cb mro -> In m cb -> no_slash (member_name m) = true.
Proof.
  intros pr. induction om as [|b om IH]; intros mro H Hns cb m Hcb Hm; simpl in H.
  - injection H as <-. destruct Hcb.
  - destruct (prog_body pr b) as [cb0|] eqn:Eb; [|discriminate].
    destruct (opt_all (map (prog_body pr) om)) as [mro'|] eqn:Em; [|discriminate].
    injection H as <-. destruct Hcb as [<-|Hcb].
    + destruct (prog_body_names pr b cb0 Eb m Hm) as [ob [H1 H2]]. rewrite H2.
      apply (Hns b ob); [now left | assumption].
    + apply (IH mro' eq_refl) with (cb := cb); try assumption.
      intros b' ob' Hb'. apply Hns. now right.
Qed.

(* THE KEY OF A SHARED OBJECT.  [pr] is ANY program: any number of classes may
   bind the object [oid] under any names, before or after the class at hand.
   For the class with MRO [ixs] (class statements [om]) that resolves the
   public name [n] to the object, a successful setup binds instance.n at
     <prefix>/<cname>/[subtable of the object/]n
   -- n, the name in THIS class -- with the object's default / writeDefault
   flag deciding what the topic holds. *)
Theorem shared_object_setup : forall w i pr ixs om cls p c n oid ann o,
  prog_stmts pr ixs = Some om -> prog_class pr ixs = Some cls ->
  (forall b ob, In b om -> In ob b -> no_slash (obind_name ob) = true) ->
  omro_getattr om n = Some (OTun n oid ann) ->
  nth_error (p_objs pr) oid = Some o ->
  starts_with "_" n = false ->
  snd (step w (Setup i cls p c)) = EvSetup true ->
  exists b ty, inst_get (w_inst (fst (step w (Setup i cls p c)))) i = Some b /\
    decl_topic (t_default o) (obj_hint pr oid) = Ok ty /\
    bind_get b n = Some (key_of p c (t_subtable o) n, ty, entry_value ty (t_default o)) /\
    nt_get (w_nt (fst (step w (Setup i cls p c)))) (key_of p c (t_subtable o) n) =
    if t_wd o then Some (ty, entry_value ty (t_default o))
    else match nt_get (w_nt w) (key_of p c (t_subtable o) n) with
         | Some tv => Some tv
         | None => Some (ty, entry_value ty (t_default o))
         end.
Proof.
  intros w i pr ixs om cls p c n oid ann o Hom Hcls Hns Hget Ho Hpub Hok.
  unfold prog_class in Hcls. rewrite Hom in Hcls. unfold prog_mro in Hcls. rewrite Hom in Hcls.
  destruct (opt_all (map (prog_body pr) om)) as [mro|] eqn:Emro; [|discriminate].
  destruct (nodupb (resolved_ids om)); [|discriminate]. injection Hcls as <-.
  set (d := mkdecl n (t_default o) (obj_hint pr oid) (t_subtable o) (t_wd o)).
  assert (Hg : class_getattr mro (d_attr d) = Some (MTun d)).
  { change (class_getattr mro n = Some (MTun d)).
    rewrite (getattr_commutes pr om mro n Emro), Hget. simpl. unfold obj_decl. now rewrite Ho. }
  assert (Hp : public d = true) by (unfold public; simpl; now rewrite Hpub).
  exact (setup_hierarchy w i mro p c d (prog_mro_names pr om mro Emro Hns) Hg Hp Hok).
Qed.

(* ---- the topic type of a shared object -------------------------------- *)

Lemma last_call_some : forall l oid y, last_call l oid = Some y -> In (oid, y) l.
Proof.
  induction l as [|[j h] l IH]; intros oid y H; simpl in H; [discriminate|].
  destruct (last_call l oid) as [x|] eqn:E.
  - injection H as <-. right. now apply IH.
  - destruct (Nat.eqb j oid) eqn:Ej; [|discriminate]. injection H as <-.
    apply Nat.eqb_eq in Ej. subst. now left.
Qed.

Lemma last_call_none : forall l oid x, last_call l oid = None -> ~ In (oid, x) l.
Proof.
  induction l as [|[j h] l IH]; intros oid x H Hin; simpl in H; [destruct Hin|].
  destruct (last_call l oid) as [y|] eqn:E; [discriminate|].
  destruct (Nat.eqb j oid) eqn:Ej; [discriminate|].
  destruct Hin as [Hin|Hin].
  - injection Hin as -> _. now rewrite Nat.eqb_refl in Ej.
  - exact (IH oid x E Hin).
Qed.

(* every class body that binds the object makes one __set_name__ call *)
Lemma bound_object_is_named : forall pr stmt n oid ann o,
  In stmt (p_stmts pr) -> In (OTun n oid ann) stmt -> nth_error (p_objs pr) oid = Some o ->
  In (oid, set_name_hint (mksrc (t_orig o) ann)) (set_name_calls pr).
Proof.
  intros pr stmt n oid ann o Hs Hb Ho. unfold set_name_calls.
  apply in_flat_map. exists stmt. split; [assumption|].
  apply in_flat_map. exists (OTun n oid ann). split; [assumption|]. simpl. rewrite Ho. now left.
Qed.

Lemma set_name_call_origin : forall pr oid x, In (oid, x) (set_name_calls pr) ->
  exists stmt n ann o, In stmt (p_stmts pr) /\ In (OTun n oid ann) stmt /\
    nth_error (p_objs pr) oid = Some o /\ x = set_name_hint (mksrc (t_orig o) ann).
Proof.
  intros pr oid x H. unfold set_name_calls in H.
  apply in_flat_map in H as [stmt [Hs H]]. apply in_flat_map in H as [ob [Hob H]].
  destruct ob as [n oid' ann|n]; simpl in H; [|destruct H].
  destruct (nth_error (p_objs pr) oid') as [o|] eqn:Eo; [|destruct H].
  destruct H as [H|[]]. injection H as -> <-. now exists stmt, n, ann, o.
Qed.

(* when all the class bodies that bind the object resolve the same hint [hh]
   for it -- in particular: the object carries a subscript, or nobody
   annotates it, or everybody writes the same H (in any spelling) -- that is
   the hint behind its topic type *)
Theorem shared_object_hint : forall pr oid o hh,
  nth_error (p_objs pr) oid = Some o ->
  (exists stmt n ann, In stmt (p_stmts pr) /\ In (OTun n oid ann) stmt) ->
  (forall stmt n ann, In stmt (p_stmts pr) -> In (OTun n oid ann) stmt ->
                      set_name_hint (mksrc (t_orig o) ann) = hh) ->
  obj_hint pr oid = hh.
Proof.
  intros pr oid o hh Ho [stmt [n [ann [Hs Hb]]]] Hall. unfold obj_hint.
  destruct (last_call (set_name_calls pr) oid) as [y|] eqn:E.
  - apply last_call_some in E. destruct (set_name_call_origin pr oid y E) as [s' [n' [a' [o' [H1 [H2 [H3 H4]]]]]]].
    rewrite Ho in H3. injection H3 as <-. rewrite H4. now apply (Hall s' n' a').
  - exfalso. apply (last_call_none _ oid _ E (bound_object_is_named pr stmt n oid ann o Hs Hb Ho)).
Qed.

Theorem shared_object_hint_subscript : forall pr oid o h,
  nth_error (p_objs pr) oid = Some o -> t_orig o = Some h ->
  (exists stmt n ann, In stmt (p_stmts pr) /\ In (OTun n oid ann) stmt) ->
  obj_hint pr oid = Some h.
Proof.
  intros pr oid o h Ho Hh Hb. apply (shared_object_hint pr oid o (Some h) Ho Hb).
  intros stmt n ann _ _. unfold set_name_hint. simpl. now rewrite Hh.
Qed.

(* the documented table for a shared object: every class body that binds it
   writes the hint [h] (or none) in some accepted spelling *)
Theorem shared_object_topic_type : forall pr oid o h,
  nth_error (p_objs pr) oid = Some o ->
  (exists stmt n ann, In stmt (p_stmts pr) /\ In (OTun n oid ann) stmt) ->
  (forall stmt n ann, In stmt (p_stmts pr) -> In (OTun n oid ann) stmt ->
                      exists sp, mksrc (t_orig o) ann = spell_opt sp h) ->
  res_to_option (decl_topic (t_default o) (obj_hint pr oid)) = spec_decl (t_default o) h.
Proof.
  intros pr oid o h Ho Hb Hall. rewrite (shared_object_hint pr oid o h Ho Hb).
  - apply decl_topic_spec.
  - intros stmt n ann Hs Hin. destruct (Hall stmt n ann Hs Hin) as [sp ->]. apply spell_opt_hint.
Qed.

(* ================================================================== *)
(* M. Timestamps and the clock play no role for what a tunable reads;   *)
(*    a setup binds the tunables the class has at that moment           *)
(* ================================================================== *)

Lemma nt_write_at_accepted : forall m s k ty v t m' s',
  nt_write_at m s k ty v t = (m', s', true) -> m' = nt_set m k ty v.
Proof.
  intros m s k ty v t m' s' H. unfold nt_write_at in H.
  destruct (accepts (stamp_get s k) t); [|discriminate]. now injection H as <- _.
Qed.

Lemma nt_write_at_dropped : forall m s k ty v t m' s',
  nt_write_at m s k ty v t = (m', s', false) -> m' = m /\ s' = s.
Proof.
  intros m s k ty v t m' s' H. unfold nt_write_at in H.
  destruct (accepts (stamp_get s k) t); [discriminate|]. injection H as <- <-. now split.
Qed.

Lemma setup_loop_t_accepted : forall pfx ds nt st now b nt' st' b',
  setup_loop_t pfx ds nt st now b = (nt', st', b', true) ->
  setup_loop pfx ds nt b = (nt', b').
Proof.
  induction ds as [|[d ty] ds IH]; intros nt st now b nt' st' b' H; cbn [setup_loop_t setup_loop] in *.
  - now injection H as <- _ <-.
  - destruct (starts_with "_" (d_attr d)); [now apply (IH _ _ _ _ _ _ _ H)|].
    destruct (d_wd d).
    + destruct (nt_write_at nt st (key_in pfx (d_subtable d) (d_attr d)) ty
                  (entry_value ty (d_default d)) now) as [[nt1 st1] ok1] eqn:E1.
      destruct (setup_loop_t pfx ds nt1 st1 now _) as [[[nt2 st2] b2] ok2] eqn:E2.
      injection H as <- <- <- Hok. apply andb_true_iff in Hok as [-> ->].
      apply nt_write_at_accepted in E1. subst nt1. now apply (IH _ _ _ _ _ _ _ E2).
    + destruct (setup_loop_t pfx ds _ st now _) as [[[nt2 st2] b2] ok2] eqn:E2.
      injection H as <- <- <- Hok. simpl in Hok. subst ok2. now apply (IH _ _ _ _ _ _ _ E2).
Qed.

Lemma grun_cons : forall g o r,
  grun g (o :: r) =
  (fst (grun (fst (fst (gstep g o))) r),
   (snd (fst (gstep g o)), snd (gstep g o)) :: snd (grun (fst (fst (gstep g o))) r)).
Proof.
  intros. simpl. destruct (gstep g o) as [[g1 e] ok]. simpl. destruct (grun g1 r). reflexivity.
Qed.

(* what one operation leaves of itself when the environment is forgotten,
   and the classes after it *)
Definition cl_after (cl : list (list classbody)) (o : gop) : list (list classbody) :=
  match o with
  | GClassAssign c m => match nth_error cl c with Some _ => classes_assign cl c m | None => cl end
  | _ => cl
  end.
Definition gerase1 (cl : list (list classbody)) (o : gop) : list xop :=
  match o with
  | GX xo => [xo]
  | GNtWriteAt k ty v _ => [XOp (NtWrite k ty v)]
  | GSetupOf i c p n =>
      match nth_error cl c with Some mro => [XOp (setup_class i mro p n)] | None => [] end
  | _ => []
  end.

Lemma gerase_cons : forall cl o r,
  gerase cl (o :: r) = (gerase1 cl o ++ gerase (cl_after cl o) r)%list.
Proof.
  intros cl [xo|d|k ty v s|k|c m|i c p n] r; simpl; try reflexivity.
  destruct (nth_error cl c); reflexivity.
Qed.

Lemma gsetup_accepted : forall g i cls p c g' e,
  gsetup g i cls p c = (g', e, true) ->
  xstep (g_x g) (XOp (Setup i cls p c)) = (g_x g', match e with GEv e' => e' | _ => XDone end) /\
  (exists e', e = GEv e') /\ g_classes g' = g_classes g /\ g_now g' = g_now g.
Proof.
  intros [[w tr] now st cl] i cls p c g' e H. unfold gsetup in H. cbn [g_x x_w x_truth g_now g_stamps g_classes] in H.
  rewrite xstep_op. cbn [g_x x_w x_truth step].
  destruct (class_topics cls) as [ds|].
  - destruct (setup_loop_t (key_prefix p c) ds (w_nt w) st now []) as [[[nt' st'] b] ok] eqn:E.
    injection H as <- <- ->. apply setup_loop_t_accepted in E. rewrite E.
    cbn. repeat split. now eexists.
  - injection H as <- <-. cbn. repeat split. now eexists.
Qed.

Lemma gwrite_accepted : forall g k ty v t g',
  gwrite g k ty v t = (g', true) ->
  g_x g' = mkx (mkworld (nt_set (w_nt (x_w (g_x g))) k ty v) (w_inst (x_w (g_x g)))) (x_truth (g_x g)) /\
  g_classes g' = g_classes g /\ g_now g' = g_now g.
Proof.
  intros g k ty v t g' H. unfold gwrite in H.
  destruct (nt_write_at (w_nt (x_w (g_x g))) (g_stamps g) k ty v t) as [[nt' st'] ok] eqn:E.
  injection H as <- ->. apply nt_write_at_accepted in E. subst nt'. cbn. repeat split.
Qed.

Lemma xrun_one : forall x o, xrun x [o] = (fst (xstep x o), [snd (xstep x o)]).
Proof. intros. simpl. now destruct (xstep x o). Qed.

(* one accepted operation = the step of the environment-free model on what is
   left of the operation *)
Lemma gstep_erase : forall g o g' e,
  gstep g o = (g', e, true) ->
  xrun (g_x g) (gerase1 (g_classes g) o) = (g_x g', gevents [(e, true)]) /\
  g_classes g' = cl_after (g_classes g) o.
Proof.
  intros g o g' e H. destruct o as [xo|d|k ty v s|k|c m|i c p n]; cbn [gerase1 cl_after].
  - (* GX *)
    rewrite xrun_one.
    destruct xo as [[i cls p c|i a v|i a|k ty v|k]|i t]; cbn [gstep] in H.
    + apply gsetup_accepted in H as [Hx [[e' ->] [Hc _]]]. rewrite Hx. cbn. now split.
    + rewrite xstep_op. cbn [step].
      destruct (inst_get (w_inst (x_w (g_x g))) i) as [b|]; [|injection H as <- <-; destruct g as [[w tr] ? ? ?]; now split].
      destruct (bind_get b a) as [[[key ty] dflt]|]; [|injection H as <- <-; destruct g as [[w tr] ? ? ?]; now split].
      destruct (gwrite g key ty (entry_value ty v) (g_now g)) as [g1 ok] eqn:E.
      injection H as -> <- ->. apply gwrite_accepted in E as [Hx [Hc _]]. rewrite Hx. cbn. now split.
    + destruct (xstep (g_x g) (XOp (PyRead i a))) as [x' e'] eqn:E. injection H as <- <-. cbn. now split.
    + rewrite xstep_op. cbn [step].
      destruct (gwrite g k ty (canon v) (g_now g)) as [g1 ok] eqn:E.
      injection H as -> <- ->. apply gwrite_accepted in E as [Hx [Hc _]]. rewrite Hx. cbn. now split.
    + destruct (xstep (g_x g) (XOp (NtRead k))) as [x' e'] eqn:E. injection H as <- <-. cbn. now split.
    + destruct (xstep (g_x g) (XSetTruth i t)) as [x' e'] eqn:E. injection H as <- <-. cbn. now split.
  - cbn [gstep] in H. injection H as <- <-. cbn. now split.
  - cbn [gstep] in H. rewrite xrun_one, xstep_op. cbn [step].
    destruct (gwrite g k ty (canon v) _) as [g1 ok] eqn:E.
    injection H as -> <- ->. apply gwrite_accepted in E as [Hx [Hc _]]. rewrite Hx. cbn. now split.
  - cbn [gstep] in H. injection H as <- <-. cbn. now split.
  - cbn [gstep] in H. destruct (nth_error (g_classes g) c); injection H as <- <-; cbn; now split.
  - cbn [gstep] in H. destruct (nth_error (g_classes g) c) as [mro|].
    + rewrite xrun_one. unfold setup_class.
      apply gsetup_accepted in H as [Hx [[e' ->] [Hc _]]]. rewrite Hx. cbn. now split.
    + injection H as <- <-. cbn. now split.
Qed.

Lemma gevents_cons : forall e ok r, gevents ((e, ok) :: r) = (gevents [(e, ok)] ++ gevents r)%list.
Proof. intros [e'|t| |] ok r; reflexivity. Qed.

(* Every history in the environment (clock, timestamps supplied by clients,
   classes that change) in which ntcore dropped no write as stale behaves,
   operation by operation, as the same history with the environment forgotten *)
Theorem grun_erase : forall h g,
  all_accepted (snd (grun g h)) = true ->
  g_x (fst (grun g h)) = fst (xrun (g_x g) (gerase (g_classes g) h)) /\
  gevents (snd (grun g h)) = snd (xrun (g_x g) (gerase (g_classes g) h)).
Proof.
  induction h as [|o h IH]; intros g Hacc; [split; reflexivity|].
  rewrite grun_cons in *. cbn [fst snd all_accepted forallb] in *.
  apply andb_true_iff in Hacc as [Hok Hacc].
  destruct (gstep g o) as [[g1 e] ok] eqn:E. cbn [fst snd] in *. subst ok.
  destruct (gstep_erase _ _ _ _ E) as [Hx Hc].
  rewrite gerase_cons, xrun_app, Hx. cbn [fst snd].
  destruct (IH g1 Hacc) as [H1 H2]. rewrite Hc in H1, H2.
  split; [exact H1|]. rewrite gevents_cons. now rewrite H2.
Qed.

(* ---- when is every write accepted? ------------------------------------ *)

(* no topic carries a timestamp from the future *)
Definition stamps_le (st : stamps) (now : Z) : Prop := forall k, (stamp_get st k <= now)%Z.

Lemma accepts_le : forall st t, (st <= t)%Z -> accepts st t = true.
Proof. intros. unfold accepts. apply orb_true_iff. right. now apply Z.leb_le. Qed.

Lemma nt_write_at_timely : forall m s k ty v t now,
  stamps_le s now -> (t <= now)%Z -> accepts (stamp_get s k) t = true ->
  exists m' s', nt_write_at m s k ty v t = (m', s', true) /\ stamps_le s' now.
Proof.
  intros m s k ty v t now Hs Ht Ha. unfold nt_write_at. rewrite Ha.
  destruct (is_dup m k ty v); do 2 eexists; (split; [reflexivity|]); [exact Hs|].
  intros k'. simpl. destruct (String.eqb k k'); [exact Ht | apply Hs].
Qed.

Lemma setup_loop_t_timely : forall pfx ds nt st now b,
  stamps_le st now ->
  exists nt' st' b', setup_loop_t pfx ds nt st now b = (nt', st', b', true) /\ stamps_le st' now.
Proof.
  induction ds as [|[d ty] ds IH]; intros nt st now b Hs; cbn [setup_loop_t].
  - do 3 eexists. split; [reflexivity | exact Hs].
  - destruct (starts_with "_" (d_attr d)); [now apply IH|].
    destruct (d_wd d).
    + destruct (nt_write_at_timely nt st (key_in pfx (d_subtable d) (d_attr d)) ty
                  (entry_value ty (d_default d)) now now Hs (Z.le_refl _) (accepts_le _ _ (Hs _)))
        as [nt1 [st1 [E1 Hs1]]].
      rewrite E1.
      destruct (IH nt1 st1 now ((d_attr d, (key_in pfx (d_subtable d) (d_attr d), ty,
                                            entry_value ty (d_default d))) :: b) Hs1)
        as [nt2 [st2 [b2 [E2 Hs2]]]].
      rewrite E2. do 3 eexists. split; [reflexivity | exact Hs2].
    + destruct (IH (nt_set_default nt (key_in pfx (d_subtable d) (d_attr d)) ty
                      (entry_value ty (d_default d))) st now
                   ((d_attr d, (key_in pfx (d_subtable d) (d_attr d), ty,
                                entry_value ty (d_default d))) :: b) Hs)
        as [nt2 [st2 [b2 [E2 Hs2]]]].
      rewrite E2. do 3 eexists. split; [reflexivity | exact Hs2].
Qed.

Lemma gwrite_timely : forall g k ty v t,
  stamps_le (g_stamps g) (g_now g) -> (t <= g_now g)%Z ->
  accepts (stamp_get (g_stamps g) k) t = true ->
  exists g', gwrite g k ty v t = (g', true) /\ stamps_le (g_stamps g') (g_now g').
Proof.
  intros g k ty v t Hs Ht Ha. unfold gwrite.
  destruct (nt_write_at_timely (w_nt (x_w (g_x g))) (g_stamps g) k ty v t (g_now g) Hs Ht Ha)
    as [m' [s' [E Hs']]].
  rewrite E. eexists. split; [reflexivity | exact Hs'].
Qed.

Lemma gsetup_timely : forall g i cls p c,
  stamps_le (g_stamps g) (g_now g) ->
  snd (gsetup g i cls p c) = true /\
  stamps_le (g_stamps (fst (fst (gsetup g i cls p c)))) (g_now (fst (fst (gsetup g i cls p c)))).
Proof.
  intros g i cls p c Hs. unfold gsetup. destruct (class_topics cls) as [ds|]; [|now split].
  destruct (setup_loop_t_timely (key_prefix p c) ds (w_nt (x_w (g_x g))) (g_stamps g) (g_now g) [] Hs)
    as [nt' [st' [b' [E Hs']]]].
  rewrite E. now split.
Qed.

Lemma sel_time_timely : forall now st s, (st <= now)%Z -> sel_timely s = true ->
  (sel_time now st s <= now)%Z /\ accepts st (sel_time now st s) = true.
Proof.
  intros now st [| | |t] Hst Hs; try discriminate; cbn [sel_time].
  - split; [lia | now apply accepts_le].
  - destruct (Z.eqb st 0) eqn:E.
    + split; [lia | now apply accepts_le].
    + split; [exact Hst | apply accepts_le; lia].
Qed.

Lemma gstep_timely : forall g o,
  stamps_le (g_stamps g) (g_now g) -> gop_timely o = true ->
  snd (gstep g o) = true /\
  stamps_le (g_stamps (fst (fst (gstep g o)))) (g_now (fst (fst (gstep g o)))).
Proof.
  intros g o Hs Ho. destruct o as [xo|d|k ty v s|k|c m|i c p n]; cbn [gstep].
  - destruct xo as [[i cls p c|i a v|i a|k ty v|k]|i t]; cbn [gstep].
    + now apply gsetup_timely.
    + destruct (inst_get (w_inst (x_w (g_x g))) i) as [b|]; [|now split].
      destruct (bind_get b a) as [[[key ty] dflt]|]; [|now split].
      destruct (gwrite_timely g key ty (entry_value ty v) (g_now g) Hs (Z.le_refl _)
                  (accepts_le _ _ (Hs _))) as [g' [E Hs']].
      rewrite E. now split.
    + destruct (xstep (g_x g) (XOp (PyRead i a))). now split.
    + destruct (gwrite_timely g k ty (canon v) (g_now g) Hs (Z.le_refl _)
                  (accepts_le _ _ (Hs _))) as [g' [E Hs']].
      rewrite E. now split.
    + destruct (xstep (g_x g) (XOp (NtRead k))). now split.
    + destruct (xstep (g_x g) (XSetTruth i t)). now split.
  - cbn [gop_timely] in Ho. apply Z.leb_le in Ho. split; [reflexivity|].
    cbn. intros k. specialize (Hs k). lia.
  - cbn [gop_timely] in Ho.
    destruct (sel_time_timely (g_now g) (stamp_get (g_stamps g) k) s (Hs k) Ho) as [Ht Ha].
    destruct (gwrite_timely g k ty (canon v) _ Hs Ht Ha) as [g' [E Hs']].
    rewrite E. now split.
  - now split.
  - destruct (nth_error (g_classes g) c); now split.
  - destruct (nth_error (g_classes g) c); [now apply gsetup_timely | now split].
Qed.

(* With a clock that never runs backwards and clients that stamp their
   updates "now" or "same as the value they replace", nothing is ever dropped:
   in particular under a PAUSED clock, where every operation between two
   steps carries the same timestamp *)
Theorem timely_all_accepted : forall h g,
  stamps_le (g_stamps g) (g_now g) -> forallb gop_timely h = true ->
  all_accepted (snd (grun g h)) = true.
Proof.
  induction h as [|o h IH]; intros g Hs Hh; [reflexivity|].
  cbn [forallb] in Hh. apply andb_true_iff in Hh as [Ho Hh].
  rewrite grun_cons. cbn [snd all_accepted forallb].
  destruct (gstep_timely g o Hs Ho) as [-> Hs']. cbn [andb]. now apply IH.
Qed.

(* ... so such a history is, event by event, the history with the environment
   forgotten *)
Theorem timely_erase : forall h g,
  stamps_le (g_stamps g) (g_now g) -> forallb gop_timely h = true ->
  g_x (fst (grun g h)) = fst (xrun (g_x g) (gerase (g_classes g) h)) /\
  gevents (snd (grun g h)) = snd (xrun (g_x g) (gerase (g_classes g) h)).
Proof. intros. apply grun_erase. now apply timely_all_accepted. Qed.

(* C09's read clause with the clock in the picture: after ANY interleaving of
   attribute writes/reads, client writes stamped "now" or "same as the value
   they replace", reads, clock steps (of any size, 0 included: a paused clock)
   and truthiness changes, reading i.a gives the most recent write to its key,
   however the timestamps of the writes compare *)
Theorem read_latest_any_time : forall g h i t b a k ty d,
  stamps_le (g_stamps g) (g_now g) -> forallb gop_timely h = true ->
  no_setup (erase (gerase (g_classes g) h)) = true ->
  inst_get (w_inst (x_w (g_x g))) i = Some b -> bind_get b a = Some (k, ty, d) ->
  tunable_get (x_w (g_x (fst (grun g h)))) (Some (i, t)) a =
  GResult (match last_write (x_w (g_x g)) (erase (gerase (g_classes g) h)) k with
           | Some v => EvVal v
           | None => py_read (x_w (g_x g)) i a
           end).
Proof.
  intros g h i t b a k ty d Hs Hh Hn Hi Ha.
  destruct (timely_erase h g Hs Hh) as [-> _].
  eapply read_latest_any_truth; eassumption.
Qed.

(* the event such a read emits in the middle of the history *)
Theorem read_latest_event_any_time : forall g h1 h2 i b a k ty d,
  stamps_le (g_stamps g) (g_now g) ->
  forallb gop_timely (h1 ++ GX (XOp (PyRead i a)) :: h2) = true ->
  no_setup (erase (gerase (g_classes g) h1)) = true ->
  inst_get (w_inst (x_w (g_x g))) i = Some b -> bind_get b a = Some (k, ty, d) ->
  nth (length (gerase (g_classes g) h1))
      (gevents (snd (grun g (h1 ++ GX (XOp (PyRead i a)) :: h2)))) XDone =
  XEv (match last_write (x_w (g_x g)) (erase (gerase (g_classes g) h1)) k with
       | Some v => EvVal v
       | None => py_read (x_w (g_x g)) i a
       end).
Proof.
  intros g h1 h2 i b a k ty d Hs Hh Hn Hi Ha.
  destruct (timely_erase _ g Hs Hh) as [_ ->].
  assert (E : forall h cl, exists cl',
            gerase cl (h ++ GX (XOp (PyRead i a)) :: h2) =
            (gerase cl h ++ XOp (PyRead i a) :: gerase cl' h2)%list).
  { induction h as [|o h IH]; intros cl; [now exists cl|].
    rewrite <- app_comm_cons, !gerase_cons. destruct (IH (cl_after cl o)) as [cl' ->].
    exists cl'. now rewrite app_assoc. }
  destruct (E h1 (g_classes g)) as [cl' ->].
  eapply read_latest_event_any_truth; eassumption.
Qed.

(* a stale update -- stamped older than the value the topic holds -- is
   dropped by ntcore: nothing changes (the hypothesis of [grun_erase] is needed) *)
Theorem stale_write_dropped : forall g k ty v s,
  accepts (stamp_get (g_stamps g) k) (sel_time (g_now g) (stamp_get (g_stamps g) k) s) = false ->
  gstep g (GNtWriteAt k ty v s) = (g, GEv (XEv EvWrote), false).
Proof.
  intros [[[nt ins] tr] now st cl] k ty v s H. cbn [g_now g_stamps] in H.
  cbn [gstep]. unfold gwrite, nt_write_at. cbn [g_now g_stamps g_x x_w w_nt w_inst x_truth g_classes].
  rewrite H. reflexivity.
Qed.

(* ---- classes that change ---------------------------------------------- *)

Lemma body_get_filter_other : forall b x n, x <> n ->
  body_get (filter (fun y => negb (String.eqb (member_name y) x)) b) n = body_get b n.
Proof.
  induction b as [|y b IH]; intros x n Hne; [reflexivity|]. cbn [filter body_get].
  destruct (String.eqb (member_name y) x) eqn:E; cbn [negb].
  - apply String.eqb_eq in E. destruct (String.eqb (member_name y) n) eqn:E2.
    + apply String.eqb_eq in E2. congruence.
    + now apply IH.
  - cbn [body_get]. destruct (String.eqb (member_name y) n); [reflexivity | now apply IH].
Qed.

Lemma body_get_assign : forall b m n,
  body_get (body_assign b m) n =
  if String.eqb (member_name m) n then Some m else body_get b n.
Proof.
  intros b m n. unfold body_assign. cbn [body_get].
  destruct (String.eqb (member_name m) n) eqn:E; [reflexivity|].
  apply body_get_filter_other. intros Hn. subst n. now rewrite String.eqb_refl in E.
Qed.

(* `cls.name = obj`: attribute lookup on the class finds obj under that name
   and what it found before under every other name *)
Theorem class_getattr_assign : forall mro m n,
  class_getattr (mro_assign mro m) n =
  if String.eqb (member_name m) n then Some m else class_getattr mro n.
Proof.
  intros [|b r] m n; cbn [mro_assign class_getattr].
  - cbn [body_get]. now destruct (String.eqb (member_name m) n).
  - rewrite body_get_assign. now destruct (String.eqb (member_name m) n).
Qed.

Lemma classes_assign_same : forall cl c m mro,
  nth_error cl c = Some mro -> nth_error (classes_assign cl c m) c = Some (mro_assign mro m).
Proof.
  induction cl as [|x cl IH]; intros [|c] m mro H; try discriminate; cbn in *.
  - now injection H as ->.
  - now apply IH.
Qed.

Lemma classes_assign_other : forall cl c m c', c' <> c ->
  nth_error (classes_assign cl c m) c' = nth_error cl c'.
Proof.
  induction cl as [|x cl IH]; intros [|c] m [|c'] H; try reflexivity; try congruence.
  cbn. apply IH. congruence.
Qed.

(* assigning to a class attribute touches nothing but that class: no topic,
   no timestamp, no binding of an instance that is already set up, no other
   class *)
Theorem class_assign_changes_nothing_else : forall g c m,
  let g' := fst (fst (gstep g (GClassAssign c m))) in
  g_x g' = g_x g /\ g_stamps g' = g_stamps g /\ g_now g' = g_now g /\
  snd (gstep g (GClassAssign c m)) = true /\
  forall c', c' <> c -> nth_error (g_classes g') c' = nth_error (g_classes g) c'.
Proof.
  intros g c m. cbn [gstep]. destruct (nth_error (g_classes g) c) eqn:E; cbn.
  - repeat split. intros c' Hc. now apply classes_assign_other.
  - repeat split.
Qed.

(* setup_tunables binds the tunables the class has AT THAT MOMENT: per public
   name the tunable attribute lookup finds now, at the documented key, with
   its topic type, its default and its writeDefault flag *)
Theorem setup_binds_current_class : forall g i c mro p n d,
  stamps_le (g_stamps g) (g_now g) ->
  nth_error (g_classes g) c = Some mro ->
  (forall b x, In b mro -> In x b -> no_slash (member_name x) = true) ->
  class_getattr mro (d_attr d) = Some (MTun d) -> public d = true ->
  snd (fst (gstep g (GSetupOf i c p n))) = GEv (XEv (EvSetup true)) ->
  snd (gstep g (GSetupOf i c p n)) = true /\
  exists b ty,
    inst_get (w_inst (x_w (g_x (fst (fst (gstep g (GSetupOf i c p n))))))) i = Some b /\
    decl_topic (d_default d) (d_hint d) = Ok ty /\
    bind_get b (d_attr d) =
      Some (key_of p n (d_subtable d) (d_attr d), ty, entry_value ty (d_default d)) /\
    nt_get (w_nt (x_w (g_x (fst (fst (gstep g (GSetupOf i c p n)))))))
           (key_of p n (d_subtable d) (d_attr d)) =
    if d_wd d then Some (ty, entry_value ty (d_default d))
    else match nt_get (w_nt (x_w (g_x g))) (key_of p n (d_subtable d) (d_attr d)) with
         | Some tv => Some tv
         | None => Some (ty, entry_value ty (d_default d))
         end.
Proof.
  intros g i c mro p n d Hs Hc Hns Hg Hpub Hev. cbn [gstep] in *. rewrite Hc in *.
  destruct (gsetup_timely g i (class_members mro) p n Hs) as [Hok _].
  split; [exact Hok|].
  destruct (gsetup g i (class_members mro) p n) as [[g2 e] ok] eqn:E. cbn [fst snd] in *. subst ok e.
  apply gsetup_accepted in E as [Hx _]. rewrite xstep_op in Hx. cbn iota in Hx. injection Hx as Hx He.
  rewrite <- Hx. cbn [x_w].
  apply (setup_hierarchy (x_w (g_x g)) i mro p n d Hns Hg Hpub). unfold setup_class. exact He.
Qed.

(* ... in particular after `cls.A = tunable(v)` (what every construction of a
   magicbot StateMachine does with state_names / state_descriptions): an
   instance set up afterwards has A bound to the NEW tunable *)
Theorem setup_after_class_assign : forall g i c mro p n d,
  stamps_le (g_stamps g) (g_now g) ->
  nth_error (g_classes g) c = Some mro ->
  (forall b x, In b (mro_assign mro (MTun d)) -> In x b -> no_slash (member_name x) = true) ->
  public d = true ->
  let g1 := fst (fst (gstep g (GClassAssign c (MTun d)))) in
  snd (fst (gstep g1 (GSetupOf i c p n))) = GEv (XEv (EvSetup true)) ->
  exists b ty,
    inst_get (w_inst (x_w (g_x (fst (fst (gstep g1 (GSetupOf i c p n))))))) i = Some b /\
    decl_topic (d_default d) (d_hint d) = Ok ty /\
    bind_get b (d_attr d) =
      Some (key_of p n (d_subtable d) (d_attr d), ty, entry_value ty (d_default d)) /\
    nt_get (w_nt (x_w (g_x (fst (fst (gstep g1 (GSetupOf i c p n)))))))
           (key_of p n (d_subtable d) (d_attr d)) =
    if d_wd d then Some (ty, entry_value ty (d_default d))
    else match nt_get (w_nt (x_w (g_x g))) (key_of p n (d_subtable d) (d_attr d)) with
         | Some tv => Some tv
         | None => Some (ty, entry_value ty (d_default d))
         end.
Proof.
  intros g i c mro p n d Hs Hc Hns Hpub g1 Hev.
  assert (E1 : g1 = mkg (g_x g) (g_now g) (g_stamps g) (classes_assign (g_classes g) c (MTun d))).
  { unfold g1. cbn [gstep]. now rewrite Hc. }
  assert (Hg : class_getattr (mro_assign mro (MTun d)) (d_attr d) = Some (MTun d)).
  { rewrite class_getattr_assign. cbn [member_name]. now rewrite String.eqb_refl. }
  destruct (setup_binds_current_class g1 i c (mro_assign mro (MTun d)) p n d) as [_ H]; try assumption.
  - now rewrite E1.
  - rewrite E1. cbn [g_classes]. now apply classes_assign_same.
  - assert (Ex : g_x g1 = g_x g) by now rewrite E1.
    rewrite Ex in H. exact H.
Qed.

(* ================================================================== *)
(* N. The key is plain concatenation: whatever characters the subtable  *)
(*    and the owner's name contain, owners bound under different names  *)
(*    get different topics for the same tunable                         *)
(* ================================================================== *)

Lemma string_length_append : forall a b : string,
  String.length (a ++ b) = (String.length a + String.length b)%nat.
Proof. induction a as [|c a IH]; intros b; simpl; [reflexivity | now rewrite IH]. Qed.

Lemma append_inj_r : forall a b r : string, a ++ r = b ++ r -> a = b.
Proof.
  induction a as [|c a IH]; intros [|d b] r H; simpl in H.
  - reflexivity.
  - apply (f_equal String.length) in H. simpl in H. rewrite string_length_append in H. lia.
  - apply (f_equal String.length) in H. simpl in H. rewrite string_length_append in H. lia.
  - injection H as -> H. f_equal. now apply (IH b r).
Qed.

(* the part of the key after the owner's table does not depend on the owner *)
Definition key_tail (s : option string) (n : string) : string :=
  match s with
  | None => "/" ++ n
  | Some s' => if String.eqb s' "" then "/" ++ n else "/" ++ s' ++ "/" ++ n
  end.

Lemma key_in_tail : forall pfx s n, key_in pfx s n = pfx ++ key_tail s n.
Proof.
  intros pfx [s'|] n; unfold key_in, key_tail; [|reflexivity].
  destruct (String.eqb s' ""); reflexivity.
Qed.

(* a non-empty subtable string S is inserted VERBATIM, slashes, dots and all *)
Theorem key_verbatim : forall p c S A, S <> "" ->
  key_of p c (Some S) A = key_prefix p c ++ "/" ++ S ++ "/" ++ A.
Proof.
  intros p c S A HS. unfold key_of, key_in.
  destruct (String.eqb S "") eqn:E; [apply String.eqb_eq in E; contradiction | reflexivity].
Qed.

(* same prefix, same tunable (subtable, attribute), names with ANY characters *)
Theorem key_of_inj_name : forall p c1 c2 s a,
  key_of p c1 s a = key_of p c2 s a -> c1 = c2.
Proof.
  intros p c1 c2 s a H. unfold key_of in H. rewrite !key_in_tail in H.
  apply append_inj_r in H. unfold key_prefix in H. destruct p as [p|].
  - rewrite <- !append_assoc in H. now apply append_inj_l in H.
  - now apply append_inj_l in H.
Qed.

Theorem key_of_other_name : forall p c1 c2 s a, c1 <> c2 -> key_of p c1 s a <> key_of p c2 s a.
Proof. intros p c1 c2 s a Hne H. apply Hne. eapply key_of_inj_name; eassumption. Qed.

(* ... and across the three documented owner kinds *)
Theorem owner_key_inj : forall o1 o2 s a, owner_key o1 s a = owner_key o2 s a -> o1 = o2.
Proof.
  intros o1 o2 s a H. unfold owner_key in H.
  destruct o1 as [n1|n1|], o2 as [n2|n2|]; cbn [owner_prefix owner_cname] in H;
    try (apply key_of_inj_name in H; now subst);
    try reflexivity;
    unfold key_of in H; rewrite !key_in_tail in H; cbn in H; discriminate H.
Qed.

(* ================================================================== *)
(* O. Accesses made from inside the framework's loop functions          *)
(* ================================================================== *)
Local Open Scope list_scope.

Lemma loop_history_app : forall p1 p2,
  loop_history (p1 ++ p2) = (loop_history p1 ++ loop_history p2)%list.
Proof. intros. unfold loop_history. now rewrite map_app, concat_app. Qed.

(* the operations of a history up to an operation that sits somewhere inside
   a pass: all earlier passes, the earlier locations of this pass, the earlier
   operations of this location *)
Lemma loop_history_split : forall before locs1 ops1 (o : gop) ops2 locs2 after,
  loop_history (before ++ [locs1 ++ (ops1 ++ o :: ops2) :: locs2] ++ after) =
  ((loop_history before ++ concat locs1 ++ ops1) ++ o :: (ops2 ++ concat locs2 ++ loop_history after))%list.
Proof.
  intros. rewrite !loop_history_app. unfold loop_history at 2. cbn [map concat].
  rewrite app_nil_r, concat_app. cbn [concat]. rewrite <- !app_assoc. reflexivity.
Qed.

(* C09's read clause for an attribute read made from ANY place of ANY pass
   (a component's execute(), teleopPeriodic(), a @feedback getter, between
   two passes): it gives the most recent write to its key among everything
   that happened before it -- in earlier passes, earlier in this pass (other
   components' execute(), a dashboard update that arrived meanwhile), earlier
   in the same function *)
Theorem read_latest_inside_a_pass : forall g before locs1 ops1 i a ops2 locs2 after b k ty d,
  stamps_le (g_stamps g) (g_now g) ->
  forallb gop_timely
    (loop_history (before ++ [locs1 ++ (ops1 ++ GX (XOp (PyRead i a)) :: ops2) :: locs2] ++ after)) = true ->
  no_setup (erase (gerase (g_classes g) (loop_history before ++ concat locs1 ++ ops1))) = true ->
  inst_get (w_inst (x_w (g_x g))) i = Some b -> bind_get b a = Some (k, ty, d) ->
  nth (length (gerase (g_classes g) (loop_history before ++ concat locs1 ++ ops1)))
      (gevents (snd (grun g (loop_history
         (before ++ [locs1 ++ (ops1 ++ GX (XOp (PyRead i a)) :: ops2) :: locs2] ++ after))))) XDone =
  XEv (match last_write (x_w (g_x g))
               (erase (gerase (g_classes g) (loop_history before ++ concat locs1 ++ ops1))) k with
       | Some v => EvVal v
       | None => py_read (x_w (g_x g)) i a
       end).
Proof.
  intros g before locs1 ops1 i a ops2 locs2 after b k ty d Hs Ht Hn Hi Ha.
  rewrite loop_history_split in *.
  eapply read_latest_event_any_time; eassumption.
Qed.

(* regrouping the same operations into other passes / locations changes nothing *)
Theorem loop_structure_irrelevant : forall g p1 p2,
  loop_history p1 = loop_history p2 -> grun g (loop_history p1) = grun g (loop_history p2).
Proof. intros g p1 p2 H. now rewrite H. Qed.
