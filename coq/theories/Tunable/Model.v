(* Model of magicbot/magic_tunable.py (tunable descriptor, setup_tunables,
   _get_topic_type, _get_topic_type_for_value, feedback key/type derivation of
   collect_feedbacks).  No proofs in this file.

   NetworkTables is modelled as a finite map  key -> (topic type, value).
   What is NOT in the model (ntcore behaviour): an existing topic of a
   different type (type conflict), values whose Python type does not fit the
   topic and that pybind rejects (the accepted conversions along the numeric
   tower ARE modelled: entry_value), the network, unpublishing; a class that
   binds ONE tunable object under two public names (section 12). *)
From Coq Require Import String Ascii List Bool ZArith NArith.
Import ListNotations.
Open Scope string_scope.

(* ------------------------------------------------------------------ *)
(* 1. Python values and type expressions                               *)
(* ------------------------------------------------------------------ *)

(* element types: the keys of _topic_types, "has a WPIStruct attribute"
   (named struct class), anything else (NoneType, dict, a nested list ...) *)
Inductive base :=
| BBool | BInt | BFloat | BStr | BBytes
| BStruct (sname : string)
| BOther.

(* scalar Python objects.  Floats are dyadic: [SFloat n] is n/64. Structs are
   a class name and their fields (again in 1/64). *)
Inductive scalar :=
| SBool (b : bool)
| SInt (z : Z)
| SFloat (n : Z)
| SStr (s : string)
| SBytes (l : list N)
| SStruct (sname : string) (fields : list Z)
| SOther.

Inductive value :=
| VScalar (s : scalar)
| VList (l : list scalar)
| VTuple (l : list scalar).

Definition base_of (s : scalar) : base :=
  match s with
  | SBool _ => BBool | SInt _ => BInt | SFloat _ => BFloat | SStr _ => BStr
  | SBytes _ => BBytes | SStruct n _ => BStruct n | SOther => BOther
  end.

(* bool(x) *)
Definition truthy_scalar (s : scalar) : bool :=
  match s with
  | SBool b => b
  | SInt z => negb (Z.eqb z 0)
  | SFloat n => negb (Z.eqb n 0)
  | SStr s => negb (String.eqb s "")
  | SBytes l => match l with [] => false | _ => true end
  | SStruct _ _ => true
  | SOther => false
  end.
Definition truthy (v : value) : bool :=
  match v with
  | VScalar s => truthy_scalar s
  | VList l | VTuple l => match l with [] => false | _ => true end
  end.

(* isinstance(x, collections.abc.Sequence): str and bytes are Sequences *)
Definition is_sequence (v : value) : bool :=
  match v with
  | VScalar (SStr _) | VScalar (SBytes _) => true
  | VScalar _ => false
  | VList _ | VTuple _ => true
  end.

(* what an ntcore entry hands back: arrays are lists *)
Definition canon (v : value) : value :=
  match v with VTuple l => VList l | _ => v end.

(* type expressions as _get_topic_type sees them: a plain class, a bare
   list/tuple/Sequence (no __origin__/no args), or a PEP 484/585 generic alias
   origin[args] with origin in (list, tuple, Sequence).  typing.List[T] etc.
   have the same origin and args as list[T]. *)
Inductive targ := ABase (b : base) | AEllipsis.
Inductive origin := OList | OTuple | OSeq.
Inductive tyexpr :=
| TBase (b : base)
| TBare (o : origin)
| TGen (o : origin) (args : list targ).

Inductive ntype :=
| NBoolean | NInteger | NDouble | NString | NRaw | NStruct (sname : string)
| NBooleanArr | NIntegerArr | NDoubleArr | NStringArr | NStructArr (sname : string).

(* Topic.getTypeString() of a topic published with that topic class *)
Definition type_string (t : ntype) : string :=
  match t with
  | NBoolean => "boolean" | NInteger => "int" | NDouble => "double"
  | NString => "string" | NRaw => "raw" | NStruct n => "struct:" ++ n
  | NBooleanArr => "boolean[]" | NIntegerArr => "int[]" | NDoubleArr => "double[]"
  | NStringArr => "string[]" | NStructArr n => "struct:" ++ n ++ "[]"
  end.

Definition base_eqb (a b : base) : bool :=
  match a, b with
  | BBool, BBool | BInt, BInt | BFloat, BFloat | BStr, BStr | BBytes, BBytes
  | BOther, BOther => true
  | BStruct x, BStruct y => String.eqb x y
  | _, _ => false
  end.
Definition targ_eqb (a b : targ) : bool :=
  match a, b with
  | ABase x, ABase y => base_eqb x y
  | AEllipsis, AEllipsis => true
  | _, _ => false
  end.

(* ------------------------------------------------------------------ *)
(* 2. _topic_types, _array_topic_types, _get_topic_type                 *)
(* ------------------------------------------------------------------ *)

(* `annotation in _topic_types` / `hasattr(annotation, "WPIStruct")` *)
Definition scalar_topic (b : base) : option ntype :=
  match b with
  | BBool => Some NBoolean | BInt => Some NInteger | BFloat => Some NDouble
  | BStr => Some NString | BBytes => Some NRaw
  | BStruct n => Some (NStruct n)
  | BOther => None
  end.

(* `inner_type in _array_topic_types` / `hasattr(inner_type, "WPIStruct")` *)
Definition array_topic (b : base) : option ntype :=
  match b with
  | BBool => Some NBooleanArr | BInt => Some NIntegerArr | BFloat => Some NDoubleArr
  | BStr => Some NStringArr
  | BStruct n => Some (NStructArr n)
  | BBytes | BOther => None
  end.

Definition is_ellipsis (a : targ) : bool :=
  match a with AEllipsis => true | _ => false end.

(* (len(args) == 2 and args[1] is Ellipsis) or len(set(args)) == 1 *)
Definition tuple_args_ok (args : list targ) : bool :=
  match args with
  | [] => false
  | a0 :: rest =>
      (match rest with [a1] => is_ellipsis a1 | _ => false end)
      || forallb (targ_eqb a0) rest
  end.

Definition is_tuple (o : origin) : bool :=
  match o with OTuple => true | _ => false end.

Definition get_topic_type (t : tyexpr) : option ntype :=
  match t with
  | TBase b => scalar_topic b          (* BOther: no origin, falls to `return None` *)
  | TBare _ => None                    (* no __origin__ *)
  | TGen o args =>
      match args with
      | [] => None                     (* `and args` *)
      | a0 :: _ =>
          if is_tuple o && negb (tuple_args_ok args) then None
          else match a0 with
               | ABase b => array_topic b
               | AEllipsis => None
               end
      end
  end.

(* ------------------------------------------------------------------ *)
(* 3. _get_topic_type_for_value, tunable.__init__, __set_name__         *)
(* ------------------------------------------------------------------ *)

Inductive res (A : Type) :=
| Ok (a : A)
| RaiseTypeError
| RaiseValueError.
Arguments Ok {A} a.
Arguments RaiseTypeError {A}.
Arguments RaiseValueError {A}.

Definition type_of_value (v : value) : tyexpr :=
  match v with
  | VScalar s => TBase (base_of s)
  | VList _ => TBare OList
  | VTuple _ => TBare OTuple
  end.

Definition elems (v : value) : list scalar :=
  match v with VScalar _ => [] | VList l | VTuple l => l end.

Definition topic_for_value (v : value) : res (option ntype) :=
  match get_topic_type (type_of_value v) with
  | Some t => Ok (Some t)
  | None =>
      if is_sequence v then
        match elems v with
        | [] => RaiseValueError                      (* "cannot be an empty sequence" *)
        | e :: _ => Ok (get_topic_type (TGen OSeq [ABase (base_of e)]))
        end
      else Ok None
  end.

(* tunable.__init__: the check is deferred for empty sequences *)
Definition tunable_init (default : value) : res unit :=
  if truthy default || negb (is_sequence default) then
    match topic_for_value default with
    | Ok (Some _) => Ok tt
    | Ok None => RaiseTypeError
    | RaiseTypeError => RaiseTypeError
    | RaiseValueError => RaiseValueError
    end
  else Ok tt.

(* tunable.__set_name__: [hint] is the type hint after unwrapping
   tunable[H](...), ClassVar[tunable[H]], tunable[H] or a plain annotation H *)
Definition tunable_set_name (default : value) (hint : option tyexpr) : res ntype :=
  let tt := match hint with
            | Some h => Ok (get_topic_type h)
            | None => topic_for_value default
            end in
  match tt with
  | Ok (Some t) => Ok t
  | Ok None => RaiseTypeError
  | RaiseTypeError => RaiseTypeError
  | RaiseValueError => RaiseValueError
  end.

(* class creation for one tunable attribute *)
Definition decl_topic (default : value) (hint : option tyexpr) : res ntype :=
  match tunable_init default with
  | Ok _ => tunable_set_name default hint
  | RaiseTypeError => RaiseTypeError
  | RaiseValueError => RaiseValueError
  end.

Definition res_to_option {A} (r : res A) : option A :=
  match r with Ok a => Some a | _ => None end.

(* ---- how the hint reaches __set_name__ ------------------------------ *)

(* The annotation expression of  `x: <ann> = tunable(...)`  as __set_name__
   accepts it: H or tunable[H], each possibly inside ClassVar[...]
   (typing rejects a nested ClassVar). *)
Inductive anninner :=
| IType (h : tyexpr)                 (* H            *)
| ITunable (h : tyexpr).             (* tunable[H]   *)
Inductive annexpr :=
| APlain (i : anninner)              (* i            *)
| AClassVar (i : anninner).          (* ClassVar[i]  *)

(* What the class body leaves in owner.__annotations__[name]:
   - RObj: the evaluated object;
   - RStr: a str with the source text of the expression -- every annotation
     of a module that starts with `from __future__ import annotations`
     (PEP 563), or a hint written in quotes;
   - RFwd: an evaluated object whose outermost subscript argument was written
     in quotes (ClassVar["tunable[H]"], tunable["H"], list["float"]): it
     holds a typing.ForwardRef / a str argument.
   The model identifies a source text with the expression it denotes: every
   name in it resolves, in the namespace typing.get_type_hints evaluates it in
   (module globals, then the class namespace), to the object the same
   expression evaluates to in the class body. *)
Inductive rawann :=
| RObj (a : annexpr)
| RStr (a : annexpr)
| RFwd (a : annexpr).

(* typing.get_type_hints(owner).get(name): string annotations and forward
   references are evaluated *)
Definition get_type_hints (r : rawann) : annexpr :=
  match r with RObj a => a | RStr a => a | RFwd a => a end.

(* one tunable of a class body:  x [: ann] = tunable[orig](default) *)
Record srcdecl := mksrc {
  s_orig : option tyexpr;            (* tunable[H](...): args of __orig_class__ *)
  s_ann : option rawann              (* owner.__annotations__.get(name)          *)
}.

(* origin is typing.ClassVar -> type_hint = get_args(type_hint)[0] *)
Definition strip_classvar (a : annexpr) : anninner :=
  match a with APlain i => i | AClassVar i => i end.
(* origin is tunable -> type_hint = get_args(type_hint)[0] *)
Definition strip_tunable (i : anninner) : tyexpr :=
  match i with IType h => h | ITunable h => h end.

(* the first half of tunable.__set_name__: __orig_class__ wins, else the
   evaluated annotation, unwrapped *)
Definition set_name_hint (s : srcdecl) : option tyexpr :=
  match s_orig s with
  | Some h => Some h
  | None =>
      match s_ann s with
      | Some r => Some (strip_tunable (strip_classvar (get_type_hints r)))
      | None => None
      end
  end.

(* class creation for one tunable attribute, from the way it is written *)
Definition decl_topic_src (default : value) (s : srcdecl) : res ntype :=
  decl_topic default (set_name_hint s).

(* None exactly where the class definition raises *)
Definition topic_of_default (default : value) : option ntype :=
  res_to_option (decl_topic default None).
Definition topic_of_hint (hint : tyexpr) (default : value) : option ntype :=
  res_to_option (decl_topic default (Some hint)).

(* ------------------------------------------------------------------ *)
(* 4. Keys                                                              *)
(* ------------------------------------------------------------------ *)

Fixpoint starts_with (p s : string) : bool :=
  match p with
  | EmptyString => true
  | String c p' => match s with
                   | EmptyString => false
                   | String d s' => Ascii.eqb c d && starts_with p' s'
                   end
  end.

Fixpoint drop (n : nat) (s : string) : string :=
  match n with
  | O => s
  | S k => match s with EmptyString => EmptyString | String _ s' => drop k s' end
  end.

(* prefix = f"/{cname}" if prefix is None else f"/{prefix}/{cname}" *)
Definition key_prefix (prefix : option string) (cname : string) : string :=
  match prefix with
  | None => "/" ++ cname
  | Some p => "/" ++ p ++ "/" ++ cname
  end.

(* if prop._ntsubtable: f"{prefix}/{subtable}/{n}" else f"{prefix}/{n}" *)
Definition key_in (pfx : string) (subtable : option string) (n : string) : string :=
  match subtable with
  | None => pfx ++ "/" ++ n
  | Some s => if String.eqb s "" then pfx ++ "/" ++ n
              else pfx ++ "/" ++ s ++ "/" ++ n
  end.

Definition key_of (prefix : option string) (cname : string)
           (subtable : option string) (attr : string) : string :=
  key_in (key_prefix prefix cname) subtable attr.

(* the three documented owner kinds and how MagicRobot binds them
   (magicrobot.py: setup_tunables(component, cname, "components"),
   setup_tunables(mode, mode.MODE_NAME, "autonomous"),
   setup_tunables(self, "robot", None)) *)
Inductive owner :=
| OComponent (name : string)
| OAutonomous (name : string)
| ORobot.

Definition owner_prefix (o : owner) : option string :=
  match o with
  | OComponent _ => Some "components"
  | OAutonomous _ => Some "autonomous"
  | ORobot => None
  end.
Definition owner_cname (o : owner) : string :=
  match o with
  | OComponent n | OAutonomous n => n
  | ORobot => "robot"
  end.
Definition owner_pfx (o : owner) : string :=
  key_prefix (owner_prefix o) (owner_cname o).
Definition owner_key (o : owner) (subtable : option string) (attr : string) : string :=
  key_of (owner_prefix o) (owner_cname o) subtable attr.

Fixpoint no_slash (s : string) : bool :=
  match s with
  | EmptyString => true
  | String c s' => negb (Ascii.eqb c "/") && no_slash s'
  end.

Definition owner_name_ok (o : owner) : bool :=
  match o with
  | OComponent n | OAutonomous n => no_slash n
  | ORobot => true
  end.

(* ------------------------------------------------------------------ *)
(* 5. NetworkTables as a finite map                                     *)
(* ------------------------------------------------------------------ *)

Definition ntmap := list (string * (ntype * value)).

Fixpoint nt_get (m : ntmap) (k : string) : option (ntype * value) :=
  match m with
  | [] => None
  | (k', tv) :: r => if String.eqb k' k then Some tv else nt_get r k
  end.

(* Entry.set / Publisher.set through an entry of type [ty] *)
Fixpoint nt_set (m : ntmap) (k : string) (ty : ntype) (v : value) : ntmap :=
  match m with
  | [] => [(k, (ty, v))]
  | (k', tv) :: r => if String.eqb k' k then (k', (ty, v)) :: r
                     else (k', tv) :: nt_set r k ty v
  end.

(* Entry.setDefault: only when the topic has no value *)
Definition nt_set_default (m : ntmap) (k : string) (ty : ntype) (v : value) : ntmap :=
  match nt_get m k with
  | Some _ => m
  | None => nt_set m k ty v
  end.

(* What a TYPED entry stores for the Python object handed to it
   (Topic.getEntry(default), Entry.set(value), Entry.setDefault(value)): the
   pybind argument conversion of pyntcore follows Python's numeric tower -- a
   bool is an int, an int (or bool) is accepted where a float is expected and
   arrives as that float; tuples arrive as lists.  Nothing else is converted
   here: a float handed to an integer entry, a str to a numeric one ... are
   rejected by pybind (TypeError) and stay outside the model.
   (int -> double is exact in the model; the implementation rounds to the
   nearest double beyond 2^53.) *)
Definition to_double (s : scalar) : scalar :=
  match s with
  | SInt z => SFloat (64 * z)
  | SBool b => SFloat (if b then 64 else 0)
  | _ => s
  end.
Definition to_integer (s : scalar) : scalar :=
  match s with
  | SBool b => SInt (if b then 1 else 0)
  | _ => s
  end.
Definition entry_value (ty : ntype) (v : value) : value :=
  match ty, canon v with
  | NDouble, VScalar s => VScalar (to_double s)
  | NInteger, VScalar s => VScalar (to_integer s)
  | NDoubleArr, VList l => VList (map to_double l)
  | NIntegerArr, VList l => VList (map to_integer l)
  | _, c => c
  end.

(* "v is a value of the topic's type": a scalar of the element type, resp. a
   list / tuple of such scalars *)
Definition ntype_kind (ty : ntype) : bool * base :=
  match ty with
  | NBoolean => (false, BBool) | NInteger => (false, BInt) | NDouble => (false, BFloat)
  | NString => (false, BStr) | NRaw => (false, BBytes) | NStruct n => (false, BStruct n)
  | NBooleanArr => (true, BBool) | NIntegerArr => (true, BInt) | NDoubleArr => (true, BFloat)
  | NStringArr => (true, BStr) | NStructArr n => (true, BStruct n)
  end.
Definition fits (ty : ntype) (v : value) : bool :=
  match ntype_kind ty, v with
  | (false, b), VScalar s => base_eqb (base_of s) b
  | (true, b), VList l | (true, b), VTuple l => forallb (fun s => base_eqb (base_of s) b) l
  | _, _ => false
  end.

(* ------------------------------------------------------------------ *)
(* 6. Classes, instances, setup_tunables, the descriptor                *)
(* ------------------------------------------------------------------ *)

Record decl := mkdecl {
  d_attr : string;                 (* attribute name (dir(cls) entry)      *)
  d_default : value;
  d_hint : option tyexpr;
  d_subtable : option string;
  d_wd : bool                      (* writeDefault                         *)
}.

(* per-instance map  tunable |-> entry  (component._tunables); an entry knows
   its key, its topic type and the default handed to getEntry *)
Definition entry := (string * ntype * value)%type.
Definition binding := list (string * entry).

Fixpoint bind_get (b : binding) (attr : string) : option entry :=
  match b with
  | [] => None
  | (a, e) :: r => if String.eqb a attr then Some e else bind_get r attr
  end.

Record world := mkworld {
  w_nt : ntmap;
  w_inst : list (nat * binding)
}.

Fixpoint inst_get (l : list (nat * binding)) (i : nat) : option binding :=
  match l with
  | [] => None
  | (j, b) :: r => if Nat.eqb j i then Some b else inst_get r i
  end.

Definition w0 : world := mkworld [] [].

(* the topic type of every tunable of the class, or None when the class
   statement itself raises *)
Fixpoint class_topics (ds : list decl) : option (list (decl * ntype)) :=
  match ds with
  | [] => Some []
  | d :: r =>
      match decl_topic (d_default d) (d_hint d), class_topics r with
      | Ok t, Some l => Some ((d, t) :: l)
      | _, _ => None
      end
  end.

(* the loop of setup_tunables over dir(cls) *)
Fixpoint setup_loop (pfx : string) (ds : list (decl * ntype)) (nt : ntmap) (b : binding)
  : ntmap * binding :=
  match ds with
  | [] => (nt, b)
  | (d, ty) :: r =>
      if starts_with "_" (d_attr d) then setup_loop pfx r nt b
      else
        let key := key_in pfx (d_subtable d) (d_attr d) in
        let v := entry_value ty (d_default d) in     (* getEntry(default) / set / setDefault *)
        let nt' := if d_wd d then nt_set nt key ty v else nt_set_default nt key ty v in
        setup_loop pfx r nt' ((d_attr d, (key, ty, v)) :: b)
  end.

Inductive op :=
| Setup (i : nat) (cls : list decl) (prefix : option string) (cname : string)
| PyWrite (i : nat) (attr : string) (v : value)     (* instance.attr = v *)
| PyRead (i : nat) (attr : string)                  (* instance.attr     *)
| NtWrite (key : string) (ty : ntype) (v : value)   (* an independent publisher *)
| NtRead (key : string).                            (* an independent subscriber *)

Inductive event :=
| EvSetup (ok : bool)
| EvWrote
| EvVal (v : value)
| EvErr                                   (* AttributeError / KeyError *)
| EvNt (r : option (ntype * value)).

(* tunable.__get__ : instance._tunables[self].get() *)
Definition py_read (w : world) (i : nat) (attr : string) : event :=
  match inst_get (w_inst w) i with
  | None => EvErr
  | Some b =>
      match bind_get b attr with
      | None => EvErr
      | Some (key, _, dflt) =>
          match nt_get (w_nt w) key with
          | Some (_, v) => EvVal v
          | None => EvVal dflt
          end
      end
  end.

Definition step (w : world) (o : op) : world * event :=
  match o with
  | Setup i cls prefix cname =>
      match class_topics cls with
      | None => (w, EvSetup false)
      | Some ds =>
          let '(nt', b) := setup_loop (key_prefix prefix cname) ds (w_nt w) [] in
          (mkworld nt' ((i, b) :: w_inst w), EvSetup true)
      end
  | PyWrite i attr v =>
      match inst_get (w_inst w) i with
      | None => (w, EvErr)
      | Some b =>
          match bind_get b attr with
          | None => (w, EvErr)
          | Some (key, ty, _) =>
              (mkworld (nt_set (w_nt w) key ty (entry_value ty v)) (w_inst w), EvWrote)
          end
      end
  | PyRead i attr => (w, py_read w i attr)
  | NtWrite key ty v => (mkworld (nt_set (w_nt w) key ty (canon v)) (w_inst w), EvWrote)
  | NtRead key => (w, EvNt (nt_get (w_nt w) key))
  end.

Fixpoint run (w : world) (h : list op) : world * list event :=
  match h with
  | [] => (w, [])
  | o :: r =>
      let '(w1, e) := step w o in
      let '(w2, es) := run w1 r in
      (w2, e :: es)
  end.

(* ------------------------------------------------------------------ *)
(* 7. Specification vocabulary for the history theorems                 *)
(* ------------------------------------------------------------------ *)

Definition is_setup (o : op) : bool :=
  match o with Setup _ _ _ _ => true | _ => false end.

(* "executing [o] with the bindings of [w] writes [v] to topic [k]" *)
Definition op_writes (w : world) (o : op) (k : string) : option value :=
  match o with
  | PyWrite j b v =>
      match inst_get (w_inst w) j with
      | None => None
      | Some bd =>
          match bind_get bd b with
          | Some (k', ty, _) => if String.eqb k' k then Some (entry_value ty v) else None
          | None => None
          end
      end
  | NtWrite k' _ v => if String.eqb k' k then Some (canon v) else None
  | _ => None
  end.

(* the most recent write to [k] in [h] (latest wins), if any *)
Fixpoint last_write (w : world) (h : list op) (k : string) : option value :=
  match h with
  | [] => None
  | o :: r =>
      match last_write w r k with
      | Some v => Some v
      | None => op_writes w o k
      end
  end.

(* the attribute names setup_tunables binds *)
Definition public (d : decl) : bool := negb (starts_with "_" (d_attr d)).

(* ------------------------------------------------------------------ *)
(* 8. @feedback: key and topic type derivation of collect_feedbacks     *)
(*    (reused by C11)                                                   *)
(* ------------------------------------------------------------------ *)

(* key = method._magic_feedback_key; if key is None:
     key = name[4:] if name.startswith("get_") else name *)
Definition fb_key (explicit : option string) (name : string) : string :=
  match explicit with
  | Some k => k
  | None => if starts_with "get_" name then drop 4 name else name
  end.

(* NetworkTableInstance.getTable(prefix).getTopic(key) / getEntry(key) *)
Definition fb_topic_key (prefix : option string) (cname : string)
           (explicit : option string) (name : string) : string :=
  key_prefix prefix cname ++ "/" ++ fb_key explicit name.
Definition fb_owner_key (o : owner) (explicit : option string) (name : string) : string :=
  fb_topic_key (owner_prefix o) (owner_cname o) explicit name.

(* what collect_feedbacks creates for a getter with return annotation [ann]:
   a typed publisher (the topic is published with that type at once), a
   generic entry (the type is whatever ntcore infers from the first value),
   or an exception: RawTopic.publish() needs a type string, so a `-> bytes`
   getter makes collect_feedbacks raise TypeError *)
Inductive fb_pub :=
| FbTyped (t : ntype)
| FbGeneric
| FbRaises.

Definition fb_publisher (ann : option tyexpr) : fb_pub :=
  match ann with
  | None => FbGeneric
  | Some a =>
      match get_topic_type a with
      | None => FbGeneric
      | Some NRaw => FbRaises
      | Some t => FbTyped t
      end
  end.

(* ntcore's own inference for a generic entry (entry.setValue(v)); this is
   pyntcore behaviour recorded from observation, not code of /repo: a Python
   int becomes a double, an int list an int[]; empty and struct lists are
   rejected (None) *)
Definition generic_infer (v : value) : option ntype :=
  match v with
  | VScalar (SBool _) => Some NBoolean
  | VScalar (SInt _) | VScalar (SFloat _) => Some NDouble
  | VScalar (SStr _) => Some NString
  | VScalar (SBytes _) => Some NRaw
  | VScalar _ => None
  | VList (e :: _) | VTuple (e :: _) =>
      match e with
      | SBool _ => Some NBooleanArr
      | SInt _ => Some NIntegerArr
      | SFloat _ => Some NDoubleArr
      | SStr _ => Some NStringArr
      | _ => None
      end
  | VList [] | VTuple [] => None
  end.

(* ------------------------------------------------------------------ *)
(* 9. Finite grids (for the sweeps; bound visible in the statements)    *)
(* ------------------------------------------------------------------ *)

Definition grid_bases : list base :=
  [BBool; BInt; BFloat; BStr; BBytes; BStruct "Translation2d"; BStruct "Translation3d"; BOther].

(* one truthy and one falsy object per element type *)
Definition sample_scalars (b : base) : list scalar :=
  match b with
  | BBool => [SBool true; SBool false]
  | BInt => [SInt 3; SInt 0]
  | BFloat => [SFloat 96; SFloat 0]
  | BStr => [SStr "ab"; SStr ""]
  | BBytes => [SBytes [120%N]; SBytes []]
  | BStruct n => [SStruct n [64%Z; 128%Z]]
  | BOther => [SOther]
  end.
Definition sample_scalar (b : base) : scalar :=
  match sample_scalars b with s :: _ => s | [] => SOther end.

(* defaults: scalars (truthy / falsy), empty list / tuple, one- and
   two-element homogeneous lists / tuples, and two-element mixed ones *)
Definition grid_defaults : list value :=
  flat_map (fun b => map VScalar (sample_scalars b)) grid_bases
  ++ [VList []; VTuple []]
  ++ flat_map (fun b => let s := sample_scalar b in
                        [VList [s]; VList [s; s]; VTuple [s]; VTuple [s; s]]) grid_bases
  ++ flat_map (fun b => flat_map (fun c =>
        if base_eqb b c then []
        else [VList [sample_scalar b; sample_scalar c];
              VTuple [sample_scalar b; sample_scalar c]]) grid_bases) grid_bases.

(* hints: T, bare origins, list[T], Sequence[T], tuple[T], tuple[T, ...],
   tuple[T, T], tuple[T, T, T], tuple[T, U] (U <> T), tuple[()], list[T, U] *)
Definition grid_hints : list tyexpr :=
  map TBase grid_bases
  ++ [TBare OList; TBare OTuple; TBare OSeq; TGen OTuple []; TGen OList []]
  ++ flat_map (fun b =>
        [TGen OList [ABase b]; TGen OSeq [ABase b]; TGen OTuple [ABase b];
         TGen OTuple [ABase b; AEllipsis]; TGen OTuple [ABase b; ABase b];
         TGen OTuple [ABase b; ABase b; ABase b]; TGen OTuple [AEllipsis; ABase b]]) grid_bases
  ++ flat_map (fun b => flat_map (fun c =>
        if base_eqb b c then []
        else [TGen OTuple [ABase b; ABase c]; TGen OList [ABase b; ABase c];
              TGen OTuple [ABase b; ABase c; AEllipsis]]) grid_bases) grid_bases.

Definition grid_decls : list (value * option tyexpr) :=
  flat_map (fun d => (d, None) :: map (fun h => (d, Some h)) grid_hints) grid_defaults.

(* the accepted ways of writing the hint H of a tunable *)
Inductive quoting :=
| QObj                               (* evaluated by the class body            *)
| QStr                               (* whole annotation is a str (PEP 563 / quoted) *)
| QFwd.                              (* outermost subscript argument quoted    *)
Inductive spelling :=
| SpSubscript                                        (* x = tunable[H](d)                   *)
| SpAnn (q : quoting) (classvar : bool) (in_tunable : bool).
                                                     (* x: [ClassVar[] [tunable[] H []] [] = tunable(d) *)

Definition spell (sp : spelling) (h : tyexpr) : srcdecl :=
  match sp with
  | SpSubscript => mksrc (Some h) None
  | SpAnn q cv tn =>
      let i := if tn then ITunable h else IType h in
      let a := if cv then AClassVar i else APlain i in
      mksrc None (Some (match q with QObj => RObj a | QStr => RStr a | QFwd => RFwd a end))
  end.
(* no hint: neither a subscript nor an annotation *)
Definition spell_opt (sp : spelling) (h : option tyexpr) : srcdecl :=
  match h with Some h => spell sp h | None => mksrc None None end.

Definition all_spellings : list spelling :=
  SpSubscript ::
  flat_map (fun q => flat_map (fun cv => map (SpAnn q cv) [false; true]) [false; true])
           [QObj; QStr; QFwd].

(* The documented table, written down independently of get_topic_type:
   which (container, element) pairs have a topic and which one. *)
Definition spec_scalar (b : base) : option ntype :=
  match b with
  | BBool => Some NBoolean | BInt => Some NInteger | BFloat => Some NDouble
  | BStr => Some NString | BBytes => Some NRaw | BStruct n => Some (NStruct n)
  | BOther => None
  end.
Definition spec_array (b : base) : option ntype :=
  match b with
  | BBool => Some NBooleanArr | BInt => Some NIntegerArr | BFloat => Some NDoubleArr
  | BStr => Some NStringArr | BStruct n => Some (NStructArr n)
  | BBytes | BOther => None
  end.

(* hint -> documented topic: scalars, and homogeneous containers *)
Definition spec_hint (h : tyexpr) : option ntype :=
  match h with
  | TBase b => spec_scalar b
  | TBare _ => None
  | TGen OTuple [ABase b; AEllipsis] => spec_array b
  | TGen OTuple (ABase b :: rest) =>
      if forallb (targ_eqb (ABase b)) rest then spec_array b else None
  | TGen OTuple _ => None
  | TGen _ (ABase b :: _) => spec_array b       (* list[T], Sequence[T] *)
  | TGen _ _ => None
  end.

(* default without hint -> documented topic: scalar by its type, a non-empty
   sequence by its first element, an empty list/tuple has none *)
Definition spec_default (v : value) : option ntype :=
  match v with
  | VScalar s => spec_scalar (base_of s)
  | VList (e :: _) | VTuple (e :: _) => spec_array (base_of e)
  | VList [] | VTuple [] => None
  end.

(* a default that is not itself publishable is rejected in __init__ even
   when a (valid) hint is present *)
Definition init_rejects (v : value) : bool :=
  match v with
  | VScalar SOther => true
  | VScalar _ => false
  | VList (e :: _) | VTuple (e :: _) =>
      match spec_array (base_of e) with None => true | Some _ => false end
  | VList [] | VTuple [] => false
  end.

Definition spec_decl (v : value) (h : option tyexpr) : option ntype :=
  if init_rejects v then None
  else match h with Some h => spec_hint h | None => spec_default v end.

Definition ntype_eqb (a b : ntype) : bool :=
  match a, b with
  | NBoolean, NBoolean | NInteger, NInteger | NDouble, NDouble | NString, NString
  | NRaw, NRaw | NBooleanArr, NBooleanArr | NIntegerArr, NIntegerArr
  | NDoubleArr, NDoubleArr | NStringArr, NStringArr => true
  | NStruct x, NStruct y => String.eqb x y
  | NStructArr x, NStructArr y => String.eqb x y
  | _, _ => false
  end.
Definition opt_ntype_eqb (a b : option ntype) : bool :=
  match a, b with
  | None, None => true
  | Some x, Some y => ntype_eqb x y
  | _, _ => false
  end.

(* ------------------------------------------------------------------ *)
(* 10. The owner OBJECT: bool(instance), and the descriptor protocol    *)
(* ------------------------------------------------------------------ *)

(* How Python computes bool(obj) of an owner object (component, autonomous
   mode, robot): type(obj).__bool__(obj) when the class defines it, else
   type(obj).__len__(obj) != 0 when the class defines that (a container-like
   component, a subclass of list), else True.  The owner's own state decides
   the answer and may change at any time (the container fills up, empties). *)
Inductive truth :=
| TPlain                       (* neither __bool__ nor __len__: always true *)
| TLen (n : N)                 (* __len__ returns n                         *)
| TBool (b : bool).            (* __bool__ returns b                        *)

Definition truth_value (t : truth) : bool :=
  match t with
  | TPlain => true
  | TLen n => negb (N.eqb n 0)
  | TBool b => b
  end.

(* an owner object as the descriptor receives it: its identity (the index of
   its _tunables map in w_inst) and how bool() of it comes out right now *)
Definition pyobj := (nat * truth)%type.

(* what tunable.__get__ hands back *)
Inductive getres :=
| GSelf                        (* the tunable object itself                 *)
| GResult (e : event).         (* instance._tunables[self].get(): the value,
                                  or AttributeError / KeyError when unbound *)

(* tunable.__get__(self, instance, owner=None):
       if instance is not None:
           return instance._tunables[self].get()
       return self
   [instance] is None for access through the class (Cls.attr).  The test is an
   IDENTITY test: bool(instance) is never evaluated, the second component of
   the object is not looked at. *)
Definition tunable_get (w : world) (instance : option pyobj) (attr : string) : getres :=
  match instance with
  | Some (i, _) => GResult (py_read w i attr)
  | None => GSelf
  end.

(* tunable.__set__(self, instance, value): instance._tunables[self].set(value) *)
Definition tunable_set (w : world) (instance : pyobj) (attr : string) (v : value)
  : world * event :=
  step w (PyWrite (fst instance) attr v).

(* the world with the owners' truthiness: [x_truth] maps an instance to how
   bool() of it is computed at present (latest entry wins, TPlain if none) *)
Record xworld := mkx {
  x_w : world;
  x_truth : list (nat * truth)
}.

Fixpoint truth_get (l : list (nat * truth)) (i : nat) : truth :=
  match l with
  | [] => TPlain
  | (j, t) :: r => if Nat.eqb j i then t else truth_get r i
  end.

Definition the_obj (x : xworld) (i : nat) : pyobj := (i, truth_get (x_truth x) i).

Definition x0 : xworld := mkx w0 [].

(* histories in which the owners' truthiness changes too *)
Inductive xop :=
| XOp (o : op)
| XSetTruth (i : nat) (t : truth).   (* the owner object i is created with /
                                        its state changes so that bool(i) is t *)

Inductive xevent :=
| XEv (e : event)
| XSelf                              (* an attribute read returned the tunable object *)
| XDone.

Definition getres_event (g : getres) : xevent :=
  match g with GSelf => XSelf | GResult e => XEv e end.

(* obj.attr    is  type(obj).__dict__[attr].__get__(obj, type(obj)),
   obj.attr = v is type(obj).__dict__[attr].__set__(obj, v)  (data descriptor) *)
Definition xstep (x : xworld) (o : xop) : xworld * xevent :=
  match o with
  | XOp (PyRead i a) =>
      (x, getres_event (tunable_get (x_w x) (Some (the_obj x i)) a))
  | XOp (PyWrite i a v) =>
      let '(w', e) := tunable_set (x_w x) (the_obj x i) a v in
      (mkx w' (x_truth x), XEv e)
  | XOp o' =>
      let '(w', e) := step (x_w x) o' in
      (mkx w' (x_truth x), XEv e)
  | XSetTruth i t => (mkx (x_w x) ((i, t) :: x_truth x), XDone)
  end.

Fixpoint xrun (x : xworld) (h : list xop) : xworld * list xevent :=
  match h with
  | [] => (x, [])
  | o :: r =>
      let '(x1, e) := xstep x o in
      let '(x2, es) := xrun x1 r in
      (x2, e :: es)
  end.

(* the same history with every owner an ordinary (always true) object: the
   truthiness changes are dropped *)
Fixpoint erase (h : list xop) : list op :=
  match h with
  | [] => []
  | XOp o :: r => o :: erase r
  | XSetTruth _ _ :: r => erase r
  end.

(* the events of the operations proper (XDone of a truthiness change dropped);
   XSelf is kept visible as an error event so it cannot hide *)
Fixpoint xevents (l : list xevent) : list (option event) :=
  match l with
  | [] => []
  | XEv e :: r => Some e :: xevents r
  | XSelf :: r => None :: xevents r
  | XDone :: r => xevents r
  end.

(* is the owner i falsy right now? *)
Definition falsy_now (x : xworld) (i : nat) : bool :=
  negb (truth_value (truth_get (x_truth x) i)).

(* ------------------------------------------------------------------ *)
(* 11. Class hierarchies: dir(cls), getattr(cls, n), redefinition       *)
(* ------------------------------------------------------------------ *)

(* What a class body binds a public or private name to:  name = tunable(..)
   (the name is [d_attr d]) or  name = <anything that is not a tunable>  (a
   number, a method, a property ...). *)
Inductive member :=
| MTun (d : decl)
| MPlain (name : string).

Definition member_name (m : member) : string :=
  match m with MTun d => d_attr d | MPlain n => n end.

(* vars(klass): the class's own namespace (one entry per name; the first
   entry of a name is the one the namespace holds) *)
Definition classbody := list member.

Fixpoint body_get (b : classbody) (n : string) : option member :=
  match b with
  | [] => None
  | m :: r => if String.eqb (member_name m) n then Some m else body_get r n
  end.

(* getattr(cls, n) for a name bound in the class bodies: type.__getattribute__
   walks cls.__mro__ (the class itself first, then its bases in linearised
   order) and takes the FIRST class whose namespace has n.  [mro] is
   [vars(k) for k in cls.__mro__]. *)
Fixpoint class_getattr (mro : list classbody) (n : string) : option member :=
  match mro with
  | [] => None
  | b :: r => match body_get b n with
              | Some m => Some m
              | None => class_getattr r n
              end
  end.

(* dir(cls): the names of all namespaces of the MRO, each once, sorted *)
Fixpoint dedup (l : list string) : list string :=
  match l with
  | [] => []
  | x :: r => if existsb (String.eqb x) r then dedup r else x :: dedup r
  end.
Fixpoint insert_sorted (x : string) (l : list string) : list string :=
  match l with
  | [] => [x]
  | y :: r => if String.leb x y then x :: l else y :: insert_sorted x r
  end.
Fixpoint sort_names (l : list string) : list string :=
  match l with
  | [] => []
  | x :: r => insert_sorted x (sort_names r)
  end.
Definition dir_names (mro : list classbody) : list string :=
  sort_names (dedup (flat_map (map member_name) mro)).

(* the head of the loop of setup_tunables:
       for n in dir(cls):
           prop = getattr(cls, n)
           if not isinstance(prop, tunable): continue
   i.e. per NAME the one object attribute lookup on the class finds; a
   definition of the same name further down the MRO is shadowed, whether the
   shadowing member is a tunable or not.  (The `n.startswith("_")` test is in
   [setup_loop].) *)
Definition class_members (mro : list classbody) : list decl :=
  flat_map (fun n => match class_getattr mro n with
                     | Some (MTun d) => [d]
                     | _ => []
                     end) (dir_names mro).

(* setup_tunables(instance i of the class with that MRO, cname, prefix) *)
Definition setup_class (i : nat) (mro : list classbody) (prefix : option string)
           (cname : string) : op :=
  Setup i (class_members mro) prefix cname.

(* the class statements of the hierarchy: every tunable of every body is
   created (tunable.__init__, __set_name__), the shadowed ones included *)
Definition body_decls (b : classbody) : list decl :=
  flat_map (fun m => match m with MTun d => [d] | MPlain _ => [] end) b.
Definition hier_defined (mro : list classbody) : bool :=
  forallb (fun b => match class_topics (body_decls b) with
                    | Some _ => true
                    | None => false
                    end) mro.

(* ------------------------------------------------------------------ *)
(* 12. tunable OBJECTS and the names classes bind them under            *)
(* ------------------------------------------------------------------ *)

(* A tunable is an OBJECT: created once (tunable[orig](default, subtable=..,
   writeDefault=..)), it can be bound in the body of any number of classes,
   under a name of each class's own choosing:

       default_kp = tunable(0.5)
       class Intake:   intake_kp  = default_kp
       class Shooter:  shooter_kp = default_kp

   The object carries the default, the subtable, the writeDefault flag and
   its __orig_class__; it does NOT carry a name.  The only per-object state
   the library keeps is the slot _topic_type, rewritten by every
   __set_name__(owner, name) call, i.e. once per class body that binds the
   object (from __orig_class__, else from the annotation THAT class gives THAT
   name, else from the default).  setup_tunables takes the NAME from dir(cls)
   (section 11) and everything else from the object found under it. *)
Record tobj := mktobj {
  t_default : value;
  t_orig : option tyexpr;            (* tunable[H](...) *)
  t_subtable : option string;
  t_wd : bool
}.

(* one line of a class body:  name [: ann] = <object number oid>   or
   name = <something that is not a tunable> *)
Inductive obind :=
| OTun (name : string) (oid : nat) (ann : option rawann)
| OPlain (name : string).

Definition obind_name (ob : obind) : string :=
  match ob with OTun n _ _ => n | OPlain n => n end.

(* a program: the tunable objects it creates (object number = position) and
   its class statements in the order they execute *)
Record program := mkprog {
  p_objs : list tobj;
  p_stmts : list (list obind)
}.

(* the __set_name__ calls of the whole program, in execution order:
   (object, the hint that call resolves) *)
Definition bind_call (objs : list tobj) (ob : obind) : list (nat * option tyexpr) :=
  match ob with
  | OTun _ oid ann =>
      match nth_error objs oid with
      | Some o => [(oid, set_name_hint (mksrc (t_orig o) ann))]
      | None => []
      end
  | OPlain _ => []
  end.
Definition set_name_calls (pr : program) : list (nat * option tyexpr) :=
  flat_map (flat_map (bind_call (p_objs pr))) (p_stmts pr).

(* the LAST call on an object decides what its _topic_type slot holds when
   the instances are set up *)
Fixpoint last_call (l : list (nat * option tyexpr)) (oid : nat) : option (option tyexpr) :=
  match l with
  | [] => None
  | (j, h) :: r =>
      match last_call r oid with
      | Some x => Some x
      | None => if Nat.eqb j oid then Some h else None
      end
  end.
(* the hint behind the object's _topic_type (an object no class body binds
   keeps what __init__ resolved from the default: no hint) *)
Definition obj_hint (pr : program) (oid : nat) : option tyexpr :=
  match last_call (set_name_calls pr) oid with
  | Some h => h
  | None => None
  end.

(* every __set_name__ call of the program returns (else the class statement
   it belongs to raises and the program does not come up) *)
Definition prog_defined (pr : program) : bool :=
  forallb (fun c => match nth_error (p_objs pr) (fst c) with
                    | Some o => match decl_topic (t_default o) (snd c) with
                                | Ok _ => true
                                | _ => false
                                end
                    | None => false
                    end) (set_name_calls pr)
  && forallb (forallb (fun ob => match ob with
                                 | OTun _ oid _ => match nth_error (p_objs pr) oid with
                                                   | Some _ => true | None => false end
                                 | OPlain _ => true
                                 end)) (p_stmts pr).

(* what setup_tunables sees when dir(cls) yields the name [n] and
   getattr(cls, n) the object [oid]: the name comes from the class, the rest
   from the object *)
Definition obj_decl (pr : program) (n : string) (oid : nat) : option decl :=
  match nth_error (p_objs pr) oid with
  | Some o => Some (mkdecl n (t_default o) (obj_hint pr oid) (t_subtable o) (t_wd o))
  | None => None
  end.

Definition obind_member (pr : program) (ob : obind) : option member :=
  match ob with
  | OTun n oid _ => option_map MTun (obj_decl pr n oid)
  | OPlain n => Some (MPlain n)
  end.

Fixpoint opt_all {A : Type} (l : list (option A)) : option (list A) :=
  match l with
  | [] => Some []
  | None :: _ => None
  | Some x :: r => match opt_all r with Some r' => Some (x :: r') | None => None end
  end.

Definition prog_body (pr : program) (b : list obind) : option classbody :=
  opt_all (map (obind_member pr) b).

(* a class of the program is given by its MRO: the positions of the class
   statements of cls.__mro__ (the class itself first) *)
Definition prog_stmts (pr : program) (ixs : list nat) : option (list (list obind)) :=
  opt_all (map (nth_error (p_stmts pr)) ixs).
Definition prog_mro (pr : program) (ixs : list nat) : option (list classbody) :=
  match prog_stmts pr ixs with
  | Some bs => opt_all (map (prog_body pr) bs)
  | None => None
  end.

(* the objects the class resolves its PUBLIC names to (one entry per name) *)
Fixpoint obody_get (b : list obind) (n : string) : option obind :=
  match b with
  | [] => None
  | ob :: r => if String.eqb (obind_name ob) n then Some ob else obody_get r n
  end.
Fixpoint omro_getattr (mro : list (list obind)) (n : string) : option obind :=
  match mro with
  | [] => None
  | b :: r => match obody_get b n with
              | Some ob => Some ob
              | None => omro_getattr r n
              end
  end.
Definition resolved_ids (mro : list (list obind)) : list nat :=
  flat_map (fun n => match omro_getattr mro n with
                     | Some (OTun _ oid _) => if starts_with "_" n then [] else [oid]
                     | _ => []
                     end)
           (sort_names (dedup (flat_map (map obind_name) mro))).
Fixpoint nodupb (l : list nat) : bool :=
  match l with
  | [] => true
  | x :: r => negb (existsb (Nat.eqb x) r) && nodupb r
  end.

(* The tunables of a class of the program, as the loop of setup_tunables
   meets them.  MODEL BOUNDARY: component._tunables is a dict keyed by the
   tunable OBJECT, so a class that resolves two public names to one object
   keeps a single entry for both (the one of the name that comes last in
   dir(cls); the other entry is dropped and its topic unpublished) -- the
   binding of section 6 is keyed by attribute name and cannot express that.
   Such a class is OUTSIDE the model: None.  (None also for a class / object
   number the program does not have.) *)
Definition prog_class (pr : program) (ixs : list nat) : option (list decl) :=
  match prog_stmts pr ixs, prog_mro pr ixs with
  | Some om, Some mro =>
      if nodupb (resolved_ids om) then Some (class_members mro) else None
  | _, _ => None
  end.

(* setup_tunables(instance i of that class, cname, prefix) *)
Definition setup_obj (i : nat) (pr : program) (ixs : list nat) (prefix : option string)
           (cname : string) : option op :=
  option_map (fun cls => Setup i cls prefix cname) (prog_class pr ixs).

(* for the correspondence: the class, and separately whether it (and the
   program) is inside the model -- the comparator requires the guard *)
Definition prog_class_list (pr : program) (ixs : list nat) : list decl :=
  match prog_class pr ixs with Some cls => cls | None => [] end.
Definition prog_in_model (pr : program) (classes : list (list nat)) : bool :=
  prog_defined pr
  && forallb (fun ixs => match prog_class pr ixs with Some _ => true | None => false end) classes.

(* ------------------------------------------------------------------ *)
(* 13. The environment of a history: NetworkTables timestamps and the   *)
(*     clock; classes whose tunables change while the program runs      *)
(* ------------------------------------------------------------------ *)

(* ---- 13a. timestamps ------------------------------------------------ *)

(* Every NetworkTables value carries a timestamp (microseconds of the NT
   clock; 0 = "only a default", see below).  A publisher may supply the
   timestamp itself (Publisher.set(value, time), Value.makeX(value, time));
   time = 0 stands for "now".  ntcore's clock is the wall clock, or -- once
   the HAL is initialised (robot tests, simulation) -- the HAL clock, which
   can be PAUSED and stepped: everything that happens between two steps then
   carries one and the same timestamp.

   ntcore's LocalStorage::SetValue (recorded from observation and from its
   source, not code of /repo; validated by the correspondence under the paused
   clock, op GNtStamp):
     - a value is dropped when its timestamp is older than that of the value
       the topic holds (unless that one is 0);
     - a value equal to the one the topic holds is a duplicate: nothing
       changes, the topic keeps its timestamp;
     - setDefault stores the value with timestamp 0. *)
Fixpoint same_list {A : Type} (f : A -> A -> bool) (l1 l2 : list A) : bool :=
  match l1, l2 with
  | [], [] => true
  | x :: r1, y :: r2 => f x y && same_list f r1 r2
  | _, _ => false
  end.
Definition same_scalar (a b : scalar) : bool :=
  match a, b with
  | SBool x, SBool y => Bool.eqb x y
  | SInt x, SInt y => Z.eqb x y
  | SFloat x, SFloat y => Z.eqb x y
  | SStr x, SStr y => String.eqb x y
  | SBytes x, SBytes y => same_list N.eqb x y
  | SStruct n f, SStruct m g => String.eqb n m && same_list Z.eqb f g
  | SOther, SOther => true
  | _, _ => false
  end.
Definition same_value (a b : value) : bool :=
  match a, b with
  | VScalar x, VScalar y => same_scalar x y
  | VList x, VList y => same_list same_scalar x y
  | VTuple x, VTuple y => same_list same_scalar x y
  | _, _ => false
  end.

(* last-change timestamp per topic (latest entry wins; 0 when the topic has no
   value or only a default) *)
Definition stamps := list (string * Z).
Fixpoint stamp_get (s : stamps) (k : string) : Z :=
  match s with
  | [] => 0%Z
  | (k', t) :: r => if String.eqb k' k then t else stamp_get r k
  end.

(* how a client stamps an update *)
Inductive stampsel :=
| SNow                         (* time = 0 / omitted: the NT clock                     *)
| SSame                        (* the timestamp of the value the topic holds right now
                                  (a second update for the same camera frame, ...)     *)
| SOlder                       (* one microsecond before that: a stale update          *)
| SAt (t : Z).                 (* an explicit timestamp                                 *)

Definition sel_time (now st : Z) (s : stampsel) : Z :=
  match s with
  | SNow => now
  | SSame => if Z.eqb st 0 then now else st
  | SOlder => if Z.leb st 1 then now else (st - 1)%Z
  | SAt t => if Z.eqb t 0 then now else t
  end.

(* value.time() >= lastValue.time(), or lastValue has no time *)
Definition accepts (st t : Z) : bool := Z.eqb st 0 || Z.leb st t.

Definition is_dup (m : ntmap) (k : string) (ty : ntype) (v : value) : bool :=
  match nt_get m k with
  | Some (ty', v') => ntype_eqb ty ty' && same_value v v'
  | None => false
  end.

(* Entry.set / Publisher.set with timestamp t: the new map, the new
   timestamps, and whether the value was accepted (not dropped as stale) *)
Definition nt_write_at (m : ntmap) (s : stamps) (k : string) (ty : ntype) (v : value) (t : Z)
  : ntmap * stamps * bool :=
  if accepts (stamp_get s k) t
  then (nt_set m k ty v, if is_dup m k ty v then s else (k, t) :: s, true)
  else (m, s, false).

(* the loop of setup_tunables with the timestamps in the picture: `set`
   happens at the clock's time, `setDefault` leaves the timestamp at 0 *)
Fixpoint setup_loop_t (pfx : string) (ds : list (decl * ntype)) (nt : ntmap) (st : stamps)
         (now : Z) (b : binding) : ntmap * stamps * binding * bool :=
  match ds with
  | [] => (nt, st, b, true)
  | (d, ty) :: r =>
      if starts_with "_" (d_attr d) then setup_loop_t pfx r nt st now b
      else
        let key := key_in pfx (d_subtable d) (d_attr d) in
        let v := entry_value ty (d_default d) in
        let '(nt', st', ok) :=
          if d_wd d then nt_write_at nt st key ty v now
          else (nt_set_default nt key ty v, st, true) in
        let '(nt2, st2, b2, ok2) := setup_loop_t pfx r nt' st' now ((d_attr d, (key, ty, v)) :: b) in
        (nt2, st2, b2, ok && ok2)
  end.

(* ---- 13b. classes that change ---------------------------------------- *)

(* setattr(cls, name, obj) -- `cls.name = tunable(...)` executed after the
   class statement: the class's OWN namespace (the first of the MRO) binds
   the name to the new object; the entry the namespace held for that name is
   gone.  magicbot's StateMachine does this in every instance construction
   (cls.state_names = tunable(..); cls.state_descriptions = tunable(..)).
   tunable.__set_name__ is NOT called for such an assignment: the topic type
   is what __init__ resolved from the default (no hint). *)
Definition body_assign (b : classbody) (m : member) : classbody :=
  m :: filter (fun x => negb (String.eqb (member_name x) (member_name m))) b.
Definition mro_assign (mro : list classbody) (m : member) : list classbody :=
  match mro with
  | [] => [[m]]
  | b :: r => body_assign b m :: r
  end.
(* the classes of a program, by number *)
Fixpoint classes_assign (cl : list (list classbody)) (c : nat) (m : member)
  : list (list classbody) :=
  match cl, c with
  | [], _ => []
  | mro :: r, O => mro_assign mro m :: r
  | mro :: r, S c' => mro :: classes_assign r c' m
  end.

(* ---- 13c. histories in that environment ------------------------------- *)

Record gworld := mkg {
  g_x : xworld;
  g_now : Z;                             (* the NT clock                         *)
  g_stamps : stamps;
  g_classes : list (list classbody)      (* class number |-> its MRO as it is NOW *)
}.

Inductive gop :=
| GX (o : xop)                                    (* everything of sections 6-11; writes happen at the clock's time *)
| GTick (d : Z)                                   (* the clock advances by d (stepTiming; d < 0: it jumps back)     *)
| GNtWriteAt (key : string) (ty : ntype) (v : value) (s : stampsel)
                                                  (* a client publishes with a timestamp of its own                 *)
| GNtStamp (key : string)                         (* an independent subscriber looks at the topic's timestamp       *)
| GClassAssign (c : nat) (m : member)             (* setattr(class c, name, tunable(..) | something else)           *)
| GSetupOf (i c : nat) (prefix : option string) (cname : string).
                                                  (* setup_tunables(instance i of class c AS IT IS NOW, cname, prefix) *)

Inductive gevent :=
| GEv (e : xevent)
| GStamp (t : Z)
| GDone
| GNoClass.                                       (* class number out of range *)

Definition g_with_x (g : gworld) (x : xworld) : gworld :=
  mkg x (g_now g) (g_stamps g) (g_classes g).

(* a write of v (already converted for the entry) to topic k at time t *)
Definition gwrite (g : gworld) (k : string) (ty : ntype) (v : value) (t : Z) : gworld * bool :=
  let w := x_w (g_x g) in
  let '(nt', st', ok) := nt_write_at (w_nt w) (g_stamps g) k ty v t in
  (mkg (mkx (mkworld nt' (w_inst w)) (x_truth (g_x g))) (g_now g) st' (g_classes g), ok).

Definition gsetup (g : gworld) (i : nat) (cls : list decl) (prefix : option string)
           (cname : string) : gworld * gevent * bool :=
  let w := x_w (g_x g) in
  match class_topics cls with
  | None => (g, GEv (XEv (EvSetup false)), true)
  | Some ds =>
      let '(nt', st', b, ok) :=
        setup_loop_t (key_prefix prefix cname) ds (w_nt w) (g_stamps g) (g_now g) [] in
      (mkg (mkx (mkworld nt' ((i, b) :: w_inst w)) (x_truth (g_x g))) (g_now g) st' (g_classes g),
       GEv (XEv (EvSetup true)), ok)
  end.

(* one operation: the new world, the event, and whether every NetworkTables
   write of the operation was accepted (false: ntcore dropped one as stale) *)
Definition gstep (g : gworld) (o : gop) : gworld * gevent * bool :=
  match o with
  | GX (XOp (Setup i cls p c)) => gsetup g i cls p c
  | GX (XOp (PyWrite i a v)) =>
      match inst_get (w_inst (x_w (g_x g))) i with
      | None => (g, GEv (XEv EvErr), true)
      | Some b =>
          match bind_get b a with
          | None => (g, GEv (XEv EvErr), true)
          | Some (key, ty, _) =>
              let '(g', ok) := gwrite g key ty (entry_value ty v) (g_now g) in
              (g', GEv (XEv EvWrote), ok)
          end
      end
  | GX (XOp (NtWrite key ty v)) =>
      let '(g', ok) := gwrite g key ty (canon v) (g_now g) in
      (g', GEv (XEv EvWrote), ok)
  | GX o' =>
      let '(x', e) := xstep (g_x g) o' in
      (g_with_x g x', GEv e, true)
  | GTick d => (mkg (g_x g) (g_now g + d)%Z (g_stamps g) (g_classes g), GDone, true)
  | GNtWriteAt key ty v s =>
      let t := sel_time (g_now g) (stamp_get (g_stamps g) key) s in
      let '(g', ok) := gwrite g key ty (canon v) t in
      (g', GEv (XEv EvWrote), ok)
  | GNtStamp key => (g, GStamp (stamp_get (g_stamps g) key), true)
  | GClassAssign c m =>
      match nth_error (g_classes g) c with
      | Some _ => (mkg (g_x g) (g_now g) (g_stamps g) (classes_assign (g_classes g) c m), GDone, true)
      | None => (g, GNoClass, true)
      end
  | GSetupOf i c p n =>
      match nth_error (g_classes g) c with
      | Some mro => gsetup g i (class_members mro) p n
      | None => (g, GNoClass, true)
      end
  end.

Fixpoint grun (g : gworld) (h : list gop) : gworld * list (gevent * bool) :=
  match h with
  | [] => (g, [])
  | o :: r =>
      let '(g1, e, ok) := gstep g o in
      let '(g2, es) := grun g1 r in
      (g2, (e, ok) :: es)
  end.

(* the world a program starts in: nothing published, the clock at t0, the
   classes as their class statements leave them *)
Definition g0 (t0 : Z) (cl : list (list classbody)) : gworld := mkg x0 t0 [] cl.

(* the same history with the environment forgotten: no clock, no timestamps,
   every setup with the tunables the class has at that moment written out *)
Fixpoint gerase (cl : list (list classbody)) (h : list gop) : list xop :=
  match h with
  | [] => []
  | GX o :: r => o :: gerase cl r
  | GTick _ :: r => gerase cl r
  | GNtStamp _ :: r => gerase cl r
  | GNtWriteAt k ty v _ :: r => XOp (NtWrite k ty v) :: gerase cl r
  | GClassAssign c m :: r =>
      gerase (match nth_error cl c with Some _ => classes_assign cl c m | None => cl end) r
  | GSetupOf i c p n :: r =>
      match nth_error cl c with
      | Some mro => XOp (setup_class i mro p n) :: gerase cl r
      | None => gerase cl r
      end
  end.

(* the events of the operations that survive [gerase] *)
Fixpoint gevents (l : list (gevent * bool)) : list xevent :=
  match l with
  | [] => []
  | (GEv e, _) :: r => e :: gevents r
  | _ :: r => gevents r
  end.

Definition all_accepted (l : list (gevent * bool)) : bool := forallb snd l.

(* histories in which no client stamps an update with a time of its own
   choosing other than "now" / "the same as the value it replaces", and the
   clock never runs backwards *)
Definition sel_timely (s : stampsel) : bool :=
  match s with SNow | SSame => true | SOlder | SAt _ => false end.
Definition gop_timely (o : gop) : bool :=
  match o with
  | GTick d => Z.leb 0 d
  | GNtWriteAt _ _ _ s => sel_timely s
  | _ => true
  end.

(* ---- 13d. the framework's own loop ------------------------------------ *)

(* MagicRobot runs the user's code location by location: one PASS of the
   control loop is teleopPeriodic(), then every component's execute() (in
   _enabled_periodic), then the @feedback getters and periodic methods (in
   _do_periodics); between two passes the dashboard and the harness act.  A
   pass is the list of its locations, a location the operations the code there
   performs (attribute reads / writes of any component, dashboard updates
   arriving meanwhile, the clock moving on).  Nothing in tunable.__get__ /
   __set__ knows where it is called from: the history is the concatenation. *)
Definition loop_history (passes : list (list (list gop))) : list gop :=
  concat (map (@concat gop) passes).
