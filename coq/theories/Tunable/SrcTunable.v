(* magic_tunable.py as the translator harness/c09_translate.py reads it.  The part above the line is written by hand: the
   primitives the source forms are read as (see the translator's docstring); the ref_ definitions below it are GENERATED
   (python -m harness.c09_translate --ref > this file) from /repo and compared with the source on every run
   (work/C09/Gen_tunable.v).  No proofs in this file. *)
From Coq Require Import String Ascii List Bool ZArith NArith.
From RV Require Import Tunable.Model.
Import ListNotations.
Open Scope string_scope.

(* INST._tunables[self]: the entry the instance's own map holds for the tunable; no map (instance not set up) or no such
   key is AttributeError / KeyError: [err] *)
Definition with_entry {A : Type} (w : world) (inst : pyobj) (attr : string) (k : entry -> A) (err : A) : A :=
  match inst_get (w_inst w) (fst inst) with
  | None => err
  | Some b => match bind_get b attr with
              | None => err
              | Some e => k e
              end
  end.
(* ENTRY.get(): the topic's value, the default handed to getEntry when it has none *)
Definition entry_get (w : world) (e : entry) : value :=
  match nt_get (w_nt w) (fst (fst e)) with
  | Some (_, v) => v
  | None => snd e
  end.
(* ENTRY.set(v [, time]): publish through the entry, stamped as the selector says (no argument / 0: the NT clock) *)
Definition entry_set (g : gworld) (e : entry) (v : value) (s : stampsel) : gworld * gevent * bool :=
  let key := fst (fst e) in
  let ty := snd (fst e) in
  let '(g', ok) := gwrite g key ty (entry_value ty v) (sel_time (g_now g) (stamp_get (g_stamps g) key) s) in
  (g', GEv (XEv EvWrote), ok).
(* isinstance(topic, ntcore.RawTopic) *)
Definition is_raw (t : ntype) : bool := match t with NRaw => true | _ => false end.

(* ------------------------------------------------------------------ generated ---------------------------------- *)
(* tunable.__get__ *)
Definition ref_get (w : world) (instance : option pyobj) (attr : string) : getres :=
  match instance with
  | Some inst => GResult (with_entry w inst attr (fun e => EvVal (entry_get w e)) EvErr)
  | None => GSelf
  end.

(* tunable.__set__ *)
Definition ref_set (g : gworld) (inst : pyobj) (attr : string) (v : value) : gworld * gevent * bool :=
  with_entry (x_w (g_x g)) inst attr (fun e => entry_set g e v SNow) (g, GEv (XEv EvErr), true).

(* setup_tunables: the prefix *)
Definition ref_prefix (prefix : option string) (cname : string) : string :=
  match prefix with
  | Some p => "/" ++ p ++ "/" ++ cname
  | None => "/" ++ cname
  end.

(* setup_tunables: one iteration of the loop over dir(cls) *)
Definition ref_setup_step (pfx n : string) (m : option (decl * ntype)) (acc : ntmap * binding) : ntmap * binding :=
  let '(nt, b) := acc in
  (if starts_with "_" n then (nt, b) else (match m with Some (d, ty) => (match d_subtable d with Some s => if String.eqb s "" then (if is_raw ty then (if d_wd d then ((nt_set nt (pfx ++ "/" ++ n) ty (entry_value ty (d_default d))), ((n, ((pfx ++ "/" ++ n), ty, (entry_value ty (d_default d)))) :: b)) else ((nt_set_default nt (pfx ++ "/" ++ n) ty (entry_value ty (d_default d))), ((n, ((pfx ++ "/" ++ n), ty, (entry_value ty (d_default d)))) :: b))) else (if d_wd d then ((nt_set nt (pfx ++ "/" ++ n) ty (entry_value ty (d_default d))), ((n, ((pfx ++ "/" ++ n), ty, (entry_value ty (d_default d)))) :: b)) else ((nt_set_default nt (pfx ++ "/" ++ n) ty (entry_value ty (d_default d))), ((n, ((pfx ++ "/" ++ n), ty, (entry_value ty (d_default d)))) :: b)))) else (if is_raw ty then (if d_wd d then ((nt_set nt (pfx ++ "/" ++ s ++ "/" ++ n) ty (entry_value ty (d_default d))), ((n, ((pfx ++ "/" ++ s ++ "/" ++ n), ty, (entry_value ty (d_default d)))) :: b)) else ((nt_set_default nt (pfx ++ "/" ++ s ++ "/" ++ n) ty (entry_value ty (d_default d))), ((n, ((pfx ++ "/" ++ s ++ "/" ++ n), ty, (entry_value ty (d_default d)))) :: b))) else (if d_wd d then ((nt_set nt (pfx ++ "/" ++ s ++ "/" ++ n) ty (entry_value ty (d_default d))), ((n, ((pfx ++ "/" ++ s ++ "/" ++ n), ty, (entry_value ty (d_default d)))) :: b)) else ((nt_set_default nt (pfx ++ "/" ++ s ++ "/" ++ n) ty (entry_value ty (d_default d))), ((n, ((pfx ++ "/" ++ s ++ "/" ++ n), ty, (entry_value ty (d_default d)))) :: b)))) | None => (if is_raw ty then (if d_wd d then ((nt_set nt (pfx ++ "/" ++ n) ty (entry_value ty (d_default d))), ((n, ((pfx ++ "/" ++ n), ty, (entry_value ty (d_default d)))) :: b)) else ((nt_set_default nt (pfx ++ "/" ++ n) ty (entry_value ty (d_default d))), ((n, ((pfx ++ "/" ++ n), ty, (entry_value ty (d_default d)))) :: b))) else (if d_wd d then ((nt_set nt (pfx ++ "/" ++ n) ty (entry_value ty (d_default d))), ((n, ((pfx ++ "/" ++ n), ty, (entry_value ty (d_default d)))) :: b)) else ((nt_set_default nt (pfx ++ "/" ++ n) ty (entry_value ty (d_default d))), ((n, ((pfx ++ "/" ++ n), ty, (entry_value ty (d_default d)))) :: b)))) end) | None => (nt, b) end)).

(* _topic_types *)
Definition ref_topic_types (b : base) : option ntype :=
  match b with
  | BBool => Some NBoolean
  | BInt => Some NInteger
  | BFloat => Some NDouble
  | BStr => Some NString
  | BBytes => Some NRaw
  | _ => None
  end.

(* _array_topic_types *)
Definition ref_array_topic_types (b : base) : option ntype :=
  match b with
  | BBool => Some NBooleanArr
  | BInt => Some NIntegerArr
  | BFloat => Some NDoubleArr
  | BStr => Some NStringArr
  | _ => None
  end.
