(* Declarative vocabulary used by the statements of Properties/C12.v.
   Definitions only, no proofs.  Nothing here mentions the dict-update fold of
   the implementation: "effective" is ordinary Python attribute lookup along
   the MRO. *)
From Coq Require Import List String Bool Arith.
From RV Require Import Defs.Model.
Import ListNotations.
Open Scope string_scope.
Open Scope list_scope.

(* the binding a class body / class dict leaves for [k]: the LAST one *)
Fixpoint lookup_last {V} (k : string) (b : list (string * V)) : option V :=
  match b with
  | [] => None
  | (k', v) :: r => match lookup_last k r with
                    | Some w => Some w
                    | None => if String.eqb k' k then Some v else None
                    end
  end.

(* attribute lookup on the class: the first class of the MRO that binds [k]
   wins (a redefinition overrides what is inherited) *)
Fixpoint effective (mro : list (dict member)) (k : string) : option member :=
  match mro with
  | [] => None
  | b :: r => match lookup_last k b with
              | Some m => Some m
              | None => effective r k
              end
  end.

Definition eff_state (mro : list (dict member)) (n : string) (s : sdata) : Prop :=
  effective mro n = Some (MState s).
Definition first_in (mro : list (dict member)) (n : string) : Prop :=
  exists s, eff_state mro n s /\ s_first s = true.
Definition default_in (mro : list (dict member)) (n : string) : Prop :=
  exists s, eff_state mro n s /\ s_default s = true.

Definition exactly_one_first (mro : list (dict member)) : Prop :=
  exists n, first_in mro n /\ forall n', first_in mro n' -> n' = n.
Definition at_most_one_default (mro : list (dict member)) : Prop :=
  forall n1 n2, default_in mro n1 -> default_in mro n2 -> n1 = n2.

Definition is_state_opt (o : option member) : bool :=
  match o with Some (MState _) => true | _ => false end.
Definition desc_opt (o : option member) : string :=
  match o with Some (MState s) => desc_text s | _ => "" end.

(* keep the first occurrence of every element *)
Fixpoint dedup_first (l : list string) : list string :=
  match l with
  | [] => []
  | x :: r => x :: filter (fun y => negb (String.eqb y x)) (dedup_first r)
  end.

(* all attribute names, base classes first (reversed MRO), each class in
   definition order *)
Definition bases_first (mro : list (dict member)) : list string :=
  flat_map keys (rev mro).

(* the three faults of a signature, as the property lists them *)
Definition first_not_self (ps : list param) : Prop :=
  match ps with p :: _ => p_name p <> "self" | [] => False end.
Definition bad_kind (p : param) : Prop :=
  p_kind p = VarPos \/ p_kind p = VarKw \/ p_kind p = KwOnly.
Definition bad_name (p : param) : Prop := ~ In (p_name p) allowed_args.

Definition sig_faulty (ps : list param) : Prop :=
  first_not_self ps \/ Exists bad_kind ps \/ Exists bad_name ps.

(* [k] is bound to a state by the class body (its last binding) *)
Definition binds_state (b : list (string * smember)) (k : string) (d : decl) : Prop :=
  lookup_last k b = Some (SState d).
