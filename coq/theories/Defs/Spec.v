(* Declarative vocabulary used by the statements of Properties/C12.v.
   Definitions only, no proofs.  Nothing here mentions the dict-update fold of
   the implementation: "effective" is ordinary Python attribute lookup along
   the MRO. *)
From Coq Require Import List String Bool Arith.
From RV Require Import Defs.Model.
Import ListNotations.
Open Scope string_scope.
Open Scope list_scope.

(* the binding a class body / class dict leaves for [k]: the LAST one *)
Fixpoint lookup_last {V} (k : string) (b : list (string * V)) : option V :=
  match b with
  | [] => None
  | (k', v) :: r => match lookup_last k r with
                    | Some w => Some w
                    | None => if String.eqb k' k then Some v else None
                    end
  end.

(* attribute lookup on the class: the first class of the MRO that binds [k]
   wins (a redefinition overrides what is inherited) *)
Fixpoint effective (mro : list (dict member)) (k : string) : option member :=
  match mro with
  | [] => None
  | b :: r => match lookup_last k b with
              | Some m => Some m
              | None => effective r k
              end
  end.

Definition eff_state (mro : list (dict member)) (n : string) (s : sdata) : Prop :=
  effective mro n = Some (MState s).
Definition first_in (mro : list (dict member)) (n : string) : Prop :=
  exists s, eff_state mro n s /\ s_first s = true.
Definition default_in (mro : list (dict member)) (n : string) : Prop :=
  exists s, eff_state mro n s /\ s_default s = true.

Definition exactly_one_first (mro : list (dict member)) : Prop :=
  exists n, first_in mro n /\ forall n', first_in mro n' -> n' = n.
Definition at_most_one_default (mro : list (dict member)) : Prop :=
  forall n1 n2, default_in mro n1 -> default_in mro n2 -> n1 = n2.

Definition is_state_opt (o : option member) : bool :=
  match o with Some (MState _) => true | _ => false end.
Definition desc_opt (o : option member) : string :=
  match o with Some (MState s) => desc_text s | _ => "" end.

(* keep the first occurrence of every element *)
Fixpoint dedup_first (l : list string) : list string :=
  match l with
  | [] => []
  | x :: r => x :: filter (fun y => negb (String.eqb y x)) (dedup_first r)
  end.

(* all attribute names, base classes first (reversed MRO), each class in
   definition order *)
Definition bases_first (mro : list (dict member)) : list string :=
  flat_map keys (rev mro).

(* the three faults of a signature, as the property lists them *)
Definition first_not_self (ps : list param) : Prop :=
  match ps with p :: _ => p_name p <> "self" | [] => False end.
Definition bad_kind (p : param) : Prop :=
  p_kind p = VarPos \/ p_kind p = VarKw \/ p_kind p = KwOnly.
Definition bad_name (p : param) : Prop := ~ In (p_name p) allowed_args.

Definition sig_faulty (ps : list param) : Prop :=
  first_not_self ps \/ Exists bad_kind ps \/ Exists bad_name ps.

(* What the SOURCE says about a decorated function -- the options as written,
   whichever way the decorator is spelled: the factory  @state(first=True),  the
   plain call  k = state(f, first=True)  (bare @state: no option), timed_state,
   default_state. *)
Definition marked_first (k : deco) : bool :=
  match k with DState f _ | DStateCall f _ | DTimed f _ => f | DDefault => false end.
Definition marked_must_finish (k : deco) : bool :=
  match k with DState _ mf | DStateCall _ mf | DTimed _ mf => mf | DDefault => true end.
Definition marked_default (k : deco) : bool :=
  match k with DDefault => true | _ => false end.
Definition marked_timed (k : deco) : bool :=
  match k with DTimed _ _ => true | _ => false end.

(* Name lookup in a class body.  [rb] is the part of the body that has been
   executed, NEAREST LINE FIRST (the body read backwards): the name [k] denotes
   what the nearest preceding binding of [k] gave it; a binding  k = k'  gave it
   what k' denoted just before that line,  k = C_c.__dict__[k']  what that
   class holds.  None: the name is not bound (or its decorator raised). *)
Fixpoint denotes (reserved : list string) (dicts : list (dict member))
  (rb : list (string * smember)) (k : string) : option member :=
  match rb with
  | [] => None
  | (k', m) :: r =>
    if String.eqb k' k then
      match m with
      | SOther => Some MOther
      | SState d => match construct reserved d with Ok s => Some (MState s) | Err _ => None end
      | SRef c k2 => class_attr dicts c k2
      | SLocal k2 => denotes reserved dicts r k2
      end
    else denotes reserved dicts r k
  end.

(* the class body finally leaves the state object [s] bound under [k] --
   created by a decorator in this body, or an object that already exists
   (bound before in this body or in an earlier class) *)
Definition binds_state (reserved : list string) (dicts : list (dict member))
  (b : list (string * smember)) (k : string) (s : sdata) : Prop :=
  denotes reserved dicts (rev b) k = Some (MState s).

(* a line of a class body can be executed; [before] are the lines above it *)
Definition entry_ok (reserved : list string) (dicts : list (dict member))
  (before : list (string * smember)) (m : smember) : Prop :=
  match m with
  | SState d => ~ In (d_fname d) reserved /\ ~ sig_faulty (d_params d)
  | SOther => True
  | SLocal k => denotes reserved dicts (rev before) k <> None
  | SRef c k => class_attr dicts c k <> None
  end.

(* ---- instantiation histories --------------------------------------- *)

(* No class of the table holds a STATE under one of the two attribute names
   that instantiation sets on the class.  (Both are attributes of
   StateMachine, so a state cannot be called that: in an accepted module this
   holds, see C12_history_module.) *)
Definition published_free (dicts : list (dict member)) : Prop :=
  forall d k s, In d dicts -> In (k, MState s) d ->
    k <> "state_names" /\ k <> "state_descriptions".

(* What the CLASS says about an attempt to instantiate it and bind the
   instance: the exception of its first/default multiplicity check, or the
   instance with its two lists -- computed on the class table [dicts] alone,
   no history, no NetworkTables content involved. *)
Definition class_outcome (dicts : list (dict member)) (mro : list nat) : outcome :=
  match instantiate dicts mro with
  | Err e => ORaised e
  | Ok r => OBound r (r_names r) (r_descs r)
  end.

(* the class dicts of a class given by its MRO *)
Definition bodies_of (dicts : list (dict member)) (mro : list nat) : list (dict member) :=
  map (fun i => nth i dicts []) mro.
