(* Model of the definition-time and instantiation-time checks of
   magicbot/state_machine.py (class _State, the decorators state /
   timed_state / default_state, _get_class_members, StateMachine._build_states).
   No proofs in this file.

   Python exceptions are explicit error values.  Python dicts are association
   lists in insertion order ([dict_set] keeps the position of the first
   insertion and the value of the last, as a CPython dict does). *)
From Coq Require Import List String Bool Arith.
Import ListNotations.
Open Scope string_scope.
Open Scope list_scope.

Inductive result (A E : Type) : Type := Ok (a : A) | Err (e : E).
Arguments Ok {A E} a.
Arguments Err {A E} e.

Fixpoint mem (x : string) (l : list string) : bool :=
  match l with
  | [] => false
  | y :: r => if String.eqb y x then true else mem x r
  end.

(* ------------------------------------------------------------------ *)
(* Python dict: insertion-ordered association list                      *)

Definition dict (V : Type) : Type := list (string * V).

Fixpoint dict_set {V} (k : string) (v : V) (d : dict V) : dict V :=
  match d with
  | [] => [(k, v)]
  | (k', v') :: r => if String.eqb k' k then (k', v) :: r
                     else (k', v') :: dict_set k v r
  end.

Fixpoint dict_get {V} (k : string) (d : dict V) : option V :=
  match d with
  | [] => None
  | (k', v') :: r => if String.eqb k' k then Some v' else dict_get k r
  end.

(* d.update(src): src is iterated in its own order *)
Definition dict_update {V} (d : dict V) (src : list (string * V)) : dict V :=
  fold_left (fun acc kv => dict_set (fst kv) (snd kv) acc) src d.

Definition keys {V} (d : list (string * V)) : list string := map fst d.

(* ------------------------------------------------------------------ *)
(* inspect.signature(f).parameters.values(): names and kinds            *)

Inductive kind := PosOnly | PosOrKw | VarPos | KwOnly | VarKw.
Record param := { p_name : string; p_kind : kind }.

Inductive sigerr :=
| ErrFirstNotSelf                       (* "First argument to .. must be 'self'" *)
| ErrVarPos                             (* "Cannot use *args .."                  *)
| ErrVarKw                              (* "Cannot use **kwargs .."               *)
| ErrKwOnly                             (* "Cannot use keyword-only parameters"   *)
| ErrInvalidNames (l : list string).    (* "Invalid parameter names in ..: a,b"   *)

Definition allowed_args : list string := ["self"; "tm"; "state_tm"; "initial_call"].

(* the loop  for i, arg in enumerate(sig.parameters.values())  of
   _State.__init__, check by check in the order of the code; [args] and
   [invalid] are the two accumulators. *)
Fixpoint sig_loop (i : nat) (ps : list param) (args invalid : list string)
  : result (list string * list string) sigerr :=
  match ps with
  | [] => Ok (args, invalid)
  | p :: r =>
    if Nat.eqb i 0 && negb (String.eqb (p_name p) "self") then Err ErrFirstNotSelf
    else match p_kind p with
         | VarPos => Err ErrVarPos
         | VarKw => Err ErrVarKw
         | KwOnly => Err ErrKwOnly
         | PosOnly | PosOrKw =>
           if mem (p_name p) allowed_args
           then sig_loop (S i) r (args ++ [p_name p]) invalid
           else sig_loop (S i) r args (invalid ++ [p_name p])
         end
  end.

(* .. followed by  if invalid_args: raise ValueError  *)
Definition validate_sig (ps : list param) : result (list string) sigerr :=
  match sig_loop 0 ps [] [] with
  | Err e => Err e
  | Ok (args, []) => Ok args
  | Ok (_, x :: inv) => Err (ErrInvalidNames (x :: inv))
  end.

(* The adapter  eval("lambda self, tm, state_tm, initial_call: f(<args>)"):
   the positional arguments handed to f are the lambda's own parameters
   selected by name, in the order of [args].  A name that is not one of the
   lambda's parameters would be a NameError (None). *)
Record callenv (V : Type) := { e_self : V; e_tm : V; e_state_tm : V; e_initial_call : V }.
Arguments e_self {V}. Arguments e_tm {V}. Arguments e_state_tm {V}. Arguments e_initial_call {V}.

Definition env_get {V} (e : callenv V) (n : string) : option V :=
  if String.eqb n "self" then Some (e_self e)
  else if String.eqb n "tm" then Some (e_tm e)
  else if String.eqb n "state_tm" then Some (e_state_tm e)
  else if String.eqb n "initial_call" then Some (e_initial_call e)
  else None.

Definition adapter {V} (args : list string) (e : callenv V) : list (option V) :=
  map (env_get e) args.

(* ------------------------------------------------------------------ *)
(* The decorators and the _State constructor                            *)

(* how the source turns the function into a state.  [state] has two call
   paths:  state(first=.., must_finish=..)  without the function returns a
   decorator (the factory spelling  @state(first=True) def k / k =
   state(first=True)(f)),  state(f, first=.., must_finish=..)  with the function
   returns the wrapper at once (bare  @state def k  is  state(k)  with no
   option;  k = state(f, first=True),  state(f=f, first=True)  and
   @functools.partial(state, first=True) def k  pass function and options in
   ONE call). *)
Inductive deco :=
| DState (first must_finish : bool)     (* state(first=.., must_finish=..)(f)          *)
| DStateCall (first must_finish : bool) (* state(f, first=.., must_finish=..); @state   *)
| DTimed (first must_finish : bool)     (* timed_state(duration=.., first=.., ..)(f)   *)
| DDefault.                             (* default_state(f)                            *)

(* a decorated function: __name__, parameters, cleaned docstring *)
Record decl := { d_fname : string; d_params : list param; d_doc : option string; d_deco : deco }.

(* the fields of the _State wrapper *)
Record sdata := {
  s_name : string;
  s_desc : option string;
  s_first : bool;
  s_must_finish : bool;
  s_default : bool;
  s_timed : bool;
  s_args : list string
}.

Inductive deferr :=
| EInvalidStateName            (* InvalidStateName: name collides with a StateMachine attribute *)
| ESig (e : sigerr)            (* ValueError from the signature loop                             *)
| EAlias                       (* InvalidStateName from __set_name__: bound under another name   *)
| ENotStateMachine             (* TypeError from __set_name__: owner is not a StateMachine       *)
| EUnbound.                    (* NameError / KeyError: a class body reads a name that is not bound *)

(* _State.__init__ as called by the three decorators.  [reserved] is the list
   of names n with  hasattr(StateMachine, n) or n in StateMachine.__annotations__. *)
Definition check_name (reserved : list string) (n : string) : result unit deferr :=
  if mem n reserved then Err EInvalidStateName else Ok tt.

(* _State.__init__(f, first=False, must_finish=False, *, duration=None,
   is_default=False): name check, signature loop, then the fields.  [d] is the
   function (its __name__, parameters, docstring); [timed] is
   duration is not None. *)
Definition init_state (reserved : list string) (d : decl) (first must_finish timed is_default : bool)
  : result sdata deferr :=
  match check_name reserved (d_fname d) with
  | Err e => Err e
  | Ok _ =>
    match validate_sig (d_params d) with
    | Err e => Err (ESig e)
    | Ok args =>
      Ok {| s_name := d_fname d; s_desc := d_doc d; s_first := first;
            s_must_finish := must_finish; s_default := is_default; s_timed := timed;
            s_args := args |}
    end
  end.

(* def state(f=None, *, first=False, must_finish=False):
       if f is None:
           return lambda f: _State(f, first, must_finish)
       return _State(f, first, must_finish)                                  *)
Inductive state_ret :=
| RDecorator (dec : decl -> result sdata deferr)     (* the lambda *)
| RWrapper (r : result sdata deferr).                (* the _State (or the exception of its __init__) *)

Definition state_fn (reserved : list string) (f : option decl) (first must_finish : bool) : state_ret :=
  match f with
  | None => RDecorator (fun g => init_state reserved g first must_finish false false)
  | Some g => RWrapper (init_state reserved g first must_finish false false)
  end.

(* timed_state(duration=.., next_state=None, first=False, must_finish=False),
   all keyword-only, returns  decorator(f) = _State(f, first, must_finish, duration=duration) *)
Definition timed_state_fn (reserved : list string) (first must_finish : bool)
  : decl -> result sdata deferr :=
  fun g => init_state reserved g first must_finish true false.

(* default_state(f) = _State(f, first=False, must_finish=True, is_default=True) *)
Definition default_state_fn (reserved : list string) (g : decl) : result sdata deferr :=
  init_state reserved g false true false true.

(* the decorator expression of the source applied to the function.  (The
   second branch of the two inner matches cannot occur: [state_fn] without a
   function always returns the decorator, with a function never.) *)
Definition construct (reserved : list string) (d : decl) : result sdata deferr :=
  match d_deco d with
  | DState f mf =>                       (* state(first=f, must_finish=mf)(d) *)
      match state_fn reserved None f mf with
      | RDecorator dec => dec d
      | RWrapper r => r
      end
  | DStateCall f mf =>                   (* state(d, first=f, must_finish=mf) *)
      match state_fn reserved (Some d) f mf with
      | RDecorator dec => dec d
      | RWrapper r => r
      end
  | DTimed f mf => timed_state_fn reserved f mf d
  | DDefault => default_state_fn reserved d
  end.

(* _State.__call__ with any positional and keyword arguments *)
Inductive callerr := IllegalCall.
Definition call_state {A K : Type} (s : sdata) (args : list A) (kwargs : list (string * K))
  : result unit callerr := Err IllegalCall.

(* _State.__set_name__(owner, name): alias check first, then the owner check *)
Definition set_name (owner_is_sm : bool) (attr_name state_name : string) : result unit deferr :=
  if negb (String.eqb attr_name state_name) then Err EAlias
  else if negb owner_is_sm then Err ENotStateMachine
  else Ok tt.

(* ------------------------------------------------------------------ *)
(* A class statement                                                    *)

(* what a class body binds, in source order:
     SState d     a decorated function  (@state def k(..) / k = state(..)(f) / k = state(f, ..))
     SOther       anything that is not a state (plain method, constant)
     SLocal k'    k = k'                 the object the class namespace holds under k' at
                                         that line (a second binding of the same object)
     SRef c k'    k = C_c.__dict__[k']   the object an earlier class of the module holds
                                         under k' (C_c.k' for a name C_c binds itself)     *)
Inductive smember := SState (d : decl) | SOther | SLocal (k : string) | SRef (c : nat) (k : string).
(* what the class __dict__ holds *)
Inductive member := MState (s : sdata) | MOther.

(* C_c.__dict__[k] for the classes defined so far *)
Definition class_attr (dicts : list (dict member)) (c : nat) (k : string) : option member :=
  match nth_error dicts c with
  | Some d => dict_get k d
  | None => None
  end.

(* the value of the right-hand side of a binding; [ns] is the class namespace
   when the line is reached, [dicts] the __dict__ of the earlier classes.  A
   reference yields the very object that is already bound elsewhere: the same
   _State with the same name. *)
Definition eval_member (reserved : list string) (dicts : list (dict member)) (ns : dict member)
  (m : smember) : result member deferr :=
  match m with
  | SOther => Ok MOther
  | SState d => match construct reserved d with
                | Err e => Err e
                | Ok s => Ok (MState s)
                end
  | SLocal k => match dict_get k ns with
                | Some v => Ok v
                | None => Err EUnbound
                end
  | SRef c k => match class_attr dicts c k with
                | Some v => Ok v
                | None => Err EUnbound
                end
  end.

(* executing the body: every decorator runs when its line is reached; the
   namespace is a dict (a rebinding keeps the position, takes the value) *)
Fixpoint eval_body (reserved : list string) (dicts : list (dict member))
  (b : list (string * smember)) (ns : dict member) : result (dict member) deferr :=
  match b with
  | [] => Ok ns
  | (k, m) :: r => match eval_member reserved dicts ns m with
                   | Err e => Err e
                   | Ok v => eval_body reserved dicts r (dict_set k v ns)
                   end
  end.

(* type.__new__ then calls __set_name__ on every value of the namespace, in
   namespace order -- on EVERY binding of a state object, however often and
   wherever the object has been bound before (the object keeps no memory of
   earlier bindings) *)
Fixpoint set_names (owner_is_sm : bool) (ns : dict member) : result unit deferr :=
  match ns with
  | [] => Ok tt
  | (k, MOther) :: r => set_names owner_is_sm r
  | (k, MState s) :: r => match set_name owner_is_sm k (s_name s) with
                          | Err e => Err e
                          | Ok _ => set_names owner_is_sm r
                          end
  end.

Definition define_class (reserved : list string) (dicts : list (dict member)) (owner_is_sm : bool)
  (b : list (string * smember)) : result (dict member) deferr :=
  match eval_body reserved dicts b [] with
  | Err e => Err e
  | Ok ns => match set_names owner_is_sm ns with
             | Err e => Err e
             | Ok _ => Ok ns
             end
  end.

(* ------------------------------------------------------------------ *)
(* A module defining several classes, one after the other               *)

Inductive base := BSM | BClass (i : nat).     (* StateMachine itself, or an earlier class *)

Record classdef := {
  c_bases : list base;
  c_body : list (string * smember);
  (* keys that end up in the class __dict__ without being bound by the body
     (setattr of the <name>_duration tunables); all of them non-states *)
  c_extra : list string
}.

(* issubclass(owner, StateMachine) *)
Definition is_sm (known : list bool) (bs : list base) : bool :=
  existsb (fun b => match b with BSM => true | BClass i => nth i known false end) bs.

(* returns the __dict__ of every class, or the index of the class statement
   that raised together with the error *)
Fixpoint define_from (reserved : list string) (idx : nat) (cs : list classdef)
  (known : list bool) (dicts : list (dict member))
  : result (list (dict member)) (nat * deferr) :=
  match cs with
  | [] => Ok dicts
  | c :: r =>
    let sm := is_sm known (c_bases c) in
    match define_class reserved dicts sm (c_body c) with
    | Err e => Err (idx, e)
    | Ok ns => define_from reserved (S idx) r (known ++ [sm])
                 (dicts ++ [ns ++ map (fun k => (k, MOther)) (c_extra c)])
    end
  end.

Definition define_all (reserved : list string) (cs : list classdef) :=
  define_from reserved 0 cs [] [].

(* issubclass(C_i, StateMachine) for every class of the module *)
Definition sm_flags (cs : list classdef) : list bool :=
  fold_left (fun known c => known ++ [is_sm known (c_bases c)]) cs [].

(* ------------------------------------------------------------------ *)
(* Instantiation: _get_class_members and _build_states                  *)

(* d = {}; for cls in reversed(cls.__mro__): d.update(cls.__dict__)
   [mro] is the list of class dicts in MRO order (most derived first). *)
Definition class_members (mro : list (dict member)) : dict member :=
  fold_left dict_update (rev mro) [].

Inductive builderr := NoFirst | MultipleFirst | MultipleDefault.

(* the local variables of _build_states: self.__first / has_first (one
   option), default_state, nt_names, nt_desc *)
Record bstate := {
  b_first : option string;
  b_default : option string;
  b_names : list string;
  b_descs : list string
}.

Definition is_some {A} (o : option A) : bool := match o with Some _ => true | None => false end.

Definition desc_text (s : sdata) : string :=       (* state.description or "" *)
  match s_desc s with Some t => t | None => "" end.

Fixpoint build_loop (ms : dict member) (st : bstate) : result bstate builderr :=
  match ms with
  | [] => Ok st
  | (k, MOther) :: r => build_loop r st                       (* not isinstance(_State): continue *)
  | (k, MState s) :: r =>
    if s_first s && is_some (b_first st) then Err MultipleFirst
    else
      let first' := if s_first s then Some k else b_first st in
      let names' := b_names st ++ [k] in
      let descs' := b_descs st ++ [desc_text s] in
      if s_default s then
        if is_some (b_default st) then Err MultipleDefault
        else build_loop r {| b_first := first'; b_default := Some k;
                             b_names := names'; b_descs := descs' |}
      else build_loop r {| b_first := first'; b_default := b_default st;
                           b_names := names'; b_descs := descs' |}
  end.

Record built := {
  r_first : string;             (* self.__first                    *)
  r_default : option string;    (* name of self.__default_state    *)
  r_names : list string;        (* the state_names tunable         *)
  r_descs : list string         (* the state_descriptions tunable  *)
}.

Definition build_states (mro : list (dict member)) : result built builderr :=
  match build_loop (class_members mro)
          {| b_first := None; b_default := None; b_names := []; b_descs := [] |} with
  | Err e => Err e
  | Ok st => match b_first st with
             | None => Err NoFirst
             | Some f => Ok {| r_first := f; r_default := b_default st;
                               r_names := b_names st; r_descs := b_descs st |}
             end
  end.

(* cls() for the class whose MRO (indices into [dicts], CPython's C3 order,
   StateMachine and object left out) is [mro] *)
Definition instantiate (dicts : list (dict member)) (mro : list nat) : result built builderr :=
  build_states (map (fun i => nth i dicts []) mro).

(* ------------------------------------------------------------------ *)
(* Instantiation HISTORIES and binding to NetworkTables                 *)

(* Instantiating a class is not free of side effects: the checks part of
   _build_states ends with
       cls.state_names = tunable(nt_names, subtable="state")
       cls.state_descriptions = tunable(nt_desc, subtable="state")
   on cls = type(self): two non-state attributes are set on the instantiated
   class, i.e. its __dict__ changes (a key that exists keeps its position).
   Both statements come after every raise of the function: an attempt that
   raises leaves the class untouched.  Nothing else of the class -- and no
   module-level table -- is written. *)
Definition publish_class_attrs (d : dict member) : dict member :=
  dict_set "state_descriptions" MOther (dict_set "state_names" MOther d).

Fixpoint update_nth {A} (i : nat) (f : A -> A) (l : list A) {struct l} : list A :=
  match l, i with
  | [], _ => []
  | x :: r, 0 => f x :: r
  | x :: r, S j => x :: update_nth j f r
  end.

(* tunable(default, *, writeDefault=True, subtable=None): a string-array
   tunable is its default and the writeDefault flag *)
Record tunable := { t_default : list string; t_write_default : bool }.

Definition mk_tunable (default : list string) (writeDefault : option bool) : tunable :=
  {| t_default := default;
     t_write_default := match writeDefault with Some b => b | None => true end |}.

(* the two tunables _build_states creates: no writeDefault argument *)
Definition names_tunable (r : built) : tunable := mk_tunable (r_names r) None.
Definition descs_tunable (r : built) : tunable := mk_tunable (r_descs r) None.

(* NetworkTables as far as the two lists are concerned: topic path -> the
   value the topic holds (absent: the topic has no value).  Every client of
   the instance -- an entry of a bound machine, a plain publisher, a plain
   subscriber -- sees this one store. *)
Definition ntstore := dict (list string).

(* setup_tunables(component, cname, "components"): the key of a tunable with
   subtable "state" *)
Definition topic (cname leaf : string) : string :=
  "/components/" ++ cname ++ "/state/" ++ leaf.

(* .. per tunable:  ntvalue = topic.getEntry(default);
                    ntvalue.set(default) if writeDefault else ntvalue.setDefault(default) *)
Definition bind_tunable (nt : ntstore) (key : string) (t : tunable) : ntstore :=
  if t_write_default t then dict_set key (t_default t) nt
  else match dict_get key nt with
       | Some _ => nt
       | None => dict_set key (t_default t) nt
       end.

(* instance.<tunable>  is  instance._tunables[prop].get(): the value of the
   topic, the default if it has none *)
Definition read_tunable (nt : ntstore) (key : string) (t : tunable) : list string :=
  match dict_get key nt with Some v => v | None => t_default t end.

(* setup_tunables walks dir(cls), i.e. sorted names: state_descriptions, then
   state_names *)
Definition bind_machine (nt : ntstore) (cname : string) (r : built) : ntstore :=
  bind_tunable (bind_tunable nt (topic cname "state_descriptions") (descs_tunable r))
               (topic cname "state_names") (names_tunable r).

(* What happens to a module after its classes exist:
     EInst mro cname   o = C(); setup_tunables(o, cname, "components"), C the
                       class whose MRO (indices into the class table) is mro;
                       the instance and its entries stay alive;
     EPublish key v    some other client of NetworkTables sets the topic key *)
Inductive event :=
| EInst (mro : list nat) (cname : string)
| EPublish (key : string) (v : list string).

(* the class table (the __dict__ of every class, as it is NOW) and the topics *)
Record world := { w_dicts : list (dict member); w_nt : ntstore }.

Inductive outcome :=
| ORaised (e : builderr)                      (* C() raised; nothing was bound       *)
| OBound (r : built) (names descs : list string)
                                              (* the instance; o.state_names and
                                                 o.state_descriptions read after binding *)
| OPublished.

Definition step (w : world) (ev : event) : world * outcome :=
  match ev with
  | EPublish key v =>
      ({| w_dicts := w_dicts w; w_nt := dict_set key v (w_nt w) |}, OPublished)
  | EInst mro cname =>
      match instantiate (w_dicts w) mro with
      | Err e => (w, ORaised e)
      | Ok r =>
          let dicts' := match mro with
                        | [] => w_dicts w
                        | c :: _ => update_nth c publish_class_attrs (w_dicts w)
                        end in
          let nt' := bind_machine (w_nt w) cname r in
          ({| w_dicts := dicts'; w_nt := nt' |},
           OBound r (read_tunable nt' (topic cname "state_names") (names_tunable r))
                    (read_tunable nt' (topic cname "state_descriptions") (descs_tunable r)))
      end
  end.

Fixpoint run_history (w : world) (h : list event) : list outcome :=
  match h with
  | [] => []
  | ev :: r => let (w', o) := step w ev in o :: run_history w' r
  end.
