(* Comparison of the model with observations of the implementation, evaluated
   inside Coq by the generated work/C12/cases_*.v.  Definitions only.

   Exception classes are small numbers:
     0 none, 1 InvalidStateName, 2 ValueError (any other), 3 TypeError,
     4 NoFirstStateError, 5 MultipleFirstStatesError,
     6 MultipleDefaultStatesError, 7 IllegalCallError, 9 anything else.

   Only what the property fixes is compared: when a definition carries
   several faults, any error class belonging to one of the faults of the
   first faulty declaration (resp. the first faulty __set_name__ call, resp.
   the multiplicity conditions that hold) is accepted. *)
From Coq Require Import List String Bool Arith.
From RV Require Import Defs.Model.
Import ListNotations.
Open Scope string_scope.
Open Scope list_scope.

Fixpoint memn (x : nat) (l : list nat) : bool :=
  match l with [] => false | y :: r => Nat.eqb y x || memn x r end.

Fixpoint strs_eqb (a b : list string) : bool :=
  match a, b with
  | [], [] => true
  | x :: a', y :: b' => String.eqb x y && strs_eqb a' b'
  | _, _ => false
  end.

Fixpoint optnats_eqb (a : list (option nat)) (b : list nat) : bool :=
  match a, b with
  | [], [] => true
  | Some x :: a', y :: b' => Nat.eqb x y && optnats_eqb a' b'
  | _, _ => false
  end.

Fixpoint forallb2 {A B} (f : A -> B -> bool) (a : list A) (b : list B) : bool :=
  match a, b with
  | [], [] => true
  | x :: a', y :: b' => f x y && forallb2 f a' b'
  | _, _ => false
  end.

(* what the harness passes to <state>.run(...) *)
Definition env_codes : callenv nat :=
  {| e_self := 0; e_tm := 1; e_state_tm := 2; e_initial_call := 3 |}.

(* ---- allowed error classes at class-definition time ---------------- *)
Definition decl_fault_codes (reserved : list string) (d : decl) : list nat :=
  (if mem (d_fname d) reserved then [1] else []) ++
  (match validate_sig (d_params d) with Err _ => [2] | Ok _ => [] end).

(* the first line of the body that cannot be executed decides: a decorator
   error (any class of one of its faults), or 9 for a name that is not bound *)
Fixpoint body_fault_codes (reserved : list string) (dicts : list (dict member))
  (b : list (string * smember)) (ns : dict member) : list nat :=
  match b with
  | [] => []
  | (k, m) :: r =>
    match (match m with SState d => decl_fault_codes reserved d | _ => [] end) with
    | [] => match eval_member reserved dicts ns m with
            | Ok v => body_fault_codes reserved dicts r (dict_set k v ns)
            | Err _ => [9]
            end
    | l => l
    end
  end.

Fixpoint ns_fault_codes (osm : bool) (ns : dict member) : list nat :=
  match ns with
  | [] => []
  | (_, MOther) :: r => ns_fault_codes osm r
  | (k, MState s) :: r =>
    match (if negb (String.eqb k (s_name s)) then [1] else []) ++
          (if negb osm then [3] else []) with
    | [] => ns_fault_codes osm r
    | l => l
    end
  end.

Definition class_allowed (reserved : list string) (dicts : list (dict member)) (osm : bool)
  (b : list (string * smember)) : list nat :=
  match body_fault_codes reserved dicts b [] with
  | [] => match eval_body reserved dicts b [] with
          | Ok ns => ns_fault_codes osm ns
          | Err _ => []
          end
  | l => l
  end.

(* the __dict__ of the classes before class [i] (all accepted when class [i]
   is the one that raised) *)
Definition dicts_before (reserved : list string) (cs : list classdef) (i : nat) : list (dict member) :=
  match define_all reserved (firstn i cs) with
  | Ok ds => ds
  | Err _ => []
  end.

(* ---- allowed error classes at instantiation ------------------------ *)
Definition count_m (p : sdata -> bool) (ms : dict member) : nat :=
  List.length (filter (fun kv => match snd kv with MState s => p s | MOther => false end) ms).

Definition inst_allowed (bodies : list (dict member)) : list nat :=
  let ms := class_members bodies in
  let nf := count_m s_first ms in
  let nd := count_m s_default ms in
  (if Nat.eqb nf 0 then [4] else []) ++ (if Nat.leb 2 nf then [5] else []) ++
  (if Nat.leb 2 nd then [6] else []).

(* ---- observations --------------------------------------------------- *)
(* one observation per event of the history *)
Inductive iobs :=
| IErr (code : nat)                          (* C() raised                                        *)
| IOk (names descs : list string)            (* o.state_names / o.state_descriptions after binding *)
      (sub_names sub_descs : option (list string))
                                             (* the two topics as an independent NetworkTables
                                                subscriber sees them (None: no value)             *)
      (calls : list nat)
| IPub (seen : option (list string)).        (* after a plain publish: the topic as the subscriber sees it *)

Inductive hobs :=
| HDefErr (cls code : nat)
| HDefined (evs : list iobs) (adapters : list (nat * string * list nat)).

Record hcase := {
  h_classes : list classdef;
  h_init : ntstore;                  (* the topics that hold a value before the first event *)
  h_events : list event;             (* instantiate-and-bind attempts and plain publishes, in order *)
  h_obs : hobs
}.

Definition call_code : nat :=
  match @call_state nat nat {| s_name := ""; s_desc := None; s_first := false; s_must_finish := false;
                               s_default := false; s_timed := false; s_args := [] |} [] [] with
  | Err IllegalCall => 7
  | Ok _ => 0
  end.

Definition optstrs_eqb (a b : option (list string)) : bool :=
  match a, b with
  | Some x, Some y => strs_eqb x y
  | None, None => true
  | _, _ => false
  end.

(* [w] the world before the event, [out]/[w'] what the model's step gives *)
Definition event_agree (w : world) (ev : event) (out : outcome) (w' : world) (o : iobs) : bool :=
  match ev, out, o with
  | EInst mro _, ORaised _, IErr code =>
      memn code (inst_allowed (map (fun i => nth i (w_dicts w) []) mro))
  | EInst _ cname, OBound r names descs, IOk n d sn sd calls =>
      strs_eqb n names && strs_eqb d descs &&
      optstrs_eqb sn (dict_get (topic cname "state_names") (w_nt w')) &&
      optstrs_eqb sd (dict_get (topic cname "state_descriptions") (w_nt w')) &&
      forallb (Nat.eqb call_code) calls
  | EPublish key _, OPublished, IPub seen => optstrs_eqb seen (dict_get key (w_nt w'))
  | _, _, _ => false
  end.

Fixpoint events_agree (w : world) (h : list event) (os : list iobs) : bool :=
  match h, os with
  | [], [] => true
  | ev :: h', o :: os' =>
      let (w', out) := step w ev in
      event_agree w ev out w' o && events_agree w' h' os'
  | _, _ => false
  end.

Definition adapter_agree (dicts : list (dict member)) (a : nat * string * list nat) : bool :=
  match a with
  | (c, k, vals) =>
    match dict_get k (nth c dicts []) with
    | Some (MState s) => optnats_eqb (adapter (s_args s) env_codes) vals
    | _ => false
    end
  end.

Definition empty_class : classdef := {| c_bases := []; c_body := []; c_extra := [] |}.

Definition h_agree (reserved : list string) (c : hcase) : bool :=
  match define_all reserved (h_classes c), h_obs c with
  | Err (i, _), HDefErr j code =>
      Nat.eqb i j &&
      memn code (class_allowed reserved (dicts_before reserved (h_classes c) i)
                               (nth i (sm_flags (h_classes c)) false)
                               (c_body (nth i (h_classes c) empty_class)))
  | Ok dicts, HDefined insts adapters =>
      events_agree {| w_dicts := dicts; w_nt := h_init c |} (h_events c) insts &&
      forallb (adapter_agree dicts) adapters
  | _, _ => false
  end.

Fixpoint bad_from (reserved : list string) (i : nat) (l : list hcase) : list nat :=
  match l with
  | [] => []
  | c :: r => if h_agree reserved c then bad_from reserved (S i) r
              else i :: bad_from reserved (S i) r
  end.
