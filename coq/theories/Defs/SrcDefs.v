(* magicbot/state_machine.py: _State.__init__, _get_class_members and the checks part of StateMachine._build_states,
   translated from the pinned source by harness/c12_translate.py (`python -m harness.c12_translate --ref /repo`), statement
   by statement: a `for` loop is a Fixpoint over the items with everything the body changes as arguments, an `if` takes the
   statements after it as the continuation of both branches, `raise` is `Err`.  Every C12 check translates the CURRENT source
   again (work/C12/Gen_defs.v) and proves the result equal to these; Defs/SrcDefsProofs.v proves them equal to sig_loop /
   init_state / class_members / build_states of Defs/Model.v.  No proofs here. *)
From Coq Require Import List String Bool Arith.
Import ListNotations.
Open Scope string_scope.
Open Scope list_scope.
From RV Require Import Defs.Model.

(* arg.kind is arg.VAR_POSITIONAL: identity of the enum members *)
Definition kind_eqb (a b : kind) : bool :=
  match a, b with
  | PosOnly, PosOnly | PosOrKw, PosOrKw | VarPos, VarPos | KwOnly, KwOnly | VarKw, VarKw => true
  | _, _ => false
  end.

(* reading self.__first; the attribute does not exist before the first assignment (None) -- the source reads it only
   after has_first was checked *)
Definition attr_or_unset (o : option string) : string := match o with Some x => x | None => "" end.

(* BEGIN translator output *)
(* state_machine.py: _State.__init__ *)
Fixpoint ref_sig_loop (items : list param) (i : nat) (v_args : list string) (v_invalid_args : list string) {struct items} : result (list string * list string) sigerr :=
  match items with
  | [] => Ok (v_args, v_invalid_args)
  | arg :: rest => (if ((Nat.eqb i 0) && (negb (String.eqb (p_name arg) "self"))) then (Err ErrFirstNotSelf) else (if (kind_eqb (p_kind arg) VarPos) then (Err ErrVarPos) else (if (kind_eqb (p_kind arg) VarKw) then (Err ErrVarKw) else (if (kind_eqb (p_kind arg) KwOnly) then (Err ErrKwOnly) else (if (mem (p_name arg) ["self"; "tm"; "state_tm"; "initial_call"]) then (ref_sig_loop rest (S i) (v_args ++ [(p_name arg)]) v_invalid_args) else (ref_sig_loop rest (S i) v_args (v_invalid_args ++ [(p_name arg)])))))))
  end.
Definition ref_init_state (reserved : list string) (d : decl) (first must_finish timed is_default : bool)
  : result sdata deferr :=
  (if (mem (d_fname d) reserved) then (Err EInvalidStateName) else (match ref_sig_loop (d_params d) 0 [] [] with
  | Err e => Err (ESig e)
  | Ok (v_args, v_invalid_args) => (match v_invalid_args with [] => (Ok {| s_name := (d_fname d); s_desc := (d_doc d); s_first := first; s_must_finish := must_finish; s_default := is_default; s_timed := timed; s_args := v_args |}) | _ :: _ => (Err (ESig (ErrInvalidNames v_invalid_args))) end)
  end)).
(* state_machine.py: state / timed_state / default_state *)
Definition ref_state_fn (reserved : list string) (f : option decl) (first must_finish : bool) : state_ret :=
  match f with
  | None => RDecorator (fun g => (ref_init_state reserved g first must_finish false false))
  | Some g => RWrapper (ref_init_state reserved g first must_finish false false)
  end.
Definition ref_timed_state_fn (reserved : list string) (first must_finish : bool) : decl -> result sdata deferr :=
  fun g => (ref_init_state reserved g first must_finish true false).
Definition ref_default_state_fn (reserved : list string) (g : decl) : result sdata deferr :=
  (ref_init_state reserved g false true false true).
(* state_machine.py: _get_class_members *)
Definition ref_class_members (mro : list (dict member)) : dict member :=
  fold_left (fun d c => dict_update d c) (rev mro) [].
(* state_machine.py: StateMachine._build_states *)
Fixpoint ref_build_loop (items : dict member) (v_has_first : bool) (v_nt_names : list string) (v_nt_desc : list string) (v_default_state : option string) (v_first : option string) {struct items} : result (bool * list string * list string * option string * option string) builderr :=
  match items with
  | [] => Ok (v_has_first, v_nt_names, v_nt_desc, v_default_state, v_first)
  | (key, m) :: rest => (match m with MState s => (if (s_first s) then (if v_has_first then (Err MultipleFirst) else (if (s_default s) then (if (is_some v_default_state) then (Err MultipleDefault) else (ref_build_loop rest true (v_nt_names ++ [key]) (v_nt_desc ++ [(match (s_desc s) with Some t => t | None => "" end)]) (Some key) (Some key))) else (ref_build_loop rest true (v_nt_names ++ [key]) (v_nt_desc ++ [(match (s_desc s) with Some t => t | None => "" end)]) v_default_state (Some key)))) else (if (s_default s) then (if (is_some v_default_state) then (Err MultipleDefault) else (ref_build_loop rest v_has_first (v_nt_names ++ [key]) (v_nt_desc ++ [(match (s_desc s) with Some t => t | None => "" end)]) (Some key) v_first)) else (ref_build_loop rest v_has_first (v_nt_names ++ [key]) (v_nt_desc ++ [(match (s_desc s) with Some t => t | None => "" end)]) v_default_state v_first))) | MOther => (ref_build_loop rest v_has_first v_nt_names v_nt_desc v_default_state v_first) end)
  end.
Definition ref_build_states (mro : list (dict member)) : result (built * tunable * tunable) builderr :=
  (match ref_build_loop (ref_class_members mro) false [] [] None None with
  | Err e => Err e
  | Ok (v_has_first, v_nt_names, v_nt_desc, v_default_state, v_first) => (if v_has_first then (Ok ({| r_first := attr_or_unset v_first; r_default := v_default_state; r_names := v_nt_names; r_descs := v_nt_desc |}, (mk_tunable v_nt_names None), (mk_tunable v_nt_desc None))) else (Err NoFirst))
  end).
(* END translator output *)
