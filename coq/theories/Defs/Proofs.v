(* Proofs about the model of Defs/Model.v, for all signatures, class bodies and
   class hierarchies (lists of class dicts of any length). *)
From Coq Require Import List String Bool Arith Lia.
From RV Require Import Defs.Model Defs.Spec.
Import ListNotations.
Open Scope string_scope.
Open Scope list_scope.

(* ------------------------------------------------------------------ *)
(* Lists                                                                *)

Lemma mem_In x l : mem x l = true <-> In x l.
Proof.
  induction l as [|y r IH]; simpl.
  - split; [discriminate | tauto].
  - destruct (String.eqb_spec y x) as [E|E].
    + subst. split; auto.
    + rewrite IH. split; [auto | intros [H|H]; [congruence | exact H]].
Qed.

Lemma mem_false x l : mem x l = false <-> ~ In x l.
Proof.
  rewrite <- mem_In. destruct (mem x l); split; intros; congruence.
Qed.

Lemma mem_app x a b : mem x (a ++ b) = mem x a || mem x b.
Proof.
  induction a as [|y r IH]; simpl; [reflexivity|].
  destruct (String.eqb y x); [reflexivity | exact IH].
Qed.

Lemma filter_all {A} (f : A -> bool) l :
  (forall x, In x l -> f x = true) -> filter f l = l.
Proof.
  induction l as [|a r IH]; simpl; intros H; [reflexivity|].
  rewrite (H a (or_introl eq_refl)). f_equal. apply IH. intros x Hx. apply H. right. exact Hx.
Qed.

Lemma filter_nil_iff {A} (f : A -> bool) l :
  filter f l = [] <-> forall x, In x l -> f x = false.
Proof.
  induction l as [|a r IH]; simpl.
  - split; [intros _ x [] | reflexivity].
  - destruct (f a) eqn:E.
    + split; [discriminate | intros H; rewrite (H a (or_introl eq_refl)) in E; discriminate].
    + rewrite IH. split.
      * intros H x [<-|Hx]; [exact E | apply H, Hx].
      * intros H x Hx. apply H. right. exact Hx.
Qed.

Lemma filter_filter {A} (p q : A -> bool) l :
  filter p (filter q l) = filter (fun x => q x && p x) l.
Proof.
  induction l as [|a r IH]; simpl; [reflexivity|].
  destruct (q a); simpl; [destruct (p a)|]; rewrite IH; reflexivity.
Qed.

Lemma NoDup_snoc {A} (l : list A) x : NoDup l -> ~ In x l -> NoDup (l ++ [x]).
Proof.
  induction 1 as [|a r Ha Hr IH]; simpl; intros Hx.
  - constructor; [intros [] | constructor].
  - constructor.
    + rewrite in_app_iff. simpl. intros [H|[H|[]]]; [auto | subst; apply Hx; left; reflexivity].
    + apply IH. intros H. apply Hx. right. exact H.
Qed.

Lemma length_le1 {A} (l : list A) x y : List.length l <= 1 -> In x l -> In y l -> x = y.
Proof.
  destruct l as [|a [|b r]]; simpl; intros H Hx Hy; try lia; try tauto.
  destruct Hx as [<-|[]], Hy as [<-|[]]. reflexivity.
Qed.

(* ------------------------------------------------------------------ *)
(* Signature validation                                                 *)

Definition first_ok (ps : list param) : bool :=
  match ps with [] => true | p :: _ => String.eqb (p_name p) "self" end.
Definition kind_ok (p : param) : bool :=
  match p_kind p with PosOnly | PosOrKw => true | _ => false end.
Definition allowedb (n : string) : bool := mem n allowed_args.

Lemma first_ok_false ps : first_ok ps = false <-> first_not_self ps.
Proof.
  destruct ps as [|p r]; cbn [first_ok first_not_self].
  - split; [discriminate | tauto].
  - destruct (String.eqb_spec (p_name p) "self"); split; intros; congruence.
Qed.

Lemma kinds_false ps : forallb kind_ok ps = false <-> Exists bad_kind ps.
Proof.
  induction ps as [|p r IH]; simpl.
  - split; [discriminate | intros H; inversion H].
  - split.
    + intros H. apply andb_false_iff in H. destruct H as [H|H].
      * apply Exists_cons_hd. unfold kind_ok in H. unfold bad_kind.
        destruct (p_kind p); try discriminate; auto.
      * apply Exists_cons_tl, IH, H.
    + intros H. apply andb_false_iff. inversion H as [? ? Hp|? ? Hr]; subst.
      * left. unfold kind_ok. destruct Hp as [E|[E|E]]; rewrite E; reflexivity.
      * right. apply IH, Hr.
Qed.

Lemma names_bad ps :
  filter (fun n => negb (allowedb n)) (map p_name ps) <> [] <-> Exists bad_name ps.
Proof.
  induction ps as [|p r IH]; cbn [map filter].
  - split; [congruence | intros H; inversion H].
  - destruct (allowedb (p_name p)) eqn:E; cbn [negb].
    + rewrite IH. split.
      * apply Exists_cons_tl.
      * intros H. inversion H as [? ? Hp|? ? Hr]; subst; [|exact Hr].
        exfalso. apply Hp. apply mem_In. exact E.
    + split; [|discriminate]. intros _. apply Exists_cons_hd.
      unfold bad_name. apply mem_false. exact E.
Qed.

Lemma sig_loop_ok ps : forall i a inv,
  (i = 0 -> first_ok ps = true) -> forallb kind_ok ps = true ->
  sig_loop i ps a inv =
  Ok (a ++ filter allowedb (map p_name ps),
      inv ++ filter (fun n => negb (allowedb n)) (map p_name ps)).
Proof.
  induction ps as [|p r IH]; intros i a inv Hf Hk.
  - cbn [sig_loop map filter]. rewrite !app_nil_r. reflexivity.
  - cbn [forallb] in Hk. apply andb_true_iff in Hk. destruct Hk as [Hp Hr].
    cbn [sig_loop map filter].
    assert (T : Nat.eqb i 0 && negb (String.eqb (p_name p) "self") = false).
    { destruct i; cbn [Nat.eqb andb]; [|reflexivity]. cbn [first_ok] in Hf.
      rewrite (Hf eq_refl). reflexivity. }
    rewrite T. unfold kind_ok in Hp.
    assert (Hs : S i = 0 -> first_ok r = true) by discriminate.
    change (mem (p_name p) allowed_args) with (allowedb (p_name p)).
    destruct (p_kind p); try discriminate;
      destruct (allowedb (p_name p)) eqn:E; cbn [negb];
      rewrite (IH (S i) _ _ Hs Hr), <- app_assoc; reflexivity.
Qed.

Lemma sig_loop_total ps : forall i a inv,
  (i = 0 /\ first_ok ps = false) \/ forallb kind_ok ps = false ->
  exists e, sig_loop i ps a inv = Err e /\ forall l, e <> ErrInvalidNames l.
Proof.
  induction ps as [|p r IH]; intros i a inv H.
  - destruct H as [[_ H]|H]; discriminate.
  - cbn [sig_loop].
    destruct (Nat.eqb i 0 && negb (String.eqb (p_name p) "self")) eqn:T.
    + eexists; split; [reflexivity | discriminate].
    + assert (Hr : p_kind p = PosOnly \/ p_kind p = PosOrKw -> forallb kind_ok r = false).
      { intros Hk. destruct H as [[Hi H]|H].
        - subst i. cbn [first_ok] in H. cbn [Nat.eqb andb] in T. rewrite H in T. discriminate.
        - cbn [forallb] in H. apply andb_false_iff in H. destruct H as [H|H]; [|exact H].
          unfold kind_ok in H. destruct Hk as [E|E]; rewrite E in H; discriminate. }
      destruct (p_kind p); try (eexists; split; [reflexivity | discriminate]);
        (destruct (mem (p_name p) allowed_args); apply IH; right; apply Hr; auto).
Qed.

Lemma sig_loop_err ps : forall i a inv e, sig_loop i ps a inv = Err e ->
  match e with
  | ErrFirstNotSelf => i = 0 /\ first_not_self ps
  | ErrVarPos => Exists (fun p => p_kind p = VarPos) ps
  | ErrVarKw => Exists (fun p => p_kind p = VarKw) ps
  | ErrKwOnly => Exists (fun p => p_kind p = KwOnly) ps
  | ErrInvalidNames _ => False
  end.
Proof.
  induction ps as [|p r IH]; intros i a inv e H; cbn [sig_loop] in H; [discriminate|].
  destruct (Nat.eqb i 0 && negb (String.eqb (p_name p) "self")) eqn:T.
  - inversion H; subst. apply andb_true_iff in T. destruct T as [T1 T2].
    apply Nat.eqb_eq in T1. split; [exact T1|]. cbn [first_not_self].
    destruct (String.eqb_spec (p_name p) "self"); [discriminate | assumption].
  - assert (R : forall i' a' inv', sig_loop i' r a' inv' = Err e -> i' <> 0 ->
              match e with
              | ErrFirstNotSelf => i = 0 /\ first_not_self (p :: r)
              | ErrVarPos => Exists (fun p => p_kind p = VarPos) (p :: r)
              | ErrVarKw => Exists (fun p => p_kind p = VarKw) (p :: r)
              | ErrKwOnly => Exists (fun p => p_kind p = KwOnly) (p :: r)
              | ErrInvalidNames _ => False
              end).
    { intros i' a' inv' H' Hi. specialize (IH _ _ _ _ H').
      destruct e; try (apply Exists_cons_tl; exact IH); [|exact IH].
      destruct IH as [IH _]. contradiction. }
    destruct (p_kind p) eqn:K;
      try (inversion H; subst; apply Exists_cons_hd; exact K);
      (destruct (mem (p_name p) allowed_args); eapply R; [exact H | discriminate]).
Qed.

(* the two regimes of validate_sig *)
Lemma validate_sig_good ps :
  first_ok ps = true -> forallb kind_ok ps = true ->
  validate_sig ps =
  match filter (fun n => negb (allowedb n)) (map p_name ps) with
  | [] => Ok (filter allowedb (map p_name ps))
  | l => Err (ErrInvalidNames l)
  end.
Proof.
  intros Hf Hk. unfold validate_sig. rewrite (sig_loop_ok ps 0 [] [] (fun _ => Hf) Hk).
  simpl. destruct (filter _ (map p_name ps)); reflexivity.
Qed.

Lemma validate_sig_bad ps :
  first_ok ps = false \/ forallb kind_ok ps = false ->
  exists e, validate_sig ps = Err e /\ forall l, e <> ErrInvalidNames l.
Proof.
  intros H. unfold validate_sig.
  destruct (sig_loop_total ps 0 [] []) as [e [E N]].
  { destruct H; [left; split; [reflexivity | assumption] | right; assumption]. }
  rewrite E. exists e. split; [reflexivity | exact N].
Qed.

Theorem sig_reject_iff ps :
  (exists e, validate_sig ps = Err e) <-> sig_faulty ps.
Proof.
  unfold sig_faulty.
  destruct (first_ok ps) eqn:Hf.
  2:{ split; intros _.
      - left. apply first_ok_false, Hf.
      - destruct (validate_sig_bad ps (or_introl Hf)) as [e [E _]]. exists e. exact E. }
  destruct (forallb kind_ok ps) eqn:Hk.
  2:{ split; intros _.
      - right; left. apply kinds_false, Hk.
      - destruct (validate_sig_bad ps (or_intror Hk)) as [e [E _]]. exists e. exact E. }
  rewrite (validate_sig_good ps Hf Hk).
  split.
  - intros [e E]. right; right. apply names_bad.
    destruct (filter _ (map p_name ps)); [discriminate | discriminate].
  - intros [H|[H|H]].
    + apply first_ok_false in H. congruence.
    + apply kinds_false in H. congruence.
    + apply names_bad in H. destruct (filter _ (map p_name ps)) as [|x l]; [congruence|].
      eexists. reflexivity.
Qed.

Theorem sig_ok_args ps args : validate_sig ps = Ok args -> args = map p_name ps.
Proof.
  intros H.
  destruct (first_ok ps) eqn:Hf.
  2:{ destruct (validate_sig_bad ps (or_introl Hf)) as [e [E _]]. congruence. }
  destruct (forallb kind_ok ps) eqn:Hk.
  2:{ destruct (validate_sig_bad ps (or_intror Hk)) as [e [E _]]. congruence. }
  rewrite (validate_sig_good ps Hf Hk) in H.
  destruct (filter (fun n => negb (allowedb n)) (map p_name ps)) eqn:F; [|discriminate].
  inversion H. apply filter_all. intros x Hx.
  rewrite filter_nil_iff in F. specialize (F x Hx). destruct (allowedb x); [reflexivity | discriminate].
Qed.

Theorem sig_ok_iff ps : validate_sig ps = Ok (map p_name ps) <-> ~ sig_faulty ps.
Proof.
  rewrite <- sig_reject_iff. split.
  - intros H [e E]. congruence.
  - intros H. destruct (validate_sig ps) as [args|e] eqn:E.
    + rewrite (sig_ok_args ps args E). reflexivity.
    + exfalso. apply H. exists e. reflexivity.
Qed.

Theorem sig_err_sound ps e : validate_sig ps = Err e ->
  match e with
  | ErrFirstNotSelf => first_not_self ps
  | ErrVarPos => Exists (fun p => p_kind p = VarPos) ps
  | ErrVarKw => Exists (fun p => p_kind p = VarKw) ps
  | ErrKwOnly => Exists (fun p => p_kind p = KwOnly) ps
  | ErrInvalidNames l =>
      l = filter (fun n => negb (mem n allowed_args)) (map p_name ps) /\ l <> [] /\
      ~ first_not_self ps /\ ~ Exists bad_kind ps
  end.
Proof.
  intros H.
  destruct (first_ok ps && forallb kind_ok ps) eqn:G.
  - apply andb_true_iff in G. destruct G as [Hf Hk].
    rewrite (validate_sig_good ps Hf Hk) in H.
    destruct (filter (fun n => negb (allowedb n)) (map p_name ps)) as [|x l] eqn:F; [discriminate|].
    inversion H; subst. split; [symmetry; exact F|]. split; [discriminate|].
    split; intros X.
    + apply first_ok_false in X. congruence.
    + apply kinds_false in X. congruence.
  - unfold validate_sig in H. destruct (sig_loop 0 ps [] []) as [[args inv]|e'] eqn:L.
    + exfalso. apply andb_false_iff in G.
      destruct (sig_loop_total ps 0 [] []) as [e'' [E'' _]]; [|congruence].
      destruct G; [left; split; [reflexivity | assumption] | right; assumption].
    + inversion H; subst. pose proof (sig_loop_err ps 0 [] [] e L) as S.
      destruct e; try exact S; [destruct S as [_ S]; exact S | contradiction].
Qed.

(* the adapter hands every declared parameter the value of its own name *)
Lemma env_get_allowed {V} (e : callenv V) n : In n allowed_args -> env_get e n <> None.
Proof.
  unfold allowed_args. simpl. intros [<-|[<-|[<-|[<-|[]]]]]; unfold env_get; simpl; discriminate.
Qed.

Theorem adapter_order ps args : validate_sig ps = Ok args ->
  forall V (e : callenv V),
    adapter args e = map (fun p => env_get e (p_name p)) ps /\ ~ In None (adapter args e).
Proof.
  intros H V e. pose proof (sig_ok_args ps args H) as E. subst args. split.
  - unfold adapter. rewrite map_map. reflexivity.
  - assert (NF : ~ sig_faulty ps) by (apply sig_ok_iff; exact H).
    unfold adapter. rewrite in_map_iff. intros [n [Hn Hin]].
    apply in_map_iff in Hin. destruct Hin as [p [<- Hp]].
    destruct (mem (p_name p) allowed_args) eqn:M.
    + apply mem_In in M. exact (env_get_allowed e _ M Hn).
    + apply NF. right; right. apply Exists_exists. exists p. split; [exact Hp|].
      unfold bad_name. apply mem_false. exact M.
Qed.

(* ------------------------------------------------------------------ *)
(* The _State constructor, __call__, __set_name__                       *)

Theorem name_reject_iff reserved d :
  construct reserved d = Err EInvalidStateName <-> In (d_fname d) reserved.
Proof.
  unfold construct, check_name. rewrite <- mem_In.
  destruct (mem (d_fname d) reserved).
  - split; reflexivity.
  - destruct (validate_sig (d_params d)); split; discriminate.
Qed.

Definition deco_first (k : deco) : bool :=
  match k with DState f _ | DTimed f _ => f | DDefault => false end.
Definition deco_default (k : deco) : bool :=
  match k with DDefault => true | _ => false end.

Lemma construct_ok reserved d s : construct reserved d = Ok s ->
  ~ In (d_fname d) reserved /\ validate_sig (d_params d) = Ok (s_args s) /\
  s_name s = d_fname d /\ s_desc s = d_doc d /\
  s_first s = deco_first (d_deco d) /\ s_default s = deco_default (d_deco d).
Proof.
  unfold construct, check_name. destruct (mem (d_fname d) reserved) eqn:M; [discriminate|].
  destruct (validate_sig (d_params d)) as [args|e]; [|discriminate].
  intros H. inversion H; subst. split; [apply mem_false; exact M|].
  destruct (d_deco d); simpl; repeat split; reflexivity.
Qed.

Theorem construct_ok_iff reserved d :
  (exists s, construct reserved d = Ok s) <->
  ~ In (d_fname d) reserved /\ ~ sig_faulty (d_params d).
Proof.
  split.
  - intros [s H]. destruct (construct_ok reserved d s H) as [N [S _]]. split; [exact N|].
    rewrite <- sig_reject_iff. intros [e E]. congruence.
  - intros [N S]. apply sig_ok_iff in S. unfold construct, check_name.
    apply mem_false in N. rewrite N, S. eexists. reflexivity.
Qed.

Theorem direct_call {A K} (s : sdata) (args : list A) (kwargs : list (string * K)) :
  call_state s args kwargs = Err IllegalCall.
Proof. reflexivity. Qed.

Theorem set_name_ok_iff osm attr sname :
  set_name osm attr sname = Ok tt <-> attr = sname /\ osm = true.
Proof.
  unfold set_name. destruct (String.eqb_spec attr sname) as [E|E]; simpl.
  - destruct osm; simpl; split; intros; try discriminate; auto. destruct H; discriminate.
  - split; [discriminate | intros [H _]; contradiction].
Qed.

Theorem set_name_err osm attr sname :
  (attr <> sname -> set_name osm attr sname = Err EAlias) /\
  (attr = sname -> osm = false -> set_name osm attr sname = Err ENotStateMachine).
Proof.
  unfold set_name. split.
  - intros H. destruct (String.eqb_spec attr sname); [contradiction | reflexivity].
  - intros E ->. destruct (String.eqb_spec attr sname); [reflexivity | contradiction].
Qed.
