(* Proofs about the model of Defs/Model.v, for all signatures, class bodies and
   class hierarchies (lists of class dicts of any length). *)
From Coq Require Import List String Bool Arith Lia.
From RV Require Import Defs.Model Defs.Spec.
Import ListNotations.
Open Scope string_scope.
Open Scope list_scope.

(* ------------------------------------------------------------------ *)
(* Lists                                                                *)

Lemma mem_In x l : mem x l = true <-> In x l.
Proof.
  induction l as [|y r IH]; simpl.
  - split; [discriminate | tauto].
  - destruct (String.eqb_spec y x) as [E|E].
    + subst. split; auto.
    + rewrite IH. split; [auto | intros [H|H]; [congruence | exact H]].
Qed.

Lemma mem_false x l : mem x l = false <-> ~ In x l.
Proof.
  rewrite <- mem_In. destruct (mem x l); split; intros; congruence.
Qed.

Lemma mem_app x a b : mem x (a ++ b) = mem x a || mem x b.
Proof.
  induction a as [|y r IH]; simpl; [reflexivity|].
  destruct (String.eqb y x); [reflexivity | exact IH].
Qed.

Lemma filter_all {A} (f : A -> bool) l :
  (forall x, In x l -> f x = true) -> filter f l = l.
Proof.
  induction l as [|a r IH]; simpl; intros H; [reflexivity|].
  rewrite (H a (or_introl eq_refl)). f_equal. apply IH. intros x Hx. apply H. right. exact Hx.
Qed.

Lemma filter_nil_iff {A} (f : A -> bool) l :
  filter f l = [] <-> forall x, In x l -> f x = false.
Proof.
  induction l as [|a r IH]; simpl.
  - split; [intros _ x [] | reflexivity].
  - destruct (f a) eqn:E.
    + split; [discriminate | intros H; rewrite (H a (or_introl eq_refl)) in E; discriminate].
    + rewrite IH. split.
      * intros H x [<-|Hx]; [exact E | apply H, Hx].
      * intros H x Hx. apply H. right. exact Hx.
Qed.

Lemma filter_filter {A} (p q : A -> bool) l :
  filter p (filter q l) = filter (fun x => q x && p x) l.
Proof.
  induction l as [|a r IH]; simpl; [reflexivity|].
  destruct (q a); simpl; [destruct (p a)|]; rewrite IH; reflexivity.
Qed.

Lemma NoDup_snoc {A} (l : list A) x : NoDup l -> ~ In x l -> NoDup (l ++ [x]).
Proof.
  induction 1 as [|a r Ha Hr IH]; simpl; intros Hx.
  - constructor; [intros [] | constructor].
  - constructor.
    + rewrite in_app_iff. simpl. intros [H|[H|[]]]; [auto | subst; apply Hx; left; reflexivity].
    + apply IH. intros H. apply Hx. right. exact H.
Qed.

Lemma length_le1 {A} (l : list A) x y : List.length l <= 1 -> In x l -> In y l -> x = y.
Proof.
  destruct l as [|a [|b r]]; simpl; intros H Hx Hy; try lia; try tauto.
  destruct Hx as [<-|[]], Hy as [<-|[]]. reflexivity.
Qed.

(* ------------------------------------------------------------------ *)
(* Signature validation                                                 *)

Definition first_ok (ps : list param) : bool :=
  match ps with [] => true | p :: _ => String.eqb (p_name p) "self" end.
Definition kind_ok (p : param) : bool :=
  match p_kind p with PosOnly | PosOrKw => true | _ => false end.
Definition allowedb (n : string) : bool := mem n allowed_args.

Lemma first_ok_false ps : first_ok ps = false <-> first_not_self ps.
Proof.
  destruct ps as [|p r]; cbn [first_ok first_not_self].
  - split; [discriminate | tauto].
  - destruct (String.eqb_spec (p_name p) "self"); split; intros; congruence.
Qed.

Lemma kinds_false ps : forallb kind_ok ps = false <-> Exists bad_kind ps.
Proof.
  induction ps as [|p r IH]; simpl.
  - split; [discriminate | intros H; inversion H].
  - split.
    + intros H. apply andb_false_iff in H. destruct H as [H|H].
      * apply Exists_cons_hd. unfold kind_ok in H. unfold bad_kind.
        destruct (p_kind p); try discriminate; auto.
      * apply Exists_cons_tl, IH, H.
    + intros H. apply andb_false_iff. inversion H as [? ? Hp|? ? Hr]; subst.
      * left. unfold kind_ok. destruct Hp as [E|[E|E]]; rewrite E; reflexivity.
      * right. apply IH, Hr.
Qed.

Lemma names_bad ps :
  filter (fun n => negb (allowedb n)) (map p_name ps) <> [] <-> Exists bad_name ps.
Proof.
  induction ps as [|p r IH]; cbn [map filter].
  - split; [congruence | intros H; inversion H].
  - destruct (allowedb (p_name p)) eqn:E; cbn [negb].
    + rewrite IH. split.
      * apply Exists_cons_tl.
      * intros H. inversion H as [? ? Hp|? ? Hr]; subst; [|exact Hr].
        exfalso. apply Hp. apply mem_In. exact E.
    + split; [|discriminate]. intros _. apply Exists_cons_hd.
      unfold bad_name. apply mem_false. exact E.
Qed.

Lemma sig_loop_ok ps : forall i a inv,
  (i = 0 -> first_ok ps = true) -> forallb kind_ok ps = true ->
  sig_loop i ps a inv =
  Ok (a ++ filter allowedb (map p_name ps),
      inv ++ filter (fun n => negb (allowedb n)) (map p_name ps)).
Proof.
  induction ps as [|p r IH]; intros i a inv Hf Hk.
  - cbn [sig_loop map filter]. rewrite !app_nil_r. reflexivity.
  - cbn [forallb] in Hk. apply andb_true_iff in Hk. destruct Hk as [Hp Hr].
    cbn [sig_loop map filter].
    assert (T : Nat.eqb i 0 && negb (String.eqb (p_name p) "self") = false).
    { destruct i; cbn [Nat.eqb andb]; [|reflexivity]. cbn [first_ok] in Hf.
      rewrite (Hf eq_refl). reflexivity. }
    rewrite T. unfold kind_ok in Hp.
    assert (Hs : S i = 0 -> first_ok r = true) by discriminate.
    change (mem (p_name p) allowed_args) with (allowedb (p_name p)).
    destruct (p_kind p); try discriminate;
      destruct (allowedb (p_name p)) eqn:E; cbn [negb];
      rewrite (IH (S i) _ _ Hs Hr), <- app_assoc; reflexivity.
Qed.

Lemma sig_loop_total ps : forall i a inv,
  (i = 0 /\ first_ok ps = false) \/ forallb kind_ok ps = false ->
  exists e, sig_loop i ps a inv = Err e /\ forall l, e <> ErrInvalidNames l.
Proof.
  induction ps as [|p r IH]; intros i a inv H.
  - destruct H as [[_ H]|H]; discriminate.
  - cbn [sig_loop].
    destruct (Nat.eqb i 0 && negb (String.eqb (p_name p) "self")) eqn:T.
    + eexists; split; [reflexivity | discriminate].
    + assert (Hr : p_kind p = PosOnly \/ p_kind p = PosOrKw -> forallb kind_ok r = false).
      { intros Hk. destruct H as [[Hi H]|H].
        - subst i. cbn [first_ok] in H. cbn [Nat.eqb andb] in T. rewrite H in T. discriminate.
        - cbn [forallb] in H. apply andb_false_iff in H. destruct H as [H|H]; [|exact H].
          unfold kind_ok in H. destruct Hk as [E|E]; rewrite E in H; discriminate. }
      destruct (p_kind p); try (eexists; split; [reflexivity | discriminate]);
        (destruct (mem (p_name p) allowed_args); apply IH; right; apply Hr; auto).
Qed.

Lemma sig_loop_err ps : forall i a inv e, sig_loop i ps a inv = Err e ->
  match e with
  | ErrFirstNotSelf => i = 0 /\ first_not_self ps
  | ErrVarPos => Exists (fun p => p_kind p = VarPos) ps
  | ErrVarKw => Exists (fun p => p_kind p = VarKw) ps
  | ErrKwOnly => Exists (fun p => p_kind p = KwOnly) ps
  | ErrInvalidNames _ => False
  end.
Proof.
  induction ps as [|p r IH]; intros i a inv e H; cbn [sig_loop] in H; [discriminate|].
  destruct (Nat.eqb i 0 && negb (String.eqb (p_name p) "self")) eqn:T.
  - inversion H; subst. apply andb_true_iff in T. destruct T as [T1 T2].
    apply Nat.eqb_eq in T1. split; [exact T1|]. cbn [first_not_self].
    destruct (String.eqb_spec (p_name p) "self"); [discriminate | assumption].
  - assert (R : forall i' a' inv', sig_loop i' r a' inv' = Err e -> i' <> 0 ->
              match e with
              | ErrFirstNotSelf => i = 0 /\ first_not_self (p :: r)
              | ErrVarPos => Exists (fun p => p_kind p = VarPos) (p :: r)
              | ErrVarKw => Exists (fun p => p_kind p = VarKw) (p :: r)
              | ErrKwOnly => Exists (fun p => p_kind p = KwOnly) (p :: r)
              | ErrInvalidNames _ => False
              end).
    { intros i' a' inv' H' Hi. specialize (IH _ _ _ _ H').
      destruct e; try (apply Exists_cons_tl; exact IH); [|exact IH].
      destruct IH as [IH _]. contradiction. }
    destruct (p_kind p) eqn:K;
      try (inversion H; subst; apply Exists_cons_hd; exact K);
      (destruct (mem (p_name p) allowed_args); apply (R _ _ _ H); discriminate).
Qed.

(* the two regimes of validate_sig *)
Lemma validate_sig_good ps :
  first_ok ps = true -> forallb kind_ok ps = true ->
  validate_sig ps =
  match filter (fun n => negb (allowedb n)) (map p_name ps) with
  | [] => Ok (filter allowedb (map p_name ps))
  | l => Err (ErrInvalidNames l)
  end.
Proof.
  intros Hf Hk. unfold validate_sig. rewrite (sig_loop_ok ps 0 [] [] (fun _ => Hf) Hk).
  simpl. destruct (filter _ (map p_name ps)); reflexivity.
Qed.

Lemma validate_sig_bad ps :
  first_ok ps = false \/ forallb kind_ok ps = false ->
  exists e, validate_sig ps = Err e /\ forall l, e <> ErrInvalidNames l.
Proof.
  intros H. unfold validate_sig.
  destruct (sig_loop_total ps 0 [] []) as [e [E N]].
  { destruct H; [left; split; [reflexivity | assumption] | right; assumption]. }
  rewrite E. exists e. split; [reflexivity | exact N].
Qed.

Theorem sig_reject_iff ps :
  (exists e, validate_sig ps = Err e) <-> sig_faulty ps.
Proof.
  unfold sig_faulty.
  destruct (first_ok ps) eqn:Hf.
  2:{ split; intros _.
      - left. apply first_ok_false, Hf.
      - destruct (validate_sig_bad ps (or_introl Hf)) as [e [E _]]. exists e. exact E. }
  destruct (forallb kind_ok ps) eqn:Hk.
  2:{ split; intros _.
      - right; left. apply kinds_false, Hk.
      - destruct (validate_sig_bad ps (or_intror Hk)) as [e [E _]]. exists e. exact E. }
  rewrite (validate_sig_good ps Hf Hk).
  split.
  - intros [e E]. right; right. apply names_bad.
    destruct (filter _ (map p_name ps)); [discriminate | discriminate].
  - intros [H|[H|H]].
    + apply first_ok_false in H. congruence.
    + apply kinds_false in H. congruence.
    + apply names_bad in H. destruct (filter _ (map p_name ps)) as [|x l]; [congruence|].
      eexists. reflexivity.
Qed.

Theorem sig_ok_args ps args : validate_sig ps = Ok args -> args = map p_name ps.
Proof.
  intros H.
  destruct (first_ok ps) eqn:Hf.
  2:{ destruct (validate_sig_bad ps (or_introl Hf)) as [e [E _]]. congruence. }
  destruct (forallb kind_ok ps) eqn:Hk.
  2:{ destruct (validate_sig_bad ps (or_intror Hk)) as [e [E _]]. congruence. }
  rewrite (validate_sig_good ps Hf Hk) in H.
  destruct (filter (fun n => negb (allowedb n)) (map p_name ps)) eqn:F; [|discriminate].
  inversion H. apply filter_all. intros x Hx.
  rewrite filter_nil_iff in F. specialize (F x Hx). destruct (allowedb x); [reflexivity | discriminate].
Qed.

Theorem sig_ok_iff ps : validate_sig ps = Ok (map p_name ps) <-> ~ sig_faulty ps.
Proof.
  rewrite <- sig_reject_iff. split.
  - intros H [e E]. congruence.
  - intros H. destruct (validate_sig ps) as [args|e] eqn:E.
    + rewrite (sig_ok_args ps args E). reflexivity.
    + exfalso. apply H. exists e. reflexivity.
Qed.

Theorem sig_err_sound ps e : validate_sig ps = Err e ->
  match e with
  | ErrFirstNotSelf => first_not_self ps
  | ErrVarPos => Exists (fun p => p_kind p = VarPos) ps
  | ErrVarKw => Exists (fun p => p_kind p = VarKw) ps
  | ErrKwOnly => Exists (fun p => p_kind p = KwOnly) ps
  | ErrInvalidNames l =>
      l = filter (fun n => negb (mem n allowed_args)) (map p_name ps) /\ l <> [] /\
      ~ first_not_self ps /\ ~ Exists bad_kind ps
  end.
Proof.
  intros H.
  destruct (first_ok ps && forallb kind_ok ps) eqn:G.
  - apply andb_true_iff in G. destruct G as [Hf Hk].
    rewrite (validate_sig_good ps Hf Hk) in H.
    destruct (filter (fun n => negb (allowedb n)) (map p_name ps)) as [|x l] eqn:F; [discriminate|].
    inversion H; subst. split; [symmetry; exact F|]. split; [discriminate|].
    split; intros X.
    + apply first_ok_false in X. congruence.
    + apply kinds_false in X. congruence.
  - unfold validate_sig in H. destruct (sig_loop 0 ps [] []) as [[args inv]|e'] eqn:L.
    + exfalso. apply andb_false_iff in G.
      destruct (sig_loop_total ps 0 [] []) as [e'' [E'' _]]; [|congruence].
      destruct G; [left; split; [reflexivity | assumption] | right; assumption].
    + inversion H; subst. pose proof (sig_loop_err ps 0 [] [] e L) as S.
      destruct e; try exact S; [destruct S as [_ S]; exact S | contradiction].
Qed.

(* the adapter hands every declared parameter the value of its own name *)
Lemma env_get_allowed {V} (e : callenv V) n : In n allowed_args -> env_get e n <> None.
Proof.
  unfold allowed_args. simpl. intros [<-|[<-|[<-|[<-|[]]]]]; unfold env_get; simpl; discriminate.
Qed.

Theorem adapter_order ps args : validate_sig ps = Ok args ->
  forall V (e : callenv V),
    adapter args e = map (fun p => env_get e (p_name p)) ps /\ ~ In None (adapter args e).
Proof.
  intros H V e. pose proof (sig_ok_args ps args H) as E. subst args. split.
  - unfold adapter. rewrite map_map. reflexivity.
  - assert (NF : ~ sig_faulty ps) by (apply sig_ok_iff; exact H).
    unfold adapter. rewrite in_map_iff. intros [n [Hn Hin]].
    apply in_map_iff in Hin. destruct Hin as [p [<- Hp]].
    destruct (mem (p_name p) allowed_args) eqn:M.
    + apply mem_In in M. exact (env_get_allowed e _ M Hn).
    + apply NF. right; right. apply Exists_exists. exists p. split; [exact Hp|].
      unfold bad_name. apply mem_false. exact M.
Qed.

(* ------------------------------------------------------------------ *)
(* The _State constructor, __call__, __set_name__                       *)

(* whichever way the decorator is spelled, the wrapper is built by ONE call of
   _State.__init__ with the options as the source wrote them *)
Lemma construct_eq reserved d :
  construct reserved d =
  init_state reserved d (marked_first (d_deco d)) (marked_must_finish (d_deco d))
             (marked_timed (d_deco d)) (marked_default (d_deco d)).
Proof. unfold construct. destruct (d_deco d); reflexivity. Qed.

Theorem name_reject_iff reserved d :
  construct reserved d = Err EInvalidStateName <-> In (d_fname d) reserved.
Proof.
  rewrite construct_eq. unfold init_state, check_name. rewrite <- mem_In.
  destruct (mem (d_fname d) reserved).
  - split; reflexivity.
  - destruct (validate_sig (d_params d)); split; discriminate.
Qed.

Definition deco_first := marked_first.
Definition deco_default := marked_default.

Lemma construct_ok reserved d s : construct reserved d = Ok s ->
  ~ In (d_fname d) reserved /\ validate_sig (d_params d) = Ok (s_args s) /\
  s_name s = d_fname d /\ s_desc s = d_doc d /\
  s_first s = deco_first (d_deco d) /\ s_default s = deco_default (d_deco d).
Proof.
  rewrite construct_eq. unfold init_state, check_name.
  destruct (mem (d_fname d) reserved) eqn:M; [discriminate|].
  destruct (validate_sig (d_params d)) as [args|e]; [|discriminate].
  intros H. inversion H; subst. split; [apply mem_false; exact M|].
  simpl; repeat split; reflexivity.
Qed.

(* every field the decorator options determine *)
Theorem marks_kept reserved d s : construct reserved d = Ok s ->
  s_first s = marked_first (d_deco d) /\ s_must_finish s = marked_must_finish (d_deco d) /\
  s_default s = marked_default (d_deco d) /\ s_timed s = marked_timed (d_deco d) /\
  s_name s = d_fname d /\ s_desc s = d_doc d.
Proof.
  rewrite construct_eq. unfold init_state, check_name.
  destruct (mem (d_fname d) reserved); [discriminate|].
  destruct (validate_sig (d_params d)) as [args|e]; [|discriminate].
  intros H. inversion H; subst. simpl. repeat split; reflexivity.
Qed.

(* the two call paths of [state] agree: the function and the options in one
   call give exactly what the decorator returned for these options gives when
   it is applied to the function *)
Theorem state_fn_paths_agree reserved g first mf :
  exists dec, state_fn reserved None first mf = RDecorator dec /\
              state_fn reserved (Some g) first mf = RWrapper (dec g).
Proof. eexists. split; reflexivity. Qed.

(* two decorated functions that differ only in the SPELLING of the decorator
   (same function, same options) yield the same state or the same error *)
Theorem spelling_irrelevant reserved d d' :
  d_fname d = d_fname d' -> d_params d = d_params d' -> d_doc d = d_doc d' ->
  marked_first (d_deco d) = marked_first (d_deco d') ->
  marked_must_finish (d_deco d) = marked_must_finish (d_deco d') ->
  marked_timed (d_deco d) = marked_timed (d_deco d') ->
  marked_default (d_deco d) = marked_default (d_deco d') ->
  construct reserved d = construct reserved d'.
Proof.
  intros E1 E2 E3 E4 E5 E6 E7. rewrite !construct_eq. unfold init_state.
  rewrite E1, E2, E3, E4, E5, E6, E7. reflexivity.
Qed.

Theorem construct_ok_iff reserved d :
  (exists s, construct reserved d = Ok s) <->
  ~ In (d_fname d) reserved /\ ~ sig_faulty (d_params d).
Proof.
  split.
  - intros [s H]. destruct (construct_ok reserved d s H) as [N [S _]]. split; [exact N|].
    rewrite <- sig_reject_iff. intros [e E]. congruence.
  - intros [N S]. apply sig_ok_iff in S. rewrite construct_eq. unfold init_state, check_name.
    apply mem_false in N. rewrite N, S. eexists. reflexivity.
Qed.

Theorem direct_call {A K} (s : sdata) (args : list A) (kwargs : list (string * K)) :
  call_state s args kwargs = Err IllegalCall.
Proof. reflexivity. Qed.

Theorem set_name_ok_iff osm attr sname :
  set_name osm attr sname = Ok tt <-> attr = sname /\ osm = true.
Proof.
  unfold set_name. destruct (String.eqb_spec attr sname) as [E|E]; simpl.
  - destruct osm; simpl; split; intros; try discriminate; auto. destruct H; discriminate.
  - split; [discriminate | intros [H _]; contradiction].
Qed.

Theorem set_name_err osm attr sname :
  (attr <> sname -> set_name osm attr sname = Err EAlias) /\
  (attr = sname -> osm = false -> set_name osm attr sname = Err ENotStateMachine).
Proof.
  unfold set_name. split.
  - intros H. destruct (String.eqb_spec attr sname); [contradiction | reflexivity].
  - intros E ->. destruct (String.eqb_spec attr sname); [reflexivity | contradiction].
Qed.

(* ------------------------------------------------------------------ *)
(* Dicts                                                                *)

Lemma dict_get_set {V} k (v : V) k' d :
  dict_get k' (dict_set k v d) = if String.eqb k k' then Some v else dict_get k' d.
Proof.
  induction d as [|[k1 v1] r IH]; cbn [dict_set dict_get].
  - reflexivity.
  - destruct (String.eqb_spec k1 k) as [E|E]; cbn [dict_get].
    + subst k1. destruct (String.eqb_spec k k'); reflexivity.
    + destruct (String.eqb_spec k1 k') as [E'|E'].
      * subst k1. destruct (String.eqb_spec k k'); [congruence | reflexivity].
      * exact IH.
Qed.

Lemma keys_set {V} k (v : V) d :
  keys (dict_set k v d) = if mem k (keys d) then keys d else keys d ++ [k].
Proof.
  unfold keys. induction d as [|[k1 v1] r IH]; cbn [dict_set map mem fst].
  - reflexivity.
  - destruct (String.eqb k1 k); cbn [map fst]; [reflexivity|].
    rewrite IH. destruct (mem k (map fst r)); reflexivity.
Qed.

Lemma NoDup_keys_set {V} k (v : V) d : NoDup (keys d) -> NoDup (keys (dict_set k v d)).
Proof.
  intros H. rewrite keys_set. destruct (mem k (keys d)) eqn:M; [exact H|].
  apply NoDup_snoc; [exact H | apply mem_false; exact M].
Qed.

Lemma dict_get_In {V} (d : dict V) k v : dict_get k d = Some v -> In (k, v) d.
Proof.
  induction d as [|[k1 v1] r IH]; cbn [dict_get]; [discriminate|].
  destruct (String.eqb_spec k1 k).
  - intros H. inversion H; subst. left. reflexivity.
  - intros H. right. apply IH, H.
Qed.

Lemma In_dict_get {V} (d : dict V) k v : NoDup (keys d) -> In (k, v) d -> dict_get k d = Some v.
Proof.
  unfold keys. induction d as [|[k1 v1] r IH]; cbn [map fst dict_get]; intros N H; [destruct H|].
  inversion N as [|? ? Hn Hr]; subst.
  destruct H as [H|H].
  - inversion H; subst. rewrite String.eqb_refl. reflexivity.
  - destruct (String.eqb_spec k1 k) as [E|E].
    + subst. exfalso. apply Hn. apply in_map_iff. exists (k, v). split; [reflexivity | exact H].
    + apply IH; assumption.
Qed.

Lemma dict_get_update {V} k (src : list (string * V)) : forall d,
  dict_get k (dict_update d src) =
  match lookup_last k src with Some v => Some v | None => dict_get k d end.
Proof.
  unfold dict_update. induction src as [|[k1 v1] r IH]; intros d; cbn [fold_left lookup_last fst snd].
  - reflexivity.
  - rewrite IH. destruct (lookup_last k r); [reflexivity|].
    rewrite dict_get_set. destruct (String.eqb k1 k); reflexivity.
Qed.

Definition add_keys (acc l : list string) : list string :=
  fold_left (fun acc x => if mem x acc then acc else acc ++ [x]) l acc.

Lemma keys_update {V} (src : list (string * V)) : forall d,
  keys (dict_update d src) = add_keys (keys d) (keys src).
Proof.
  unfold dict_update, add_keys. induction src as [|[k1 v1] r IH]; intros d.
  - reflexivity.
  - change (keys ((k1, v1) :: r)) with (k1 :: keys r). cbn [fold_left fst snd].
    rewrite IH. rewrite keys_set. reflexivity.
Qed.

Lemma NoDup_keys_update {V} (src : list (string * V)) : forall d,
  NoDup (keys d) -> NoDup (keys (dict_update d src)).
Proof.
  unfold dict_update. induction src as [|[k1 v1] r IH]; intros d H; cbn [fold_left fst snd].
  - exact H.
  - apply IH. apply NoDup_keys_set, H.
Qed.

Lemma add_keys_app acc l1 l2 : add_keys acc (l1 ++ l2) = add_keys (add_keys acc l1) l2.
Proof. unfold add_keys. apply fold_left_app. Qed.

Lemma add_keys_spec l : forall acc,
  add_keys acc l = acc ++ filter (fun x => negb (mem x acc)) (dedup_first l).
Proof.
  unfold add_keys. induction l as [|a r IH]; intros acc; cbn [fold_left dedup_first filter].
  - rewrite app_nil_r. reflexivity.
  - rewrite IH. destruct (mem a acc) eqn:M; cbn [negb].
    + f_equal. rewrite filter_filter. apply filter_ext. intros x.
      destruct (mem x acc) eqn:Mx; cbn [negb]; [symmetry; apply andb_false_r|].
      rewrite andb_true_r. destruct (String.eqb_spec x a); [congruence | reflexivity].
    + rewrite <- app_assoc. cbn [app]. f_equal. f_equal.
      rewrite filter_filter. apply filter_ext. intros x.
      rewrite mem_app. cbn [mem]. rewrite (String.eqb_sym a x).
      destruct (mem x acc), (String.eqb x a); reflexivity.
Qed.

Lemma add_keys_nil l : add_keys [] l = dedup_first l.
Proof.
  rewrite add_keys_spec. cbn [app]. apply filter_all. reflexivity.
Qed.

(* ------------------------------------------------------------------ *)
(* _get_class_members                                                   *)

Lemma class_members_cons b r : class_members (b :: r) = dict_update (class_members r) b.
Proof. unfold class_members. cbn [rev]. rewrite fold_left_app. reflexivity. Qed.

Theorem class_members_get mro k : dict_get k (class_members mro) = effective mro k.
Proof.
  induction mro as [|b r IH]; [reflexivity|].
  rewrite class_members_cons, dict_get_update, IH. reflexivity.
Qed.

Lemma class_members_NoDup mro : NoDup (keys (class_members mro)).
Proof.
  induction mro as [|b r IH]; [constructor|].
  rewrite class_members_cons. apply NoDup_keys_update, IH.
Qed.

Lemma keys_fold_update (L : list (dict member)) : forall d,
  keys (fold_left dict_update L d) = add_keys (keys d) (flat_map keys L).
Proof.
  induction L as [|b r IH]; intros d; cbn [fold_left flat_map].
  - reflexivity.
  - rewrite IH, keys_update, add_keys_app. reflexivity.
Qed.

Theorem class_members_keys mro : keys (class_members mro) = dedup_first (bases_first mro).
Proof.
  unfold class_members, bases_first. rewrite keys_fold_update. apply add_keys_nil.
Qed.

Theorem class_members_In mro k m : In (k, m) (class_members mro) <-> effective mro k = Some m.
Proof.
  rewrite <- class_members_get. split.
  - apply In_dict_get, class_members_NoDup.
  - apply dict_get_In.
Qed.

(* ------------------------------------------------------------------ *)
(* _build_states                                                        *)

Definition is_first_entry (kv : string * member) : bool :=
  match snd kv with MState s => s_first s | MOther => false end.
Definition is_default_entry (kv : string * member) : bool :=
  match snd kv with MState s => s_default s | MOther => false end.
Definition is_state_entry (kv : string * member) : bool :=
  match snd kv with MState _ => true | MOther => false end.
Definition entry_desc (kv : string * member) : string :=
  match snd kv with MState s => desc_text s | MOther => "" end.

Definition nfirst (ms : dict member) : nat := List.length (filter is_first_entry ms).
Definition ndefault (ms : dict member) : nat := List.length (filter is_default_entry ms).
Definition state_keys (ms : dict member) : list string := keys (filter is_state_entry ms).
Definition state_descs (ms : dict member) : list string := map entry_desc (filter is_state_entry ms).
Definition b2n (b : bool) : nat := if b then 1 else 0.
Definition or_head (l : list string) (o : option string) : option string :=
  match l with [] => o | k :: _ => Some k end.

Lemma build_loop_spec ms : forall st,
  match build_loop ms st with
  | Ok st' =>
      nfirst ms + b2n (is_some (b_first st)) <= 1 /\
      ndefault ms + b2n (is_some (b_default st)) <= 1 /\
      b_names st' = b_names st ++ state_keys ms /\
      b_descs st' = b_descs st ++ state_descs ms /\
      b_first st' = or_head (keys (filter is_first_entry ms)) (b_first st) /\
      b_default st' = or_head (keys (filter is_default_entry ms)) (b_default st)
  | Err MultipleFirst => 2 <= nfirst ms + b2n (is_some (b_first st))
  | Err MultipleDefault => 2 <= ndefault ms + b2n (is_some (b_default st))
  | Err NoFirst => False
  end.
Proof.
  unfold nfirst, ndefault, state_keys, state_descs, keys.
  induction ms as [|[k m] r IH]; intros st.
  - cbn. rewrite !app_nil_r. destruct (b_first st), (b_default st); cbn; repeat split; lia.
  - destruct m as [s|].
    2:{ cbn [build_loop filter is_first_entry is_default_entry is_state_entry snd]. apply IH. }
    cbn [build_loop filter is_first_entry is_default_entry is_state_entry snd].
    destruct (s_first s) eqn:F; destruct (is_some (b_first st)) eqn:HF; cbn [andb].
    + (* second first state *)
      cbn [List.length b2n]. lia.
    + destruct (s_default s) eqn:D.
      * destruct (is_some (b_default st)) eqn:HD.
        -- cbn [List.length b2n]. lia.
        -- match goal with |- context [build_loop r ?st1] => specialize (IH st1) end.
           destruct (build_loop r _) as [st'|[]]; cbn [b_first b_default b_names b_descs is_some b2n] in IH |- *;
             cbn [List.length map fst or_head entry_desc snd]; try lia; try exact IH.
           destruct IH as (A & B & C & E & G & H).
           assert (Z1 : List.length (filter is_first_entry r) = 0) by lia.
           assert (Z2 : List.length (filter is_default_entry r) = 0) by lia.
           apply length_zero_iff_nil in Z1. apply length_zero_iff_nil in Z2.
           rewrite Z1 in *. rewrite Z2 in *. cbn [map or_head List.length] in *.
           rewrite <- !app_assoc in C, E. cbn [app] in C, E.
           repeat split; try assumption; try lia.
      * match goal with |- context [build_loop r ?st1] => specialize (IH st1) end.
        destruct (build_loop r _) as [st'|[]]; cbn [b_first b_default b_names b_descs is_some b2n] in IH |- *;
          cbn [List.length map fst or_head entry_desc snd]; try lia; try exact IH.
        destruct IH as (A & B & C & E & G & H).
        assert (Z1 : List.length (filter is_first_entry r) = 0) by lia.
        apply length_zero_iff_nil in Z1.
        rewrite Z1 in *. cbn [map or_head List.length] in *.
        rewrite <- !app_assoc in C, E. cbn [app] in C, E.
        repeat split; try assumption; try lia.
    + destruct (s_default s) eqn:D.
      * destruct (is_some (b_default st)) eqn:HD.
        -- cbn [List.length b2n]. lia.
        -- match goal with |- context [build_loop r ?st1] => specialize (IH st1) end.
           cbn [b_first b_default b_names b_descs] in IH. rewrite ?HF, ?HD in IH.
           destruct (build_loop r _) as [st'|[]]; cbn [b_first b_default b_names b_descs is_some b2n] in IH |- *;
             cbn [List.length map fst or_head entry_desc snd]; try lia; try exact IH.
           destruct IH as (A & B & C & E & G & H).
           assert (Z2 : List.length (filter is_default_entry r) = 0) by lia.
           apply length_zero_iff_nil in Z2.
           rewrite Z2 in *. cbn [map or_head List.length] in *.
           rewrite <- !app_assoc in C, E. cbn [app] in C, E.
           repeat split; try assumption; try lia.
      * match goal with |- context [build_loop r ?st1] => specialize (IH st1) end.
        cbn [b_first b_default b_names b_descs] in IH. rewrite ?HF, ?HD in IH.
        destruct (build_loop r _) as [st'|[]]; cbn [b_first b_default b_names b_descs is_some b2n] in IH |- *;
          cbn [List.length map fst or_head entry_desc snd]; try lia; try exact IH.
        destruct IH as (A & B & C & E & G & H).
        rewrite <- !app_assoc in C, E. cbn [app] in C, E.
        repeat split; try assumption; try lia.
    + destruct (s_default s) eqn:D.
      * destruct (is_some (b_default st)) eqn:HD.
        -- cbn [List.length b2n]. lia.
        -- match goal with |- context [build_loop r ?st1] => specialize (IH st1) end.
           cbn [b_first b_default b_names b_descs] in IH. rewrite ?HF, ?HD in IH.
           destruct (build_loop r _) as [st'|[]]; cbn [b_first b_default b_names b_descs is_some b2n] in IH |- *;
             cbn [List.length map fst or_head entry_desc snd]; try lia; try exact IH.
           destruct IH as (A & B & C & E & G & H).
           assert (Z2 : List.length (filter is_default_entry r) = 0) by lia.
           apply length_zero_iff_nil in Z2.
           rewrite Z2 in *. cbn [map or_head List.length] in *.
           rewrite <- !app_assoc in C, E. cbn [app] in C, E.
           repeat split; try assumption; try lia.
      * match goal with |- context [build_loop r ?st1] => specialize (IH st1) end.
        cbn [b_first b_default b_names b_descs] in IH. rewrite ?HF, ?HD in IH.
        destruct (build_loop r _) as [st'|[]]; cbn [b_first b_default b_names b_descs is_some b2n] in IH |- *;
          cbn [List.length map fst or_head entry_desc snd]; try lia; try exact IH.
        destruct IH as (A & B & C & E & G & H).
        rewrite <- !app_assoc in C, E. cbn [app] in C, E.
        repeat split; try assumption; try lia.
Qed.

Definition init_bstate : bstate :=
  {| b_first := None; b_default := None; b_names := []; b_descs := [] |}.

(* what every outcome of build_states says about the merged member dict *)
Lemma build_states_counts mro :
  let ms := class_members mro in
  match build_states mro with
  | Ok r => filter is_first_entry ms <> [] /\ nfirst ms = 1 /\ ndefault ms <= 1 /\
            r_names r = state_keys ms /\ r_descs r = state_descs ms /\
            keys (filter is_first_entry ms) = [r_first r] /\
            r_default r = or_head (keys (filter is_default_entry ms)) None
  | Err NoFirst => nfirst ms = 0 /\ ndefault ms <= 1
  | Err MultipleFirst => 2 <= nfirst ms
  | Err MultipleDefault => 2 <= ndefault ms
  end.
Proof.
  intros ms. unfold build_states. fold ms. fold init_bstate.
  pose proof (build_loop_spec ms init_bstate) as S.
  destruct (build_loop ms init_bstate) as [st'|[]]; cbn [init_bstate b_first b_default b_names b_descs is_some b2n app] in S;
    try lia; try contradiction.
  destruct S as (A & B & C & E & G & H).
  unfold nfirst in *. destruct (b_first st') as [f|] eqn:F.
  - destruct (filter is_first_entry ms) as [|x l] eqn:Q; cbn [keys map or_head] in G; [discriminate|].
    cbn [List.length] in A. assert (L : l = []) by (apply length_zero_iff_nil; lia). subst l.
    inversion G; subst. cbn [r_first r_default r_names r_descs List.length map keys].
    repeat split; try assumption; try lia. discriminate.
  - destruct (filter is_first_entry ms) as [|x l] eqn:Q; cbn [keys map or_head] in G; [|discriminate].
    cbn [List.length]. split; lia.
Qed.

Lemma NoDup_keys_filter {V} (p : string * V -> bool) (d : dict V) :
  NoDup (keys d) -> NoDup (keys (filter p d)).
Proof.
  unfold keys. induction d as [|a r IH]; cbn [filter map]; intros N; [constructor|].
  inversion N as [|? ? Hn Hr]; subst.
  destruct (p a); cbn [map]; [|apply IH, Hr].
  constructor; [|apply IH, Hr].
  intros H. apply Hn. apply in_map_iff in H. destruct H as [x [E Hx]].
  apply filter_In in Hx. apply in_map_iff. exists x. split; [exact E | apply Hx].
Qed.

Lemma two_in_filter {V} (p : string * V -> bool) (d : dict V) :
  NoDup (keys d) -> 2 <= List.length (filter p d) ->
  exists x y, In x d /\ In y d /\ p x = true /\ p y = true /\ fst x <> fst y.
Proof.
  intros N L. pose proof (NoDup_keys_filter p d N) as NF.
  destruct (filter p d) as [|x [|y l]] eqn:Q; cbn [List.length] in L; try lia.
  assert (Hx : In x (filter p d)) by (rewrite Q; left; reflexivity).
  assert (Hy : In y (filter p d)) by (rewrite Q; right; left; reflexivity).
  apply filter_In in Hx. apply filter_In in Hy.
  exists x, y. repeat split; try tauto.
  unfold keys in NF. cbn [map] in NF. inversion NF as [|? ? Hn _]; subst.
  intros E. apply Hn. left. symmetry. exact E.
Qed.

Lemma first_in_entry mro n :
  first_in mro n <-> exists kv, In kv (class_members mro) /\ is_first_entry kv = true /\ fst kv = n.
Proof.
  unfold first_in, eff_state. split.
  - intros [s [E F]]. exists (n, MState s). rewrite class_members_In. auto.
  - intros [[k m] [I [F E]]]. cbn [fst] in E. subst k. unfold is_first_entry in F. cbn [snd] in F.
    destruct m as [s|]; [|discriminate]. exists s. rewrite <- class_members_In. auto.
Qed.

Lemma default_in_entry mro n :
  default_in mro n <-> exists kv, In kv (class_members mro) /\ is_default_entry kv = true /\ fst kv = n.
Proof.
  unfold default_in, eff_state. split.
  - intros [s [E F]]. exists (n, MState s). rewrite class_members_In. auto.
  - intros [[k m] [I [F E]]]. cbn [fst] in E. subst k. unfold is_default_entry in F. cbn [snd] in F.
    destruct m as [s|]; [|discriminate]. exists s. rewrite <- class_members_In. auto.
Qed.

Lemma nfirst_zero mro : nfirst (class_members mro) = 0 -> forall n, ~ first_in mro n.
Proof.
  intros Z n H. apply first_in_entry in H. destruct H as [kv [I [F _]]].
  unfold nfirst in Z. apply length_zero_iff_nil in Z.
  rewrite filter_nil_iff in Z. rewrite (Z kv I) in F. discriminate.
Qed.

Lemma nfirst_two mro : 2 <= nfirst (class_members mro) ->
  exists n1 n2, n1 <> n2 /\ first_in mro n1 /\ first_in mro n2.
Proof.
  intros L. destruct (two_in_filter _ _ (class_members_NoDup mro) L) as [x [y (Ix & Iy & Px & Py & N)]].
  exists (fst x), (fst y). split; [exact N|].
  split; apply first_in_entry; eexists; eauto.
Qed.

Lemma ndefault_two mro : 2 <= ndefault (class_members mro) ->
  exists n1 n2, n1 <> n2 /\ default_in mro n1 /\ default_in mro n2.
Proof.
  intros L. destruct (two_in_filter _ _ (class_members_NoDup mro) L) as [x [y (Ix & Iy & Px & Py & N)]].
  exists (fst x), (fst y). split; [exact N|].
  split; apply default_in_entry; eexists; eauto.
Qed.

Lemma nfirst_le1 mro : nfirst (class_members mro) <= 1 ->
  forall n1 n2, first_in mro n1 -> first_in mro n2 -> n1 = n2.
Proof.
  intros L n1 n2 H1 H2. apply first_in_entry in H1, H2.
  destruct H1 as [x [Ix [Px <-]]], H2 as [y [Iy [Py <-]]].
  f_equal. apply (length_le1 _ x y L); apply filter_In; auto.
Qed.

Lemma ndefault_le1 mro : ndefault (class_members mro) <= 1 -> at_most_one_default mro.
Proof.
  intros L n1 n2 H1 H2. apply default_in_entry in H1, H2.
  destruct H1 as [x [Ix [Px <-]]], H2 as [y [Iy [Py <-]]].
  f_equal. apply (length_le1 _ x y L); apply filter_In; auto.
Qed.

Theorem build_err_sound mro e : build_states mro = Err e ->
  match e with
  | NoFirst => forall n, ~ first_in mro n
  | MultipleFirst => exists n1 n2, n1 <> n2 /\ first_in mro n1 /\ first_in mro n2
  | MultipleDefault => exists n1 n2, n1 <> n2 /\ default_in mro n1 /\ default_in mro n2
  end.
Proof.
  intros H. pose proof (build_states_counts mro) as S. cbv zeta in S. rewrite H in S.
  destruct e.
  - apply nfirst_zero, S.
  - apply nfirst_two, S.
  - apply ndefault_two, S.
Qed.

Theorem build_ok_sound mro r : build_states mro = Ok r ->
  first_in mro (r_first r) /\ (forall n, first_in mro n -> n = r_first r) /\
  at_most_one_default mro /\
  match r_default r with
  | Some d => default_in mro d
  | None => forall n, ~ default_in mro n
  end.
Proof.
  intros H. pose proof (build_states_counts mro) as S. cbv zeta in S. rewrite H in S.
  destruct S as (NE & A & B & _ & _ & K & D).
  assert (F : first_in mro (r_first r)).
  { apply first_in_entry.
    destruct (filter is_first_entry (class_members mro)) as [|x l] eqn:Q; [congruence|].
    assert (Hx : In x (filter is_first_entry (class_members mro))) by (rewrite Q; left; reflexivity).
    apply filter_In in Hx. exists x. cbn [keys map] in K. inversion K. tauto. }
  split; [exact F|]. split.
  - intros n Hn. apply (nfirst_le1 mro); [lia | exact Hn | exact F].
  - split; [apply ndefault_le1, B|].
    destruct (filter is_default_entry (class_members mro)) as [|x l] eqn:Q; cbn [keys map or_head] in D; rewrite D.
    + intros n Hn. apply default_in_entry in Hn. destruct Hn as [kv [I [P _]]].
      rewrite filter_nil_iff in Q. rewrite (Q kv I) in P. discriminate.
    + assert (Hx : In x (filter is_default_entry (class_members mro))) by (rewrite Q; left; reflexivity).
      apply filter_In in Hx. apply default_in_entry. exists x. tauto.
Qed.

Theorem build_ok_iff mro :
  (exists r, build_states mro = Ok r) <-> exactly_one_first mro /\ at_most_one_default mro.
Proof.
  split.
  - intros [r H]. destruct (build_ok_sound mro r H) as (F & U & D & _).
    split; [|exact D]. exists (r_first r). split; [exact F | exact U].
  - intros [[n [F U]] D]. destruct (build_states mro) as [r|e] eqn:H; [eexists; reflexivity|].
    exfalso. pose proof (build_err_sound mro e H) as S. destruct e.
    + exact (S n F).
    + destruct S as [n1 [n2 (N & F1 & F2)]]. apply N. rewrite (U n1 F1), (U n2 F2). reflexivity.
    + destruct S as [n1 [n2 (N & D1 & D2)]]. apply N. apply D; assumption.
Qed.

(* ---- state_names / state_descriptions ------------------------------ *)

Lemma state_keys_filter (d l : dict member) :
  (forall kv, In kv l -> dict_get (fst kv) d = Some (snd kv)) ->
  state_keys l = filter (fun k => is_state_opt (dict_get k d)) (keys l) /\
  state_descs l = map (fun k => desc_opt (dict_get k d)) (state_keys l).
Proof.
  unfold state_keys, state_descs, keys.
  induction l as [|[k m] r IH]; intros H; [split; reflexivity|].
  destruct IH as [IH1 IH2]; [intros kv Hkv; apply H; right; exact Hkv|].
  pose proof (H (k, m) (or_introl eq_refl)) as Hk. cbn [fst snd] in Hk.
  cbn [filter map fst]. rewrite Hk.
  destruct m as [s|]; cbn [is_state_opt].
  - change (is_state_entry (k, MState s)) with true. cbn [map fst]. rewrite Hk.
    cbn [desc_opt entry_desc snd].
    split; f_equal; assumption.
  - split; assumption.
Qed.

Theorem names_exact mro r : build_states mro = Ok r ->
  (forall n, In n (r_names r) <-> exists s, eff_state mro n s) /\
  NoDup (r_names r) /\
  r_names r = filter (fun n => is_state_opt (effective mro n)) (dedup_first (bases_first mro)) /\
  r_descs r = map (fun n => desc_opt (effective mro n)) (r_names r).
Proof.
  intros H. pose proof (build_states_counts mro) as S. cbv zeta in S. rewrite H in S.
  destruct S as (_ & _ & _ & Nm & Ds & _ & _).
  pose proof (class_members_NoDup mro) as ND.
  destruct (state_keys_filter (class_members mro) (class_members mro)) as [K1 K2].
  { intros [k m] I. apply In_dict_get; assumption. }
  rewrite Nm, Ds. repeat split.
  - intros I. unfold state_keys, keys in I. apply in_map_iff in I. destruct I as [[k m] [E I]].
    apply filter_In in I. destruct I as [I P]. cbn [fst] in E. subst k.
    unfold is_state_entry in P. cbn [snd] in P. destruct m as [s|]; [|discriminate].
    exists s. apply class_members_In. exact I.
  - intros [s E]. apply class_members_In in E. unfold state_keys, keys. apply in_map_iff.
    exists (n, MState s). split; [reflexivity|]. apply filter_In. split; [exact E | reflexivity].
  - apply NoDup_keys_filter, ND.
  - rewrite K1, class_members_keys. apply filter_ext. intros k. rewrite class_members_get. reflexivity.
  - rewrite K2. apply map_ext. intros k. rewrite class_members_get. reflexivity.
Qed.

Corollary descs_aligned mro r : build_states mro = Ok r ->
  List.length (r_descs r) = List.length (r_names r) /\
  forall i, i < List.length (r_names r) ->
    nth i (r_descs r) "" = desc_opt (effective mro (nth i (r_names r) "")).
Proof.
  intros H. destruct (names_exact mro r H) as (_ & _ & _ & D). rewrite D. split.
  - apply map_length.
  - intros i Hi.
    rewrite (nth_indep _ "" (desc_opt (effective mro "")))
      by (rewrite map_length; exact Hi).
    apply (map_nth (fun n => desc_opt (effective mro n))).
Qed.

(* ------------------------------------------------------------------ *)
(* The class statement                                                  *)

(* the namespace after the lines [p] holds, under every name, what the name
   denotes there *)
Definition ns_denotes reserved dicts (p : list (string * smember)) (ns : dict member) : Prop :=
  forall k, dict_get k ns = denotes reserved dicts (rev p) k.

Lemma ns_denotes_nil reserved dicts : ns_denotes reserved dicts [] [].
Proof. intros k. reflexivity. Qed.

Lemma ns_denotes_step reserved dicts p ns k m v :
  ns_denotes reserved dicts p ns -> eval_member reserved dicts ns m = Ok v ->
  ns_denotes reserved dicts (p ++ [(k, m)]) (dict_set k v ns).
Proof.
  intros H E k0. rewrite rev_unit. cbn [denotes]. rewrite dict_get_set.
  destruct (String.eqb k k0); [|apply H].
  destruct m as [d| |k2|c k2]; cbn [eval_member] in E.
  - destruct (construct reserved d) as [s|e]; [|discriminate]. inversion E; reflexivity.
  - inversion E; reflexivity.
  - rewrite <- (H k2). destruct (dict_get k2 ns); [|discriminate]. inversion E; reflexivity.
  - destruct (class_attr dicts c k2); [|discriminate]. inversion E; reflexivity.
Qed.

Lemma eval_member_ok_iff reserved dicts p ns m :
  ns_denotes reserved dicts p ns ->
  (exists v, eval_member reserved dicts ns m = Ok v) <-> entry_ok reserved dicts p m.
Proof.
  intros H. destruct m as [d| |k2|c k2]; cbn [eval_member entry_ok].
  - rewrite <- construct_ok_iff. split.
    + intros [v E]. destruct (construct reserved d) as [s|e]; [exists s; reflexivity | discriminate].
    + intros [s E]. rewrite E. eexists; reflexivity.
  - split; [trivial | intros _; eexists; reflexivity].
  - rewrite <- (H k2). destruct (dict_get k2 ns) as [v|].
    + split; [intros _; discriminate | intros _; exists v; reflexivity].
    + split; [intros [v E]; discriminate | intros N; contradiction].
  - destruct (class_attr dicts c k2) as [v|].
    + split; [intros _; discriminate | intros _; exists v; reflexivity].
    + split; [intros [v E]; discriminate | intros N; contradiction].
Qed.

Lemma eval_body_ok reserved dicts b : forall p ns0 ns,
  ns_denotes reserved dicts p ns0 -> eval_body reserved dicts b ns0 = Ok ns ->
  ns_denotes reserved dicts (p ++ b) ns /\
  (forall q k m r, b = q ++ (k, m) :: r -> entry_ok reserved dicts (p ++ q) m) /\
  (NoDup (keys ns0) -> NoDup (keys ns)).
Proof.
  induction b as [|[k1 m1] r IH]; intros p ns0 ns D H; cbn [eval_body] in H.
  - inversion H; subst. rewrite app_nil_r. repeat split; [exact D | | auto].
    intros q k m r E. destruct q; discriminate.
  - destruct (eval_member reserved dicts ns0 m1) as [v1|e1] eqn:E1; [|discriminate].
    destruct (IH _ _ _ (ns_denotes_step reserved dicts p ns0 k1 m1 v1 D E1) H) as (A & B & C).
    rewrite <- app_assoc in A. repeat split.
    + exact A.
    + intros q k m r' E. destruct q as [|x q]; cbn [app] in E.
      * inversion E; subst. rewrite app_nil_r.
        apply (eval_member_ok_iff reserved dicts p ns0 m D). exists v1. exact E1.
      * inversion E; subst. specialize (B q k m r' eq_refl).
        rewrite <- app_assoc in B. exact B.
    + intros N. apply C, NoDup_keys_set, N.
Qed.

Lemma eval_body_total reserved dicts b : forall p ns0,
  ns_denotes reserved dicts p ns0 ->
  (forall q k m r, b = q ++ (k, m) :: r -> entry_ok reserved dicts (p ++ q) m) ->
  exists ns, eval_body reserved dicts b ns0 = Ok ns.
Proof.
  induction b as [|[k1 m1] r IH]; intros p ns0 D H; cbn [eval_body].
  - eexists; reflexivity.
  - assert (O : entry_ok reserved dicts p m1).
    { specialize (H [] k1 m1 r eq_refl). rewrite app_nil_r in H. exact H. }
    apply (eval_member_ok_iff reserved dicts p ns0 m1 D) in O. destruct O as [v1 E1]. rewrite E1.
    apply (IH (p ++ [(k1, m1)]) _ (ns_denotes_step reserved dicts p ns0 k1 m1 v1 D E1)).
    intros q k m r' E. rewrite <- app_assoc. apply (H ((k1, m1) :: q) k m r'). rewrite E. reflexivity.
Qed.

(* a failing body fails with the error of its first line that cannot be
   executed: a decorator error or an unbound name, never a __set_name__ error *)
Lemma eval_body_err reserved dicts b : forall ns0 e,
  eval_body reserved dicts b ns0 = Err e -> e <> EAlias /\ e <> ENotStateMachine.
Proof.
  induction b as [|[k1 m1] r IH]; intros ns0 e H; cbn [eval_body] in H; [discriminate|].
  destruct (eval_member reserved dicts ns0 m1) as [v1|e1] eqn:E1.
  - exact (IH _ _ H).
  - inversion H; subst e1. destruct m1 as [d| |k2|c k2]; cbn [eval_member] in E1.
    + rewrite construct_eq in E1. unfold init_state, check_name in E1. destruct (mem (d_fname d) reserved).
      * inversion E1; split; discriminate.
      * destruct (validate_sig (d_params d)); inversion E1; split; discriminate.
    + discriminate.
    + destruct (dict_get k2 ns0); inversion E1; split; discriminate.
    + destruct (class_attr dicts c k2); inversion E1; split; discriminate.
Qed.

Lemma set_names_ok_iff osm ns :
  set_names osm ns = Ok tt <-> forall k s, In (k, MState s) ns -> k = s_name s /\ osm = true.
Proof.
  induction ns as [|[k m] r IH]; cbn [set_names].
  - split; [intros _ k s [] | reflexivity].
  - destruct m as [s|].
    + destruct (set_name osm k (s_name s)) as [[]|e] eqn:E.
      * rewrite IH. apply set_name_ok_iff in E. split.
        -- intros H k' s' [I|I]; [inversion I; subst; exact E | exact (H k' s' I)].
        -- intros H k' s' I. apply (H k' s'). right. exact I.
      * split; [discriminate|]. intros H.
        destruct (H k s (or_introl eq_refl)) as [E1 E2].
        assert (X : set_name osm k (s_name s) = Ok tt) by (apply set_name_ok_iff; auto).
        congruence.
    + rewrite IH. split.
      * intros H k' s' [I|I]; [discriminate | exact (H k' s' I)].
      * intros H k' s' I. apply (H k' s'). right. exact I.
Qed.

Lemma set_names_err osm ns e : set_names osm ns = Err e ->
  (e = EAlias /\ exists k s, In (k, MState s) ns /\ k <> s_name s) \/
  (e = ENotStateMachine /\ osm = false /\ exists k s, In (k, MState s) ns).
Proof.
  induction ns as [|[k m] r IH]; cbn [set_names]; [discriminate|].
  assert (R : set_names osm r = Err e ->
     (e = EAlias /\ exists k0 s, In (k0, MState s) ((k, m) :: r) /\ k0 <> s_name s) \/
     (e = ENotStateMachine /\ osm = false /\ exists k0 s, In (k0, MState s) ((k, m) :: r))).
  { intros H. destruct (IH H) as [[E [k0 [s [I N]]]]|[E [O [k0 [s I]]]]].
    - left. split; [exact E|]. exists k0, s. split; [right; exact I | exact N].
    - right. split; [exact E|]. split; [exact O|]. exists k0, s. right. exact I. }
  destruct m as [s|]; [|exact R].
  unfold set_name. destruct (String.eqb_spec k (s_name s)) as [E|E]; cbn [negb].
  - destruct osm; cbn [negb]; [exact R|].
    intros H. inversion H; subst. right. split; [reflexivity|]. split; [reflexivity|].
    exists (s_name s), s. left. reflexivity.
  - intros H. inversion H; subst. left. split; [reflexivity|].
    exists k, s. split; [left; reflexivity | exact E].
Qed.

(* what the class namespace finally holds is what the names finally denote *)
Lemma final_ns reserved dicts b ns : eval_body reserved dicts b [] = Ok ns ->
  forall k m, In (k, m) ns <-> denotes reserved dicts (rev b) k = Some m.
Proof.
  intros E k m. destruct (eval_body_ok reserved dicts b [] [] ns (ns_denotes_nil _ _) E) as (G & _ & N).
  cbn [app] in G. rewrite <- (G k). split.
  - apply In_dict_get. apply N. constructor.
  - apply dict_get_In.
Qed.

Theorem define_ok_iff reserved dicts osm b :
  (exists ns, define_class reserved dicts osm b = Ok ns) <->
  (forall q k m r, b = q ++ (k, m) :: r -> entry_ok reserved dicts q m) /\
  (forall k s, binds_state reserved dicts b k s -> k = s_name s /\ osm = true).
Proof.
  unfold define_class, binds_state. split.
  - intros [ns H].
    destruct (eval_body reserved dicts b []) as [ns'|e] eqn:E; [|discriminate].
    destruct (set_names osm ns') as [[]|e] eqn:S; [|discriminate].
    destruct (eval_body_ok reserved dicts b [] [] ns' (ns_denotes_nil _ _) E) as (_ & B & _).
    split; [exact B|].
    intros k s L. apply (final_ns reserved dicts b ns' E) in L.
    rewrite set_names_ok_iff in S. exact (S k s L).
  - intros [A B].
    destruct (eval_body_total reserved dicts b [] [] (ns_denotes_nil _ _) A) as [ns E].
    rewrite E.
    assert (S : set_names osm ns = Ok tt).
    { apply set_names_ok_iff. intros k s I. apply (final_ns reserved dicts b ns E) in I. exact (B k s I). }
    rewrite S. exists ns. reflexivity.
Qed.

(* every decorated function of an accepted body, overridden later or not, has
   a free name and a legal signature *)
Corollary define_ok_decorated reserved dicts osm b ns :
  define_class reserved dicts osm b = Ok ns ->
  forall k d, In (k, SState d) b -> ~ In (d_fname d) reserved /\ ~ sig_faulty (d_params d).
Proof.
  intros D k d I.
  assert (X : exists ns, define_class reserved dicts osm b = Ok ns) by (exists ns; exact D).
  apply define_ok_iff in X. destruct X as [A _].
  apply in_split in I. destruct I as [q [r E]]. exact (A q k (SState d) r E).
Qed.

(* the property's wording: a state bound under another name, or in a class
   that is not a StateMachine, makes the class statement raise -- for every
   binding of the state object, the first one or a later one *)
Theorem alias_owner_rejected reserved dicts osm b k s :
  binds_state reserved dicts b k s -> k <> s_name s \/ osm = false ->
  exists e, define_class reserved dicts osm b = Err e.
Proof.
  intros L H. destruct (define_class reserved dicts osm b) as [ns|e] eqn:D; [|exists e; reflexivity].
  exfalso. assert (X : exists ns, define_class reserved dicts osm b = Ok ns) by (exists ns; exact D).
  apply define_ok_iff in X. destruct X as [_ X]. destruct (X k s L) as [E1 E2].
  destruct H; congruence.
Qed.

(* ... and with which exception, when every line of the body itself succeeded *)
Theorem alias_owner_error reserved dicts osm b ns e :
  eval_body reserved dicts b [] = Ok ns -> define_class reserved dicts osm b = Err e ->
  (e = EAlias /\ exists k s, binds_state reserved dicts b k s /\ k <> s_name s) \/
  (e = ENotStateMachine /\ osm = false /\ exists k s, binds_state reserved dicts b k s).
Proof.
  intros E D. unfold define_class in D. rewrite E in D.
  destruct (set_names osm ns) as [[]|e'] eqn:S; [discriminate|]. inversion D; subst e'.
  pose proof (final_ns reserved dicts b ns E) as T. unfold binds_state.
  destruct (set_names_err osm ns e S) as [[E1 [k [s [I Nq]]]]|[E1 [O [k [s I]]]]].
  - left. split; [exact E1|]. exists k, s. split; [apply T; exact I | exact Nq].
  - right. split; [exact E1|]. split; [exact O|]. exists k, s. apply T. exact I.
Qed.

(* the exception of a rejected class statement: InvalidStateName (alias) and
   TypeError (owner) come from __set_name__ only *)
Theorem define_err_kinds reserved dicts osm b e : define_class reserved dicts osm b = Err e ->
  (e = EAlias \/ e = ENotStateMachine) <-> exists ns, eval_body reserved dicts b [] = Ok ns.
Proof.
  intros D. unfold define_class in D.
  destruct (eval_body reserved dicts b []) as [ns|e'] eqn:E.
  - split; [intros _; exists ns; reflexivity|]. intros _.
    destruct (set_names osm ns) as [[]|e''] eqn:S; [discriminate|]. inversion D; subst e''.
    destruct (set_names_err osm ns e S) as [[E1 _]|[E1 _]]; auto.
  - inversion D; subst e'. destruct (eval_body_err reserved dicts b [] e E) as [N1 N2].
    split; [intros [H|H]; contradiction | intros [ns H]; discriminate].
Qed.

(* ---- second bindings of an existing state object -------------------- *)

Lemma keys_rev {V} (l : list (string * V)) k : In k (keys (rev l)) <-> In k (keys l).
Proof. unfold keys. rewrite map_rev. symmetry. apply in_rev. Qed.

Lemma denotes_skip reserved dicts a b k : ~ In k (keys a) ->
  denotes reserved dicts (a ++ b) k = denotes reserved dicts b k.
Proof.
  induction a as [|[k1 m1] r IH]; intros N; cbn [app denotes]; [reflexivity|].
  destruct (String.eqb_spec k1 k) as [E|E].
  - exfalso. apply N. left. exact E.
  - apply IH. intros I. apply N. right. exact I.
Qed.

Lemma denotes_last reserved dicts pre k m post :
  ~ In k (keys post) ->
  denotes reserved dicts (rev (pre ++ (k, m) :: post)) k =
  denotes reserved dicts ((k, m) :: rev pre) k.
Proof.
  intros N. rewrite rev_app_distr. cbn [rev]. rewrite <- app_assoc. cbn [app].
  apply denotes_skip. rewrite keys_rev. exact N.
Qed.

(*   @state def k(..) ... k2 = k   : the second name of the state object is
   rejected although the object has just been bound correctly under k *)
Theorem rebinding_local_rejected reserved dicts osm pre k d mid k2 post :
  ~ In k (keys mid) -> ~ In k2 (keys post) -> k2 <> d_fname d \/ osm = false ->
  exists e, define_class reserved dicts osm (pre ++ (k, SState d) :: mid ++ (k2, SLocal k) :: post) = Err e.
Proof.
  intros Nm Np H.
  set (b := pre ++ (k, SState d) :: mid ++ (k2, SLocal k) :: post).
  destruct (define_class reserved dicts osm b) as [ns|e] eqn:D; [|exists e; reflexivity].
  exfalso. assert (X : exists ns, define_class reserved dicts osm b = Ok ns) by (exists ns; exact D).
  apply define_ok_iff in X. destruct X as [A B].
  specialize (A pre k (SState d) (mid ++ (k2, SLocal k) :: post) eq_refl). cbn [entry_ok] in A.
  apply construct_ok_iff in A. destruct A as [s K].
  assert (L : binds_state reserved dicts b k2 s).
  { unfold binds_state, b.
    replace (pre ++ (k, SState d) :: mid ++ (k2, SLocal k) :: post)
      with ((pre ++ (k, SState d) :: mid) ++ (k2, SLocal k) :: post)
      by (rewrite <- app_assoc; reflexivity).
    rewrite (denotes_last reserved dicts _ k2 (SLocal k) post Np).
    cbn [denotes]. rewrite String.eqb_refl.
    pose proof (denotes_last reserved dicts pre k (SState d) mid Nm) as Q.
    rewrite Q. cbn [denotes]. rewrite String.eqb_refl, K. reflexivity. }
  destruct (B k2 s L) as [E1 E2]. destruct (construct_ok reserved d s K) as (_ & _ & Nn & _).
  destruct H; congruence.
Qed.

(*   k = C_c.__dict__[k0]  where that is a state: rejected unless k is the
   state's own name and the class is a StateMachine *)
Theorem rebinding_from_class_rejected reserved dicts osm pre k c k0 s post :
  class_attr dicts c k0 = Some (MState s) -> ~ In k (keys post) ->
  k <> s_name s \/ osm = false ->
  exists e, define_class reserved dicts osm (pre ++ (k, SRef c k0) :: post) = Err e.
Proof.
  intros C Np H. apply (alias_owner_rejected reserved dicts osm _ k s); [|exact H].
  unfold binds_state. rewrite (denotes_last reserved dicts pre k (SRef c k0) post Np).
  cbn [denotes]. rewrite String.eqb_refl. exact C.
Qed.

(* ---- the marks of the source reach the multiplicity check ------------ *)

Lemma lookup_last_dict_get {V} (d : dict V) k : NoDup (keys d) -> lookup_last k d = dict_get k d.
Proof.
  unfold keys. induction d as [|[k1 v1] r IH]; cbn [lookup_last dict_get map fst]; intros N; [reflexivity|].
  inversion N as [|? ? Hn Hr]; subst. rewrite (IH Hr).
  destruct (String.eqb_spec k1 k) as [E|E].
  - subst. destruct (dict_get k r) as [v|] eqn:G; [|reflexivity].
    exfalso. apply Hn. apply dict_get_In in G. apply in_map_iff. exists (k, v). split; [reflexivity | exact G].
  - destruct (dict_get k r); reflexivity.
Qed.

Lemma lookup_last_app {V} k (a b : list (string * V)) :
  lookup_last k (a ++ b) = match lookup_last k b with Some v => Some v | None => lookup_last k a end.
Proof.
  induction a as [|[k1 v1] r IH]; cbn [app lookup_last].
  - destruct (lookup_last k b); reflexivity.
  - rewrite IH. destruct (lookup_last k b); reflexivity.
Qed.

Lemma lookup_last_others k (extra : list string) :
  ~ In k extra -> lookup_last k (map (fun x => (x, MOther)) extra) = None.
Proof.
  induction extra as [|x r IH]; intros N; cbn [map lookup_last]; [reflexivity|].
  rewrite IH by (intros I; apply N; right; exact I).
  destruct (String.eqb_spec x k) as [E|E]; [|reflexivity]. exfalso. apply N. left. exact E.
Qed.

(*   @<decorator> def k(..)   (not rebound below)  in an accepted class body:
   the class namespace holds under k exactly the state the decorator expression
   gives for this function *)
Theorem decorated_state_bound reserved dicts osm pre k d post ns :
  define_class reserved dicts osm (pre ++ (k, SState d) :: post) = Ok ns -> ~ In k (keys post) ->
  NoDup (keys ns) /\
  exists s, dict_get k ns = Some (MState s) /\ construct reserved d = Ok s /\ k = d_fname d /\ osm = true.
Proof.
  intros D Np. unfold define_class in D.
  destruct (eval_body reserved dicts (pre ++ (k, SState d) :: post) []) as [ns'|e] eqn:E; [|discriminate].
  destruct (set_names osm ns') as [[]|e] eqn:S; [|discriminate]. inversion D; subst ns'.
  destruct (eval_body_ok reserved dicts _ [] [] ns (ns_denotes_nil _ _) E) as (G & B & N).
  cbn [app] in G. split; [apply N; constructor|].
  specialize (B pre k (SState d) post eq_refl). cbn [entry_ok app] in B.
  apply construct_ok_iff in B. destruct B as [s K]. exists s.
  assert (L : dict_get k ns = Some (MState s)).
  { rewrite (G k), (denotes_last reserved dicts pre k (SState d) post Np).
    cbn [denotes]. rewrite String.eqb_refl, K. reflexivity. }
  split; [exact L|]. split; [exact K|].
  rewrite set_names_ok_iff in S. destruct (S k s (dict_get_In _ _ _ L)) as [E1 E2].
  destruct (construct_ok reserved d s K) as (_ & _ & Nn & _). split; congruence.
Qed.

(* .. and therefore, for every class whose most derived class this is (any
   bases [rest]; [extra] are the non-state keys setattr adds to the __dict__):
   the state counts as first / as default state at instantiation iff the source
   marks it so -- whichever spelling of the decorator carries the mark *)
Theorem first_is_marked reserved dicts osm pre k d post ns extra rest :
  define_class reserved dicts osm (pre ++ (k, SState d) :: post) = Ok ns ->
  ~ In k (keys post) -> ~ In k extra ->
  (first_in ((ns ++ map (fun x => (x, MOther)) extra) :: rest) k <-> marked_first (d_deco d) = true) /\
  (default_in ((ns ++ map (fun x => (x, MOther)) extra) :: rest) k <-> marked_default (d_deco d) = true) /\
  exists s, eff_state ((ns ++ map (fun x => (x, MOther)) extra) :: rest) k s /\
            s_name s = k /\ s_desc s = d_doc d.
Proof.
  intros D Np Ne.
  destruct (decorated_state_bound reserved dicts osm pre k d post ns D Np) as (N & s & L & K & Ek & _).
  assert (Eff : effective ((ns ++ map (fun x => (x, MOther)) extra) :: rest) k = Some (MState s)).
  { cbn [effective]. rewrite lookup_last_app, (lookup_last_others k extra Ne),
      (lookup_last_dict_get ns k N), L. reflexivity. }
  destruct (marks_kept reserved d s K) as (F1 & _ & F3 & _ & F5 & F6).
  unfold first_in, default_in, eff_state. rewrite Eff. repeat split.
  - intros [s' [E1 E2]]. inversion E1; subst s'. congruence.
  - intros H. exists s. split; [reflexivity | congruence].
  - intros [s' [E1 E2]]. inversion E1; subst s'. congruence.
  - intros H. exists s. split; [reflexivity | congruence].
  - exists s. split; [reflexivity|]. split; congruence.
Qed.

(* a function the most derived class marks first is found: never NoFirstStateError *)
Corollary marked_first_found reserved dicts osm pre k d post ns extra rest :
  define_class reserved dicts osm (pre ++ (k, SState d) :: post) = Ok ns ->
  ~ In k (keys post) -> ~ In k extra -> marked_first (d_deco d) = true ->
  build_states ((ns ++ map (fun x => (x, MOther)) extra) :: rest) <> Err NoFirst.
Proof.
  intros D Np Ne M H.
  destruct (first_is_marked reserved dicts osm pre k d post ns extra rest D Np Ne) as (F & _).
  exact (build_err_sound _ _ H k (proj2 F M)).
Qed.

(* two different functions the class body marks first -- each with any
   spelling -- make the class impossible to instantiate *)
Corollary two_marked_first_rejected reserved dicts osm body ns extra rest pre1 k1 d1 post1 pre2 k2 d2 post2 :
  define_class reserved dicts osm body = Ok ns ->
  body = pre1 ++ (k1, SState d1) :: post1 -> ~ In k1 (keys post1) ->
  body = pre2 ++ (k2, SState d2) :: post2 -> ~ In k2 (keys post2) ->
  k1 <> k2 -> ~ In k1 extra -> ~ In k2 extra ->
  marked_first (d_deco d1) = true -> marked_first (d_deco d2) = true ->
  exists e, build_states ((ns ++ map (fun x => (x, MOther)) extra) :: rest) = Err e /\ e <> NoFirst.
Proof.
  intros D B1 N1 B2 N2 Nk E1 E2 M1 M2.
  pose proof D as D1. rewrite B1 in D1. pose proof D as D2. rewrite B2 in D2.
  destruct (first_is_marked reserved dicts osm pre1 k1 d1 post1 ns extra rest D1 N1 E1) as (F1 & _).
  destruct (first_is_marked reserved dicts osm pre2 k2 d2 post2 ns extra rest D2 N2 E2) as (F2 & _).
  apply F1 in M1. apply F2 in M2.
  destruct (build_states ((ns ++ map (fun x => (x, MOther)) extra) :: rest)) as [r|e] eqn:Bd.
  - exfalso. destruct (build_ok_sound _ r Bd) as (_ & U & _).
    apply Nk. rewrite (U k1 M1), (U k2 M2). reflexivity.
  - exists e. split; [reflexivity|]. intros ->. exact (build_err_sound _ _ Bd k1 M1).
Qed.

(* ------------------------------------------------------------------ *)
(* A module of several class statements                                 *)

Definition flags_from (cs : list classdef) (known : list bool) : list bool :=
  fold_left (fun kn c => kn ++ [is_sm kn (c_bases c)]) cs known.

Definition class_dict (ns : dict member) (c : classdef) : dict member :=
  ns ++ map (fun k => (k, MOther)) (c_extra c).

Lemma define_from_spec reserved cs : forall idx known dicts,
  match define_from reserved idx cs known dicts with
  | Ok ds =>
      exists news, ds = dicts ++ news /\ List.length news = List.length cs /\
      forall i c, nth_error cs i = Some c ->
        exists ns, define_class reserved (dicts ++ firstn i news)
                      (nth (List.length known + i) (flags_from cs known) false) (c_body c) = Ok ns /\
                   nth_error news i = Some (class_dict ns c)
  | Err (j, e) =>
      exists i c news, j = idx + i /\ nth_error cs i = Some c /\ List.length news = i /\
        define_class reserved (dicts ++ news)
            (nth (List.length known + i) (flags_from cs known) false) (c_body c) = Err e /\
        forall i' c', i' < i -> nth_error cs i' = Some c' ->
          exists ns, define_class reserved (dicts ++ firstn i' news)
            (nth (List.length known + i') (flags_from cs known) false) (c_body c') = Ok ns /\
            nth_error news i' = Some (class_dict ns c')
  end.
Proof.
  assert (FL : forall cs known i, i < List.length known ->
     nth i (flags_from cs known) false = nth i known false).
  { clear. unfold flags_from. induction cs as [|c r IH]; intros known i Hi; cbn [fold_left]; [reflexivity|].
    rewrite IH by (rewrite app_length; cbn; lia). apply app_nth1. exact Hi. }
  induction cs as [|c r IH]; intros idx known dicts; cbn [define_from].
  - exists []. rewrite app_nil_r. repeat split. intros i c H. destruct i; discriminate.
  - assert (F0 : nth (List.length known + 0) (flags_from (c :: r) known) false = is_sm known (c_bases c)).
    { unfold flags_from. cbn [fold_left]. fold (flags_from r (known ++ [is_sm known (c_bases c)])).
      rewrite FL by (rewrite app_length; cbn; lia).
      rewrite Nat.add_0_r, app_nth2 by lia. rewrite Nat.sub_diag. reflexivity. }
    assert (FS : forall i, nth (List.length known + S i) (flags_from (c :: r) known) false =
                 nth (List.length (known ++ [is_sm known (c_bases c)]) + i)
                     (flags_from r (known ++ [is_sm known (c_bases c)])) false).
    { intros i. rewrite app_length. cbn [List.length].
      replace (List.length known + S i) with (List.length known + 1 + i) by lia. reflexivity. }
    destruct (define_class reserved dicts (is_sm known (c_bases c)) (c_body c)) as [ns|e] eqn:D.
    + specialize (IH (S idx) (known ++ [is_sm known (c_bases c)])
                     (dicts ++ [ns ++ map (fun k => (k, MOther)) (c_extra c)])).
      fold (class_dict ns c) in IH |- *.
      destruct (define_from reserved (S idx) r _ _) as [ds|[j e]].
      * destruct IH as [news (E & L & P)].
        exists (class_dict ns c :: news). split.
        -- rewrite E, <- app_assoc. reflexivity.
        -- split; [cbn [List.length]; lia|]. intros i c' H. destruct i as [|i]; cbn [nth_error] in H |- *.
           ++ inversion H; subst c'. exists ns. rewrite F0. cbn [firstn]. rewrite app_nil_r.
              split; [exact D | reflexivity].
           ++ destruct (P i c' H) as [ns' [D' N']]. exists ns'. rewrite FS. cbn [firstn].
              rewrite <- app_assoc in D'. cbn [app] in D'. split; [exact D' | exact N'].
      * destruct IH as [i [c' [news (E & N & L & D' & P)]]]. exists (S i), c', (class_dict ns c :: news).
        split; [lia|]. split; [exact N|]. split; [cbn [List.length]; lia|]. split.
        -- rewrite FS. rewrite <- app_assoc in D'. exact D'.
        -- intros i' c'' Hi H. destruct i' as [|i']; cbn [nth_error] in H |- *.
           ++ inversion H; subst c''. exists ns. rewrite F0. cbn [firstn]. rewrite app_nil_r.
              split; [exact D | reflexivity].
           ++ destruct (P i' c'' ltac:(lia) H) as [ns' [D'' N'']]. exists ns'. rewrite FS. cbn [firstn].
              rewrite <- app_assoc in D''. cbn [app] in D''. split; [exact D'' | exact N''].
    + exists 0, c, []. split; [lia|]. split; [reflexivity|]. split; [reflexivity|]. split.
      * rewrite F0, app_nil_r. exact D.
      * intros i' c' Hi. lia.
Qed.

(* a module is accepted iff every class statement is, each judged with
   issubclass(owner, StateMachine) computed from its bases and with the
   __dict__ of the classes before it; otherwise the first failing class
   statement raises *)
Theorem define_all_spec reserved cs :
  match define_all reserved cs with
  | Ok ds =>
      List.length ds = List.length cs /\
      forall i c, nth_error cs i = Some c ->
        exists ns, define_class reserved (firstn i ds) (nth i (sm_flags cs) false) (c_body c) = Ok ns /\
                   nth_error ds i = Some (ns ++ map (fun k => (k, MOther)) (c_extra c))
  | Err (j, e) =>
      exists c ds, nth_error cs j = Some c /\ List.length ds = j /\
        define_class reserved ds (nth j (sm_flags cs) false) (c_body c) = Err e /\
        forall i' c', i' < j -> nth_error cs i' = Some c' ->
          exists ns, define_class reserved (firstn i' ds) (nth i' (sm_flags cs) false) (c_body c') = Ok ns /\
                     nth_error ds i' = Some (ns ++ map (fun k => (k, MOther)) (c_extra c'))
  end.
Proof.
  unfold define_all, sm_flags. pose proof (define_from_spec reserved cs 0 [] []) as S.
  unfold flags_from, class_dict in S.
  destruct (define_from reserved 0 cs [] []) as [ds|[j e]]; cbn [List.length app Nat.add] in S.
  - destruct S as [news (E & L & P)]. subst ds. split; [exact L | exact P].
  - destruct S as [i [c [news (E & N & L & D & P)]]]. subst j. exists c, news. auto.
Qed.

(* in an accepted module every class __dict__ that holds a state object --
   however the object got there -- holds it under the state's own name, and
   the class is a StateMachine *)
Theorem define_all_wf reserved cs ds : define_all reserved cs = Ok ds ->
  forall i d k s, nth_error ds i = Some d -> In (k, MState s) d ->
    k = s_name s /\ nth i (sm_flags cs) false = true.
Proof.
  intros D i d k s N I. pose proof (define_all_spec reserved cs) as S. rewrite D in S.
  destruct S as [L P].
  assert (Hi : i < List.length cs) by (rewrite <- L; apply nth_error_Some; congruence).
  destruct (nth_error cs i) as [c|] eqn:C; [|apply nth_error_None in C; lia].
  destruct (P i c C) as [ns [Dc Nc]]. rewrite N in Nc. inversion Nc; subst d.
  apply in_app_or in I. destruct I as [I|I].
  - unfold define_class in Dc.
    destruct (eval_body reserved (firstn i ds) (c_body c) []) as [ns'|e]; [|discriminate].
    destruct (set_names (nth i (sm_flags cs) false) ns') as [[]|e] eqn:Sn; [|discriminate].
    inversion Dc; subst ns'. exact (proj1 (set_names_ok_iff _ _) Sn k s I).
  - apply in_map_iff in I. destruct I as [x [X _]]. discriminate.
Qed.

(* ------------------------------------------------------------------ *)
(* Instantiation histories and binding                                  *)

(* the two attribute names instantiation sets on the class *)
Definition pubkeys : list string := ["state_names"; "state_descriptions"].

Lemma pubkeys_false k : mem k pubkeys = false <-> k <> "state_names" /\ k <> "state_descriptions".
Proof.
  rewrite mem_false. cbn [pubkeys In]. split.
  - intros H. split; intros E; apply H; auto.
  - intros [A B] [E|[E|[]]]; congruence.
Qed.

(* a dict without those two keys *)
Definition strip {V} (d : dict V) : dict V :=
  filter (fun kv => negb (mem (fst kv) pubkeys)) d.

Lemma strip_cons {V} k (v : V) d :
  strip ((k, v) :: d) = if mem k pubkeys then strip d else (k, v) :: strip d.
Proof. unfold strip. cbn [filter fst]. destruct (mem k pubkeys); reflexivity. Qed.

Lemma strip_set_in {V} k (v : V) d : mem k pubkeys = true -> strip (dict_set k v d) = strip d.
Proof.
  intros M. induction d as [|[k1 v1] r IH]; cbn [dict_set].
  - rewrite strip_cons, M. reflexivity.
  - destruct (String.eqb_spec k1 k) as [E|E].
    + subst k1. rewrite !strip_cons, M. reflexivity.
    + rewrite !strip_cons, IH. reflexivity.
Qed.

Lemma strip_set_out {V} k (v : V) d :
  mem k pubkeys = false -> strip (dict_set k v d) = dict_set k v (strip d).
Proof.
  intros M. induction d as [|[k1 v1] r IH]; cbn [dict_set].
  - rewrite strip_cons, M. reflexivity.
  - destruct (String.eqb_spec k1 k) as [E|E].
    + subst k1. rewrite !strip_cons, M. cbn [dict_set]. rewrite String.eqb_refl. reflexivity.
    + rewrite !strip_cons, IH. destruct (mem k1 pubkeys); [reflexivity|].
      cbn [dict_set]. destruct (String.eqb_spec k1 k); [contradiction | reflexivity].
Qed.

Lemma strip_update {V} (src : list (string * V)) : forall d,
  strip (dict_update d src) = dict_update (strip d) (strip src).
Proof.
  unfold dict_update. induction src as [|[k v] r IH]; intros d; cbn [fold_left fst snd].
  - reflexivity.
  - rewrite IH, strip_cons. destruct (mem k pubkeys) eqn:M.
    + rewrite strip_set_in by exact M. reflexivity.
    + rewrite strip_set_out by exact M. reflexivity.
Qed.

Lemma strip_class_members mro : strip (class_members mro) = class_members (map strip mro).
Proof.
  induction mro as [|b r IH]; [reflexivity|].
  cbn [map]. rewrite !class_members_cons, strip_update, IH. reflexivity.
Qed.

Lemma strip_publish (d : dict member) : strip (publish_class_attrs d) = strip d.
Proof. unfold publish_class_attrs. rewrite !strip_set_in; reflexivity. Qed.

Lemma In_dict_set {V} k (v : V) k' m d :
  In (k', m) (dict_set k v d) -> (k' = k /\ m = v) \/ In (k', m) d.
Proof.
  induction d as [|[k1 v1] r IH]; cbn [dict_set].
  - intros [H|[]]. inversion H; subst. left. split; reflexivity.
  - destruct (String.eqb_spec k1 k) as [E|E].
    + intros [H|H]; [inversion H; subst; left; split; reflexivity | right; right; exact H].
    + intros [H|H]; [right; left; exact H|]. destruct (IH H) as [A|A]; [left; exact A | right; right; exact A].
Qed.

Lemma publish_states (d : dict member) k s : In (k, MState s) (publish_class_attrs d) -> In (k, MState s) d.
Proof.
  unfold publish_class_attrs. intros H.
  apply In_dict_set in H. destruct H as [[_ H]|H]; [discriminate|].
  apply In_dict_set in H. destruct H as [[_ H]|H]; [discriminate | exact H].
Qed.

(* the loop of _build_states does not see non-states *)
Lemma build_loop_strip ms :
  (forall k s, In (k, MState s) ms -> mem k pubkeys = false) ->
  forall st, build_loop (strip ms) st = build_loop ms st.
Proof.
  induction ms as [|[k m] r IH]; intros H st; [reflexivity|].
  assert (Hr : forall k s, In (k, MState s) r -> mem k pubkeys = false)
    by (intros k' s' I; apply (H k' s'); right; exact I).
  rewrite strip_cons. destruct m as [s|].
  - rewrite (H k s) by (left; reflexivity). cbn [build_loop].
    rewrite !(IH Hr). reflexivity.
  - destruct (mem k pubkeys); cbn [build_loop]; apply (IH Hr).
Qed.

Lemma lookup_last_In {V} k (b : list (string * V)) v : lookup_last k b = Some v -> In (k, v) b.
Proof.
  induction b as [|[k1 v1] r IH]; cbn [lookup_last]; [discriminate|].
  destruct (lookup_last k r) as [w|].
  - intros H. right. apply IH. exact H.
  - destruct (String.eqb_spec k1 k); [|discriminate]. intros H. inversion H; subst. left. reflexivity.
Qed.

Lemma effective_In mro k m : effective mro k = Some m -> exists d, In d mro /\ In (k, m) d.
Proof.
  induction mro as [|b r IH]; cbn [effective]; [discriminate|].
  destruct (lookup_last k b) as [w|] eqn:L.
  - intros H. inversion H; subst. exists b. split; [left; reflexivity | apply lookup_last_In, L].
  - intros H. destruct (IH H) as [d [A B]]. exists d. split; [right; exact A | exact B].
Qed.

Lemma build_states_strip mro :
  (forall d k s, In d mro -> In (k, MState s) d -> mem k pubkeys = false) ->
  build_states mro = build_states (map strip mro).
Proof.
  intros H. unfold build_states. rewrite <- strip_class_members, build_loop_strip; [reflexivity|].
  intros k s I. apply class_members_In, effective_In in I. destruct I as [d [A B]]. exact (H d k s A B).
Qed.

(* two class tables that agree on everything but the two published keys *)
Definition same_but_published (a b : list (dict member)) : Prop :=
  forall i, strip (nth i b []) = strip (nth i a []).

Lemma instantiate_same a b mro :
  same_but_published a b -> published_free a -> published_free b ->
  instantiate b mro = instantiate a mro.
Proof.
  intros S Fa Fb. unfold instantiate.
  assert (G : forall t, published_free t ->
            forall d k s, In d (map (fun i => nth i t []) mro) -> In (k, MState s) d -> mem k pubkeys = false).
  { intros t Ft d k s I J. apply in_map_iff in I. destruct I as [i [E _]]. subst d.
    destruct (nth_in_or_default i t []) as [N|N].
    - apply pubkeys_false. exact (Ft _ k s N J).
    - rewrite N in J. destruct J. }
  rewrite (build_states_strip _ (G b Fb)), (build_states_strip _ (G a Fa)).
  f_equal. rewrite !map_map. apply map_ext. intros i. apply S.
Qed.

Lemma update_nth_strip (l : list (dict member)) : forall c i,
  strip (nth i (update_nth c publish_class_attrs l) []) = strip (nth i l []).
Proof.
  induction l as [|x r IH]; intros c i; cbn [update_nth]; [reflexivity|].
  destruct c as [|c]; destruct i as [|i]; cbn [nth]; try reflexivity.
  - apply strip_publish.
  - apply IH.
Qed.

Lemma update_nth_In {A} (f : A -> A) (l : list A) : forall c x,
  In x (update_nth c f l) -> In x l \/ exists y, In y l /\ x = f y.
Proof.
  induction l as [|a r IH]; intros c x; cbn [update_nth]; [intros []|].
  destruct c as [|c].
  - intros [H|H]; [right; exists a; split; [left; reflexivity | symmetry; exact H] | left; right; exact H].
  - intros [H|H]; [left; left; exact H|].
    destruct (IH c x H) as [A0|[y [A0 B0]]]; [left; right; exact A0 | right; exists y; split; [right; exact A0 | exact B0]].
Qed.

Lemma update_nth_free l c : published_free l -> published_free (update_nth c publish_class_attrs l).
Proof.
  intros F d k s I J. apply update_nth_In in I. destruct I as [I|[y [I E]]].
  - exact (F d k s I J).
  - subst d. apply publish_states in J. exact (F y k s I J).
Qed.

(* every step keeps the class table as it was, up to the two published keys *)
Lemma step_invariant dicts w ev :
  same_but_published dicts (w_dicts w) -> published_free (w_dicts w) ->
  same_but_published dicts (w_dicts (fst (step w ev))) /\ published_free (w_dicts (fst (step w ev))).
Proof.
  intros S F. destruct ev as [mro cname|key v]; cbn [step].
  2:{ cbn [fst w_dicts]. split; assumption. }
  destruct (instantiate (w_dicts w) mro) as [r|e]; cbn [fst w_dicts]; [|split; assumption].
  destruct mro as [|c mro']; [split; assumption|]. split.
  - intros i. rewrite update_nth_strip. apply S.
  - apply update_nth_free, F.
Qed.

(* strings: a common prefix can be dropped *)
Lemma append_inv_head (p a b : string) : (p ++ a = p ++ b)%string -> a = b.
Proof.
  induction p as [|c p IH]; cbn [append]; [auto|].
  intros H. inversion H. apply IH. assumption.
Qed.

Lemma topic_inj_leaf cname l1 l2 : topic cname l1 = topic cname l2 -> l1 = l2.
Proof.
  unfold topic. intros H.
  apply append_inv_head, append_inv_head, append_inv_head in H. exact H.
Qed.

Lemma topics_differ cname : topic cname "state_names" <> topic cname "state_descriptions".
Proof. intros H. apply topic_inj_leaf in H. discriminate. Qed.

(* setup_tunables writes the lists of the machine onto its two topics,
   whatever they held; no other topic changes *)
Theorem bind_overwrites nt cname r :
  dict_get (topic cname "state_names") (bind_machine nt cname r) = Some (r_names r) /\
  dict_get (topic cname "state_descriptions") (bind_machine nt cname r) = Some (r_descs r) /\
  forall key, key <> topic cname "state_names" -> key <> topic cname "state_descriptions" ->
    dict_get key (bind_machine nt cname r) = dict_get key nt.
Proof.
  unfold bind_machine, bind_tunable, names_tunable, descs_tunable, mk_tunable.
  cbn [t_write_default t_default]. rewrite !dict_get_set, String.eqb_refl.
  split; [reflexivity|]. split.
  - destruct (String.eqb_spec (topic cname "state_names") (topic cname "state_descriptions")) as [E|E].
    + exfalso. exact (topics_differ cname E).
    + rewrite String.eqb_refl. reflexivity.
  - intros key A B. rewrite !dict_get_set.
    destruct (String.eqb_spec (topic cname "state_names") key); [congruence|].
    destruct (String.eqb_spec (topic cname "state_descriptions") key); [congruence|]. reflexivity.
Qed.

Lemma step_inst_outcome dicts w mro cname :
  same_but_published dicts (w_dicts w) -> published_free dicts -> published_free (w_dicts w) ->
  snd (step w (EInst mro cname)) = class_outcome dicts mro.
Proof.
  intros S F Fw. unfold class_outcome. cbn [step].
  rewrite (instantiate_same dicts (w_dicts w) mro S F Fw).
  destruct (instantiate dicts mro) as [r|e]; cbn [snd]; [|reflexivity].
  destruct (bind_overwrites (w_nt w) cname r) as (A & B & _).
  unfold read_tunable. rewrite A, B. reflexivity.
Qed.

Lemma run_history_nth dicts h : forall w k mro cname,
  same_but_published dicts (w_dicts w) -> published_free dicts -> published_free (w_dicts w) ->
  nth_error h k = Some (EInst mro cname) ->
  nth_error (run_history w h) k = Some (class_outcome dicts mro).
Proof.
  induction h as [|ev r IH]; intros w k mro cname S F Fw N; [destruct k; discriminate|].
  cbn [run_history]. destruct (step w ev) as [w' o] eqn:St.
  destruct k as [|k]; cbn [nth_error] in N |- *.
  - inversion N; subst ev. f_equal.
    change o with (snd (w', o)). rewrite <- St. apply step_inst_outcome; assumption.
  - destruct (step_invariant dicts w ev S Fw) as [S' F']. rewrite St in S', F'. cbn [fst] in S', F'.
    exact (IH w' k mro cname S' F F' N).
Qed.

(* The verdict (and the published lists) of attempt k is that of its class:
   whatever was instantiated, bound or published before -- successfully or
   not, the same class or another, any number of times -- and whatever the
   topics held. *)
Theorem history_independent dicts nt h k mro cname :
  published_free dicts ->
  nth_error h k = Some (EInst mro cname) ->
  nth_error (run_history {| w_dicts := dicts; w_nt := nt |} h) k = Some (class_outcome dicts mro).
Proof.
  intros F N. apply (run_history_nth dicts h _ k mro cname); cbn [w_dicts]; try assumption.
  intros i. reflexivity.
Qed.

(* .. so attempt k succeeds iff the class has exactly one first state and at
   most one default state *)
Theorem history_verdict_iff dicts nt h k mro cname :
  published_free dicts ->
  nth_error h k = Some (EInst mro cname) ->
  ((exists r names descs,
      nth_error (run_history {| w_dicts := dicts; w_nt := nt |} h) k = Some (OBound r names descs)) <->
   exactly_one_first (bodies_of dicts mro) /\ at_most_one_default (bodies_of dicts mro)).
Proof.
  intros F N. rewrite (history_independent dicts nt h k mro cname F N).
  unfold class_outcome, instantiate. fold (bodies_of dicts mro).
  rewrite <- (build_ok_iff (bodies_of dicts mro)). split.
  - intros (r & names & descs & H). destruct (build_states (bodies_of dicts mro)) as [r'|e]; [|discriminate].
    exists r'. reflexivity.
  - intros [r H]. rewrite H. exists r, (r_names r), (r_descs r). reflexivity.
Qed.

(* an attempt that raises changes nothing *)
Theorem failed_attempt_no_effect w mro cname w' e :
  step w (EInst mro cname) = (w', ORaised e) -> w' = w.
Proof.
  cbn [step]. destruct (instantiate (w_dicts w) mro); intros H; inversion H; reflexivity.
Qed.

(* ---- accepted modules: no state is called like a StateMachine attribute -- *)

Definition all_states (P : sdata -> Prop) (d : dict member) : Prop :=
  forall k s, In (k, MState s) d -> P s.

Lemma eval_body_all reserved dicts (P : sdata -> Prop) :
  (forall d s, construct reserved d = Ok s -> P s) ->
  (forall d, In d dicts -> all_states P d) ->
  forall b ns0 ns, all_states P ns0 -> eval_body reserved dicts b ns0 = Ok ns -> all_states P ns.
Proof.
  intros HC HD. induction b as [|[k m] r IH]; intros ns0 ns H0; cbn [eval_body].
  - intros E. inversion E; subst. exact H0.
  - destruct (eval_member reserved dicts ns0 m) as [v|e] eqn:EM; [|discriminate].
    apply IH. intros k' s' I. apply In_dict_set in I. destruct I as [[_ E]|I]; [|exact (H0 k' s' I)].
    subst v. destruct m as [d| |k2|c k2]; cbn [eval_member] in EM.
    + destruct (construct reserved d) as [s|e] eqn:C; [|discriminate]. inversion EM; subst. exact (HC d s' C).
    + discriminate.
    + destruct (dict_get k2 ns0) as [v|] eqn:G; [|discriminate]. inversion EM; subst.
      apply dict_get_In in G. exact (H0 k2 s' G).
    + unfold class_attr in EM. destruct (nth_error dicts c) as [d|] eqn:N; [|discriminate].
      destruct (dict_get k2 d) as [v|] eqn:G; [|discriminate]. inversion EM; subst.
      apply dict_get_In in G. apply nth_error_In in N. exact (HD d N k2 s' G).
Qed.

Lemma define_from_all reserved (P : sdata -> Prop) :
  (forall d s, construct reserved d = Ok s -> P s) ->
  forall cs idx known dicts ds,
  (forall d, In d dicts -> all_states P d) ->
  define_from reserved idx cs known dicts = Ok ds ->
  forall d, In d ds -> all_states P d.
Proof.
  intros HC. induction cs as [|c r IH]; intros idx known dicts ds HD; cbn [define_from].
  - intros E. inversion E; subst. exact HD.
  - unfold define_class.
    destruct (eval_body reserved dicts (c_body c) []) as [ns|e] eqn:EB; [|discriminate].
    destruct (set_names (is_sm known (c_bases c)) ns) as [u|e]; [|discriminate].
    apply IH. intros d I. apply in_app_or in I. destruct I as [I|[I|[]]]; [exact (HD d I)|]. subst d.
    intros k s J. apply in_app_or in J. destruct J as [J|J].
    + refine (eval_body_all reserved dicts P HC HD _ [] ns _ EB k s J). intros k' s' [].
    + apply in_map_iff in J. destruct J as [x [X _]]. discriminate.
Qed.

Theorem define_all_names_free reserved cs ds : define_all reserved cs = Ok ds ->
  forall d k s, In d ds -> In (k, MState s) d -> k = s_name s /\ ~ In k reserved.
Proof.
  intros D d k s I J.
  assert (N : ~ In (s_name s) reserved).
  { refine (define_from_all reserved (fun s => ~ In (s_name s) reserved) _ cs 0 [] [] ds _ D d I k s J).
    - intros d0 s0 C. destruct (proj1 (construct_ok_iff reserved d0) (ex_intro _ s0 C)) as [A _].
      rewrite (proj1 (proj2 (proj2 (construct_ok reserved d0 s0 C)))). exact A.
    - intros d0 []. }
  apply In_nth_error in I. destruct I as [i I].
  destruct (define_all_wf reserved cs ds D i d k s I J) as [E _]. split; [exact E|]. rewrite E. exact N.
Qed.

(* the classes of an accepted module, instantiated and bound in any order,
   any number of times *)
Theorem history_module reserved cs ds nt h k mro cname :
  In "state_names" reserved -> In "state_descriptions" reserved ->
  define_all reserved cs = Ok ds ->
  nth_error h k = Some (EInst mro cname) ->
  nth_error (run_history {| w_dicts := ds; w_nt := nt |} h) k = Some (class_outcome ds mro).
Proof.
  intros R1 R2 D N. apply (history_independent ds nt h k mro cname); [|exact N].
  intros d k' s I J. destruct (define_all_names_free reserved cs ds D d k' s I J) as [_ F].
  split; intros E; subst k'; contradiction.
Qed.

(* ------------------------------------------------------------------ *)
(* Every decorated function is judged on its own                        *)

Lemma eval_body_app reserved dicts a : forall b ns0,
  eval_body reserved dicts (a ++ b) ns0 =
  match eval_body reserved dicts a ns0 with
  | Ok ns => eval_body reserved dicts b ns
  | Err e => Err e
  end.
Proof.
  induction a as [|[k m] r IH]; intros b ns0; cbn [app eval_body]; [reflexivity|].
  destruct (eval_member reserved dicts ns0 m); [apply IH | reflexivity].
Qed.

(* a decorated function with a colliding name or a faulty signature makes
   the class statement raise -- whatever the lines before it defined (legal
   states included), whatever the earlier classes hold, whatever follows *)
Theorem faulty_decorated_rejected reserved dicts osm pre k d post :
  In (d_fname d) reserved \/ sig_faulty (d_params d) ->
  exists e, define_class reserved dicts osm (pre ++ (k, SState d) :: post) = Err e.
Proof.
  intros F. destruct (define_class reserved dicts osm (pre ++ (k, SState d) :: post)) as [ns|e] eqn:D.
  - exfalso. destruct (define_ok_decorated reserved dicts osm _ ns D k d) as [A B].
    + apply in_or_app. right. left. reflexivity.
    + destruct F; contradiction.
  - exists e. reflexivity.
Qed.

(* .. and when the lines before it run through, with exactly the exception
   the decorator gives for THIS function (a function of d alone) *)
Theorem decorated_verdict_own reserved dicts osm pre ns k d post e :
  eval_body reserved dicts pre [] = Ok ns -> construct reserved d = Err e ->
  define_class reserved dicts osm (pre ++ (k, SState d) :: post) = Err e.
Proof.
  intros P C. unfold define_class. rewrite eval_body_app, P. cbn [eval_body eval_member].
  rewrite C. reflexivity.
Qed.

(* in an accepted module EVERY decorated function of EVERY class has a free
   name and a legal signature *)
Theorem module_decorated_legal reserved cs ds : define_all reserved cs = Ok ds ->
  forall c k d, In c cs -> In (k, SState d) (c_body c) ->
    ~ In (d_fname d) reserved /\ ~ sig_faulty (d_params d).
Proof.
  intros D c k d I J. pose proof (define_all_spec reserved cs) as S. rewrite D in S.
  destruct S as [_ P]. apply In_nth_error in I. destruct I as [i I].
  destruct (P i c I) as [ns [Dc _]].
  exact (define_ok_decorated reserved _ _ _ ns Dc k d J).
Qed.
