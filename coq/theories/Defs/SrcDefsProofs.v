(* The translation of state_machine.py's definition-time and instantiation-time checks (Defs/SrcDefs.v, regenerated from
   the source by every C12 check) computes exactly sig_loop / init_state / class_members / build_states of Defs/Model.v, on
   which the C12 theorems are proved. *)
From Coq Require Import List String Bool Arith.
Import ListNotations.
Open Scope string_scope.
Open Scope list_scope.
From RV Require Import Defs.Model Defs.SrcDefs.

Theorem ref_sig_loop_spec : forall ps i a b, ref_sig_loop ps i a b = sig_loop i ps a b.
Proof.
  induction ps as [|p r IH]; intros i a b; cbn [ref_sig_loop sig_loop]; [reflexivity|].
  destruct (Nat.eqb i 0 && negb (String.eqb (p_name p) "self")); [reflexivity|].
  destruct (p_kind p); cbn [kind_eqb]; try reflexivity;
    change (mem (p_name p) ["self"; "tm"; "state_tm"; "initial_call"]) with (mem (p_name p) allowed_args);
    destruct (mem (p_name p) allowed_args); apply IH.
Qed.

Theorem ref_init_state_spec : forall reserved d first must_finish timed is_default,
  ref_init_state reserved d first must_finish timed is_default = init_state reserved d first must_finish timed is_default.
Proof.
  intros. unfold ref_init_state, init_state, check_name, validate_sig. rewrite ref_sig_loop_spec.
  destruct (mem (d_fname d) reserved); [reflexivity|].
  destruct (sig_loop 0 (d_params d) [] []) as [[a [|x inv]]|e]; reflexivity.
Qed.

(* the decorators make the _State(..) calls of the model: state(f, ..) gives the model's wrapper, state(..) a decorator
   that gives on every function what the model's decorator gives (stated pointwise: no extensionality needed) *)
Theorem ref_decorators_spec : forall reserved first must_finish g,
  ref_state_fn reserved (Some g) first must_finish = state_fn reserved (Some g) first must_finish /\
  (exists dec, ref_state_fn reserved None first must_finish = RDecorator dec /\
     forall g', match state_fn reserved None first must_finish with
                | RDecorator dec' => dec g' = dec' g'
                | RWrapper _ => False
                end) /\
  ref_timed_state_fn reserved first must_finish g = timed_state_fn reserved first must_finish g /\
  ref_default_state_fn reserved g = default_state_fn reserved g.
Proof.
  intros. unfold ref_state_fn, state_fn, ref_timed_state_fn, timed_state_fn, ref_default_state_fn, default_state_fn.
  rewrite !ref_init_state_spec. repeat split.
  eexists. split; [reflexivity|]. intros g'. cbn beta. apply ref_init_state_spec.
Qed.

Theorem ref_class_members_spec : forall mro, ref_class_members mro = class_members mro.
Proof. reflexivity. Qed.

(* has_first and self.__first of the source are the one option b_first of the model *)
Lemma ref_build_loop_spec : forall ms hf names descs dflt first, hf = is_some first ->
  ref_build_loop ms hf names descs dflt first =
  match build_loop ms {| b_first := first; b_default := dflt; b_names := names; b_descs := descs |} with
  | Err e => Err e
  | Ok st => Ok (is_some (b_first st), b_names st, b_descs st, b_default st, b_first st)
  end.
Proof.
  induction ms as [|[k m] r IH]; intros hf names descs dflt first H; subst hf; cbn [ref_build_loop build_loop].
  - reflexivity.
  - destruct m as [s|]; [|apply IH; reflexivity].
    cbn [b_first b_default b_names b_descs]. unfold desc_text.
    destruct (s_first s), first, (s_default s), dflt; cbn [andb is_some negb]; try reflexivity; apply IH; reflexivity.
Qed.

Theorem ref_build_states_spec : forall mro,
  ref_build_states mro = match build_states mro with
                         | Ok r => Ok (r, names_tunable r, descs_tunable r)
                         | Err e => Err e
                         end.
Proof.
  intros mro. unfold ref_build_states, build_states. rewrite ref_class_members_spec.
  rewrite (ref_build_loop_spec _ false [] [] None None eq_refl).
  destruct (build_loop (class_members mro) _) as [st|e]; [|reflexivity].
  destruct (b_first st) as [f|]; reflexivity.
Qed.
Print Assumptions ref_sig_loop_spec.
Print Assumptions ref_init_state_spec.
Print Assumptions ref_decorators_spec.
Print Assumptions ref_class_members_spec.
Print Assumptions ref_build_states_spec.
