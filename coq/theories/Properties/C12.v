(* C12 -- malformed StateMachine definitions are rejected when defined or
   instantiated; state_names / state_descriptions list exactly the states.
   Statements only; every proof is [exact <lemma of Defs.Proofs>].

   Vocabulary (Defs/Spec.v, proof-free):
     [mro]                the class dicts of a class in MRO order, most derived
                          first (any number of classes, any contents);
     [effective mro n]    Python attribute lookup: the binding of n in the
                          first class of the MRO that binds n (a redefinition
                          overrides what is inherited, whatever it is);
     [first_in mro n]     the effective member n is a state with first=True;
     [default_in mro n]   the effective member n is a default state;
     [bases_first mro]    all attribute names, base classes first, each class
                          in definition order;
     [sig_faulty ps]      first parameter is not self, or some parameter is
                          *args / **kwargs / keyword-only, or some parameter
                          name is not one of self, tm, state_tm, initial_call.
     [marked_first k], [marked_default k]  what the SOURCE says: the first=
                          option of the decorator expression k as written,
                          resp. "is default_state" -- for every spelling:
                          @state(first=True) (factory), k = state(f, first=True)
                          (function and options in one call; bare @state),
                          timed_state, default_state.
   [reserved] is the list of names n with hasattr(StateMachine, n) or
   n in StateMachine.__annotations__; it is regenerated from the imported class
   on every run and the theorems are instantiated with it (work/C12/Gen_C12.v). *)
From Coq Require Import List String.
From RV Require Import Defs.Model Defs.Spec Defs.Proofs.
Import ListNotations.
Open Scope string_scope.
Open Scope list_scope.

(* ---- instantiation ------------------------------------------------- *)

(* for every class hierarchy: the instance can be created iff exactly one
   effective state is first and at most one is a default state *)
Theorem C12_build_ok_iff : forall mro,
  (exists r, build_states mro = Ok r) <->
  (exists n, first_in mro n /\ forall n', first_in mro n' -> n' = n) /\
  (forall n1 n2, default_in mro n1 -> default_in mro n2 -> n1 = n2).
Proof. exact build_ok_iff. Qed.

(* ... and then the machine starts in that first state and falls back to
   that default state *)
Theorem C12_build_ok_sound : forall mro r, build_states mro = Ok r ->
  first_in mro (r_first r) /\ (forall n, first_in mro n -> n = r_first r) /\
  (forall n1 n2, default_in mro n1 -> default_in mro n2 -> n1 = n2) /\
  match r_default r with
  | Some d => default_in mro d
  | None => forall n, ~ default_in mro n
  end.
Proof. exact build_ok_sound. Qed.

(* otherwise one of the three errors is raised, and each says the truth *)
Theorem C12_build_err_sound : forall mro e, build_states mro = Err e ->
  match e with
  | NoFirst => forall n, ~ first_in mro n
  | MultipleFirst => exists n1 n2, n1 <> n2 /\ first_in mro n1 /\ first_in mro n2
  | MultipleDefault => exists n1 n2, n1 <> n2 /\ default_in mro n1 /\ default_in mro n2
  end.
Proof. exact build_err_sound. Qed.

(* the member dict the loop runs over IS attribute lookup along the MRO *)
Theorem C12_members_are_effective : forall mro k m,
  In (k, m) (class_members mro) <-> effective mro k = Some m.
Proof. exact class_members_In. Qed.

(* ---- the state wrapper: signature, name, binding, direct call ------- *)

Theorem C12_sig_reject_iff : forall ps,
  (exists e, validate_sig ps = Err e) <->
  first_not_self ps \/ Exists bad_kind ps \/ Exists bad_name ps.
Proof. exact sig_reject_iff. Qed.

(* an accepted signature: the adapter passes the arguments in declaration
   order, every parameter receiving the value of its own name *)
Theorem C12_sig_accept_order : forall ps args, validate_sig ps = Ok args ->
  args = map p_name ps /\
  forall V (e : callenv V),
    adapter args e = map (fun p => env_get e (p_name p)) ps /\ ~ In None (adapter args e).
Proof. exact (fun ps args H => conj (sig_ok_args ps args H) (adapter_order ps args H)). Qed.

Theorem C12_sig_err_sound : forall ps e, validate_sig ps = Err e ->
  match e with
  | ErrFirstNotSelf => first_not_self ps
  | ErrVarPos => Exists (fun p => p_kind p = VarPos) ps
  | ErrVarKw => Exists (fun p => p_kind p = VarKw) ps
  | ErrKwOnly => Exists (fun p => p_kind p = KwOnly) ps
  | ErrInvalidNames l =>
      l = filter (fun n => negb (mem n allowed_args)) (map p_name ps) /\ l <> [] /\
      ~ first_not_self ps /\ ~ Exists bad_kind ps
  end.
Proof. exact sig_err_sound. Qed.

(* over an arbitrary reserved list; whatever else is wrong with the
   definition, a colliding name gives InvalidStateName *)
Theorem C12_name_reject_iff : forall reserved d,
  construct reserved d = Err EInvalidStateName <-> In (d_fname d) reserved.
Proof. exact name_reject_iff. Qed.

Theorem C12_construct_ok_iff : forall reserved d,
  (exists s, construct reserved d = Ok s) <->
  ~ In (d_fname d) reserved /\ ~ sig_faulty (d_params d).
Proof. exact construct_ok_iff. Qed.

(* __set_name__ ... *)
Theorem C12_set_name_iff : forall owner_is_sm attr sname,
  set_name owner_is_sm attr sname = Ok tt <-> attr = sname /\ owner_is_sm = true.
Proof. exact set_name_ok_iff. Qed.

(* A class body is a list of bindings, in source order:  @state def k ..
   ([SState]), a non-state ([SOther]),  k = k'  ([SLocal k'], the object the
   class namespace holds under k' at that line) and  k = C_c.__dict__[k']
   ([SRef c k'], the object an earlier class holds) -- the last two bind an
   EXISTING state object a second time.  [dicts] are the __dict__ of the
   classes defined before.
     [binds_state reserved dicts body k s]  the body finally leaves the state
        object s bound under k (name lookup: the nearest preceding binding);
     [entry_ok reserved dicts before m]     the line m can be executed after
        the lines [before]: its decorated function has a free name and a legal
        signature, resp. the name it reads is bound.

   __set_name__ runs for every binding, so a class statement whose body leaves
   a state bound under a different attribute name, or whose class is not a
   StateMachine, raises -- whether this is the first binding of that state
   object or a later one *)
Theorem C12_alias_owner : forall reserved dicts owner_is_sm body k s,
  binds_state reserved dicts body k s -> k <> s_name s \/ owner_is_sm = false ->
  exists e, define_class reserved dicts owner_is_sm body = Err e.
Proof. exact alias_owner_rejected. Qed.

(* with InvalidStateName resp. TypeError when every line of the body itself
   succeeded *)
Theorem C12_alias_owner_error : forall reserved dicts owner_is_sm body ns e,
  eval_body reserved dicts body [] = Ok ns -> define_class reserved dicts owner_is_sm body = Err e ->
  (e = EAlias /\ exists k s, binds_state reserved dicts body k s /\ k <> s_name s) \/
  (e = ENotStateMachine /\ owner_is_sm = false /\ exists k s, binds_state reserved dicts body k s).
Proof. exact alias_owner_error. Qed.

(* ... and these two exceptions come from __set_name__ only *)
Theorem C12_define_err_kinds : forall reserved dicts owner_is_sm body e,
  define_class reserved dicts owner_is_sm body = Err e ->
  (e = EAlias \/ e = ENotStateMachine) <-> exists ns, eval_body reserved dicts body [] = Ok ns.
Proof. exact define_err_kinds. Qed.

(* the state keeps its name: a state created by a decorator is called like
   the function, whatever it is bound to afterwards *)
Theorem C12_state_name_fixed : forall reserved d s, construct reserved d = Ok s -> s_name s = d_fname d.
Proof. exact (fun reserved d s H => proj1 (proj2 (proj2 (construct_ok reserved d s H)))). Qed.

(*   @state def k(..): ..      (any lines that do not rebind k)
     k2 = k                    (not rebound below)
   is rejected unless k2 is the name of the function and the class is a
   StateMachine: a second name in the same class body is not accepted because
   the first binding was fine *)
Theorem C12_second_name_same_body : forall reserved dicts owner_is_sm pre k d mid k2 post,
  ~ In k (keys mid) -> ~ In k2 (keys post) -> k2 <> d_fname d \/ owner_is_sm = false ->
  exists e, define_class reserved dicts owner_is_sm
              (pre ++ (k, SState d) :: mid ++ (k2, SLocal k) :: post) = Err e.
Proof. exact rebinding_local_rejected. Qed.

(*   k = C_c.__dict__[k0]      (not rebound below), that object being a state:
   a derived class, another machine or a plain class that picks up an existing
   state is rejected unless k is the state's own name and the class is a
   StateMachine *)
Theorem C12_state_taken_from_class : forall reserved dicts owner_is_sm pre k c k0 s post,
  class_attr dicts c k0 = Some (MState s) -> ~ In k (keys post) ->
  k <> s_name s \/ owner_is_sm = false ->
  exists e, define_class reserved dicts owner_is_sm (pre ++ (k, SRef c k0) :: post) = Err e.
Proof. exact rebinding_from_class_rejected. Qed.

(* the class statement as a whole: accepted iff every line of the body can be
   executed (every decorated function -- overridden later or not -- has a free
   name and a legal signature, every name read is bound) and every state
   object the body finally binds, new or picked up, sits under its own name in
   a StateMachine *)
Theorem C12_define_ok_iff : forall reserved dicts owner_is_sm body,
  (exists ns, define_class reserved dicts owner_is_sm body = Ok ns) <->
  (forall before k m after, body = before ++ (k, m) :: after -> entry_ok reserved dicts before m) /\
  (forall k s, binds_state reserved dicts body k s -> k = s_name s /\ owner_is_sm = true).
Proof. exact define_ok_iff. Qed.

Theorem C12_define_ok_decorated : forall reserved dicts owner_is_sm body ns,
  define_class reserved dicts owner_is_sm body = Ok ns ->
  forall k d, In (k, SState d) body -> ~ In (d_fname d) reserved /\ ~ sig_faulty (d_params d).
Proof. exact define_ok_decorated. Qed.

(* a module of class statements: accepted iff each one is (judged with
   issubclass(owner, StateMachine) derived from its bases and with the
   __dict__ of the classes before it); else the first faulty class statement
   raises *)
Theorem C12_module : forall reserved cs,
  match define_all reserved cs with
  | Ok ds =>
      List.length ds = List.length cs /\
      forall i c, nth_error cs i = Some c ->
        exists ns, define_class reserved (firstn i ds) (nth i (sm_flags cs) false) (c_body c) = Ok ns /\
                   nth_error ds i = Some (ns ++ map (fun k => (k, MOther)) (c_extra c))
  | Err (j, e) =>
      exists c ds, nth_error cs j = Some c /\ List.length ds = j /\
        define_class reserved ds (nth j (sm_flags cs) false) (c_body c) = Err e /\
        forall i' c', i' < j -> nth_error cs i' = Some c' ->
          exists ns, define_class reserved (firstn i' ds) (nth i' (sm_flags cs) false) (c_body c') = Ok ns /\
                     nth_error ds i' = Some (ns ++ map (fun k => (k, MOther)) (c_extra c'))
  end.
Proof. exact define_all_spec. Qed.

(* in an accepted module every class __dict__ that holds a state object --
   created there or taken from elsewhere -- holds it under the state's own
   name, and that class is a StateMachine *)
Theorem C12_module_states_wellplaced : forall reserved cs ds, define_all reserved cs = Ok ds ->
  forall i d k s, nth_error ds i = Some d -> In (k, MState s) d ->
    k = s_name s /\ nth i (sm_flags cs) false = true.
Proof. exact define_all_wf. Qed.

(* ---- "marked first": from the source to the multiplicity check ------- *)

(* the wrapper carries exactly the marks of the decorator expression *)
Theorem C12_marks_kept : forall reserved d s, construct reserved d = Ok s ->
  s_first s = marked_first (d_deco d) /\ s_must_finish s = marked_must_finish (d_deco d) /\
  s_default s = marked_default (d_deco d) /\ s_timed s = marked_timed (d_deco d) /\
  s_name s = d_fname d /\ s_desc s = d_doc d.
Proof. exact marks_kept. Qed.

(* [state] called with the function AND the options gives what the decorator
   it returns for the same options gives on that function *)
Theorem C12_state_call_paths_agree : forall reserved g first must_finish,
  exists dec, state_fn reserved None first must_finish = RDecorator dec /\
              state_fn reserved (Some g) first must_finish = RWrapper (dec g).
Proof. exact state_fn_paths_agree. Qed.

(* the spelling of the decorator is irrelevant: same function, same options
   => same state (or same exception) *)
Theorem C12_spelling_irrelevant : forall reserved d d',
  d_fname d = d_fname d' -> d_params d = d_params d' -> d_doc d = d_doc d' ->
  marked_first (d_deco d) = marked_first (d_deco d') ->
  marked_must_finish (d_deco d) = marked_must_finish (d_deco d') ->
  marked_timed (d_deco d) = marked_timed (d_deco d') ->
  marked_default (d_deco d) = marked_default (d_deco d') ->
  construct reserved d = construct reserved d'.
Proof. exact spelling_irrelevant. Qed.

(*   <decorator expression> def k(..)     (k not rebound below)
   in the body of an accepted class statement.  For every class whose most
   derived class this is (any base classes [rest]; [extra]: the non-state keys
   setattr adds to the class __dict__): k counts as first state / as default
   state at instantiation iff the source marks it so, and it is listed under
   the function's name with the function's docstring *)
Theorem C12_first_is_marked : forall reserved dicts owner_is_sm pre k d post ns extra rest,
  define_class reserved dicts owner_is_sm (pre ++ (k, SState d) :: post) = Ok ns ->
  ~ In k (keys post) -> ~ In k extra ->
  (first_in ((ns ++ map (fun x => (x, MOther)) extra) :: rest) k <-> marked_first (d_deco d) = true) /\
  (default_in ((ns ++ map (fun x => (x, MOther)) extra) :: rest) k <-> marked_default (d_deco d) = true) /\
  exists s, eff_state ((ns ++ map (fun x => (x, MOther)) extra) :: rest) k s /\
            s_name s = k /\ s_desc s = d_doc d.
Proof. exact first_is_marked. Qed.

(* a function the most derived class marks first is found *)
Theorem C12_marked_first_found : forall reserved dicts owner_is_sm pre k d post ns extra rest,
  define_class reserved dicts owner_is_sm (pre ++ (k, SState d) :: post) = Ok ns ->
  ~ In k (keys post) -> ~ In k extra -> marked_first (d_deco d) = true ->
  build_states ((ns ++ map (fun x => (x, MOther)) extra) :: rest) <> Err NoFirst.
Proof. exact marked_first_found. Qed.

(* two different functions of one class body marked first, each with any
   spelling: the class cannot be instantiated (and not for lack of a first state) *)
Theorem C12_two_marked_first_rejected :
  forall reserved dicts owner_is_sm body ns extra rest pre1 k1 d1 post1 pre2 k2 d2 post2,
  define_class reserved dicts owner_is_sm body = Ok ns ->
  body = pre1 ++ (k1, SState d1) :: post1 -> ~ In k1 (keys post1) ->
  body = pre2 ++ (k2, SState d2) :: post2 -> ~ In k2 (keys post2) ->
  k1 <> k2 -> ~ In k1 extra -> ~ In k2 extra ->
  marked_first (d_deco d1) = true -> marked_first (d_deco d2) = true ->
  exists e, build_states ((ns ++ map (fun x => (x, MOther)) extra) :: rest) = Err e /\ e <> NoFirst.
Proof. exact two_marked_first_rejected. Qed.

Theorem C12_direct_call : forall (A K : Type) (s : sdata) (args : list A) (kwargs : list (string * K)),
  call_state s args kwargs = Err IllegalCall.
Proof. exact (fun A K => @direct_call A K). Qed.

(* ---- state_names / state_descriptions ------------------------------ *)

Theorem C12_names_exact : forall mro r, build_states mro = Ok r ->
  (forall n, In n (r_names r) <-> exists s, effective mro n = Some (MState s)) /\
  NoDup (r_names r) /\
  r_names r = filter (fun n => is_state_opt (effective mro n)) (dedup_first (bases_first mro)) /\
  r_descs r = map (fun n => desc_opt (effective mro n)) (r_names r).
Proof. exact names_exact. Qed.

Theorem C12_descs_aligned : forall mro r, build_states mro = Ok r ->
  List.length (r_descs r) = List.length (r_names r) /\
  forall i, i < List.length (r_names r) ->
    nth i (r_descs r) "" = desc_opt (effective mro (nth i (r_names r) "")).
Proof. exact descs_aligned. Qed.

(* ---- instantiation histories and binding ---------------------------- *)

(* Vocabulary (Defs/Model.v, Defs/Spec.v, proof-free):
     a [world] is the class table as it is NOW -- the __dict__ of every class,
       which instantiation itself changes: a successful C() sets the attributes
       state_names and state_descriptions on C -- and the NetworkTables topics;
     an [event] is  EInst mro cname:  o = C(); setup_tunables(o, cname,
       "components")  for the class C with that MRO (the instance stays alive),
       or  EPublish key v:  another client sets a topic;
     [run_history w h] the outcome of every event of h in turn: [ORaised e],
       [OBound r names descs] (names/descs: o.state_names / o.state_descriptions
       read after binding), [OPublished];
     [class_outcome dicts mro] what the class alone says: the exception of its
       multiplicity check, or the instance with r_names / r_descs;
     [published_free dicts] no class holds a STATE under the key state_names or
       state_descriptions.

   Attempt k of ANY history -- whatever was instantiated before (this class or
   a base class or a subclass, successfully or not, any number of times, in any
   order), whatever was bound under whatever name and whatever the topics held
   -- gives what its class gives: the same verdict as a first attempt on the
   untouched classes, and on success the class's own two lists. *)
Theorem C12_history_independent : forall dicts nt h k mro cname,
  published_free dicts ->
  nth_error h k = Some (EInst mro cname) ->
  nth_error (run_history {| w_dicts := dicts; w_nt := nt |} h) k = Some (class_outcome dicts mro).
Proof. exact history_independent. Qed.

(* .. so every attempt, not just the first, yields an instance iff exactly one
   effective state is first and at most one is a default state *)
Theorem C12_history_verdict_iff : forall dicts nt h k mro cname,
  published_free dicts ->
  nth_error h k = Some (EInst mro cname) ->
  ((exists r names descs,
      nth_error (run_history {| w_dicts := dicts; w_nt := nt |} h) k = Some (OBound r names descs)) <->
   exactly_one_first (bodies_of dicts mro) /\ at_most_one_default (bodies_of dicts mro)).
Proof. exact history_verdict_iff. Qed.

(* an attempt that raises leaves classes and topics as they were *)
Theorem C12_failed_attempt_no_effect : forall w mro cname w' e,
  step w (EInst mro cname) = (w', ORaised e) -> w' = w.
Proof. exact failed_attempt_no_effect. Qed.

(* in an accepted module no state is called like an attribute of StateMachine,
   wherever the object was created *)
Theorem C12_module_names_free : forall reserved cs ds, define_all reserved cs = Ok ds ->
  forall d k s, In d ds -> In (k, MState s) d -> k = s_name s /\ ~ In k reserved.
Proof. exact define_all_names_free. Qed.

(* .. hence for the classes of an accepted module (state_names and
   state_descriptions being attributes of StateMachine) every history is
   judged class by class *)
Theorem C12_history_module : forall reserved cs ds nt h k mro cname,
  In "state_names" reserved -> In "state_descriptions" reserved ->
  define_all reserved cs = Ok ds ->
  nth_error h k = Some (EInst mro cname) ->
  nth_error (run_history {| w_dicts := ds; w_nt := nt |} h) k = Some (class_outcome ds mro).
Proof. exact history_module. Qed.

(* binding: setup_tunables puts the lists of THIS machine on its two topics
   whatever they held before (an earlier machine bound under the same name, a
   dashboard); every other topic keeps its value *)
Theorem C12_bind_overwrites : forall nt cname r,
  dict_get (topic cname "state_names") (bind_machine nt cname r) = Some (r_names r) /\
  dict_get (topic cname "state_descriptions") (bind_machine nt cname r) = Some (r_descs r) /\
  forall key, key <> topic cname "state_names" -> key <> topic cname "state_descriptions" ->
    dict_get key (bind_machine nt cname r) = dict_get key nt.
Proof. exact bind_overwrites. Qed.

(* ---- every decorated function is judged on its own -------------------- *)

(* A [decl] is what the state decorator can see of the function it is handed:
   its __name__, the parameters inspect.signature reports for IT (following
   __wrapped__ of a functools.wraps-based decorator, honouring __signature__ of
   a factory product, the remaining parameters of a functools.partial object),
   its docstring.  How the function was produced -- and what it shares with
   functions decorated before it, e.g. the code object of a common wrapper --
   is not an input of the model.

   A decorated function with a colliding name or a faulty signature makes the
   class statement raise, whatever the lines above it defined (legal states
   behind the same wrapper included), whatever earlier classes hold, whatever
   follows *)
Theorem C12_faulty_decorated_rejected : forall reserved dicts owner_is_sm pre k d post,
  In (d_fname d) reserved \/ sig_faulty (d_params d) ->
  exists e, define_class reserved dicts owner_is_sm (pre ++ (k, SState d) :: post) = Err e.
Proof. exact faulty_decorated_rejected. Qed.

(* .. with exactly the exception the decorator raises for this function alone,
   once the lines above it have run through *)
Theorem C12_decorated_verdict_own : forall reserved dicts owner_is_sm pre ns k d post e,
  eval_body reserved dicts pre [] = Ok ns -> construct reserved d = Err e ->
  define_class reserved dicts owner_is_sm (pre ++ (k, SState d) :: post) = Err e.
Proof. exact decorated_verdict_own. Qed.

(* in an accepted module every decorated function of every class -- first or
   last, overridden or not -- has a free name and a legal signature *)
Theorem C12_module_decorated_legal : forall reserved cs ds, define_all reserved cs = Ok ds ->
  forall c k d, In c cs -> In (k, SState d) (c_body c) ->
    ~ In (d_fname d) reserved /\ ~ sig_faulty (d_params d).
Proof. exact module_decorated_legal. Qed.

(* ---- non-vacuity --------------------------------------------------- *)

Definition nvp (n : string) : param := {| p_name := n; p_kind := PosOrKw |}.
Definition nvd (n : string) (ps : list string) (doc : option string) (k : deco) : decl :=
  {| d_fname := n; d_params := map nvp ps; d_doc := doc; d_deco := k |}.
Definition nv_reserved : list string := ["done"; "engage"; "state_names"; "logger"].

(* a diamond: A defines a (first), b, z; B(A) overrides b by a plain
   attribute; C(A) overrides a by a first state with another doc and adds a
   default state; D(B, C) adds k.  MRO of D: D, B, C, A. *)
Definition nv_A := [("a", SState (nvd "a" ["self"] (Some "A.a") (DState true false)));
                    ("b", SState (nvd "b" ["self"; "tm"] None (DState false false)));
                    ("z", SState (nvd "z" ["self"; "state_tm"; "tm"] (Some "A.z") (DTimed false true)))].
Definition nv_B := [("m", SState (nvd "m" ["self"] None (DState false false))); ("b", SOther)].
Definition nv_C := [("n", SState (nvd "n" ["self"; "initial_call"] (Some "C.n") DDefault));
                    ("a", SState (nvd "a" ["self"] (Some "C.a") (DState true false)))].
Definition nv_D := [("k", SState (nvd "k" [] None (DState false false)))].
Definition nv_module : list classdef :=
  [ {| c_bases := [BSM]; c_body := nv_A; c_extra := ["z_duration"] |};
    {| c_bases := [BClass 0]; c_body := nv_B; c_extra := [] |};
    {| c_bases := [BClass 0]; c_body := nv_C; c_extra := [] |};
    {| c_bases := [BClass 1; BClass 2]; c_body := nv_D; c_extra := [] |} ].

Example C12_nv_accepted :
  exists ds r, define_all nv_reserved nv_module = Ok ds /\ instantiate ds [3; 1; 2; 0] = Ok r /\
    r_first r = "a" /\ r_default r = Some "n" /\
    r_names r = ["a"; "z"; "n"; "m"; "k"] /\ r_descs r = ["C.a"; "A.z"; "C.n"; ""; ""].
Proof. eexists. eexists. vm_compute. repeat split. Qed.

(* the same module, instantiating B (MRO B, A): b is overridden by a plain
   attribute and disappears; A alone keeps it *)
Example C12_nv_override_removes :
  exists ds rB rA, define_all nv_reserved nv_module = Ok ds /\
    instantiate ds [1; 0] = Ok rB /\ r_names rB = ["a"; "z"; "m"] /\
    instantiate ds [0] = Ok rA /\ r_names rA = ["a"; "b"; "z"].
Proof. do 3 eexists. vm_compute. repeat split. Qed.

(* each of the three instantiation errors occurs *)
Example C12_nv_errors :
  build_states [[("b", MOther)]] = Err NoFirst /\
  (exists ds, define_all nv_reserved
     [ {| c_bases := [BSM]; c_body := nv_A; c_extra := [] |};
       {| c_bases := [BClass 0];
          c_body := [("c", SState (nvd "c" ["self"] None (DState true false)))]; c_extra := [] |} ] = Ok ds /\
     instantiate ds [1; 0] = Err MultipleFirst /\ instantiate ds [0] <> Err MultipleFirst) /\
  (exists ds, define_all nv_reserved
     [ {| c_bases := [BSM]; c_body := nv_C; c_extra := [] |};
       {| c_bases := [BClass 0];
          c_body := [("d", SState (nvd "d" ["self"] None DDefault))]; c_extra := [] |} ] = Ok ds /\
     instantiate ds [1; 0] = Err MultipleDefault).
Proof.
  split; [reflexivity|]. split; eexists; vm_compute; repeat split; discriminate.
Qed.

(* every rejection at class-definition time occurs, with its own exception;
   a collision wins over a bad signature; positional-only parameters and an
   empty signature are accepted *)
Example C12_nv_definition_errors :
  construct nv_reserved (nvd "done" ["self"] None (DState true false)) = Err EInvalidStateName /\
  construct nv_reserved (nvd "logger" ["tm"] None DDefault) = Err EInvalidStateName /\
  construct nv_reserved (nvd "s" ["tm"; "self"] None (DState true false)) = Err (ESig ErrFirstNotSelf) /\
  construct nv_reserved {| d_fname := "s"; d_params := [nvp "self"; {| p_name := "a"; p_kind := VarPos |}];
                           d_doc := None; d_deco := DDefault |} = Err (ESig ErrVarPos) /\
  construct nv_reserved {| d_fname := "s"; d_params := [nvp "self"; {| p_name := "tm"; p_kind := KwOnly |}];
                           d_doc := None; d_deco := DDefault |} = Err (ESig ErrKwOnly) /\
  construct nv_reserved {| d_fname := "s"; d_params := [nvp "self"; {| p_name := "k"; p_kind := VarKw |}];
                           d_doc := None; d_deco := DDefault |} = Err (ESig ErrVarKw) /\
  construct nv_reserved (nvd "s" ["self"; "now"; "tm"; "x"] None DDefault) = Err (ESig (ErrInvalidNames ["now"; "x"])) /\
  (exists s, construct nv_reserved {| d_fname := "s"; d_params := [{| p_name := "self"; p_kind := PosOnly |}; nvp "tm"];
                                      d_doc := None; d_deco := DDefault |} = Ok s) /\
  (exists s, construct nv_reserved (nvd "s" [] None DDefault) = Ok s) /\
  define_class nv_reserved [] true [("t", SState (nvd "s" ["self"] None (DState true false)))] = Err EAlias /\
  define_class nv_reserved [] false [("s", SState (nvd "s" ["self"] None (DState true false)))] = Err ENotStateMachine /\
  (exists ns, define_class nv_reserved [] false [("s", SState (nvd "s" ["self"] None (DState true false))); ("s", SOther)] = Ok ns).
Proof. repeat split; try reflexivity; eexists; reflexivity. Qed.

(* second bindings of an existing state object.  C0 defines work (first,
   timed) correctly; then:  again = work  in the same body;  a derived class
   and an unrelated machine binding C0's state as retry;  a plain class
   binding it as work;  -- all rejected --  and, accepted, a derived class and
   another machine binding it under its own name (the other machine then has
   exactly the states start, work). *)
Definition nv_work := ("work", SState (nvd "work" ["self"; "tm"] (Some "does the work") (DTimed true false))).
Definition nv_base : classdef := {| c_bases := [BSM]; c_body := [nv_work]; c_extra := ["work_duration"] |}.
Definition nv_then (bases : list base) (body : list (string * smember)) : list classdef :=
  [nv_base; {| c_bases := bases; c_body := body; c_extra := [] |}].

Example C12_nv_second_binding :
  define_all nv_reserved [{| c_bases := [BSM]; c_body := [nv_work; ("again", SLocal "work")]; c_extra := [] |}]
    = Err (0, EAlias) /\
  define_all nv_reserved [{| c_bases := [BSM]; c_body := [("again", SOther); nv_work; ("again", SLocal "work")];
                             c_extra := [] |}] = Err (0, EAlias) /\
  define_all nv_reserved (nv_then [BClass 0] [("retry", SRef 0 "work")]) = Err (1, EAlias) /\
  define_all nv_reserved (nv_then [BSM] [("retry", SRef 0 "work")]) = Err (1, EAlias) /\
  define_all nv_reserved (nv_then [] [("work", SRef 0 "work")]) = Err (1, ENotStateMachine) /\
  define_all nv_reserved (nv_then [] [("retry", SRef 0 "work")]) = Err (1, EAlias) /\
  define_all nv_reserved (nv_then [BSM] [("x", SLocal "nosuch")]) = Err (1, EUnbound) /\
  define_all nv_reserved (nv_then [BSM] [("x", SRef 0 "nosuch")]) = Err (1, EUnbound) /\
  (exists ds, define_all nv_reserved (nv_then [] [("work", SRef 0 "work"); ("work", SOther)]) = Ok ds) /\
  (exists ds r, define_all nv_reserved (nv_then [BClass 0] [("work", SRef 0 "work")]) = Ok ds /\
     instantiate ds [1; 0] = Ok r /\ r_names r = ["work"] /\ r_first r = "work") /\
  (exists ds r, define_all nv_reserved
       (nv_then [BSM] [("start", SState (nvd "start" ["self"] (Some "starts") (DState false false)));
                       ("work", SRef 0 "work"); ("tmp", SLocal "work"); ("tmp", SOther)]) = Ok ds /\
     instantiate ds [1] = Ok r /\ r_names r = ["start"; "work"] /\ r_descs r = ["starts"; "does the work"] /\
     r_first r = "work").
Proof. repeat split; try reflexivity; repeat eexists; vm_compute; reflexivity. Qed.

(* the plain-call spelling  go = state(go, first=True).  A machine whose only
   first state is spelled that way instantiates and starts there; a second
   first state spelled that way (same class / subclass) is MultipleFirst; a
   subclass overriding the inherited first state by  go = state(go)  (no mark)
   has no first state; bare @state marks nothing; both spellings give the same
   state *)
Definition nv_go (k : deco) := ("go", SState (nvd "go" ["self"] (Some "start") k)).
Definition nv_one (body : list (string * smember)) : classdef :=
  {| c_bases := [BSM]; c_body := body; c_extra := [] |}.

Example C12_nv_call_spelling :
  (exists ds r, define_all nv_reserved [nv_one [nv_go (DStateCall true false);
                                                ("b", SState (nvd "b" ["self"] None (DStateCall false true)))]] = Ok ds /\
     instantiate ds [0] = Ok r /\ r_first r = "go" /\ r_names r = ["go"; "b"] /\ r_descs r = ["start"; ""]) /\
  (exists ds, define_all nv_reserved [nv_one [nv_go (DState true false);
                                              ("b", SState (nvd "b" ["self"] None (DStateCall true false)))]] = Ok ds /\
     instantiate ds [0] = Err MultipleFirst) /\
  (exists ds, define_all nv_reserved
       [nv_one [nv_go (DState true false)];
        {| c_bases := [BClass 0]; c_body := [("b", SState (nvd "b" ["self"] None (DStateCall true false)))]; c_extra := [] |};
        {| c_bases := [BClass 0]; c_body := [nv_go (DStateCall false false)]; c_extra := [] |};
        {| c_bases := [BClass 0]; c_body := [nv_go (DStateCall true true)]; c_extra := [] |}] = Ok ds /\
     instantiate ds [1; 0] = Err MultipleFirst /\ instantiate ds [2; 0] = Err NoFirst /\
     (exists r, instantiate ds [3; 0] = Ok r /\ r_first r = "go")) /\
  construct nv_reserved (nvd "go" ["self"] None (DStateCall true false)) =
    construct nv_reserved (nvd "go" ["self"] None (DState true false)) /\
  (exists s, construct nv_reserved (nvd "go" ["self"] None (DStateCall true true)) = Ok s /\
     s_first s = true /\ s_must_finish s = true /\ s_default s = false /\ s_timed s = false) /\
  construct nv_reserved (nvd "done" ["self"] None (DStateCall true false)) = Err EInvalidStateName.
Proof. repeat split; try reflexivity; repeat eexists; vm_compute; reflexivity. Qed.

(* histories.  C0: a (first), b.  C1(C0): a second first state z.  C2(C0):
   overrides a without the mark.  C3(StateMachine): x (first), y, both
   documented.  The malformed classes C1 and C2 are attempted three times, before
   and after their base class; C0 and C3 are bound under the SAME component
   name, on top of a value a dashboard left there; every attempt says what the
   class says, and the topics end up holding the lists of the machine bound last *)
Definition nv_hist_module : list classdef :=
  [ nv_one [("a", SState (nvd "a" ["self"] (Some "A.a") (DState true false)));
            ("b", SState (nvd "b" ["self"] None (DState false false)))];
    {| c_bases := [BClass 0]; c_body := [("z", SState (nvd "z" ["self"] None (DTimed true false)))];
       c_extra := ["z_duration"] |};
    {| c_bases := [BClass 0]; c_body := [("a", SState (nvd "a" ["self"] None (DStateCall false false)))];
       c_extra := [] |};
    nv_one [("x", SState (nvd "x" ["self"] (Some "X.x") (DState true false)));
            ("y", SState (nvd "y" ["self"; "tm"] (Some "X.y") DDefault))] ].
Definition nv_history : list event :=
  [ EInst [1; 0] "m"; EInst [0] "m"; EInst [1; 0] "m"; EInst [2; 0] "m";
    EPublish (topic "m" "state_names") ["old_a"; "old_b"; "old_c"];
    EInst [3] "m"; EInst [2; 0] "other"; EInst [0] "m"; EInst [1; 0] "m"; EInst [0] "m2"; EInst [3] "m" ].

Example C12_nv_history :
  exists ds rA rX,
    define_all nv_reserved nv_hist_module = Ok ds /\ published_free ds /\
    instantiate ds [0] = Ok rA /\ r_names rA = ["a"; "b"] /\ r_descs rA = ["A.a"; ""] /\
    instantiate ds [3] = Ok rX /\ r_names rX = ["x"; "y"] /\ r_descs rX = ["X.x"; "X.y"] /\
    run_history {| w_dicts := ds; w_nt := [(topic "m" "state_descriptions", ["stale"])] |} nv_history =
      [ ORaised MultipleFirst; OBound rA ["a"; "b"] ["A.a"; ""]; ORaised MultipleFirst; ORaised NoFirst;
        OPublished;
        OBound rX ["x"; "y"] ["X.x"; "X.y"]; ORaised NoFirst; OBound rA ["a"; "b"] ["A.a"; ""];
        ORaised MultipleFirst; OBound rA ["a"; "b"] ["A.a"; ""]; OBound rX ["x"; "y"] ["X.x"; "X.y"] ] /\
    (* instantiation did change the class table: C0 now carries the two attributes *)
    (exists w, fst (step {| w_dicts := ds; w_nt := [] |} (EInst [0] "m")) = w /\
       keys (nth 0 (w_dicts w) []) = ["a"; "b"; "state_names"; "state_descriptions"] /\
       w_nt w = [(topic "m" "state_descriptions", ["A.a"; ""]); (topic "m" "state_names", ["a"; "b"])]).
Proof.
  eexists. eexists. eexists. split; [vm_compute; reflexivity|]. split.
  - intros d k s I J. cbn in I.
    repeat (destruct I as [I|I]; [subst d; cbn in J;
      repeat (destruct J as [J|J]; [inversion J; subst; split; discriminate|]); destruct J|]).
    destruct I.
  - split; [vm_compute; reflexivity|]. repeat split. eexists. split; [reflexivity|]. vm_compute. split; reflexivity.
Qed.

(* two functions that differ in their signature only (think of both behind one
   functools.wraps decorator: same code object).  ok(self, tm) then bad(self,
   speed): rejected with the ValueError of bad; the other order: the same
   error; bad in a derived class / in an unrelated machine defined after a class
   with ok: that class statement raises; ok twice with different legal
   signatures: two states with their own argument lists *)
Definition nv_ok := ("ok", SState (nvd "ok" ["self"; "tm"] (Some "fine") (DState true false))).
Definition nv_bad := ("bad", SState (nvd "bad" ["self"; "speed"] (Some "bad one") (DState false false))).

Example C12_nv_judged_alone :
  define_all nv_reserved [nv_one [nv_ok; nv_bad]] = Err (0, ESig (ErrInvalidNames ["speed"])) /\
  define_all nv_reserved [nv_one [nv_bad; nv_ok]] = Err (0, ESig (ErrInvalidNames ["speed"])) /\
  define_all nv_reserved [nv_one [nv_ok]; {| c_bases := [BClass 0]; c_body := [nv_bad]; c_extra := [] |}]
    = Err (1, ESig (ErrInvalidNames ["speed"])) /\
  define_all nv_reserved [nv_one [nv_ok]; nv_one [nv_ok; ("m", SOther); nv_bad]]
    = Err (1, ESig (ErrInvalidNames ["speed"])) /\
  construct nv_reserved (nvd "bad" ["self"; "speed"] (Some "bad one") (DState false false))
    = Err (ESig (ErrInvalidNames ["speed"])) /\
  (exists ds s1 s2, define_all nv_reserved
       [nv_one [nv_ok; ("b", SState (nvd "b" ["self"; "state_tm"; "initial_call"] None (DStateCall false false)))]] = Ok ds /\
     dict_get "ok" (nth 0 ds []) = Some (MState s1) /\ s_args s1 = ["self"; "tm"] /\
     dict_get "b" (nth 0 ds []) = Some (MState s2) /\ s_args s2 = ["self"; "state_tm"; "initial_call"]).
Proof. repeat split; try reflexivity. do 3 eexists. vm_compute. repeat split. Qed.

(* the adapter really reorders: declared (self, state_tm, tm) *)
Example C12_nv_adapter :
  exists args, validate_sig (map nvp ["self"; "state_tm"; "tm"]) = Ok args /\
    adapter args {| e_self := 0; e_tm := 1; e_state_tm := 2; e_initial_call := 3 |} = [Some 0; Some 2; Some 1].
Proof. eexists. split; reflexivity. Qed.

Print Assumptions C12_build_ok_iff.
Print Assumptions C12_build_ok_sound.
Print Assumptions C12_build_err_sound.
Print Assumptions C12_members_are_effective.
Print Assumptions C12_sig_reject_iff.
Print Assumptions C12_sig_accept_order.
Print Assumptions C12_sig_err_sound.
Print Assumptions C12_name_reject_iff.
Print Assumptions C12_construct_ok_iff.
Print Assumptions C12_set_name_iff.
Print Assumptions C12_alias_owner.
Print Assumptions C12_alias_owner_error.
Print Assumptions C12_define_err_kinds.
Print Assumptions C12_state_name_fixed.
Print Assumptions C12_second_name_same_body.
Print Assumptions C12_state_taken_from_class.
Print Assumptions C12_define_ok_iff.
Print Assumptions C12_define_ok_decorated.
Print Assumptions C12_module.
Print Assumptions C12_module_states_wellplaced.
Print Assumptions C12_marks_kept.
Print Assumptions C12_state_call_paths_agree.
Print Assumptions C12_spelling_irrelevant.
Print Assumptions C12_first_is_marked.
Print Assumptions C12_marked_first_found.
Print Assumptions C12_two_marked_first_rejected.
Print Assumptions C12_direct_call.
Print Assumptions C12_names_exact.
Print Assumptions C12_descs_aligned.
Print Assumptions C12_history_independent.
Print Assumptions C12_history_verdict_iff.
Print Assumptions C12_failed_attempt_no_effect.
Print Assumptions C12_module_names_free.
Print Assumptions C12_history_module.
Print Assumptions C12_bind_overwrites.
Print Assumptions C12_faulty_decorated_rejected.
Print Assumptions C12_decorated_verdict_own.
Print Assumptions C12_module_decorated_legal.
