(* C02 -- Timed states last their duration, run at least once, and chain without drift.

   Model: SM.Model.  Time is Z ticks; [start m] is the machine's clock origin,
   tm = now - start m; [st_start]/[st_exp] are a state's entry and expiry in
   machine time; [duration_of sh m s] is the value of the '<s>_duration' tunable
   as it is now (the NetworkTables-editable [dur m s]) for a timed state.
   EvBk s a e is the first-call bookkeeping of an entry: absolute entry instant a,
   absolute expiry e.  [nested] is whatever next_state_now() re-enters (any
   function), [body] is arbitrary user code.  Statements only. *)
From Coq Require Import ZArith List Bool.
From RV Require Import SM.Model SM.Basics SM.Engage SM.Invariants SM.Stop SM.Timing SM.Auto SM.Drift SM.Check SM.Examples.
Import ListNotations.
Open Scope Z_scope.

Section C02.
Variable sh : shape.
Variable body : nat -> name -> Z -> Z -> bool -> list action.
Variable nested : sm -> Z -> sm * list event.

(* a timed state that has run is the state that runs on every (requested or
   must_finish) iteration with tm <= entry + duration: it is called, not initially,
   with state_tm measured from its entry *)
Theorem C02_holds_until_expiry : forall m now s,
  engaged m = true -> cur m = Some s -> ran (sdat m s) = true ->
  now - start m <= st_exp (sdat m s) -> requested_or_must sh m s -> clk m <= now ->
  exists m2 e,
    exec_step sh body nested m now =
    (m2, EvCall s (now - start m) (now - start m - st_start (sdat m s)) false true :: e).
Proof. exact (holds_until_expiry sh body nested). Qed.

(* on the first iteration with tm > entry + duration control passes to its
   next_state; the successor's clock starts at the predecessor's expiry, not at
   the iteration that noticed it, and its own expiry is that instant plus ITS
   duration tunable as it is at this moment *)
Theorem C02_expiry_hands_over : forall m now s dc n,
  engaged m = true -> cur m = Some s -> ran (sdat m s) = true ->
  st_exp (sdat m s) < now - start m ->
  lookup sh s = Some dc -> d_timed dc = true -> d_next dc = Some n -> is_state sh n = true ->
  requested_or_must sh m n -> clk m <= now ->
  let x := st_exp (sdat m s) in
  exists m2 e,
    exec_step sh body nested m now =
    (m2, EvEnter n :: EvBk n (start m + x) (start m + (x + duration_of sh m n))
         :: EvCall n (now - start m) (now - start m - x) true true :: e).
Proof. exact (expiry_hands_over sh body nested). Qed.

(* ... or the machine finishes if it has none: done() is invoked; a machine that is
   still requested starts over at the first state in a clock frame whose origin is
   the expiry instant (tm restarts at now - expiry, state_tm likewise) *)
Theorem C02_expiry_of_last_state_cycles : forall m now s dc,
  sh_auto sh = false -> should m = true ->
  engaged m = true -> cur m = Some s -> ran (sdat m s) = true ->
  st_exp (sdat m s) < now - start m ->
  lookup sh s = Some dc -> d_timed dc = true -> d_next dc = None -> clk m <= now ->
  let x := st_exp (sdat m s) in
  let f := sh_first sh in
  exists m2 e,
    exec_step sh body nested m now =
    (m2, EvDone :: EvEnter f :: EvBk f (start m + x) (start m + x + duration_of sh m f)
         :: EvCall f (now - start m - x) (now - start m - x - 0) true true :: e).
Proof. exact (expiry_cycles sh body nested). Qed.

Theorem C02_expiry_of_last_state_finishes : forall m now s dc,
  (should m = false \/ sh_auto sh = true) ->
  engaged m = true -> cur m = Some s -> ran (sdat m s) = true ->
  st_exp (sdat m s) < now - start m ->
  lookup sh s = Some dc -> d_timed dc = true -> d_next dc = None -> clk m <= now ->
  exists e, snd (exec_step sh body nested m now) = EvDone :: e.
Proof. exact (expiry_finishes sh body nested). Qed.

(* a state that has just been entered is always run once before it can expire,
   whatever tm is; its bookkeeping reads the duration tunable at that moment *)
Theorem C02_entered_runs_once : forall m now s,
  engaged m = true -> cur m = Some s -> ran (sdat m s) = false ->
  requested_or_must sh m s -> clk m <= now ->
  let tm := now - start m in
  exists m2 e,
    exec_step sh body nested m now =
    (m2, EvBk s (start m + tm) (start m + (tm + duration_of sh m s))
         :: EvCall s tm (tm - tm) true true :: e).
Proof. exact (entered_runs_once sh body nested). Qed.

(* a NetworkTables write to '<s>_duration' changes what later entries read and
   nothing else: the expiry of a state already entered does not move *)
Theorem C02_duration_write : forall fuel m s d,
  let m' := fst (step sh body fuel m (SetDuration s d)) in
  sdat m' = sdat m /\ cur m' = cur m /\ start m' = start m /\ engaged m' = engaged m
  /\ should m' = should m /\ dur m' s = d /\ (forall x, x <> s -> dur m' x = dur m x).
Proof. exact (set_duration_frame sh body). Qed.

(* state_tm is never negative (nor is tm inside an engagement): for every history
   inside the contract, every call, at every nesting depth *)
Theorem C02_state_tm_nonneg : forall fuel h m, wf_shape sh -> Inv sh m ->
  ok (trace_of (snd (run sh body fuel m h))) ->
  forall s tm stm i e, In (EvCall s tm stm i e) (trace_of (snd (run sh body fuel m h))) ->
    0 <= stm /\ (e = true -> 0 <= tm).
Proof. exact (fun fuel h m Hwf HI Hok => nonneg_in _ (proj2 (run_inv sh body Hwf fuel h m HI Hok))). Qed.
End C02.

(* No drift: a continuously engaged machine whose state functions request no
   transition, started from a stopped machine and iterated at ANY non-decreasing
   instants t, t1, t2, ... (pauses longer than several durations, readings exactly
   on an expiry): the first state is entered at t, and every later entry -- by
   expiry of the predecessor or by the restart of the cycle -- is at exactly the
   expiry instant of the entry before it.  Hence a chain lasts the sum of its
   durations and every repetition lasts as long as the first. *)
Theorem C02_no_drift : forall sh fuel m t ts,
  wf_shape sh -> sh_auto sh = false ->
  Idle sh m -> clk m <= t -> mono_from t ts ->
  ok (concat (snd (run sh body0 (S fuel) m (continuous (t :: ts))))) ->
  exists e rest,
    concat (snd (run sh body0 (S fuel) m (continuous (t :: ts)))) =
      EvEnter (sh_first sh) :: EvBk (sh_first sh) t e :: rest /\
    chain (Some e) rest.
Proof. exact (fun sh fuel m t ts Hwf Ha => no_drift sh Hwf Ha fuel m t ts). Qed.

(* Non-vacuity *)
Definition cyc_shape : shape :=
  {| sh_states := [ (0%nat, {| d_must := false; d_timed := true; d_next := Some 1%nat |});
                    (1%nat, {| d_must := false; d_timed := true; d_next := None |}) ];
     sh_first := 0%nat; sh_default := None; sh_inf := 4294967295 * 64; sh_auto := false |}.
Definition cyc_init := init_sm (fun s => match s with 0%nat => 4 | _ => 3 end).
(* iterate every 5 ticks (coarser than both durations): entries stay on the 4,3,4,3 grid *)
Example C02_nv_no_drift :
  wf_shape cyc_shape /\ Idle cyc_shape cyc_init /\ mono_from 100 [105; 110; 115; 120; 125; 130] /\
  filter (fun e => match e with EvBk _ _ _ => true | _ => false end)
         (concat (snd (run cyc_shape body0 3 cyc_init (continuous [100; 105; 110; 115; 120; 125; 130]))))
  = [EvBk 0%nat 100 104; EvBk 1%nat 104 107; EvBk 0%nat 107 111; EvBk 1%nat 111 114;
     EvBk 0%nat 114 118; EvBk 1%nat 118 121; EvBk 0%nat 121 125].
Proof.
  split; [apply wf_shapeb_sound; vm_compute; reflexivity|].
  split; [split; [apply Inv_init | split; reflexivity]|].
  split; [cbn; repeat split; discriminate|]. vm_compute. reflexivity.
Qed.
Example C02_nv_hands_over_premises :
  (* state of the example machine after "Execute 15": a has run, expiry 8 in machine time *)
  let m := fst (run (ex_shape false) ex_body 8 ex_init (firstn 9 ex_hist)) in
  engaged m = true /\ cur m = Some 0%nat /\ ran (sdat m 0%nat) = true /\ st_exp (sdat m 0%nat) = 8 /\ start m = 11.
Proof. vm_compute. repeat split. Qed.

Print Assumptions C02_holds_until_expiry.
Print Assumptions C02_expiry_hands_over.
Print Assumptions C02_expiry_of_last_state_cycles.
Print Assumptions C02_expiry_of_last_state_finishes.
Print Assumptions C02_entered_runs_once.
Print Assumptions C02_duration_write.
Print Assumptions C02_state_tm_nonneg.
Print Assumptions C02_no_drift.
