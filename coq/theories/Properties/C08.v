(* C08 -- variable injection delivers exactly the named robot object or fails
   at startup.  Statements only; every proof is [exact <lemma of Inject.Proofs>].

   Vocabulary (Inject/Model.v, Inject/Proofs.v):
   [startup subclass r]    MagicRobot._create_components on the robot definition
                           r: Ok s (s records the created components with
                           their constructor kwargs and every __dict__ update)
                           or Err EInject (magicbot.inject.MagicInjectError) /
                           Err EType (TypeError);
   [trace_of r s]          constructor calls, __dict__ updates, setup() calls in
                           the order they happen;
   [attr_at r evs t n]     getattr(t, n) after the events evs;
   [components r]          the robot annotations that become components (public,
                           not a robot attribute yet), in declaration order;
   [robot_injectables r]   public non-method non-property robot attributes
                           (class level and createObjects level alike);
   [dir_entry r n]         the entry of dir(robot) called n: name, value and kind
                           KPlain (not callable) | KCallable (callable, not a
                           bound method: object with __call__, functools.partial,
                           class, function on the instance / staticmethod,
                           builtin) | KMethod (inspect.ismethod) | KDescriptor
                           (property / tunable on the class);
   [injectable_attr a]     a is public, not "logger", KPlain or KCallable;
   [all_injectables r]     robot_injectables plus ALL components;
   [injectables_with r b]  robot_injectables plus the components b;
   [pick inj c n]          inj[n] if that is not None, else inj["<c>_<n>"];
   [comp_has d n]          hasattr(component, n) when _setup_vars looks at it
                           ([mode_has], [t_has tg]: the same for a mode / any
                           target): "logger", a class-level value, one set in
                           __init__ (PConst, PParam), or a descriptor / marker
                           the framework has bound by then -- magicbot.tunable
                           after setup_tunables, will_reset_to (PBound v: it
                           reads v);
   [subclass]              CPython's isinstance, an input (Section variable):
                           the theorems hold for every such relation;
   [env]                   what wpilib.DriverStation reports while the robot
                           program starts: fms_attached (isFMSAttached()),
                           ds_enabled (isEnabled());
   [startup_in subclass e r]  _create_components run in that environment;
   [targets r]             everything that receives attribute injection: the
                           components, then the autonomous modes;
   [request_fails subclass inj c n h]  the annotation h is not a class, or inj
                           holds nothing under n and "<c>_<n>", or an object
                           that is not an instance of it. *)
From Coq Require Import List String Ascii Bool Arith Permutation.
From RV Require Import Inject.Model Inject.Proofs.
Import ListNotations.
Open Scope string_scope.
Open Scope list_scope.

Section C08.
Variable subclass : cls -> cls -> bool.

(* Every public annotated attribute (annotations merged over the MRO) of a
   component that has no value yet holds, at the first setup() and at the end
   of startup, the very object the robot stores under the same name -- robot
   attributes and all components alike -- or, if there is none, the one stored
   under "<component>_<attribute>"; and that object is an instance of the
   (origin of the) annotated type. *)
Theorem C08_attr_exact : forall r s, startup subclass r = Ok s ->
  forall c d n h, In (c, d) (components r) -> In (n, h) (k_hints (c_class d)) ->
    is_private n = false -> comp_has d n = false ->
    exists T o, hint_type h = Some T /\
      pick (all_injectables r) c n = Some o /\
      subclass (ocls o) T = true /\
      attr_at r (before_first_setup (trace_of r s)) (TComp c) n = Is (Some o) /\
      attr_at r (trace_of r s) (TComp c) n = Is (Some o).
Proof. exact (attr_exact_comp subclass). Qed.

(* the same for autonomous modes *)
Theorem C08_attr_exact_modes : forall r s, startup subclass r = Ok s ->
  forall md n h, In md (r_modes r) -> In (n, h) (m_hints md) ->
    is_private n = false -> mode_has md n = false ->
    exists T o, hint_type h = Some T /\
      pick (all_injectables r) (m_name md) n = Some o /\
      subclass (ocls o) T = true /\
      attr_at r (before_first_setup (trace_of r s)) (TMode (m_name md)) n = Is (Some o) /\
      attr_at r (trace_of r s) (TMode (m_name md)) n = Is (Some o).
Proof. exact (attr_exact_mode subclass). Qed.

(* what [all_injectables] contains: every component by its name, whatever its
   position in the declaration order, else the robot attribute *)
Theorem C08_injectables_are_attrs_and_all_components : forall r k,
  NoDup (map fst (r_hints r)) ->
  get (all_injectables r) k =
  match assoc k (components r) with
  | Some d => Some (comp_obj d)
  | None => get (robot_injectables r) k
  end.
Proof. exact all_injectables_get. Qed.

(* no setup() runs before the last injection *)
Theorem C08_inject_before_setup : forall r s t upd,
  In (EvInject t upd) (trace_of r s) ->
  In (EvInject t upd) (before_first_setup (trace_of r s)).
Proof. exact inject_before_setup. Qed.

(* Declaration order: two robot definitions that differ only in the order of
   the robot class's annotations (a dict: distinct names) and that both start
   write the same updates into the same targets ... *)
Theorem C08_order_independent : forall r r' s s',
  same_but_order r r' -> NoDup (map fst (r_hints r)) ->
  startup subclass r = Ok s -> startup subclass r' = Ok s' ->
  Permutation (st_updates s) (st_updates s').
Proof. exact (order_independent subclass). Qed.

(* ... so every injected attribute reads the same ... *)
Theorem C08_order_independent_attr : forall r r' s s',
  same_but_order r r' -> NoDup (map fst (r_hints r)) ->
  startup subclass r = Ok s -> startup subclass r' = Ok s' ->
  forall tg n h, In tg (targets r) -> In (n, h) (t_hints tg) ->
    is_private n = false -> t_has tg n = false ->
    In tg (targets r') /\
    attr_at r (trace_of r s) (t_ref tg) n = attr_at r' (trace_of r' s') (t_ref tg) n.
Proof. exact (order_independent_attr subclass). Qed.

(* ... and when no component takes constructor parameters, whether startup
   succeeds does not depend on the order either.  (With constructor
   parameters it does: they see earlier-declared components only, C08_ctor.) *)
Theorem C08_order_independent_success : forall r r' s,
  same_but_order r r' -> NoDup (map fst (r_hints r)) ->
  (forall c d, In (c, d) (components r) -> k_init_hints (c_class d) = []) ->
  startup subclass r = Ok s -> exists s', startup subclass r' = Ok s'.
Proof. exact (order_independent_success subclass). Qed.

(* Untouched: the update written into a target has exactly the names of its
   public, not-yet-set annotations, in annotation order ... *)
Theorem C08_untouched : forall r s, startup subclass r = Ok s ->
  Forall2 (fun tg u => fst u = t_ref tg /\
             map fst (snd u) = map fst (requested (t_has tg) (t_hints tg)))
          (targets r) (st_updates s).
Proof. exact (updates_exact subclass). Qed.

(* ... so an underscore attribute keeps what the fresh instance had ... *)
Theorem C08_untouched_private : forall r s t n,
  startup subclass r = Ok s -> is_private n = true ->
  attr_at r (trace_of r s) t n = initial_attr r (trace_of r s) t n.
Proof. exact (private_untouched subclass). Qed.

(* ... and so does an attribute that already has a value (preset on the class,
   set in __init__, even to None). *)
Theorem C08_untouched_preset : forall r s tg n,
  startup subclass r = Ok s -> NoDup (map t_ref (targets r)) ->
  In tg (targets r) -> t_has tg n = true ->
  attr_at r (trace_of r s) (t_ref tg) n = initial_attr r (trace_of r s) (t_ref tg) n.
Proof. exact (preset_untouched subclass). Qed.

(* Constructor injection: the components are created in declaration order and
   the k-th one receives, for every __init__ parameter (none may be private),
   the object picked from the robot attributes and the components declared
   BEFORE it, of the annotated type. *)
Theorem C08_ctor : forall r s, startup subclass r = Ok s ->
  map (fun c => (cr_name c, cr_def c)) (st_comps s) = components r /\
  forall before c d after, components r = before ++ (c, d) :: after ->
    exists kw,
      nth_error (st_comps s) (List.length before)
        = Some {| cr_name := c; cr_def := d; cr_kwargs := kw |} /\
      Forall2 (ctor_arg_ok subclass (injectables_with r before) c)
              (k_init_hints (c_class d)) kw.
Proof. exact (ctor_exact subclass). Qed.

(* ... and nothing else can reach a constructor *)
Theorem C08_ctor_sources : forall r before c n o,
  pick (injectables_with r before) c n = Some o ->
  exists k, (k = n \/ k = prefixed c n) /\
    (get (robot_injectables r) k = Some o \/ exists d, In (k, d) before /\ o = comp_obj d).
Proof. exact ctor_sources. Qed.

(* Startup fails iff some requested injection cannot be made:
   robot_fault  a public unset robot annotation is not a class;
   ctor_fault   an __init__ parameter is private, or its annotation is not a
                class, or no object is stored under either name among the robot
                attributes and earlier components, or it is not an instance;
   attr_fault   the same for a public unset annotated attribute of a component
                or mode, against robot attributes and all components. *)
Theorem C08_fail_iff : forall r,
  (exists e, startup subclass r = Err e) <->
  robot_fault r \/ ctor_fault subclass r \/ attr_fault subclass r.
Proof. exact (fail_iff subclass). Qed.

(* When every annotation is a class or an alias of a class, the error is the
   injection error, and it is raised iff an object is missing under both
   names or is not an instance of the (origin of the) annotated type (or an
   __init__ parameter is private). *)
Theorem C08_fail_inject_iff : forall r, all_types r ->
  (startup subclass r = Err EInject <-> ctor_fault subclass r \/ attr_fault subclass r).
Proof. exact (fail_inject_iff subclass). Qed.

Theorem C08_error_class : forall r e, all_types r -> startup subclass r = Err e -> e = EInject.
Proof. exact (error_class subclass). Qed.

(* Falsy values are values: an injectable with bool(o) == False stored under
   the attribute's own name is what the component gets. *)
Theorem C08_falsy_injects : forall r s, startup subclass r = Ok s ->
  forall c d n h o, In (c, d) (components r) -> In (n, h) (k_hints (c_class d)) ->
    is_private n = false -> comp_has d n = false ->
    get (all_injectables r) n = Some o -> otruthy o = false ->
    attr_at r (before_first_setup (trace_of r s)) (TComp c) n = Is (Some o) /\
    attr_at r (trace_of r s) (TComp c) n = Is (Some o).
Proof. exact (falsy_injects subclass). Qed.

(* The code's reading of "if there is none": a robot attribute whose value is
   None counts as not there (dict.get(n) is None). *)
Theorem C08_none_is_absent : forall inj c n,
  get inj n = None -> pick inj c n = get inj (prefixed c n).
Proof. exact none_is_absent. Qed.

(* What the robot's own attributes contribute (MagicRobot._collect_injectables,
   dir() has distinct names): the value stored under n -- whether or not it is
   callable -- unless n is private, "logger", a property/tunable of the class
   or a BOUND METHOD; nothing else is filtered, nothing is added. *)
Theorem C08_robot_injectables_exact : forall r n,
  NoDup (map ra_name (r_dir r)) ->
  get (robot_injectables r) n =
  match dir_entry r n with
  | Some a => if injectable_attr a then ra_value a else None
  | None => None
  end.
Proof. exact robot_injectables_exact. Qed.

(* Hence: when the robot stores an object o under the public name n (any object
   that is not a bound method: callable objects, partials and classes included),
   every public unset attribute n of every component holds o -- that very
   object -- at the first setup() and at the end, and o is an instance of the
   annotated type ... *)
Theorem C08_robot_attr_delivered : forall r s, startup subclass r = Ok s ->
  NoDup (map ra_name (r_dir r)) -> NoDup (map fst (r_hints r)) ->
  forall c d n h a o, In (c, d) (components r) -> In (n, h) (k_hints (c_class d)) ->
    is_private n = false -> comp_has d n = false ->
    dir_entry r n = Some a -> injectable_attr a = true -> ra_value a = Some o ->
    attr_at r (before_first_setup (trace_of r s)) (TComp c) n = Is (Some o) /\
    attr_at r (trace_of r s) (TComp c) n = Is (Some o) /\
    exists T, hint_type h = Some T /\ subclass (ocls o) T = true.
Proof. exact (robot_attr_delivered_comp subclass). Qed.

(* ... the same for autonomous modes ... *)
Theorem C08_robot_attr_delivered_modes : forall r s, startup subclass r = Ok s ->
  NoDup (map ra_name (r_dir r)) -> NoDup (map fst (r_hints r)) ->
  forall md n h a o, In md (r_modes r) -> In (n, h) (m_hints md) ->
    is_private n = false -> mode_has md n = false ->
    dir_entry r n = Some a -> injectable_attr a = true -> ra_value a = Some o ->
    attr_at r (before_first_setup (trace_of r s)) (TMode (m_name md)) n = Is (Some o) /\
    attr_at r (trace_of r s) (TMode (m_name md)) n = Is (Some o) /\
    exists T, hint_type h = Some T /\ subclass (ocls o) T = true.
Proof. exact (robot_attr_delivered_mode subclass). Qed.

(* ... and for constructor parameters: the component's __init__ is called with
   p = o. *)
Theorem C08_robot_attr_ctor_delivered : forall r s, startup subclass r = Ok s ->
  NoDup (map ra_name (r_dir r)) -> NoDup (map fst (r_hints r)) ->
  forall before c d after p h a o, components r = before ++ (c, d) :: after ->
    In (p, h) (k_init_hints (c_class d)) ->
    dir_entry r p = Some a -> injectable_attr a = true -> ra_value a = Some o ->
    exists kw,
      nth_error (st_comps s) (List.length before)
        = Some {| cr_name := c; cr_def := d; cr_kwargs := kw |} /\
      In (p, o) kw /\ exists T, hint_type h = Some T /\ subclass (ocls o) T = true.
Proof. exact (robot_attr_ctor_delivered subclass). Qed.

(* A request for the name of such a robot attribute whose value is an instance
   of the annotated type is never the reason startup fails (it is none of the
   faults of C08_fail_iff), whatever components [cs] exist at that moment:
   "startup fails only if no such object exists or it is mistyped". *)
Theorem C08_robot_attr_serves : forall r cs c n h T a o,
  NoDup (map ra_name (r_dir r)) -> NoDup (map fst cs) ->
  (forall k d, In (k, d) cs -> In (k, d) (components r)) ->
  dir_entry r n = Some a -> injectable_attr a = true -> ra_value a = Some o ->
  hint_type h = Some T -> subclass (ocls o) T = true ->
  ~ request_fails subclass (injectables_with r cs) c n h.
Proof. exact (robot_attr_serves subclass). Qed.

(* Whether a stored object is callable changes nothing at all: the robot with
   every KCallable attribute re-declared KPlain starts (or fails) identically. *)
Theorem C08_callable_irrelevant : forall r,
  startup subclass (robot_forget_callable r) = startup subclass r.
Proof. exact (callable_irrelevant subclass). Qed.

(* ---------------------------------------------------------------------- *)
(* What a robot attribute is CALLED decides nothing, except a leading        *)
(* underscore and being exactly "logger".                                    *)
(* ---------------------------------------------------------------------- *)

(* The exclusion test of _collect_injectables, [n in self._exclude_from_injection]
   with the list ["logger"], holds for that one name and no other -- not for
   its substrings (log, g, er, logg ...), not for names containing it, not for
   case variants. *)
Theorem C08_excluded_iff_logger : forall n, excluded n = true <-> n = "logger".
Proof. exact excluded_iff_logger. Qed.

(* So for ANY public name n other than "logger" (dir() has distinct names) the
   robot's injectable under n is the value of the dir() entry n, unless that is
   a property/tunable or a bound method. *)
Theorem C08_robot_injectables_by_name : forall r n a,
  NoDup (map ra_name (r_dir r)) ->
  dir_entry r n = Some a -> is_private n = false -> n <> "logger" ->
  get (robot_injectables r) n = if kind_injectable (ra_kind a) then ra_value a else None.
Proof. exact robot_injectables_by_name. Qed.

(* Names are treated alike: renaming the robot's attributes by any f that
   preserves "starts with an underscore" and "is exactly logger" renames the
   collected injectables and changes nothing else. *)
Theorem C08_names_treated_alike : forall f dir,
  (forall a, In a dir -> is_private (f (ra_name a)) = is_private (ra_name a) /\
                         excluded (f (ra_name a)) = excluded (ra_name a)) ->
  collect_injectables (map (rename_attr f) dir) =
  map (fun kv => (f (fst kv), snd kv)) (collect_injectables dir).
Proof. exact collect_rename. Qed.

(* Delivery with no hypothesis on the name beyond "public": when the robot
   stores o under n (not as a property/tunable or bound method), every public
   unset attribute n of every component is o at the first setup() and at the
   end ([comp_has d n = false] already rules out n = "logger", which the
   framework assigns itself) ... *)
Theorem C08_robot_attr_by_name_delivered : forall r s, startup subclass r = Ok s ->
  NoDup (map ra_name (r_dir r)) -> NoDup (map fst (r_hints r)) ->
  forall c d n h a o, In (c, d) (components r) -> In (n, h) (k_hints (c_class d)) ->
    is_private n = false -> comp_has d n = false ->
    dir_entry r n = Some a -> kind_injectable (ra_kind a) = true -> ra_value a = Some o ->
    attr_at r (before_first_setup (trace_of r s)) (TComp c) n = Is (Some o) /\
    attr_at r (trace_of r s) (TComp c) n = Is (Some o) /\
    exists T, hint_type h = Some T /\ subclass (ocls o) T = true.
Proof. exact (robot_attr_by_name_delivered_comp subclass). Qed.

(* ... of every autonomous mode ... *)
Theorem C08_robot_attr_by_name_delivered_modes : forall r s, startup subclass r = Ok s ->
  NoDup (map ra_name (r_dir r)) -> NoDup (map fst (r_hints r)) ->
  forall md n h a o, In md (r_modes r) -> In (n, h) (m_hints md) ->
    is_private n = false -> mode_has md n = false ->
    dir_entry r n = Some a -> kind_injectable (ra_kind a) = true -> ra_value a = Some o ->
    attr_at r (before_first_setup (trace_of r s)) (TMode (m_name md)) n = Is (Some o) /\
    attr_at r (trace_of r s) (TMode (m_name md)) n = Is (Some o) /\
    exists T, hint_type h = Some T /\ subclass (ocls o) T = true.
Proof. exact (robot_attr_by_name_delivered_mode subclass). Qed.

(* ... and every constructor parameter p other than "logger" is passed o. *)
Theorem C08_robot_attr_by_name_ctor_delivered : forall r s, startup subclass r = Ok s ->
  NoDup (map ra_name (r_dir r)) -> NoDup (map fst (r_hints r)) ->
  forall before c d after p h a o, components r = before ++ (c, d) :: after ->
    In (p, h) (k_init_hints (c_class d)) ->
    is_private p = false -> p <> "logger" ->
    dir_entry r p = Some a -> kind_injectable (ra_kind a) = true -> ra_value a = Some o ->
    exists kw,
      nth_error (st_comps s) (List.length before)
        = Some {| cr_name := c; cr_def := d; cr_kwargs := kw |} /\
      In (p, o) kw /\ exists T, hint_type h = Some T /\ subclass (ocls o) T = true.
Proof. exact (robot_attr_by_name_ctor_delivered subclass). Qed.

(* The object under the plain name wins over the one under "<c>_<n>" whatever
   the name looks like, whichever components [cs] exist at that moment ... *)
Theorem C08_plain_name_wins : forall r cs c n a o,
  NoDup (map ra_name (r_dir r)) -> NoDup (map fst cs) ->
  (forall k d, In (k, d) cs -> In (k, d) (components r)) ->
  is_private n = false -> n <> "logger" ->
  dir_entry r n = Some a -> kind_injectable (ra_kind a) = true -> ra_value a = Some o ->
  pick (injectables_with r cs) c n = Some o.
Proof. exact plain_name_wins. Qed.

(* ... and a well-typed one is never the reason startup fails. *)
Theorem C08_robot_attr_by_name_serves : forall r cs c n h T a o,
  NoDup (map ra_name (r_dir r)) -> NoDup (map fst cs) ->
  (forall k d, In (k, d) cs -> In (k, d) (components r)) ->
  is_private n = false -> n <> "logger" ->
  dir_entry r n = Some a -> kind_injectable (ra_kind a) = true -> ra_value a = Some o ->
  hint_type h = Some T -> subclass (ocls o) T = true ->
  ~ request_fails subclass (injectables_with r cs) c n h.
Proof. exact (robot_attr_by_name_serves subclass). Qed.

(* ---------------------------------------------------------------------- *)
(* The state of the driver station while the robot program starts -- FMS     *)
(* attached or not, robot enabled or not: [env] -- decides nothing, for       *)
(* components and autonomous modes alike.  [startup_in subclass e r] is       *)
(* _create_components run while wpilib.DriverStation reports e.               *)
(* ---------------------------------------------------------------------- *)

(* Which error is raised, or which components are created with which
   constructor arguments and what is written into every component and mode:
   the same in any two environments. *)
Theorem C08_env_irrelevant : forall e e' r,
  startup_in subclass e r = startup_in subclass e' r.
Proof. exact (startup_env_irrelevant subclass). Qed.

(* ... hence the order of events and every attribute of every component and
   mode at each setup() call and after start-up. *)
Theorem C08_env_observation_irrelevant : forall e e' r s s',
  startup_in subclass e r = Ok s -> startup_in subclass e' r = Ok s' ->
  s = s' /\ trace_of r s = trace_of r s' /\ observe r s = observe r s'.
Proof. exact (observe_env_irrelevant subclass). Qed.

(* In every environment start-up fails iff some request cannot be served. *)
Theorem C08_env_fail_iff : forall e r,
  (exists err, startup_in subclass e r = Err err) <->
  robot_fault r \/ ctor_fault subclass r \/ attr_fault subclass r.
Proof. exact (startup_in_fail_iff subclass). Qed.

(* "If no such object exists or it is not an instance of the annotated type,
   startup fails with an injection error instead of running with a missing or
   mistyped dependency" -- for an AUTONOMOUS MODE, with or without the FMS: a
   public unset annotated attribute of a mode for which the robot attributes
   and components hold nothing under either name, or an object that is not an
   instance (or whose annotation is not a class), makes start-up fail; with
   class annotations only, with the injection error ... *)
Theorem C08_env_mode_fault_fails : forall e r md n h,
  In md (r_modes r) -> In (n, h) (m_hints md) -> is_private n = false -> mode_has md n = false ->
  request_fails subclass (all_injectables r) (m_name md) n h ->
  exists err, startup_in subclass e r = Err err /\ (all_types r -> err = EInject).
Proof. exact (mode_fault_fails_in subclass). Qed.

(* ... for a component attribute ... *)
Theorem C08_env_comp_fault_fails : forall e r c d n h,
  In (c, d) (components r) -> In (n, h) (k_hints (c_class d)) -> is_private n = false ->
  comp_has d n = false -> request_fails subclass (all_injectables r) c n h ->
  exists err, startup_in subclass e r = Err err /\ (all_types r -> err = EInject).
Proof. exact (comp_fault_fails_in subclass). Qed.

(* ... and for a constructor parameter. *)
Theorem C08_env_ctor_fault_fails : forall e r, ctor_fault subclass r ->
  exists err, startup_in subclass e r = Err err /\ (all_types r -> err = EInject).
Proof. exact (ctor_fault_fails_in subclass). Qed.

(* Conversely a start-up that succeeded, in whatever environment, left no
   component and no mode ([targets r]: components, then modes) with a missing
   or mistyped dependency. *)
Theorem C08_env_attr_exact : forall e r s, startup_in subclass e r = Ok s ->
  forall tg n h, In tg (targets r) -> In (n, h) (t_hints tg) ->
    is_private n = false -> t_has tg n = false ->
    exists T o, hint_type h = Some T /\
      pick (all_injectables r) (tname (t_ref tg)) n = Some o /\
      subclass (ocls o) T = true /\
      attr_at r (before_first_setup (trace_of r s)) (t_ref tg) n = Is (Some o) /\
      attr_at r (trace_of r s) (t_ref tg) n = Is (Some o).
Proof. exact (attr_exact_in subclass). Qed.

Theorem C08_env_attr_exact_modes : forall e r s, startup_in subclass e r = Ok s ->
  forall md n h, In md (r_modes r) -> In (n, h) (m_hints md) ->
    is_private n = false -> mode_has md n = false ->
    exists T o, hint_type h = Some T /\
      pick (all_injectables r) (m_name md) n = Some o /\
      subclass (ocls o) T = true /\
      attr_at r (before_first_setup (trace_of r s)) (TMode (m_name md)) n = Is (Some o) /\
      attr_at r (trace_of r s) (TMode (m_name md)) n = Is (Some o).
Proof. exact (attr_exact_mode_in subclass). Qed.

(* ---------------------------------------------------------------------- *)
(* Attributes that already have a value -- [t_has tg n = true]: a class-level *)
(* value, one set in __init__, or a descriptor / marker the framework has     *)
(* bound when _setup_vars looks (`gain: float = magicbot.tunable(0.25)`,       *)
(* will_reset_to; [PBound] in a classdef / modedef) -- are left untouched:     *)
(* C08_untouched_preset says they read what they read before; C08_fail_iff     *)
(* that they are never the reason start-up fails (attr_fault needs t_has =     *)
(* false); and:                                                              *)
(* ---------------------------------------------------------------------- *)

(* nothing is ever written into the target under such a name ... *)
Theorem C08_set_attr_never_written : forall r s tg n upd,
  startup subclass r = Ok s -> NoDup (map t_ref (targets r)) ->
  In tg (targets r) -> t_has tg n = true ->
  In (EvInject (t_ref tg) upd) (trace_of r s) -> ~ In n (map fst upd).
Proof. exact (set_attr_never_written subclass). Qed.

(* ... and what its annotation says (a type the robot could or could not serve,
   a non-class, no annotation) is never looked at: _setup_vars of two targets
   with the same name, the same hasattr and the same public UNSET annotations
   gives the same update or the same error. *)
Theorem C08_set_attr_annotation_irrelevant : forall tg tg' inj,
  t_ref tg = t_ref tg' -> (forall n, t_has tg n = t_has tg' n) ->
  requested (t_has tg) (t_hints tg) = requested (t_has tg') (t_hints tg') ->
  setup_vars subclass tg inj = setup_vars subclass tg' inj.
Proof. exact (set_attr_annotation_irrelevant subclass). Qed.

(* ---------------------------------------------------------------------- *)
(* Several components / autonomous modes may be instances of ONE class (same  *)
(* k_cls, same annotations) whose instances differ in what they already have: *)
(* every target is judged on its own.  C08_attr_exact, C08_untouched and       *)
(* C08_untouched_preset already speak about each component's own [comp_has];   *)
(* explicitly:                                                               *)
(* ---------------------------------------------------------------------- *)

(* the update written into a target is _setup_vars of THAT target -- its own
   name, annotations and hasattr -- against the robot's complete injectables *)
Theorem C08_each_target_on_its_own : forall r s, startup subclass r = Ok s ->
  Forall2 (fun tg u => fst u = t_ref tg /\ setup_vars subclass tg (all_injectables r) = Ok (snd u))
          (targets r) (st_updates s).
Proof. exact (each_target_on_its_own subclass). Qed.

(* and a target whose own _setup_vars fails stops start-up *)
Theorem C08_target_failure_on_its_own : forall r tg e,
  In tg (targets r) -> setup_vars subclass tg (all_injectables r) = Err e ->
  exists e', startup subclass r = Err e'.
Proof. exact (target_failure_on_its_own subclass). Qed.

(* ---------------------------------------------------------------------- *)
(* Default values of __init__ parameters (`gain: float = 1.0`, `encoder:       *)
(* Encoder = None`; [init_defaults], per component [dd]) are not an input:     *)
(* every annotated parameter is requested, found under its name or             *)
(* "<component>_<name>", type-checked -- a default is never used instead.      *)
(* [startup_dflt subclass dd e r]: start-up when the component classes         *)
(* declare the defaults dd, in the environment e.                              *)
(* ---------------------------------------------------------------------- *)

Theorem C08_ctor_defaults_irrelevant : forall dflt dflt' m d inj,
  create_component_dflt subclass dflt m d inj = create_component_dflt subclass dflt' m d inj.
Proof. exact (ctor_defaults_irrelevant subclass). Qed.

Theorem C08_startup_defaults_irrelevant : forall dd dd' e e' r,
  startup_dflt subclass dd e r = startup_dflt subclass dd' e' r.
Proof. exact (startup_defaults_irrelevant subclass). Qed.

(* whatever the defaults, a started robot passed every constructor parameter
   the object picked from the robot attributes and the earlier components, an
   instance of the annotated type (C08_ctor) ... *)
Theorem C08_ctor_with_defaults : forall dd e r s, startup_dflt subclass dd e r = Ok s ->
  map (fun c => (cr_name c, cr_def c)) (st_comps s) = components r /\
  forall before c d after, components r = before ++ (c, d) :: after ->
    exists kw,
      nth_error (st_comps s) (List.length before)
        = Some {| cr_name := c; cr_def := d; cr_kwargs := kw |} /\
      Forall2 (ctor_arg_ok subclass (injectables_with r before) c)
              (k_init_hints (c_class d)) kw.
Proof. exact (ctor_exact_dflt subclass). Qed.

(* ... and a parameter that is private, not annotated with a class, absent
   under both names or mistyped stops start-up; with class annotations only,
   with the injection error. *)
Theorem C08_ctor_fault_fails_with_defaults : forall dd e r, ctor_fault subclass r ->
  exists err, startup_dflt subclass dd e r = Err err /\ (all_types r -> err = EInject).
Proof. exact (ctor_fault_fails_dflt subclass). Qed.

End C08.

(* ====================================================================== *)
(* Non-vacuity: a concrete robot on which every hypothesis is met.          *)
(* classes: 0 object, 1 int, 2 str, 3 list, 10 Sensor, 11 Gyro(Sensor),     *)
(*          20 Drive, 21 Shooter                                            *)
(* ====================================================================== *)
Definition ex_sub (a b : cls) : bool :=
  Nat.eqb a b || Nat.eqb b 0 || (Nat.eqb a 11 && Nat.eqb b 10).

Definition o_zero := {| oid := 1; ocls := 1; otruthy := false |}.   (* 0 *)
Definition o_empty := {| oid := 2; ocls := 2; otruthy := false |}.  (* '' *)
Definition o_gyro := {| oid := 3; ocls := 11; otruthy := true |}.
Definition o_list := {| oid := 4; ocls := 3; otruthy := false |}.   (* [] *)
Definition o_other := {| oid := 5; ocls := 10; otruthy := true |}.

Definition k_drive : classdef :=
  {| k_cls := 20; k_init_hints := [];
     k_hints := [("intvar", HType 1); ("label", HType 2); ("gyro", HType 10);
                 ("items", HAlias (Some 3)); ("shooter", HType 21);
                 ("_secret", HType 10); ("maybe", HType 10); ("logger", HType 0)];
     k_preset := [("maybe", PConst None)]; k_setup := true |}.
Definition k_shooter : classdef :=
  {| k_cls := 21; k_init_hints := [("drive", HType 20); ("intvar", HType 1)];
     k_hints := [("drive", HType 20); ("kept", HType 20)];
     k_preset := [("kept", PParam "drive")]; k_setup := true |}.
Definition d_drive := {| c_oid := 100; c_truthy := false; c_class := k_drive |}.
Definition d_shooter := {| c_oid := 101; c_truthy := true; c_class := k_shooter |}.

Definition ex_dir : list rattr :=
  [ {| ra_name := "_hidden"; ra_kind := KPlain; ra_value := Some o_other |};
    {| ra_name := "createObjects"; ra_kind := KMethod; ra_value := Some o_other |};
    {| ra_name := "drive_gyro"; ra_kind := KPlain; ra_value := Some o_gyro |};
    {| ra_name := "gyro"; ra_kind := KPlain; ra_value := None |};
    {| ra_name := "intvar"; ra_kind := KPlain; ra_value := Some o_zero |};
    {| ra_name := "items"; ra_kind := KPlain; ra_value := Some o_list |};
    {| ra_name := "label"; ra_kind := KPlain; ra_value := Some o_empty |};
    {| ra_name := "logger"; ra_kind := KPlain; ra_value := Some o_other |} ].

Definition ex_mode : modedef :=
  {| m_name := "auto"; m_hints := [("shooter", HType 21); ("drive", HType 20)];
     m_preset := []; m_setup := true |}.

Definition ex_robot : robot :=
  {| r_dir := ex_dir;
     r_hints := [("items", RNonType); ("drive", RClass d_drive); ("shooter", RClass d_shooter)];
     r_modes := [ex_mode] |}.

Definition ex_started : started :=
  {| st_comps := [ {| cr_name := "drive"; cr_def := d_drive; cr_kwargs := [] |};
                   {| cr_name := "shooter"; cr_def := d_shooter;
                      cr_kwargs := [("drive", comp_obj d_drive); ("intvar", o_zero)] |} ];
     st_updates := [ (TComp "drive", [("intvar", o_zero); ("label", o_empty); ("gyro", o_gyro);
                                      ("items", o_list); ("shooter", comp_obj d_shooter)]);
                     (TComp "shooter", [("drive", comp_obj d_drive)]);
                     (TMode "auto", [("shooter", comp_obj d_shooter); ("drive", comp_obj d_drive)]) ] |}.

(* startup succeeds; falsy 0, '' and [] are injected, the falsy component
   "drive" too; gyro (None on the robot) comes from drive_gyro, a subclass
   instance; shooter is declared after drive and still injected into it *)
Example C08_nv_starts : startup ex_sub ex_robot = Ok ex_started.
Proof. vm_compute. reflexivity. Qed.

Example C08_nv_hypotheses :
  In ("drive", d_drive) (components ex_robot) /\
  In ("shooter", HType 21) (k_hints (c_class d_drive)) /\
  is_private "shooter" = false /\ comp_has d_drive "shooter" = false /\
  NoDup (map fst (r_hints ex_robot)) /\ NoDup (map t_ref (targets ex_robot)) /\
  attr_at ex_robot (before_first_setup (trace_of ex_robot ex_started)) (TComp "drive") "shooter"
    = Is (Some (comp_obj d_shooter)) /\
  attr_at ex_robot (trace_of ex_robot ex_started) (TComp "drive") "maybe" = Is None /\
  attr_at ex_robot (trace_of ex_robot ex_started) (TComp "drive") "_secret" = Absent /\
  attr_at ex_robot (trace_of ex_robot ex_started) (TComp "shooter") "kept"
    = Is (Some (comp_obj d_drive)).
Proof.
  repeat split; try (vm_compute; reflexivity); try (vm_compute; tauto).
  - repeat constructor; simpl; intuition discriminate.
  - repeat constructor; simpl; intuition discriminate.
Qed.

Example C08_nv_all_types : all_types ex_robot.
Proof.
  split; [|split].
  - intros m [H|[H|[H|[]]]]; inversion H; subst. right. reflexivity.
  - intros m d [H|[H|[H|[]]]]; inversion H; subst;
      split; apply typed_hints_by_computation; reflexivity.
  - intros md [<-|[]]. apply typed_hints_by_computation. reflexivity.
Qed.

(* the other order of the two components: the constructor of shooter can no
   longer be served (drive does not exist yet) -- startup fails *)
Definition ex_robot_swapped : robot :=
  {| r_dir := ex_dir;
     r_hints := [("items", RNonType); ("shooter", RClass d_shooter); ("drive", RClass d_drive)];
     r_modes := [ex_mode] |}.
Example C08_nv_ctor_order_matters : startup ex_sub ex_robot_swapped = Err EInject.
Proof. vm_compute. reflexivity. Qed.

(* failure cases: absent under both names; wrong type; Optional[...] *)
Definition one_comp (hints : list (name * hint)) (dir : list rattr) : robot :=
  {| r_dir := dir;
     r_hints := [("c", RClass {| c_oid := 100; c_truthy := true;
                   c_class := {| k_cls := 20; k_init_hints := []; k_hints := hints;
                                 k_preset := []; k_setup := false |} |})];
     r_modes := [] |}.
Example C08_nv_absent : startup ex_sub (one_comp [("x", HType 10)] []) = Err EInject.
Proof. vm_compute. reflexivity. Qed.
Example C08_nv_wrong_type :
  startup ex_sub (one_comp [("x", HType 11)]
    [ {| ra_name := "x"; ra_kind := KPlain; ra_value := Some o_other |} ]) = Err EInject.
Proof. vm_compute. reflexivity. Qed.
Example C08_nv_optional_is_type_error :
  startup ex_sub (one_comp [("x", HAlias None)]
    [ {| ra_name := "x"; ra_kind := KPlain; ra_value := Some o_other |} ]) = Err EType.
Proof. vm_compute. reflexivity. Qed.
(* x = None on the robot: treated as absent, although None is an instance of
   object (class 0) *)
Example C08_nv_none_valued_attribute_is_absent :
  startup ex_sub (one_comp [("x", HType 0)]
    [ {| ra_name := "x"; ra_kind := KPlain; ra_value := None |} ]) = Err EInject.
Proof. vm_compute. reflexivity. Qed.

(* callable robot attributes: a response curve (instance of class 10 with
   __call__), a functools.partial (class 12) and a class object (class 13,
   type) are injected by name, as attribute and as constructor parameter;
   a bound method under the requested name is not an injectable *)
Definition o_curve := {| oid := 6; ocls := 10; otruthy := true |}.
Definition o_partial := {| oid := 7; ocls := 12; otruthy := true |}.
Definition o_klass := {| oid := 8; ocls := 13; otruthy := true |}.
Definition k_user : classdef :=
  {| k_cls := 22; k_init_hints := [("curve", HType 10)];
     k_hints := [("scaler", HType 12); ("kind", HType 13); ("curve", HType 0)];
     k_preset := []; k_setup := true |}.
Definition d_user := {| c_oid := 102; c_truthy := true; c_class := k_user |}.
Definition callable_dir : list rattr :=
  [ {| ra_name := "curve"; ra_kind := KCallable; ra_value := Some o_curve |};
    {| ra_name := "helper"; ra_kind := KMethod; ra_value := Some o_other |};
    {| ra_name := "kind"; ra_kind := KCallable; ra_value := Some o_klass |};
    {| ra_name := "scaler"; ra_kind := KCallable; ra_value := Some o_partial |} ].
Definition callable_robot : robot :=
  {| r_dir := callable_dir; r_hints := [("user", RClass d_user)]; r_modes := [] |}.
Example C08_nv_callables_injected :
  startup ex_sub callable_robot =
  Ok {| st_comps := [ {| cr_name := "user"; cr_def := d_user; cr_kwargs := [("curve", o_curve)] |} ];
        st_updates := [ (TComp "user", [("scaler", o_partial); ("kind", o_klass); ("curve", o_curve)]) ] |}.
Proof. vm_compute. reflexivity. Qed.
Example C08_nv_callable_hypotheses :
  NoDup (map ra_name (r_dir callable_robot)) /\ NoDup (map fst (r_hints callable_robot)) /\
  components callable_robot = [] ++ ("user", d_user) :: [] /\
  dir_entry callable_robot "curve"
    = Some {| ra_name := "curve"; ra_kind := KCallable; ra_value := Some o_curve |} /\
  injectable_attr {| ra_name := "curve"; ra_kind := KCallable; ra_value := Some o_curve |} = true /\
  get (robot_injectables callable_robot) "helper" = None.
Proof.
  repeat split; try (vm_compute; reflexivity);
    repeat constructor; simpl; intuition discriminate.
Qed.
Example C08_nv_bound_method_not_injected :
  startup ex_sub (one_comp [("helper", HType 0)]
    [ {| ra_name := "helper"; ra_kind := KMethod; ra_value := Some o_other |} ]) = Err EInject.
Proof. vm_compute. reflexivity. Qed.

(* names that resemble "logger": all 19 proper substrings, names containing it,
   case variants.  Each IS a substring / superstring in Python's sense and none
   is excluded; a recorder asks for log (attribute and constructor parameter),
   g, er, logg, loggers, Logger: it gets the robot's objects, log from robot.log
   although robot.rec_log exists too *)
Definition logger_substrings : list name :=
  ["l"; "o"; "g"; "e"; "r"; "lo"; "og"; "gg"; "ge"; "er"; "log"; "ogg"; "gge"; "ger";
   "logg"; "ogge"; "gger"; "logge"; "ogger"].
Definition logger_superstrings : list name :=
  ["loggers"; "logger_"; "logger2"; "xlogger"; "my_logger"; "logger_x"].
Example C08_nv_logger_like_names_not_excluded :
  forallb (fun n => str_in n "logger" && negb (excluded n) && negb (is_private n)) logger_substrings = true /\
  forallb (fun n => str_in "logger" n && negb (excluded n) && negb (is_private n)) logger_superstrings = true /\
  excluded "Logger" = false /\ excluded "LOGGER" = false /\
  str_in "logger" "logger" = true /\ excluded "logger" = true.
Proof. vm_compute. repeat split; reflexivity. Qed.

Definition o_log := {| oid := 9; ocls := 10; otruthy := true |}.
Definition o_reclog := {| oid := 10; ocls := 10; otruthy := true |}.
Definition k_rec : classdef :=
  {| k_cls := 23; k_init_hints := [("log", HType 10); ("ogger", HType 1)];
     k_hints := [("log", HType 10); ("g", HType 1); ("er", HType 2); ("logg", HType 3);
                 ("loggers", HType 10); ("Logger", HType 0)];
     k_preset := []; k_setup := true |}.
Definition d_rec := {| c_oid := 103; c_truthy := true; c_class := k_rec |}.
Definition names_dir : list rattr :=
  [ {| ra_name := "Logger"; ra_kind := KPlain; ra_value := Some o_other |};
    {| ra_name := "er"; ra_kind := KPlain; ra_value := Some o_empty |};
    {| ra_name := "g"; ra_kind := KPlain; ra_value := Some o_zero |};
    {| ra_name := "log"; ra_kind := KPlain; ra_value := Some o_log |};
    {| ra_name := "logg"; ra_kind := KPlain; ra_value := Some o_list |};
    {| ra_name := "logger"; ra_kind := KPlain; ra_value := Some o_other |};
    {| ra_name := "loggers"; ra_kind := KCallable; ra_value := Some o_curve |};
    {| ra_name := "ogger"; ra_kind := KPlain; ra_value := Some o_zero |};
    {| ra_name := "rec_log"; ra_kind := KPlain; ra_value := Some o_reclog |} ].
Definition names_mode : modedef :=
  {| m_name := "auto"; m_hints := [("log", HType 10); ("er", HType 2)]; m_preset := []; m_setup := false |}.
Definition names_robot : robot :=
  {| r_dir := names_dir; r_hints := [("rec", RClass d_rec)]; r_modes := [names_mode] |}.
Example C08_nv_logger_like_names_injected :
  startup ex_sub names_robot =
  Ok {| st_comps := [ {| cr_name := "rec"; cr_def := d_rec;
                         cr_kwargs := [("log", o_log); ("ogger", o_zero)] |} ];
        st_updates := [ (TComp "rec", [("log", o_log); ("g", o_zero); ("er", o_empty); ("logg", o_list);
                                       ("loggers", o_curve); ("Logger", o_other)]);
                        (TMode "auto", [("log", o_log); ("er", o_empty)]) ] |}.
Proof. vm_compute. reflexivity. Qed.
Example C08_nv_by_name_hypotheses :
  NoDup (map ra_name (r_dir names_robot)) /\ NoDup (map fst (r_hints names_robot)) /\
  components names_robot = [] ++ ("rec", d_rec) :: [] /\
  is_private "log" = false /\ "log" <> "logger" /\ comp_has d_rec "log" = false /\
  mode_has names_mode "log" = false /\
  dir_entry names_robot "log" = Some {| ra_name := "log"; ra_kind := KPlain; ra_value := Some o_log |} /\
  get (robot_injectables names_robot) "rec_log" = Some o_reclog /\
  get (robot_injectables names_robot) "logger" = None.
Proof.
  repeat split; try (vm_compute; reflexivity); try discriminate;
    repeat constructor; simpl; intuition discriminate.
Qed.
(* a renaming that meets the hypothesis of C08_names_treated_alike and is not
   the identity: gearbox -> log *)
Example C08_nv_rename :
  let f := fun n => if String.eqb n "gearbox" then "log" else n in
  let dir := [ {| ra_name := "gearbox"; ra_kind := KPlain; ra_value := Some o_log |};
               {| ra_name := "logger"; ra_kind := KPlain; ra_value := Some o_other |};
               {| ra_name := "_x"; ra_kind := KPlain; ra_value := Some o_other |} ] in
  (forall a, In a dir -> is_private (f (ra_name a)) = is_private (ra_name a) /\
                         excluded (f (ra_name a)) = excluded (ra_name a)) /\
  collect_injectables (map (rename_attr f) dir) = [("log", Some o_log)].
Proof.
  split; [|vm_compute; reflexivity].
  intros a [<-|[<-|[<-|[]]]]; vm_compute; split; reflexivity.
Qed.

(* the driver station: on the bench, and (re)started on the field in the middle
   of a match.  A robot with the gyro, one component and three autonomous modes:
   [m_good] can be served, [m_missing] asks for an arm the robot does not have,
   [m_mistyped] wants robot.gyro to be a Shooter (class 21). *)
Definition env_bench := {| fms_attached := false; ds_enabled := false |}.
Definition env_match := {| fms_attached := true; ds_enabled := true |}.
Definition k_chassis : classdef :=
  {| k_cls := 20; k_init_hints := []; k_hints := [("gyro", HType 10)]; k_preset := []; k_setup := true |}.
Definition d_chassis := {| c_oid := 104; c_truthy := true; c_class := k_chassis |}.
Definition m_good : modedef :=
  {| m_name := "good"; m_hints := [("drive", HType 20); ("gyro", HType 10)]; m_preset := []; m_setup := true |}.
Definition m_missing : modedef :=
  {| m_name := "missing"; m_hints := [("drive", HType 20); ("arm", HType 21)]; m_preset := []; m_setup := false |}.
Definition m_mistyped : modedef :=
  {| m_name := "mistyped"; m_hints := [("drive", HType 20); ("gyro", HType 21)]; m_preset := []; m_setup := false |}.
Definition field_robot (modes : list modedef) : robot :=
  {| r_dir := [ {| ra_name := "gyro"; ra_kind := KPlain; ra_value := Some o_gyro |} ];
     r_hints := [("drive", RClass d_chassis)]; r_modes := modes |}.
Definition field_started : started :=
  {| st_comps := [ {| cr_name := "drive"; cr_def := d_chassis; cr_kwargs := [] |} ];
     st_updates := [ (TComp "drive", [("gyro", o_gyro)]);
                     (TMode "good", [("drive", comp_obj d_chassis); ("gyro", o_gyro)]) ] |}.
Example C08_nv_env_good_mode_starts :
  startup_in ex_sub env_bench (field_robot [m_good]) = Ok field_started /\
  startup_in ex_sub env_match (field_robot [m_good]) = Ok field_started.
Proof. split; vm_compute; reflexivity. Qed.
(* a missing / mistyped dependency of a mode: the injection error, FMS or not, also
   when the faulty mode comes after a good one *)
Example C08_nv_env_faulty_mode_fails :
  startup_in ex_sub env_bench (field_robot [m_good; m_missing]) = Err EInject /\
  startup_in ex_sub env_match (field_robot [m_good; m_missing]) = Err EInject /\
  startup_in ex_sub env_bench (field_robot [m_mistyped; m_good]) = Err EInject /\
  startup_in ex_sub env_match (field_robot [m_mistyped; m_good]) = Err EInject.
Proof. repeat split; vm_compute; reflexivity. Qed.
(* the hypotheses of C08_env_mode_fault_fails are met by both *)
Example C08_nv_env_mode_fault_hypotheses :
  In m_missing (r_modes (field_robot [m_good; m_missing])) /\ In ("arm", HType 21) (m_hints m_missing) /\
  is_private "arm" = false /\ mode_has m_missing "arm" = false /\
  request_fails ex_sub (all_injectables (field_robot [m_good; m_missing])) "missing" "arm" (HType 21) /\
  request_fails ex_sub (all_injectables (field_robot [m_mistyped; m_good])) "mistyped" "gyro" (HType 21) /\
  all_types (field_robot [m_good; m_missing]).
Proof.
  repeat split; try (vm_compute; reflexivity); try (vm_compute; tauto).
  - intros o H. vm_compute in H. discriminate.
  - intros o H. vm_compute in H. inversion H; subst. vm_compute. reflexivity.
  - intros m [H|[]]. inversion H.
  - apply typed_hints_by_computation. destruct H as [H|[]]. inversion H; subst. reflexivity.
  - apply typed_hints_by_computation. destruct H as [H|[]]. inversion H; subst. reflexivity.
  - intros md [<-|[<-|[]]]; apply typed_hints_by_computation; reflexivity.
Qed.
(* The statements exclude something: the start-up that runs each injection
   inside "try: ... except: self.onException()" (Proofs.startup_tolerant, NOT
   the code) agrees on the bench, but started on the field it leaves the mode
   without its arm and carries on. *)
Example C08_nv_env_tolerant_startup_would_differ :
  startup_tolerant ex_sub env_bench (field_robot [m_good; m_missing]) = Err EInject /\
  exists s, startup_tolerant ex_sub env_match (field_robot [m_good; m_missing]) = Ok s /\
    attr_at (field_robot [m_good; m_missing]) (trace_of (field_robot [m_good; m_missing]) s)
            (TMode "missing") "arm" = Absent /\
    attr_at (field_robot [m_good; m_missing]) (trace_of (field_robot [m_good; m_missing]) s)
            (TMode "missing") "drive" = Absent.
Proof.
  split; [vm_compute; reflexivity|].
  eexists. split; [vm_compute; reflexivity|]. split; vm_compute; reflexivity.
Qed.

(* `gain: float = tunable(0.25)` (class 4 = float) next to an injected `gyro`, in
   a component and in an autonomous mode; the robot ALSO stores a float under
   "gain" and one under "tuned_gain".  Start-up succeeds, only gyro is written,
   gain still reads the tunable's own value -- also when its annotation is not
   a class at all. *)
Definition o_tunable_value := {| oid := 700; ocls := 4; otruthy := true |}.    (* what the bound tunable reads *)
Definition o_robot_gain := {| oid := 11; ocls := 4; otruthy := true |}.
Definition o_robot_tuned_gain := {| oid := 12; ocls := 4; otruthy := true |}.
Definition k_tuned (gain_hint : hint) (preset : list (name * pval)) : classdef :=
  {| k_cls := 24; k_init_hints := []; k_hints := [("gyro", HType 10); ("gain", gain_hint)];
     k_preset := preset; k_setup := true |}.
Definition d_tuned gain_hint preset := {| c_oid := 105; c_truthy := true; c_class := k_tuned gain_hint preset |}.
Definition m_tuned (preset : list (name * pval)) : modedef :=
  {| m_name := "auto"; m_hints := [("gain", HType 4); ("gyro", HType 10)]; m_preset := preset; m_setup := true |}.
Definition tuned_dir (with_gain : bool) : list rattr :=
  (if with_gain then [ {| ra_name := "gain"; ra_kind := KPlain; ra_value := Some o_robot_gain |} ] else [])
  ++ [ {| ra_name := "gyro"; ra_kind := KPlain; ra_value := Some o_gyro |};
       {| ra_name := "tuned_gain"; ra_kind := KPlain; ra_value := Some o_robot_tuned_gain |} ].
Definition tuned_robot (with_gain : bool) gain_hint (preset : list (name * pval)) : robot :=
  {| r_dir := tuned_dir with_gain; r_hints := [("tuned", RClass (d_tuned gain_hint preset))];
     r_modes := [m_tuned preset] |}.
Definition bound_gain : list (name * pval) := [("gain", PBound (Some o_tunable_value))].
Definition tuned_started gain_hint : started :=
  {| st_comps := [ {| cr_name := "tuned"; cr_def := d_tuned gain_hint bound_gain; cr_kwargs := [] |} ];
     st_updates := [ (TComp "tuned", [("gyro", o_gyro)]); (TMode "auto", [("gyro", o_gyro)]) ] |}.
Example C08_nv_bound_attribute_untouched :
  startup ex_sub (tuned_robot true (HType 4) bound_gain) = Ok (tuned_started (HType 4)) /\
  startup ex_sub (tuned_robot false (HType 4) bound_gain) = Ok (tuned_started (HType 4)) /\
  startup ex_sub (tuned_robot true HNonType bound_gain) = Ok (tuned_started HNonType) /\
  let r := tuned_robot true (HType 4) bound_gain in
  let tr := trace_of r (tuned_started (HType 4)) in
  attr_at r (before_first_setup tr) (TComp "tuned") "gain" = Is (Some o_tunable_value) /\
  attr_at r tr (TComp "tuned") "gain" = Is (Some o_tunable_value) /\
  attr_at r tr (TMode "auto") "gain" = Is (Some o_tunable_value) /\
  attr_at r tr (TComp "tuned") "gyro" = Is (Some o_gyro).
Proof. repeat split; vm_compute; reflexivity. Qed.
(* the hypotheses of C08_untouched_preset / C08_set_attr_never_written hold for both targets *)
Example C08_nv_bound_attribute_hypotheses :
  let r := tuned_robot true (HType 4) bound_gain in
  NoDup (map t_ref (targets r)) /\
  In (comp_target "tuned" (d_tuned (HType 4) bound_gain)) (targets r) /\
  In (mode_target (m_tuned bound_gain)) (targets r) /\
  t_has (comp_target "tuned" (d_tuned (HType 4) bound_gain)) "gain" = true /\
  t_has (mode_target (m_tuned bound_gain)) "gain" = true /\
  In (EvInject (TComp "tuned") [("gyro", o_gyro)]) (trace_of r (tuned_started (HType 4))) /\
  pick (all_injectables r) "tuned" "gain" = Some o_robot_gain.
Proof.
  repeat split; try (vm_compute; reflexivity); try (vm_compute; tauto).
  repeat constructor; simpl; intuition discriminate.
Qed.
(* the two annotations of C08_nv_bound_attribute_untouched meet C08_set_attr_annotation_irrelevant *)
Example C08_nv_bound_annotation_irrelevant_hypotheses :
  let tg := comp_target "tuned" (d_tuned (HType 4) bound_gain) in
  let tg' := comp_target "tuned" (d_tuned HNonType bound_gain) in
  t_ref tg = t_ref tg' /\ (forall n, t_has tg n = t_has tg' n) /\
  requested (t_has tg) (t_hints tg) = requested (t_has tg') (t_hints tg') /\ t_hints tg <> t_hints tg'.
Proof. repeat split; try reflexivity. discriminate. Qed.
(* It matters that hasattr is true WHEN _setup_vars looks: the same classes with
   nothing bound yet (an unbound tunable raises AttributeError: no preset) make
   "gain" a request -- the robot's float is written over it; without a robot
   "gain" the mode (there is no "auto_gain") stops a well-formed robot with the
   injection error; a non-class annotation stops it with TypeError. *)
Example C08_nv_unbound_attribute_would_be_requested :
  (exists s, startup ex_sub (tuned_robot true (HType 4) []) = Ok s /\
     attr_at (tuned_robot true (HType 4) []) (trace_of (tuned_robot true (HType 4) []) s) (TComp "tuned") "gain"
       = Is (Some o_robot_gain)) /\
  startup ex_sub (tuned_robot false (HType 4) []) = Err EInject /\
  startup ex_sub (tuned_robot true HNonType []) = Err EType.
Proof.
  split; [|split]; [eexists; split; vm_compute; reflexivity|vm_compute; reflexivity|vm_compute; reflexivity].
Qed.

(* two arms of ONE class (class 25: `encoder: Sensor`, `gain: int`); the
   simulated one sets self.encoder in __init__, the real one does not.  In
   either declaration order the real arm gets the robot's encoder and the
   simulated arm keeps its own; both get the gain.  The same for two autonomous
   modes of one class. *)
Definition o_sim_encoder := {| oid := 13; ocls := 10; otruthy := true |}.
Definition k_arm (simulated : bool) : classdef :=
  {| k_cls := 25; k_init_hints := []; k_hints := [("encoder", HType 10); ("gain", HType 1)];
     k_preset := if simulated then [("encoder", PConst (Some o_sim_encoder))] else []; k_setup := true |}.
Definition d_arm (id : nat) simulated := {| c_oid := id; c_truthy := true; c_class := k_arm simulated |}.
Definition m_arm (nm : name) (simulated : bool) : modedef :=
  {| m_name := nm; m_hints := [("encoder", HType 10); ("gain", HType 1)];
     m_preset := if simulated then [("encoder", PConst (Some o_sim_encoder))] else []; m_setup := false |}.
Definition arms_robot (with_encoder left_simulated : bool) : robot :=
  {| r_dir := (if with_encoder then [ {| ra_name := "encoder"; ra_kind := KPlain; ra_value := Some o_gyro |} ] else [])
              ++ [ {| ra_name := "gain"; ra_kind := KPlain; ra_value := Some o_zero |} ];
     r_hints := [("left", RClass (d_arm 106 left_simulated)); ("right", RClass (d_arm 107 (negb left_simulated)))];
     r_modes := [m_arm "ma" left_simulated; m_arm "mb" (negb left_simulated)] |}.
Definition arm_update (simulated : bool) : list (name * obj) :=
  if simulated then [("gain", o_zero)] else [("encoder", o_gyro); ("gain", o_zero)].
Example C08_nv_same_class_instances_on_their_own : forall left_simulated,
  exists s, startup ex_sub (arms_robot true left_simulated) = Ok s /\
    st_updates s = [ (TComp "left", arm_update left_simulated); (TComp "right", arm_update (negb left_simulated));
                     (TMode "ma", arm_update left_simulated); (TMode "mb", arm_update (negb left_simulated)) ] /\
    let r := arms_robot true left_simulated in
    let sim := if left_simulated then "left" else "right" in
    let real := if left_simulated then "right" else "left" in
    attr_at r (trace_of r s) (TComp sim) "encoder" = Is (Some o_sim_encoder) /\
    attr_at r (before_first_setup (trace_of r s)) (TComp real) "encoder" = Is (Some o_gyro) /\
    attr_at r (trace_of r s) (TComp real) "encoder" = Is (Some o_gyro) /\
    attr_at r (trace_of r s) (TMode (if left_simulated then "ma" else "mb")) "encoder" = Is (Some o_sim_encoder) /\
    attr_at r (trace_of r s) (TMode (if left_simulated then "mb" else "ma")) "encoder" = Is (Some o_gyro).
Proof. intros [|]; eexists; repeat split; vm_compute; reflexivity. Qed.
(* same class, same annotations, different requests *)
Example C08_nv_same_class_different_requests :
  k_cls (k_arm true) = k_cls (k_arm false) /\ k_hints (k_arm true) = k_hints (k_arm false) /\
  requested (comp_has (d_arm 106 false)) (k_hints (k_arm false)) = [("encoder", HType 10); ("gain", HType 1)] /\
  requested (comp_has (d_arm 107 true)) (k_hints (k_arm true)) = [("gain", HType 1)] /\
  In (comp_target "right" (d_arm 107 true)) (targets (arms_robot true false)) /\
  In (comp_target "left" (d_arm 106 false)) (targets (arms_robot false false)).
Proof. repeat split; try reflexivity; vm_compute; tauto. Qed.
(* without an encoder on the robot the real arm cannot be served: start-up
   fails, whether the real arm is created first or second *)
Example C08_nv_same_class_unserved_instance_fails :
  startup ex_sub (arms_robot false false) = Err EInject /\ startup ex_sub (arms_robot false true) = Err EInject /\
  setup_vars ex_sub (comp_target "right" (d_arm 107 false)) (all_injectables (arms_robot false true)) = Err EInject /\
  setup_vars ex_sub (comp_target "left" (d_arm 106 true)) (all_injectables (arms_robot false true)) = Ok [("gain", o_zero)].
Proof. repeat split; vm_compute; reflexivity. Qed.

(* `class Arm: def __init__(self, encoder: Sensor = None, gain: int = 1)`:
   the robot's objects are passed, not the defaults; a gain of the wrong type,
   a missing encoder, an earlier component called encoder that is no Sensor
   stop start-up with the injection error whatever the defaults are. *)
Definition o_default_gain := {| oid := 14; ocls := 1; otruthy := true |}.
Definition arm_defaults : init_defaults := [("encoder", None); ("gain", Some o_default_gain)].
Definition k_dflt_arm : classdef :=
  {| k_cls := 26; k_init_hints := [("encoder", HType 10); ("gain", HType 1)]; k_hints := [];
     k_preset := [("kept", PParam "gain")]; k_setup := false |}.
Definition d_dflt_arm := {| c_oid := 108; c_truthy := true; c_class := k_dflt_arm |}.
Definition d_not_a_sensor :=
  {| c_oid := 109; c_truthy := true;
     c_class := {| k_cls := 21; k_init_hints := []; k_hints := []; k_preset := []; k_setup := false |} |}.
Definition dflt_robot (dir : list rattr) (first : list (name * rhint)) : robot :=
  {| r_dir := dir; r_hints := first ++ [("arm", RClass d_dflt_arm)]; r_modes := [] |}.
Definition ra (n : name) (o : obj) := {| ra_name := n; ra_kind := KPlain; ra_value := Some o |}.
Example C08_nv_default_not_used :
  startup_dflt ex_sub [("arm", arm_defaults)] env_bench (dflt_robot [ra "encoder" o_gyro; ra "gain" o_zero] [])
  = Ok {| st_comps := [ {| cr_name := "arm"; cr_def := d_dflt_arm;
                           cr_kwargs := [("encoder", o_gyro); ("gain", o_zero)] |} ];
          st_updates := [ (TComp "arm", []) ] |} /\
  attr_at (dflt_robot [ra "encoder" o_gyro; ra "gain" o_zero] [])
          [EvCtor "arm" [("encoder", o_gyro); ("gain", o_zero)]] (TComp "arm") "kept" = Is (Some o_zero).
Proof. split; vm_compute; reflexivity. Qed.
Example C08_nv_default_is_no_way_around_a_failure :
  (* gain is a str *)
  startup_dflt ex_sub [("arm", arm_defaults)] env_bench (dflt_robot [ra "encoder" o_gyro; ra "gain" o_empty] []) = Err EInject /\
  (* no encoder, no arm_encoder *)
  startup_dflt ex_sub [("arm", arm_defaults)] env_match (dflt_robot [ra "gain" o_zero] []) = Err EInject /\
  (* only arm_gain, and that is a str *)
  startup_dflt ex_sub [("arm", arm_defaults)] env_bench (dflt_robot [ra "arm_gain" o_empty; ra "encoder" o_gyro] []) = Err EInject /\
  (* an earlier component called encoder that is not a Sensor *)
  startup_dflt ex_sub [("arm", arm_defaults)] env_bench
    (dflt_robot [ra "gain" o_zero] [("encoder", RClass d_not_a_sensor)]) = Err EInject /\
  ctor_fault ex_sub (dflt_robot [ra "encoder" o_gyro; ra "gain" o_empty] []).
Proof.
  repeat split; try (vm_compute; reflexivity).
  exists [], "arm", d_dflt_arm, [], "gain", (HType 1). split; [reflexivity|]. split; [simpl; tauto|].
  right. intros o H. vm_compute in H. inversion H; subst. reflexivity.
Qed.
(* The statements exclude something: the _create_component that resolves
   defaulted parameters leniently (Proofs.create_component_lenient, NOT the
   code) constructs the arm from a robot whose gain is a str and which has no
   encoder -- both parameters left to their defaults --, agrees when the
   robot's objects are fine, and is the code when nothing declares a default. *)
Example C08_nv_default_lenient_would_differ :
  let inj := collect_injectables [ra "gain" o_empty] in
  create_component_dflt ex_sub arm_defaults "arm" d_dflt_arm inj = Err EInject /\
  create_component_lenient ex_sub arm_defaults "arm" d_dflt_arm inj = Ok [] /\
  create_component_lenient ex_sub [] "arm" d_dflt_arm inj = Err EInject /\
  create_component_lenient ex_sub arm_defaults "arm" d_dflt_arm (collect_injectables [ra "encoder" o_gyro; ra "gain" o_zero])
    = Ok [("encoder", o_gyro); ("gain", o_zero)].
Proof. repeat split; vm_compute; reflexivity. Qed.

Print Assumptions C08_attr_exact.
Print Assumptions C08_attr_exact_modes.
Print Assumptions C08_injectables_are_attrs_and_all_components.
Print Assumptions C08_inject_before_setup.
Print Assumptions C08_order_independent.
Print Assumptions C08_order_independent_attr.
Print Assumptions C08_order_independent_success.
Print Assumptions C08_untouched.
Print Assumptions C08_untouched_private.
Print Assumptions C08_untouched_preset.
Print Assumptions C08_ctor.
Print Assumptions C08_ctor_sources.
Print Assumptions C08_fail_iff.
Print Assumptions C08_fail_inject_iff.
Print Assumptions C08_error_class.
Print Assumptions C08_falsy_injects.
Print Assumptions C08_none_is_absent.
Print Assumptions C08_robot_injectables_exact.
Print Assumptions C08_robot_attr_delivered.
Print Assumptions C08_robot_attr_delivered_modes.
Print Assumptions C08_robot_attr_ctor_delivered.
Print Assumptions C08_robot_attr_serves.
Print Assumptions C08_callable_irrelevant.
Print Assumptions C08_excluded_iff_logger.
Print Assumptions C08_robot_injectables_by_name.
Print Assumptions C08_names_treated_alike.
Print Assumptions C08_robot_attr_by_name_delivered.
Print Assumptions C08_robot_attr_by_name_delivered_modes.
Print Assumptions C08_robot_attr_by_name_ctor_delivered.
Print Assumptions C08_plain_name_wins.
Print Assumptions C08_robot_attr_by_name_serves.
Print Assumptions C08_env_irrelevant.
Print Assumptions C08_env_observation_irrelevant.
Print Assumptions C08_env_fail_iff.
Print Assumptions C08_env_mode_fault_fails.
Print Assumptions C08_env_comp_fault_fails.
Print Assumptions C08_env_ctor_fault_fails.
Print Assumptions C08_env_attr_exact.
Print Assumptions C08_env_attr_exact_modes.
Print Assumptions C08_set_attr_never_written.
Print Assumptions C08_set_attr_annotation_irrelevant.
Print Assumptions C08_each_target_on_its_own.
Print Assumptions C08_target_failure_on_its_own.
Print Assumptions C08_ctor_defaults_irrelevant.
Print Assumptions C08_startup_defaults_irrelevant.
Print Assumptions C08_ctor_with_defaults.
Print Assumptions C08_ctor_fault_fails_with_defaults.
