(* C15 -- StatefulAutonomous runs each state for its duration, in every
   autonomous period.  Statements only; every proof is [exact <lemma of
   Stateful.Proofs>].

   Reading guide (definitions in Stateful/Model.v):
   * [sh]            the mode definition: states (timed with default duration and
                     next_state, or untimed), the first state.
   * a history [h]   any list of OnEnable dash | OnIteration tm b | OnDisable.
                     [dash s] is the SmartDashboard entry "<MODE_NAME>\<s>_duration"
                     at that on_enable; [b] is what the state functions do when
                     called in that iteration (arbitrary, per iteration: user code
                     may depend on anything, also on earlier periods).
   * [trace sh h]    everything observable: EvCall s tm state_tm initial_call,
                     EvEnter (next_state()/done() invocations), EvErr.
   * [iter_after sh h tm b]  the events of one more on_iteration(tm) after h.
   * [status_tr tr]  where the mode stands for an observer of the events:
                     NotEnabled | Entered s (next_state(s) was the last thing that
                     happened) | Running s (s was called since) | Ended.
   * [last_call_start tr None = Some (s, st0)]  the most recent call was of s
                     and its clock (tm - state_tm) started at st0.
   * [last_dash h None = Some d]  d is the dashboard at the most recent on_enable;
                     [period_duration sh d s] the duration it gives state s
                     (the default if the entry is absent; 0xFFFFFFFF s if untimed).
   * [m : mro]       the mode CLASS: the bodies of type(self).__mro__, most derived
                     first; states may be inherited from base classes and be
                     redefined by subclasses.  [build_states inf m = inr sh]: the
                     constructor's state discovery yields the machine [sh]
                     (Section C15_mode: sh has exactly the states of the class).
   All theorems hold for EVERY shape, history and user behaviour; the only
   hypothesis on the shape is that its first state is one of its states (the
   constructor guarantees it: C15_mode_states_are_class_states).  No bound on lengths, durations or clock values;
   durations may be zero or negative, tm may be negative. *)
From Coq Require Import ZArith List Bool Lia.
From RV Require Import Stateful.Model Stateful.Proofs Stateful.Legacy.
Import ListNotations.
Open Scope Z_scope.

Section C15.
Variable sh : shape.
Hypothesis Hfirst : declared sh (sh_first sh) = true.

(* "After on_enable(), on_iteration(tm) runs the first state" -- after any
   history whatsoever, with initial_call and state_tm = 0, and nothing else. *)
Theorem C15_first_runs : forall h d tm b,
  calls (iter_after sh (h ++ [OnEnable d]) tm b) = [EvCall (sh_first sh) tm 0 true].
Proof. exact (first_runs sh Hfirst). Qed.

(* "a timed state runs on every iteration until tm exceeds its start time plus
   its duration (the dashboard value read at on_enable)": while
   tm <= start + duration the running state is called, not initially, with its
   own clock; what comes next is decided by what the function does. *)
Theorem C15_holds_until_expiry : forall h s st0 d tm b,
  status_tr (trace sh h) = Running s ->
  last_call_start (trace sh h) None = Some (s, st0) ->
  last_dash h None = Some d ->
  tm <= st0 + period_duration sh d s ->
  calls (iter_after sh h tm b) = [EvCall s tm (tm - st0) false] /\
  status_tr (trace sh (h ++ [OnIteration tm b])) =
    status_acts sh (b s tm (tm - st0) false) (Running s).
Proof. exact (holds_until_expiry sh Hfirst). Qed.

(* "and then hands over to its next_state, whose clock starts at the
   predecessor's expiry": the first iteration with tm > start + duration enters
   the successor and calls it -- once, initially, with
   state_tm = tm - (predecessor's expiry). *)
Theorem C15_hands_over_at_expiry : forall h s st0 d tm b dflt n,
  status_tr (trace sh h) = Running s ->
  last_call_start (trace sh h) None = Some (s, st0) ->
  last_dash h None = Some d ->
  st0 + period_duration sh d s < tm ->
  lookup sh s = Some (Timed dflt (Some n)) -> declared sh n = true ->
  let expiry := st0 + period_duration sh d s in
  exists rest,
    iter_after sh h tm b = EvEnter (Some n) :: EvCall n tm (tm - expiry) true :: rest /\
    calls rest = [] /\
    status_tr (trace sh (h ++ [OnIteration tm b])) =
      status_acts sh (b n tm (tm - expiry) true) (Running n).
Proof. exact (hands_over_at_expiry sh Hfirst). Qed.

(* ... so the successor's own expiry is predecessor's expiry + its duration,
   however late the iteration came (no drift along a chain). *)
Theorem C15_successor_clock : forall h s st0 d tm b dflt n,
  status_tr (trace sh h) = Running s ->
  last_call_start (trace sh h) None = Some (s, st0) ->
  last_dash h None = Some d ->
  st0 + period_duration sh d s < tm ->
  lookup sh s = Some (Timed dflt (Some n)) -> declared sh n = true ->
  last_call_start (trace sh (h ++ [OnIteration tm b])) None
    = Some (n, st0 + period_duration sh d s) /\
  last_dash (h ++ [OnIteration tm b]) None = Some d.
Proof. exact (successor_clock sh Hfirst). Qed.

(* "once the last state has expired ... nothing runs": expiry of a timed state
   without next_state ends the mode without calling anything. *)
Theorem C15_last_state_expires : forall h s st0 d tm b dflt,
  status_tr (trace sh h) = Running s ->
  last_call_start (trace sh h) None = Some (s, st0) ->
  last_dash h None = Some d ->
  st0 + period_duration sh d s < tm -> lookup sh s = Some (Timed dflt None) ->
  iter_after sh h tm b = [EvEnter None] /\
  status_tr (trace sh (h ++ [OnIteration tm b])) = Ended.
Proof. exact (last_state_expires sh Hfirst). Qed.

(* "Every state that is entered runs at least once, with initial_call True":
   whenever next_state(s) is the last thing that happened -- by on_enable, by a
   state function, by an expiry, in any period, however often s ran before and
   WHATEVER tm is -- the next iteration calls s, initially, state_tm = 0. *)
Theorem C15_entered_runs_once : forall h s tm b,
  status_tr (trace sh h) = Entered s ->
  calls (iter_after sh h tm b) = [EvCall s tm 0 true] /\
  status_tr (trace sh (h ++ [OnIteration tm b])) = status_acts sh (b s tm 0 true) (Running s).
Proof. exact (entered_runs sh). Qed.

(* "initial_call True on exactly its first call after each entry": along the
   whole trace of any history every call is of the state the observer expects
   and initial_call = true iff that state was entered and not called since. *)
Theorem C15_initial_call_discipline : forall h, init_discipline NotEnabled (trace sh h).
Proof. exact (initial_call_discipline sh). Qed.

(* "next_state() and done() take effect from the next iteration": an iteration
   calls at most one state function; what that function does only moves the
   status ... *)
Theorem C15_actions_next_iteration : forall h tm b,
  (length (calls (iter_after sh h tm b)) <= 1)%nat /\
  forall s tm' stm init, calls (iter_after sh h tm b) = [EvCall s tm' stm init] ->
    tm' = tm /\
    status_tr (trace sh (h ++ [OnIteration tm b])) = status_acts sh (b s tm stm init) (Running s).
Proof. exact (fun h tm b => conj (at_most_one_call sh h tm b) (actions_decide_status sh h tm b)). Qed.

(* ... a final next_state(n) makes the next iteration call n (initially,
   whatever its tm), *)
Theorem C15_next_state_next_iteration : forall h tm b s stm init acts n,
  calls (iter_after sh h tm b) = [EvCall s tm stm init] ->
  b s tm stm init = acts ++ [ANext n] -> valid_acts sh acts = true -> declared sh n = true ->
  forall tm2 b2, calls (iter_after sh (h ++ [OnIteration tm b]) tm2 b2) = [EvCall n tm2 0 true].
Proof. exact (next_state_next_iteration sh). Qed.

(* ... a final done() makes every later iteration of the period call nothing. *)
Theorem C15_done_next_iteration : forall h tm b s stm init acts,
  calls (iter_after sh h tm b) = [EvCall s tm stm init] ->
  b s tm stm init = acts ++ [ADone] -> valid_acts sh acts = true ->
  forall p, no_enable p -> calls (trace_from sh (final sh (h ++ [OnIteration tm b])) p) = [].
Proof. exact (done_next_iteration sh). Qed.

(* "once the last state has expired or done() was called nothing runs until
   the next on_enable()" -- for every continuation without on_enable; the next
   on_enable starts over (C15_first_runs). *)
Theorem C15_after_end_nothing : forall h p,
  status_tr (trace sh h) = Ended -> no_enable p ->
  calls (trace_from sh (final sh h) p) = [] /\ status_tr (trace sh (h ++ p)) = Ended.
Proof. exact (after_end_nothing sh). Qed.

(* "state_tm is non-negative": for clock readings that do not decrease inside
   a period (nothing is assumed across periods, nor about signs). *)
Theorem C15_state_tm_nonneg : forall h, mono None h -> Forall nonneg_ev (trace sh h).
Proof. exact (state_tm_nonneg sh Hfirst). Qed.

(* "This holds equally in a second or later autonomous period ... independent
   of what happened in earlier runs": after ANY history h, the period started
   by on_enable produces exactly the events it produces on a fresh instance --
   although ran/start_time/expires live on the class-level wrappers that h
   left in an arbitrary condition. *)
Theorem C15_period_independent : forall h d p,
  trace sh (h ++ OnEnable d :: p) = trace sh h ++ trace sh (OnEnable d :: p).
Proof. exact (period_independent_trace sh Hfirst). Qed.

(* "... and when a state is re-entered": once s is entered, the future depends
   on the durations in force only, not on how s or any other state ran before. *)
Theorem C15_reentry_independent : forall h1 h2 s p,
  status_tr (trace sh h1) = Entered s -> status_tr (trace sh h2) = Entered s ->
  (forall x, duration_of sh (final sh h1) x = duration_of sh (final sh h2) x) ->
  trace_from sh (final sh h1) p = trace_from sh (final sh h2) p.
Proof. exact (reentry_independent sh Hfirst). Qed.

(* The observer's bookkeeping used above is sound: it is the machine's. *)
Theorem C15_status_observable : forall h, status_of (final sh h) = status_tr (trace sh h).
Proof. exact (status_observable sh). Qed.

(* A running state always has a clock and a dashboard it was read from ... *)
Theorem C15_running_has_clock : forall h s, status_tr (trace sh h) = Running s ->
  exists st0 d, last_call_start (trace sh h) None = Some (s, st0) /\ last_dash h None = Some d.
Proof. exact (running_has_clock sh Hfirst). Qed.

(* ... and they are what the code stored: start_time, and
   expires = start_time + the dashboard value read at the last on_enable. *)
Theorem C15_expiry_observable : forall h s st0 d, status_tr (trace sh h) = Running s ->
  last_call_start (trace sh h) None = Some (s, st0) -> last_dash h None = Some d ->
  st_start (sdat (final sh h) s) = st0 /\
  st_exp (sdat (final sh h) s) = st0 + period_duration sh d s.
Proof. exact (expiry_observable sh Hfirst). Qed.

(* An untimed state "never expires" = 0xFFFFFFFF s after its start; beyond
   that the code raises AttributeError (no next_state attribute) -- visible,
   not silently wrong. *)
Theorem C15_untimed_overflow : forall h s st0 d tm b, status_tr (trace sh h) = Running s ->
  last_call_start (trace sh h) None = Some (s, st0) -> last_dash h None = Some d ->
  st0 + sh_inf sh < tm -> lookup sh s = Some Untimed ->
  iter_after sh h tm b = [EvErr ErrAttr].
Proof. exact (untimed_overflow sh Hfirst). Qed.

End C15.

(* ---------------- the mode CLASS: inherited states ----------------
   A mode is a Python class; [m : mro] lists the bodies of type(self).__mro__,
   most derived first.  A state may be defined in the concrete class or in any
   base class (e.g. a shared "settle -> shoot" tail in a common base mode), and
   a subclass may redefine a name.  [class_getattr m n] is getattr(cls, n);
   [build_states inf m] is the constructor's state discovery (__build_states):
   [inr sh] = the mode object exists and runs as the machine [sh] of the
   theorems above; [inl _] = ValueError.  [is_first m n]: getattr(cls, n) is a
   state declared first=True;  [is_state m n]: it is a state at all. *)

(* The constructor succeeds exactly when the class has one first state --
   counting inherited states, and not counting definitions a subclass has
   replaced ... *)
Theorem C15_ctor_constructs : forall inf m,
  (exists sh, build_states inf m = inr sh) <->
  (exists f, is_first m f = true /\ forall n, is_first m n = true -> n = f).
Proof. exact build_states_constructs. Qed.

Theorem C15_ctor_rejects_no_first : forall inf m,
  build_states inf m = inl NoFirst <-> forall n, is_first m n = false.
Proof. exact build_states_no_first. Qed.

Theorem C15_ctor_rejects_multiple_first : forall inf m,
  build_states inf m = inl MultipleFirst <->
  exists a b, a <> b /\ is_first m a = true /\ is_first m b = true.
Proof. exact build_states_multiple_first. Qed.

Section C15_mode.
Variable inf : Z.
Variable m : mro.
Variable sh : shape.
Hypothesis Hbuilt : build_states inf m = inr sh.

(* ... and then the machine's states are EXACTLY the states of the class:
   every name that getattr(cls, .) resolves to a state -- defined in the
   concrete class or inherited from a base at any depth -- is a state of the
   mode with the declaration (default duration, next_state) of its most derived
   definition, so its "<MODE_NAME>\<s>_duration" entry is among those read at
   on_enable; nothing else is; the first state is the class's first state; the
   hypothesis of the theorems of Section C15 holds. *)
Theorem C15_mode_states_are_class_states :
  (forall n, lookup sh n = state_decl (class_getattr m n)) /\
  is_first m (sh_first sh) = true /\
  (forall n, is_first m n = true -> n = sh_first sh) /\
  declared sh (sh_first sh) = true /\
  sh_inf sh = inf.
Proof. exact (build_states_ok inf m sh Hbuilt). Qed.

(* The clauses again, with every hypothesis about a state read from the class
   ([mode_duration inf m d s]: dashboard value of s in a period enabled with d,
   else the default of the most derived definition of s, wherever it is). *)
Theorem C15_mode_first_runs : forall h d tm b,
  is_first m (sh_first sh) = true /\
  calls (iter_after sh (h ++ [OnEnable d]) tm b) = [EvCall (sh_first sh) tm 0 true].
Proof. exact (mode_first_runs inf m sh Hbuilt). Qed.

Theorem C15_mode_holds_until_expiry : forall h s st0 d tm b,
  status_tr (trace sh h) = Running s ->
  last_call_start (trace sh h) None = Some (s, st0) ->
  last_dash h None = Some d ->
  tm <= st0 + mode_duration inf m d s ->
  calls (iter_after sh h tm b) = [EvCall s tm (tm - st0) false] /\
  status_tr (trace sh (h ++ [OnIteration tm b])) =
    status_acts sh (b s tm (tm - st0) false) (Running s).
Proof. exact (mode_holds_until_expiry inf m sh Hbuilt). Qed.

Theorem C15_mode_hands_over_at_expiry : forall h s st0 d tm b dflt n f,
  status_tr (trace sh h) = Running s ->
  last_call_start (trace sh h) None = Some (s, st0) ->
  last_dash h None = Some d ->
  st0 + mode_duration inf m d s < tm ->
  class_getattr m s = Some (AState (Timed dflt (Some n)) f) -> is_state m n = true ->
  let expiry := st0 + mode_duration inf m d s in
  exists rest,
    iter_after sh h tm b = EvEnter (Some n) :: EvCall n tm (tm - expiry) true :: rest /\
    calls rest = [] /\
    status_tr (trace sh (h ++ [OnIteration tm b])) =
      status_acts sh (b n tm (tm - expiry) true) (Running n) /\
    last_call_start (trace sh (h ++ [OnIteration tm b])) None = Some (n, expiry).
Proof. exact (mode_hands_over_at_expiry inf m sh Hbuilt). Qed.

Theorem C15_mode_last_state_expires : forall h s st0 d tm b dflt f,
  status_tr (trace sh h) = Running s ->
  last_call_start (trace sh h) None = Some (s, st0) ->
  last_dash h None = Some d ->
  st0 + mode_duration inf m d s < tm ->
  class_getattr m s = Some (AState (Timed dflt None) f) ->
  iter_after sh h tm b = [EvEnter None] /\
  status_tr (trace sh (h ++ [OnIteration tm b])) = Ended.
Proof. exact (mode_last_state_expires inf m sh Hbuilt). Qed.

End C15_mode.

(* The pre-repair expiry test (no `ran` guard) violates the property: D6. *)
Theorem C15_legacy_refuted_D6 :
  exists sh h s tm b,
    declared sh (sh_first sh) = true /\
    mono None (h ++ [OnIteration tm b]) /\
    status_tr (trace_legacy sh h) = Entered s /\
    calls (snd (on_iteration_legacy sh (final_legacy sh h) tm b)) <> [EvCall s tm 0 true].
Proof. exact C15_legacy_refuted. Qed.

(* ---------------- non-vacuity ---------------- *)
(* a (0): timed 1 s -> b, first;  b (1): untimed, goes to c when state_tm >= 0.5 s;
   c (2): timed 0.5 s -> a (a loop), calls done() when tm >= 6 s.  Ticks of 1/64 s. *)
Definition ex_sh : shape :=
  {| sh_states := [(0%nat, Timed 64 (Some 1%nat)); (1%nat, Untimed); (2%nat, Timed 32 (Some 0%nat))];
     sh_first := 0%nat; sh_inf := 4294967295 * 64 |}.
Definition ex_body : ubody := fun s tm stm init =>
  if Nat.eqb s 1 && (32 <=? stm) then [ANext 2%nat]
  else if Nat.eqb s 2 && (384 <=? tm) then [ADone] else [].
Definition ex_dash : name -> option Z := fun s => if Nat.eqb s 0 then Some 96 else None.
Definition ex_iters (tms : list Z) : list op := map (fun t => OnIteration t ex_body) tms.
(* period 1 with defaults, disabled, period 2 with a's duration edited to 1.5 s *)
Definition ex_p1 : list op := OnEnable (fun _ => None) :: ex_iters [0; 16; 64; 80; 200; 216; 232; 400; 416] ++ [OnDisable].
Definition ex_h : list op := ex_p1 ++ OnEnable ex_dash :: ex_iters [0; 50; 96].

Example C15_nv_shape : declared ex_sh (sh_first ex_sh) = true.
Proof. reflexivity. Qed.
Example C15_nv_mono : mono None (ex_h ++ ex_iters [97; 97; 130; 170; 171; 400; 500; 540]).
Proof. cbn. lia. Qed.
(* the monotonicity hypothesis of C15_state_tm_nonneg is needed: a clock that
   runs backwards inside a period gives a negative state_tm *)
Example C15_nonneg_needs_mono :
  calls (trace ex_sh [OnEnable (fun _ => None); OnIteration 10 ex_body; OnIteration 5 ex_body])
  = [EvCall 0%nat 10 0 true; EvCall 0%nat 5 (-5) false].
Proof. vm_compute. reflexivity. Qed.
(* premises of holds / hands_over are met: a is running in period 2, started
   at 0, edited duration 96 *)
Example C15_nv_running :
  status_tr (trace ex_sh ex_h) = Running 0%nat /\
  last_call_start (trace ex_sh ex_h) None = Some (0%nat, 0) /\
  (exists d, last_dash ex_h None = Some d /\ period_duration ex_sh d 0%nat = 96) /\
  lookup ex_sh 0%nat = Some (Timed 64 (Some 1%nat)) /\ declared ex_sh 1%nat = true.
Proof. repeat split; try (vm_compute; reflexivity). exists ex_dash. split; reflexivity. Qed.
(* and the conclusions are the interesting ones: hand-over at 97 with state_tm 1 *)
Example C15_nv_handover :
  iter_after ex_sh ex_h 97 ex_body = [EvEnter (Some 1%nat); EvCall 1%nat 97 1 true].
Proof. vm_compute. reflexivity. Qed.
(* premise of entered_runs_once (by a state function's next_state) *)
Example C15_nv_entered :
  status_tr (trace ex_sh (ex_h ++ ex_iters [97; 97; 130])) = Entered 2%nat.
Proof. vm_compute. reflexivity. Qed.
(* premise of after_end_nothing (by done()) and of last-state/loop behaviour *)
Example C15_nv_ended :
  status_tr (trace ex_sh (ex_h ++ ex_iters [97; 97; 130; 170; 171; 400; 500; 540])) = Ended /\
  no_enable (ex_iters [541; 600]).
Proof. split; [vm_compute; reflexivity|repeat constructor]. Qed.
(* the whole trace of the example, period 1 (a loop a -> b -> c -> a, then done) *)
Example C15_nv_trace_p1 :
  calls (trace ex_sh ex_p1) =
  [EvCall 0%nat 0 0 true; EvCall 0%nat 16 16 false; EvCall 0%nat 64 64 false;
   EvCall 1%nat 80 16 true; EvCall 1%nat 200 136 false;
   EvCall 2%nat 216 0 true; EvCall 2%nat 232 16 false;
   EvCall 0%nat 400 152 true; EvCall 1%nat 416 104 true].
Proof. vm_compute. reflexivity. Qed.

(* a mode CLASS with inheritance: the concrete class defines drive (3): timed
   1 s -> settle, first, and REPLACES the base's old first state (6) by a plain
   attribute; its base defines settle (4): timed 0.5 s -> shoot, shoot (5):
   timed 0.75 s, and that old first state 6; a grand-base defines another
   settle (4, 2 s, no successor) which the base's definition hides. *)
Definition ex_mro : mro :=
  [ [(3%nat, AState (Timed 64 (Some 4%nat)) true); (6%nat, AOther)];
    [(4%nat, AState (Timed 32 (Some 5%nat)) false); (5%nat, AState (Timed 48 None) false);
     (6%nat, AState Untimed true)];
    [(4%nat, AState (Timed 128 None) false); (7%nat, AOther)] ].
Definition ex_msh : shape :=
  {| sh_states := [(3%nat, Timed 64 (Some 4%nat)); (5%nat, Timed 48 None); (4%nat, Timed 32 (Some 5%nat))];
     sh_first := 3%nat; sh_inf := 4294967295 * 64 |}.
Example C15_nv_mode_built : build_states (4294967295 * 64) ex_mro = inr ex_msh.
Proof. vm_compute. reflexivity. Qed.
(* settle is inherited, its dashboard entry edited to 0.25 s: it is held until
   64 + 16 and hands over to the inherited shoot with the clock at 80 *)
Definition ex_mdash : name -> option Z := fun s => if Nat.eqb s 4 then Some 16 else None.
Example C15_nv_mode_trace :
  calls (trace ex_msh (OnEnable ex_mdash :: map (fun t => OnIteration t (fun _ _ _ _ => [])) [0; 64; 65; 80; 81; 128; 129])) =
  [EvCall 3%nat 0 0 true; EvCall 3%nat 64 64 false; EvCall 4%nat 65 1 true; EvCall 4%nat 80 16 false;
   EvCall 5%nat 81 1 true; EvCall 5%nat 128 48 false] /\
  mode_duration (4294967295 * 64) ex_mro ex_mdash 4%nat = 16 /\
  class_getattr ex_mro 4%nat = Some (AState (Timed 32 (Some 5%nat)) false) /\ is_state ex_mro 5%nat = true.
Proof. vm_compute. repeat split; reflexivity. Qed.
(* without the subclass's replacement of 6 the class has two first states *)
Example C15_nv_mode_two_firsts :
  build_states (4294967295 * 64) ([(3%nat, AState (Timed 64 (Some 4%nat)) true)] :: tl ex_mro) = inl MultipleFirst /\
  build_states (4294967295 * 64) [[(4%nat, AState (Timed 32 None) false)]] = inl NoFirst.
Proof. vm_compute. split; reflexivity. Qed.

Print Assumptions C15_first_runs.
Print Assumptions C15_holds_until_expiry.
Print Assumptions C15_hands_over_at_expiry.
Print Assumptions C15_successor_clock.
Print Assumptions C15_last_state_expires.
Print Assumptions C15_entered_runs_once.
Print Assumptions C15_initial_call_discipline.
Print Assumptions C15_actions_next_iteration.
Print Assumptions C15_next_state_next_iteration.
Print Assumptions C15_done_next_iteration.
Print Assumptions C15_after_end_nothing.
Print Assumptions C15_state_tm_nonneg.
Print Assumptions C15_period_independent.
Print Assumptions C15_reentry_independent.
Print Assumptions C15_status_observable.
Print Assumptions C15_running_has_clock.
Print Assumptions C15_expiry_observable.
Print Assumptions C15_untimed_overflow.
Print Assumptions C15_ctor_constructs.
Print Assumptions C15_ctor_rejects_no_first.
Print Assumptions C15_ctor_rejects_multiple_first.
Print Assumptions C15_mode_states_are_class_states.
Print Assumptions C15_mode_first_runs.
Print Assumptions C15_mode_holds_until_expiry.
Print Assumptions C15_mode_hands_over_at_expiry.
Print Assumptions C15_mode_last_state_expires.
Print Assumptions C15_legacy_refuted_D6.
