(* C16 -- NotifierDelay keeps the loop on a fixed time grid without drift.
   Statements only; every proof is [exact <lemma of Delay.Proofs>].

   Vocabulary (Delay/Model.v).  Times are FPGA microseconds (Z).
     create p t0            the object built at FPGA time t0 with period p us
     create_opt P t0        the constructor with its argument P in seconds
                            (None = ValueError)
     sched bs               the loop `body(b); delay.wait()` for each b of bs
     wait_log s ops         one pair (t_call, t_return) per wait()
     grid t0 p k            t0 + k*p, the k-th grid point
     final s ops            object and clock after the operations
     Free                   free(), or __del__
     Enter                  __enter__ of the with-statement (at the instant of
                            construction in `with NotifierDelay(P) as d:`, or
                            any time later in `d = NotifierDelay(P); ...; with d:`)
     entered_late setup bs  Body setup :: Enter :: sched bs -- the object is
                            built, set-up work takes [setup] us, then the
                            with-block is entered and the loop runs in it
     no_release ops         ops contains no Free and no Exit (bodies, waits and
                            __enter__ in any order and number)
     without_enter ops      ops with every Enter removed
     enter_log s ops        one bool per __enter__: it returned the object itself
     Exit exc               __exit__ of the with-statement; exc = the exception
                            that leaves the block (None: there is none)
     leave_with h           Exit, for the way h the block is left: EndOfBlock,
                            BreakOut, ReturnOut, Raised e (any exception class)
     is_free o              o is Free or any Exit: must release the notifier
     exit_log s ops         one bool per __exit__: an exception comes out of
                            the with-statement
   The i-th record of a log (from 0) is the (i+1)-th wait.

   Two threads (the loop thread inside wait(), another thread shutting it down):
     WaitBegin / WaitEnd    the two halves of wait() around its HAL call:
                            `handle = self._notifier; if handle is None: return;
                            <enter hal.waitForNotifierAlarm(handle)>` and
                            `<the HAL call returns>; self._expiry_time +=
                            self.delay_period; self._update_alarm(handle)`
     Other o                a whole operation o (Body: time passes; Free, Exit,
                            Enter, Wait) by the thread that is not inside wait()
     cinit d t              the state: object d, clock t, no wait() in progress
     crun s h               the state after the history h (a list of the above)
     c_obj, c_now, c_pend,  its object, clock, the wait() in progress (if any),
     c_outside              and whether h left the model (two wait() at once)
     clog s h               one triple (t_call, t_left, left_by_exception) per
                            wait() that was left, whole or in halves
     crel o                 o is Other Free or Other (Exit _)
     seq_cops ops           the sequential use ops as a history: every Wait
                            becomes WaitBegin; WaitEnd with nothing in between
     lin h                  the sequential use a history amounts to when nobody
                            releases: every WaitEnd becomes a Wait at that point
     cwf false h            h is well bracketed (halves alternate, no second
                            wait() while one is in progress, none left open)
     cquiet o               o is Other (Body _) or Other Enter
     cinstant o             o is Other Free, Other Enter or Other (Exit _)
     cbodies h              the sum of the bodies of h
   The HAL call of a wait() in progress returns, when its second half runs at
   clock c', at max c' alarm -- or at c' when the notifier has been stopped
   meanwhile; updateNotifierAlarm on a cleaned handle does nothing; a None
   handle makes the binding raise TypeError ([wait_end d false _] is left by an
   exception).  Assumptions about the simulated HAL like [hal_wait], validated
   by the correspondence with a real second thread.

   The HAL notifier is the function [hal_wait]: a wait issued at t_call with
   alarm a returns at max t_call a.  That is an assumption about the
   (simulated) HAL, validated on every run by the correspondence
   (harness/c16.py), not a theorem.

   No theorem restricts the body durations: they may be zero, shorter than,
   equal to or any multiple of the period (or any integer at all). *)
From Coq Require Import ZArith QArith Qabs List.
From RV Require Import Delay.Model Delay.Proofs Delay.FloatPeriod Delay.FloatPeriodProofs.
Import ListNotations.
Open Scope Z_scope.

(* After any schedule of k waits the next alarm is grid point k+1, the alarm
   the HAL holds is that expiry, the object is live with its period unchanged
   and nothing was released -- whatever the body durations. *)
Theorem C16_expiry_on_grid : forall p t0 bs,
  let d := fst (final (create p t0, t0) (sched bs)) in
  expiry d = grid t0 p (S (length bs)) /\ alarm d = Some (expiry d) /\
  live d = true /\ period d = p /\ released d = 0%nat.
Proof. exact expiry_on_grid. Qed.

(* One record per wait; the first wait is called when the first body ends,
   every later one when the body that follows the previous return ends. *)
Theorem C16_call_times : forall p t0 bs,
  let log := wait_log (create p t0, t0) (sched bs) in
  length log = length bs /\
  (forall c r b, nth_error log 0 = Some (c, r) -> nth_error bs 0 = Some b -> c = t0 + b) /\
  (forall i c r c' r' b,
     nth_error log i = Some (c, r) -> nth_error log (S i) = Some (c', r') ->
     nth_error bs (S i) = Some b -> c' = r + b).
Proof.
  exact (fun p t0 bs => conj (log_length p t0 bs)
                             (conj (first_call p t0 bs) (next_call p t0 bs))).
Qed.

(* The (i+1)-th wait returns at max(t_call, t0 + (i+1)*p), hence never before
   its grid point. *)
Theorem C16_never_early : forall p t0 bs i c r,
  nth_error (wait_log (create p t0, t0) (sched bs)) i = Some (c, r) ->
  r = Z.max c (grid t0 p (S i)) /\ grid t0 p (S i) <= r.
Proof.
  exact (fun p t0 bs i c r H => conj (ret_is_max p t0 bs i c r H) (never_early p t0 bs i c r H)).
Qed.

(* If the body had finished by the grid point, the wait returns exactly there. *)
Theorem C16_exact_when_on_time : forall p t0 bs i c r,
  nth_error (wait_log (create p t0, t0) (sched bs)) i = Some (c, r) ->
  c <= grid t0 p (S i) -> r = grid t0 p (S i).
Proof. exact exact_when_on_time. Qed.

(* An overrun is caught up, the grid does not move: if wait j was called late
   (by any amount), the first later wait k that is called on time returns
   exactly at the ORIGINAL grid point t0 + (k+1)*p. *)
Theorem C16_catches_up : forall p t0 bs j cj rj k ck rk,
  let log := wait_log (create p t0, t0) (sched bs) in
  (j < k)%nat ->
  nth_error log j = Some (cj, rj) -> grid t0 p (S j) < cj ->
  (forall m cm rm, (j < m < k)%nat -> nth_error log m = Some (cm, rm) -> grid t0 p (S m) < cm) ->
  nth_error log k = Some (ck, rk) -> ck <= grid t0 p (S k) ->
  rk = grid t0 p (S k).
Proof.
  exact (fun p t0 bs j cj rj k ck rk _ _ _ _ Hk Hon => exact_when_on_time p t0 bs k ck rk Hk Hon).
Qed.

(* How fast: lateness (return time minus grid point, never negative) obeys
   late' = max 0 (late + body - p) ... *)
Theorem C16_lateness_step : forall p t0 bs i rec rec' b,
  let log := wait_log (create p t0, t0) (sched bs) in
  nth_error log i = Some rec -> nth_error log (S i) = Some rec' ->
  nth_error bs (S i) = Some b ->
  0 <= lateness t0 p i rec /\
  lateness t0 p (S i) rec' = Z.max 0 (lateness t0 p i rec + b - p).
Proof.
  exact (fun p t0 bs i rec rec' b H H' Hb =>
           conj (lateness_nonneg p t0 bs i rec H) (lateness_step p t0 bs i rec rec' b H H' Hb)).
Qed.

(* ... so if every body after wait j leaves a slack of delta >= 0, the
   lateness shrinks by delta per iteration until it is zero and never grows
   (delta = 0: bodies that just fit never let the loop drift further). *)
Theorem C16_catch_up_bound : forall p t0 bs delta j recj m reck,
  let log := wait_log (create p t0, t0) (sched bs) in
  0 <= delta ->
  nth_error log j = Some recj -> nth_error log (j + m) = Some reck ->
  (forall i b, (j < i <= j + m)%nat -> nth_error bs i = Some b -> b <= p - delta) ->
  lateness t0 p (j + m) reck <= Z.max 0 (lateness t0 p j recj - Z.of_nat m * delta).
Proof.
  exact (fun p t0 bs delta j recj m reck Hd Hj Hk Hb =>
           catch_up_bound p t0 bs delta j recj Hd Hj m reck Hk Hb).
Qed.

(* After free() -- or __del__, or __exit__ of the with-statement with or
   without an exception: [rel] is ANY of them --, whatever happened before and
   whatever happens after -- further waits, bodies, repeated free()/with-exit:
   every wait returns at the instant it is called, the HAL holds no alarm, and
   the handle has been released exactly once. *)
Theorem C16_freed : forall p t0 pre rel post,
  is_free rel = true ->
  let s := final (create p t0, t0) (pre ++ [rel]) in
  (forall c r, In (c, r) (wait_log s post) -> r = c) /\
  live (fst (final s post)) = false /\
  alarm (fst (final s post)) = None /\
  released (fst (final s post)) = 1%nat.
Proof. exact freed. Qed.

(* `with NotifierDelay(..) as d: block`, for ANY block (any bodies and waits,
   also free() inside it), left in ANY way h -- the block ends, break, return,
   or an exception of any class raised in the block --, followed by ANY further
   use [post] of the object:
   (1) when the statement is left the object has dropped the handle, the
       notifier is stopped (no alarm), the handle has been released exactly
       once, and __exit__ took no FPGA time;
   (2) every later wait() returns at the instant it is called;
   (3) it stays so (never re-armed, never released a second time);
   (4) the clock afterwards moves by the bodies only (no wait blocks);
   (5) this __exit__ lets an exception out exactly when the block raised one
       (it does not swallow it). *)
Theorem C16_with_block : forall p t0 block h post,
  let s0 := (create p t0, t0) in
  let s := final s0 (block ++ [leave_with h]) in
  (live (fst s) = false /\ alarm (fst s) = None /\ released (fst s) = 1%nat /\
   snd s = snd (final s0 block)) /\
  (forall c r, In (c, r) (wait_log s post) -> r = c) /\
  (live (fst (final s post)) = false /\ alarm (fst (final s post)) = None /\
   released (fst (final s post)) = 1%nat) /\
  snd (final s post) = snd s + bodies post /\
  exit_log s0 (block ++ [leave_with h]) =
    exit_log s0 block ++ [match h with Raised _ => true | _ => false end].
Proof. exact with_block. Qed.

(* For every operation list and every state: the i-th __exit__ lets an
   exception out of the with-statement iff it received one. *)
Theorem C16_exit_never_swallows : forall ops s,
  exit_log s ops = map is_raised (exit_infos ops).
Proof. exact exit_log_spec. Qed.

(* For every operation list: the handle is released once if free() or an
   __exit__ (with or without exception) occurs at all and never otherwise; the
   object is live exactly until the first of them. *)
Theorem C16_released_once : forall p t0 ops,
  let d := fst (final (create p t0, t0) ops) in
  released d = (if existsb is_free ops then 1 else 0)%nat /\
  live d = negb (existsb is_free ops).
Proof. exact released_once. Qed.

(* Period conversion, model level: any real (rational) number of microseconds
   within half a microsecond of the integer n converts to exactly n ... *)
Theorem C16_period_whole_us : forall (n : Z) (P : Q),
  (Qabs (P * inject_Z 1000000 - inject_Z n) < 1 # 2)%Q -> period_us P = n.
Proof. exact period_whole_us. Qed.

(* ... and the constructor, given such a P of at least 1 ms, builds the object
   all theorems above speak about; below 1 ms it raises. *)
Theorem C16_constructor : forall (n : Z) (P : Q) (t0 : Z),
  ((1 # 1000 <= P)%Q ->
   (Qabs (P * inject_Z 1000000 - inject_Z n) < 1 # 2)%Q ->
   create_opt P t0 = Some (create n t0)) /\
  (create_opt P t0 = None <-> (P < 1 # 1000)%Q).
Proof.
  exact (fun n P t0 => conj (create_from_seconds n P t0) (create_opt_rejects P t0)).
Qed.

(* __enter__ returns the object itself and changes nothing: not the object
   (in particular not its expiry: the grid is NOT re-anchored at the instant the
   with-block is entered), not the HAL's alarm, not the clock -- in every state,
   live or released. *)
Theorem C16_enter_changes_nothing :
  (forall d, enter d = (d, true)) /\ (forall s, step s Enter = s).
Proof. exact (conj enter_is_identity step_enter). Qed.

(* Hence __enter__ is invisible wherever and however often it occurs, in ANY
   operation list (with releases or not) from ANY state: removing every Enter
   changes neither the final object and clock, nor the log of the waits, nor
   what comes out of the __exit__s; the snapshot an observer takes right after
   an __enter__ is the one before it; every __enter__ returns the object. *)
Theorem C16_enter_transparent : forall s ops,
  final s (without_enter ops) = final s ops /\
  wait_log s (without_enter ops) = wait_log s ops /\
  exit_log s (without_enter ops) = exit_log s ops /\
  snaps s (Enter :: ops) = snap_of s :: snaps s ops /\
  enter_log s ops = map (fun _ => true) (filter is_enter ops).
Proof.
  exact (fun s ops => conj (final_without_enter ops s) (conj (wait_log_without_enter ops s)
           (conj (exit_log_without_enter ops s) (conj (snaps_enter s ops) (enter_log_spec ops s))))).
Qed.

(* The grid under ANY use that does not release the object -- bodies, waits and
   __enter__ in any order and number: set-up work before the with-block is
   entered, several bodies or none between two waits, the block entered twice
   ...: the (i+1)-th wait returns at max(t_call, t0 + (i+1)*p) with t0 the
   instant of CONSTRUCTION: never early, exactly on the grid point when called
   by then, at once when called later. *)
Theorem C16_any_use_on_grid : forall p t0 ops i c r,
  no_release ops = true ->
  nth_error (wait_log (create p t0, t0) ops) i = Some (c, r) ->
  r = Z.max c (grid t0 p (S i)) /\ grid t0 p (S i) <= r /\
  (c <= grid t0 p (S i) -> r = grid t0 p (S i)) /\
  (grid t0 p (S i) <= c -> r = c).
Proof. exact any_use_on_grid. Qed.

(* ... and after it the alarm the HAL holds is the grid point after the last
   wait, the object is live, its period unchanged, nothing released. *)
Theorem C16_any_use_expiry : forall p t0 ops,
  no_release ops = true ->
  let d := fst (final (create p t0, t0) ops) in
  expiry d = grid t0 p (S (length (wait_log (create p t0, t0) ops))) /\
  alarm d = Some (expiry d) /\ live d = true /\ period d = p /\ released d = 0%nat.
Proof. exact any_use_expiry. Qed.

(* `d = NotifierDelay(P)` at t0; set-up work of ANY duration; `with d:` around
   the loop: the (i+1)-th wait returns at max(t_call, t0 + (i+1)*p) -- the grid
   of the construction instant, not of the instant the block is entered; and
   (non-empty loop) log, object and clock are exactly those of the plain loop
   whose first body is longer by the set-up time, so every theorem about
   [sched] above speaks about this use too. *)
Theorem C16_entered_late : forall p t0 setup,
  (forall bs i c r,
     nth_error (wait_log (create p t0, t0) (entered_late setup bs)) i = Some (c, r) ->
     r = Z.max c (grid t0 p (S i)) /\ grid t0 p (S i) <= r /\
     (c <= grid t0 p (S i) -> r = grid t0 p (S i)) /\
     (grid t0 p (S i) <= c -> r = c)) /\
  (forall b bs,
     wait_log (create p t0, t0) (entered_late setup (b :: bs)) =
       wait_log (create p t0, t0) (sched ((setup + b) :: bs)) /\
     final (create p t0, t0) (entered_late setup (b :: bs)) =
       final (create p t0, t0) (sched ((setup + b) :: bs))).
Proof.
  exact (fun p t0 setup => conj (entered_late_on_grid p t0 setup)
                                (entered_late_is_sched p t0 setup)).
Qed.

(* ------------------------------------------------------------------ *)
(* Release while a wait() is in progress (two threads).                *)

(* The two-thread model extends the sequential one: a sequential use, seen as
   a history in which each wait() runs its two halves with nothing in between,
   ends in the same object at the same time, with the same log and no
   exception -- so every theorem above speaks about these histories. *)
Theorem C16_two_threads_extend_sequential : forall p t0 ops,
  let s0 := cinit (create p t0) t0 in
  crun s0 (seq_cops ops) =
    mkC (fst (final (create p t0, t0) ops)) (snd (final (create p t0, t0) ops)) None false /\
  clog s0 (seq_cops ops) =
    map (fun r : Z * Z => (fst r, snd r, false)) (wait_log (create p t0, t0) ops).
Proof.
  exact (fun p t0 ops => conc_extends_seq ops (cinit (create p t0) t0) eq_refl (create_rel_inv p t0)).
Qed.

(* In ANY history of the two threads -- releases anywhere, also between the
   halves of a wait(), repeated, well bracketed or not -- no wait() is ever left
   by an exception. *)
Theorem C16_wait_never_raises : forall p t0 h c t e,
  In (c, t, e) (clog (cinit (create p t0) t0) h) -> e = false.
Proof. exact conc_never_raises. Qed.

(* In ANY such history the handle is released exactly once if some thread
   releases at all (never a second time, also not by the second half of a wait()
   that was in progress), never otherwise; the object is live exactly until
   then; once released the HAL holds no alarm (the interrupted wait() does not
   re-arm the dead handle). *)
Theorem C16_two_threads_released_once : forall p t0 h,
  let d := c_obj (crun (cinit (create p t0) t0) h) in
  released d = (if existsb crel h then 1 else 0)%nat /\
  live d = negb (existsb crel h) /\
  (existsb crel h = true -> alarm d = None).
Proof. exact conc_released_once. Qed.

(* THE SHUTDOWN.  After ANY history [pre] that leaves the object live and no
   wait() in progress, the loop thread calls wait() at clock c (however far
   ahead its grid point is); while it is inside the HAL call the other thread
   lets any time pass ([mid]: bodies, __enter__), then releases the object
   ([rel]: free(), __del__, __exit__ with or without an exception), possibly
   several times ([zs]); then the HAL call returns.  Then:
   (1) that wait() is left at the instant of the release, c + the time that
       passed -- not at its grid point --, by returning, not by an exception;
   (2) the clock is that instant;  (3) the object has dropped the handle, the
       HAL holds no alarm, the handle has been released exactly once;
   (4) no wait() is in progress, the history has not left the model;
   (5) whatever follows ([post], by both threads): every wait() is left at the
       instant it is called, without exception;  (6) and it stays released,
       exactly once, without alarm. *)
Theorem C16_release_during_wait : forall p t0 pre mid rel zs post,
  let s0 := cinit (create p t0) t0 in
  let s1 := crun s0 pre in
  let h := pre ++ [WaitBegin] ++ mid ++ [Other rel] ++ zs ++ [WaitEnd] in
  let s := crun s0 h in
  c_pend s1 = None -> live (c_obj s1) = true ->
  forallb cquiet mid = true -> is_free rel = true -> forallb cinstant zs = true ->
  clog s0 h = clog s0 pre ++ [(c_now s1, c_now s1 + cbodies mid, false)] /\
  c_now s = c_now s1 + cbodies mid /\
  (live (c_obj s) = false /\ alarm (c_obj s) = None /\ released (c_obj s) = 1%nat) /\
  c_pend s = None /\ c_outside s = c_outside s1 /\
  (forall c t e, In (c, t, e) (clog s post) -> t = c /\ e = false) /\
  (live (c_obj (crun s post)) = false /\ alarm (c_obj (crun s post)) = None /\
   released (c_obj (crun s post)) = 1%nat).
Proof. exact interrupted_wait. Qed.

(* While nobody releases, what the other thread does during a wait() does not
   disturb the grid: in ANY well-bracketed release-free history the (i+1)-th
   wait() is left, without exception, at max(c', t0 + (i+1)*p), c' being the
   instant at which its second half runs (= the call time of the (i+1)-th wait
   of the sequential use [lin h]): never before the grid point ... *)
Theorem C16_two_threads_on_grid : forall p t0 h i c t e,
  cwf false h = true -> existsb crel h = false ->
  nth_error (clog (cinit (create p t0) t0) h) i = Some (c, t, e) ->
  e = false /\ grid t0 p (S i) <= t /\
  exists c', nth_error (wait_log (create p t0, t0) (lin h)) i = Some (c', t) /\
             t = Z.max c' (grid t0 p (S i)).
Proof. exact conc_any_use_on_grid. Qed.

(* ... and afterwards the alarm is the grid point after the last wait(). *)
Theorem C16_two_threads_expiry : forall p t0 h,
  cwf false h = true -> existsb crel h = false ->
  let s := crun (cinit (create p t0) t0) h in
  expiry (c_obj s) = grid t0 p (S (length (clog (cinit (create p t0) t0) h))) /\
  alarm (c_obj s) = Some (expiry (c_obj s)) /\ live (c_obj s) = true /\
  period (c_obj s) = p /\ released (c_obj s) = 0%nat.
Proof. exact conc_any_use_expiry. Qed.

(* ------------------------------------------------------------------ *)
(* Non-vacuity. *)

(* period 20 ms, built at t0 = 0.5 s; bodies 5 ms, 50 ms (overrun), 1 ms,
   1 ms, 20 ms, 0: the second wait is 30 ms late, the third still 11 ms late,
   the fourth is back on the original grid (580 ms = t0 + 4*20 ms). *)
Example C16_nv_log :
  wait_log (create 20000 500000, 500000) (sched [5000; 50000; 1000; 1000; 20000; 0])
  = [(505000, 520000); (570000, 570000); (571000, 571000); (572000, 580000);
     (600000, 600000); (600000, 620000)].
Proof. vm_compute. reflexivity. Qed.

(* the hypotheses of C16_catches_up hold on it with j = 1, k = 3 *)
Example C16_nv_catches_up :
  let log := wait_log (create 20000 500000, 500000) (sched [5000; 50000; 1000; 1000; 20000; 0]) in
  nth_error log 1 = Some (570000, 570000) /\ grid 500000 20000 2 < 570000 /\
  nth_error log 2 = Some (571000, 571000) /\ grid 500000 20000 3 < 571000 /\
  nth_error log 3 = Some (572000, 580000) /\ 572000 <= grid 500000 20000 4 /\
  grid 500000 20000 4 = 580000.
Proof. vm_compute. repeat split; intro; discriminate. Qed.

(* free twice, then leave the with-block, with waits in between *)
Example C16_nv_freed :
  let s0 := (create 20000 500000, 500000) in
  wait_log s0 ([Body 1000; Wait; Body 3000; Free; Wait; Free; Body 7000; Wait; Exit None])
  = [(501000, 520000); (523000, 523000); (530000, 530000)] /\
  released (fst (final s0 [Body 1000; Wait; Body 3000; Free; Wait; Free; Body 7000; Wait; Exit None])) = 1%nat.
Proof. vm_compute. split; reflexivity. Qed.

(* a with-block of two iterations left by KeyboardInterrupt while the next
   alarm (t0 + 3*20 ms) is still 15 ms away; a wait 1 ms later returns at once
   (had the notifier stayed armed it would have blocked until 560000), the
   later explicit free() releases nothing more, the exception came out *)
Example C16_nv_with_block :
  let s0 := (create 20000 500000, 500000) in
  let ops := [Body 5000; Wait; Body 20000; Wait; Body 5000] ++ [leave_with (Raised KeyboardInt)]
             ++ [Body 1000; Wait; Free; Wait] in
  wait_log s0 ops = [(505000, 520000); (540000, 540000); (546000, 546000); (546000, 546000)] /\
  snaps s0 ops = [(520000, Some 540000, 0%nat); (540000, Some 560000, 0%nat); (545000, None, 1%nat);
                  (546000, None, 1%nat); (546000, None, 1%nat); (546000, None, 1%nat)] /\
  exit_log s0 ops = [true].
Proof. vm_compute. repeat split; reflexivity. Qed.

(* period 20 ms, built at t0 = 0.5 s, the with-block entered 7 ms later, bodies
   5 ms, 50 ms (overrun), 1 ms, 1 ms: the first wait returns at t0 + 20 ms
   (NOT 20 ms after the entry, 527000), the fourth at t0 + 4*20 ms; the HAL's
   alarm is untouched by the entry; the block is then left by an exception and
   a later wait returns at once.  Second: entered 30 ms (> one period) after
   construction: the first wait is late and returns at once, the second at
   t0 + 2*20 ms. *)
Example C16_nv_entered_late :
  let s0 := (create 20000 500000, 500000) in
  let ops := entered_late 7000 [5000; 50000; 1000; 1000] in
  no_release ops = true /\
  wait_log s0 ops = [(512000, 520000); (570000, 570000); (571000, 571000); (572000, 580000)] /\
  snaps s0 (ops ++ [leave_with (Raised RuntimeErr); Body 100; Wait])
    = [(507000, Some 520000, 0%nat);
       (520000, Some 540000, 0%nat); (570000, Some 560000, 0%nat); (571000, Some 580000, 0%nat);
       (580000, Some 600000, 0%nat); (580000, None, 1%nat); (580100, None, 1%nat)] /\
  enter_log s0 ops = [true] /\
  wait_log s0 (entered_late 30000 [0; 1000]) = [(530000, 530000); (531000, 540000)].
Proof. vm_compute. repeat split; reflexivity. Qed.

(* the double nearest to 0.001001 s is 4616297704445815 / 2^62, just BELOW
   1001 us: it is within half a microsecond of 1001, rounds to 1001, and the
   constructor accepts it -- while truncation (the code before the D8 repair)
   gave 1000, putting the k-th wait k microseconds before t0 + k*P. *)
Example C16_nv_period :
  let P := (4616297704445815 # 4611686018427387904)%Q in
  (Qabs (P * inject_Z 1000000 - inject_Z 1001) < 1 # 2)%Q /\ (1 # 1000 <= P)%Q /\
  (P * inject_Z 1000000 < inject_Z 1001)%Q /\
  period_us P = 1001 /\ period_us_int P = 1000 /\
  create_opt P 0 = Some (create 1001 0).
Proof. vm_compute. repeat split; try reflexivity; intro; discriminate. Qed.

Example C16_nv_rejected : create_opt (999 # 1000000) 0 = None.
Proof. reflexivity. Qed.

(* period 20 ms, built at t0 = 0.5 s.  One iteration on the grid; the second
   wait() is called at 523 ms (grid point 540 ms); 4 ms later, while it is
   blocked, the other thread calls free(): the wait() is left at 527 ms, not at
   540 ms, by returning; later waits (in halves, whole) return at once; the
   with-block's __exit__ afterwards releases nothing more.  The hypotheses of
   C16_release_during_wait hold (pre, mid = 4 ms, rel = zs = free()). *)
Example C16_nv_release_during_wait :
  let s0 := cinit (create 20000 500000) 500000 in
  let pre := [Other (Body 5000); WaitBegin; WaitEnd; Other (Body 3000)] in
  let h := pre ++ [WaitBegin] ++ [Other (Body 4000)] ++ [Other Free] ++ [Other Free] ++ [WaitEnd] in
  let post := [Other (Body 100); WaitBegin; Other (Body 50); WaitEnd; Other Wait; Other (Exit None)] in
  c_pend (crun s0 pre) = None /\ live (c_obj (crun s0 pre)) = true /\
  clog s0 (h ++ post) = [(505000, 520000, false); (523000, 527000, false);
                         (527100, 527100, false); (527150, 527150, false)] /\
  csnaps s0 (h ++ post) = [(520000, Some 540000, 0%nat); (527000, None, 1%nat); (527000, None, 1%nat);
                           (527000, None, 1%nat); (527150, None, 1%nat); (527150, None, 1%nat);
                           (527150, None, 1%nat)] /\
  c_outside (crun s0 (h ++ post)) = false.
Proof. vm_compute. repeat split; reflexivity. Qed.

(* "without exception" is not vacuous: the second half of wait() IS left by an
   exception when it is given None as the handle -- which is what re-reading
   self._notifier after the release yields, instead of the handle the first half
   had read *)
Example C16_nv_none_handle_raises :
  let d := free (create 20000 500000) in
  snd (wait_end d (live d) 527000) = true /\ snd (wait_end d true 527000) = false.
Proof. vm_compute. split; reflexivity. Qed.

(* no release: while the loop thread is inside its second wait() the other
   thread spends 4 ms and enters a with-block on the object; the wait() is left
   on its grid point 540 ms and the next alarm is 560 ms *)
Example C16_nv_two_threads_on_grid :
  let s0 := cinit (create 20000 500000) 500000 in
  let h := [Other (Body 5000); WaitBegin; WaitEnd; Other (Body 3000); WaitBegin; Other (Body 4000);
            Other Enter; WaitEnd; Other (Body 30000); WaitBegin; Other (Body 1000); WaitEnd] in
  cwf false h = true /\ existsb crel h = false /\
  clog s0 h = [(505000, 520000, false); (523000, 540000, false); (570000, 571000, false)] /\
  lin h = [Body 5000; Wait; Body 3000; Body 4000; Enter; Wait; Body 30000; Body 1000; Wait] /\
  alarm (c_obj (crun s0 h)) = Some 580000.
Proof. vm_compute. repeat split; reflexivity. Qed.

(* ---- the float part of the constructor: `round(delay_period * 1e6)` in IEEE doubles (Delay/FloatPeriod.v) --------------
   For every period of a whole number z of microseconds from 1 ms up to 2 s, written as the double nearest to z / 10^6
   (what the literal 0.02, 0.001001 ... is), the expression yields exactly z: the model's integer period P of the theorems
   above IS what the float code computes.  (A sweep of 2 000 000 doubles by vm_compute over the kernel's primitive floats,
   lifted to the quantified statement; above 2 s the statement is not proved.) *)
Theorem C16_period_in_microseconds_is_exact : forall z : Z, (1000 <= z < 2001000)%Z -> okz z = true.
Proof. exact round_is_exact. Qed.
(* non-vacuity / what the statement excludes: truncation instead of rounding (the pre-fix code, D7) loses a microsecond *)
Example C16_nv_truncation_is_not_exact : okt 1001 = false /\ okz 1001 = true.
Proof. exact truncation_loses_a_microsecond. Qed.

Print Assumptions C16_expiry_on_grid.
Print Assumptions C16_call_times.
Print Assumptions C16_never_early.
Print Assumptions C16_exact_when_on_time.
Print Assumptions C16_catches_up.
Print Assumptions C16_lateness_step.
Print Assumptions C16_catch_up_bound.
Print Assumptions C16_freed.
Print Assumptions C16_with_block.
Print Assumptions C16_exit_never_swallows.
Print Assumptions C16_released_once.
Print Assumptions C16_period_whole_us.
Print Assumptions C16_constructor.
Print Assumptions C16_enter_changes_nothing.
Print Assumptions C16_enter_transparent.
Print Assumptions C16_any_use_on_grid.
Print Assumptions C16_any_use_expiry.
Print Assumptions C16_entered_late.
Print Assumptions C16_two_threads_extend_sequential.
Print Assumptions C16_wait_never_raises.
Print Assumptions C16_two_threads_released_once.
Print Assumptions C16_release_during_wait.
Print Assumptions C16_two_threads_on_grid.
Print Assumptions C16_two_threads_expiry.
Print Assumptions C16_period_in_microseconds_is_exact.
