(* C06 -- Component lifecycle: setup once, on_enable/on_disable bracket every execute.

   All statements are about [spec_sites c ts], the call sequence that C05/C07 prove the
   robot makes, for EVERY layout [c] and EVERY finite sequence [ts] of driver-station
   words (mode changes on consecutive wake-ups, direct switches between enabled modes,
   endCompetition in any mode).  Statements only. *)
From Coq Require Import ZArith List Bool.
From RV Require Import Robot.Model Robot.Proofs Robot.Loop Robot.Lifecycle Robot.Examples.
Import ListNotations.
Open Scope Z_scope.

Section C06.
Variable c : cfg.

(* setup() of every component that has one: exactly once, all of them before any
   other callback, none later *)
Theorem C06_setup_once_first : forall ts,
  spec_sites c ts = startup_sites c ++ ticks_sites c None ts /\
  NoDup (startup_sites c) /\
  (forall i, In (SSetup i) (startup_sites c) <-> (i < ncomp c)%nat /\ has_setup c i = true) /\
  (forall s, In s (startup_sites c) -> is_setup s = true) /\
  (forall s, In s (ticks_sites c None ts) -> is_setup s = false).
Proof. exact (setup_once_first c). Qed.

(* the startup program creates and injects everything before the first setup():
   it consists of the setup() calls only (injection is C08's theorem) *)
Theorem C06_startup_is_only_setups : psites (startup c) = startup_sites c.
Proof. exact (psites_startup c). Qed.

(* entering autonomous or teleop: every component's on_enable() in declaration order,
   then the mode's init hook, then (autonomous) the selected mode's on_enable, and only
   then the first pass with its execute() calls *)
Theorem C06_enable_before_mode :
  enter_sites c Teleop = map SOnEnable (filter (has_enable c) (seq 0 (ncomp c))) ++ [SInit Teleop]
  /\ enter_sites c Auto = map SOnEnable (filter (has_enable c) (seq 0 (ncomp c))) ++ [SInit Auto]
                          ++ (if has_auto c then [SAutoEnable] else []).
Proof. exact (conj eq_refl eq_refl). Qed.

(* leaving them: (autonomous: the mode's on_disable, then) every component's
   on_disable() before any callback of the next mode; and again on entering disabled *)
Theorem C06_disable_on_leave :
  leave_sites c Teleop = map SOnDisable (filter (has_disable c) (seq 0 (ncomp c)))
  /\ leave_sites c Auto = (if has_auto c then [SAutoDisable] else []) ++ map SOnDisable (filter (has_disable c) (seq 0 (ncomp c)))
  /\ enter_sites c Disabled = map SOnDisable (filter (has_disable c) (seq 0 (ncomp c))) ++ [SInit Disabled]
  /\ (forall m en au te, stays m en au te = false ->
        snd (tick_sites c (Some m) (Tick en au te)) =
        leave_sites c m ++ enter_sites c (dispatch en au te) ++ iter_sites c (dispatch en au te))
  /\ (forall m, snd (tick_sites c (Some m) End) = leave_sites c m).
Proof.
  exact (conj eq_refl (conj eq_refl (conj eq_refl (conj (tick_sites_change c) (fun m => eq_refl))))).
Qed.

(* consequently: along the whole call sequence, execute() of a component that has an
   on_enable() only ever runs after that on_enable() and before its next on_disable()
   ([brk] replays the sequence with one flag per component and fails on such an execute) *)
Theorem C06_execute_bracketed : forall ts, brk c (fun _ => false) (spec_sites c ts) <> None.
Proof. exact (execute_bracketed c). Qed.
End C06.

(* Non-vacuity: the checker does reject a sequence with an unbracketed execute,
   and the example history switches teleop -> autonomous -> test directly *)
Example C06_nv_checker_rejects :
  brk (ex_cfg true) (fun _ => false) [SOnEnable 0; SExecute 0; SOnDisable 0; SExecute 0] = None.
Proof. reflexivity. Qed.
Example C06_nv_direct_switches :
  snd (tick_sites (ex_cfg true) (Some Teleop) (Tick true true false))
  = [SOnDisable 0; SOnEnable 0; SOnEnable 1; SInit Auto; SAutoEnable; SAutoIter; SPeriodic Teleop;
     SExecute 0; SExecute 1; SFeedback 0; SFeedback 1; SFeedback 2; SRobotPeriodic].
Proof. reflexivity. Qed.

Print Assumptions C06_setup_once_first.
Print Assumptions C06_startup_is_only_setups.
Print Assumptions C06_enable_before_mode.
Print Assumptions C06_disable_on_leave.
Print Assumptions C06_execute_bracketed.
