(* C03 -- State functions get correct tm, state_tm, initial_call in any parameter order.

   The call adapter `lambda self, tm, state_tm, initial_call: f(<declared>)` is
   modelled by [adapter]; which signatures are accepted is C12's business
   (Defs.validate_sig).  initial_call is characterised against a reference that
   only looks at the observable trace: [pending] marks a state as "entered and
   not called since" at every next_state() invocation (EvEnter: by engage(), by a
   state function, by expiry of the predecessor, by the restart of the cycle) and
   at every fall-back to the default state (EvFallback); a call must pass
   initial_call = pending and clears it.  Statements only. *)
From Coq Require Import ZArith List Bool.
From RecordUpdate Require Import RecordSet.
Import RecordSetNotations.
From RV Require Import SM.Model SM.Basics SM.Engage SM.Invariants SM.Stop SM.Timing SM.Args SM.Check SM.Examples.
Import ListNotations.
Open Scope Z_scope.

(* whatever subset and order of the optional parameters is declared, the i-th
   actual argument is the value of the i-th declared parameter *)
Theorem C03_adapter : forall ps tm stm init i p,
  nth_error ps i = Some p ->
  nth_error (adapter ps tm stm init) i = Some (arg_value tm stm init p).
Proof. exact adapter_nth. Qed.

Theorem C03_adapter_arity : forall ps tm stm init, length (adapter ps tm stm init) = length ps.
Proof. exact adapter_length. Qed.

Section C03.
Variable sh : shape.
Variable body : nat -> name -> Z -> Z -> bool -> list action.

(* initial_call is True on exactly the first call after each entry and False on
   every consecutive call: for EVERY history and every user code, with or without
   the usage contract; [agree r m] ties the reference to the machine so the
   statement composes over histories *)
Theorem C03_initial_call_iff_first_after_entry : forall fuel h r m, agree r m ->
  exists r', accepts r (concat (snd (run sh body fuel m h))) r' /\ agree r' (fst (run sh body fuel m h)).
Proof. exact (run_accepts sh body). Qed.

Theorem C03_initially_every_state_is_pending : forall durs, agree (fun _ => true) (init_sm durs).
Proof. exact agree_init. Qed.

(* tm restarts at zero on the first iteration after engage() on a stopped machine *)
Theorem C03_tm_starts_at_zero : forall nested m now init force,
  engaged m = false -> (cur m = None \/ at_default sh m = true) -> clk m <= now ->
  let tgt := match init with Some s => s | None => sh_first sh end in
  is_state sh tgt = true -> is_default sh tgt = false ->
  let m1 := fst (engage sh m init force) in
  snd (engage sh m init force) = [EvEnter tgt] /\
  exists m2 e,
    exec_step sh body nested m1 now =
    (m2, EvBk tgt (now + 0) (now + (0 + duration_of sh m tgt)) :: EvCall tgt 0 0 true true :: e).
Proof. exact (restart_fresh sh body). Qed.

(* inside an engagement tm is the clock reading minus the machine's origin, and
   state_tm is tm minus the state's entry instant: both advance exactly with the
   clock over consecutive calls (the origin moves only at a restart, see C02) *)
Theorem C03_times_track_the_clock : forall nested m now s,
  engaged m = true -> cur m = Some s -> ran (sdat m s) = true ->
  now - start m <= st_exp (sdat m s) -> requested_or_must sh m s -> clk m <= now ->
  exec_step sh body nested m now =
  finish_call sh body nested (m <| clk := now |>) s (now - start m) (now - start m - st_start (sdat m s)) false [].
Proof. exact (holds_until_expiry_eq sh body). Qed.

(* both are non-negative, at every call of every history inside the contract *)
Theorem C03_times_nonneg : forall fuel h m, wf_shape sh -> Inv sh m ->
  ok (trace_of (snd (run sh body fuel m h))) ->
  forall s tm stm i e, In (EvCall s tm stm i e) (trace_of (snd (run sh body fuel m h))) ->
    0 <= stm /\ (e = true -> 0 <= tm).
Proof. exact (fun fuel h m Hwf HI Hok => nonneg_in _ (proj2 (run_inv sh body Hwf fuel h m HI Hok))). Qed.
End C03.

(* Non-vacuity: the 16 parameter orders; the reference accepts the example trace
   (which re-enters states by engage, next_state, next_state_now, expiry, fallback) *)
Example C03_nv_orders : length all_param_orders = 16%nat /\ NoDup all_param_orders
  /\ adapter [PInitial; PTm] 7 3 true = [VB true; VZ 7].
Proof.
  split; [reflexivity|]. split; [|reflexivity].
  repeat (constructor; [cbn; intuition discriminate|]). constructor.
Qed.
Example C03_nv_reference_accepts :
  exists r', accepts (fun _ => true) ex_trace r' /\ map r' [0; 1; 2; 3]%nat = [false; false; false; false].
Proof. eexists. split; [vm_compute; reflexivity|]. reflexivity. Qed.
Example C03_nv_reference_rejects_wrong_flag :
  ref_run (fun _ => true) [EvEnter 0%nat; EvCall 0%nat 0 0 true true; EvCall 0%nat 1 1 true true] = None.
Proof. reflexivity. Qed.

Print Assumptions C03_adapter.
Print Assumptions C03_adapter_arity.
Print Assumptions C03_initial_call_iff_first_after_entry.
Print Assumptions C03_initially_every_state_is_pending.
Print Assumptions C03_tm_starts_at_zero.
Print Assumptions C03_times_track_the_clock.
Print Assumptions C03_times_nonneg.
