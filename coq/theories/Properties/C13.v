(* C13 -- AutonomousStateMachine runs once per enable and never loops.

   [sh_auto sh = true] selects AutonomousStateMachine: its done() also withdraws
   the engage request and turns its latch [auto_on] off; on_iteration engages and
   executes only while the latch is on and then sets the latch to is_executing.
   Statements only. *)
From Coq Require Import ZArith List Bool.
From RecordUpdate Require Import RecordSet.
Import RecordSetNotations.
From RV Require Import SM.Model SM.Basics SM.Engage SM.Invariants SM.Stop SM.Timing SM.Auto SM.Drift SM.Check SM.Examples.
Import ListNotations.
Open Scope Z_scope.

Section C13.
Variable sh : shape.
Variable body : nat -> name -> Z -> Z -> bool -> list action.

(* after on_enable(), on_iteration() runs the machine exactly as if engage() were
   called before the iteration *)
Theorem C13_as_if_engaged : forall fuel m now, auto_on m = true ->
  step sh body fuel m (AOnIteration now) =
  (let '(m1, e1) := step sh body fuel m (Engage None false) in
   let '(m2, e2) := step sh body fuel m1 (Execute now) in
   (m2 <| auto_on := engaged m2 |>, e1 ++ e2)).
Proof. exact (auto_iteration_as_if_engaged sh body). Qed.

(* once done() has been invoked in an iteration -- by a state function at any
   nesting depth, or because the last timed state expired -- the iteration ends
   with the machine stopped and the latch off: it never cycles back *)
Theorem C13_done_latches_off : forall fuel m now,
  sh_auto sh = true -> auto_on m = true ->
  ok (snd (step sh body fuel m (AOnIteration now))) ->
  In EvDone (snd (step sh body fuel m (AOnIteration now))) ->
  let m' := fst (step sh body fuel m (AOnIteration now)) in
  auto_on m' = false /\ engaged m' = false.
Proof. exact (auto_done_latches_off sh body). Qed.

(* ... and this needs no usage contract at all: whatever the state functions do after
   done() (more transitions, next_state_now(), done() again), for every user code *)
Theorem C13_done_latches_off_for_any_user_code : forall fuel m now,
  sh_auto sh = true -> auto_on m = true ->
  In EvDone (snd (step sh body fuel m (AOnIteration now))) ->
  let m' := fst (step sh body fuel m (AOnIteration now)) in
  auto_on m' = false /\ engaged m' = false.
Proof. exact (auto_done_latches_off_any sh body). Qed.

(* the expiry of the last timed state never restarts an autonomous machine *)
Theorem C13_last_state_expiry_finishes : forall nested m now s dc,
  sh_auto sh = true ->
  engaged m = true -> cur m = Some s -> ran (sdat m s) = true ->
  st_exp (sdat m s) < now - start m ->
  lookup sh s = Some dc -> d_timed dc = true -> d_next dc = None -> clk m <= now ->
  exists e, snd (exec_step sh body nested m now) = EvDone :: e.
Proof. exact (fun nested m now s dc Ha => expiry_finishes sh body nested m now s dc (or_intror Ha)). Qed.

(* from then on no state function is called -- not even a default state -- and
   is_executing stays False, for every sequence of on_iteration/on_disable calls,
   until the next on_enable() *)
Theorem C13_nothing_until_enable : forall fuel h m, sh_auto sh = true ->
  auto_on m = false -> engaged m = false -> forallb auto_idle_op h = true ->
  let '(m', es) := run sh body fuel m h in
  auto_on m' = false /\ engaged m' = false /\ Forall (fun e => e = EvDone) (concat es).
Proof. exact (auto_off_until_enable sh body). Qed.

Theorem C13_off_is_noop : forall fuel m now, auto_on m = false ->
  step sh body fuel m (AOnIteration now) = (m, []).
Proof. exact (auto_off_noop sh body). Qed.

(* the next on_enable() starts again from the first state with tm at zero *)
Theorem C13_reenable_fresh : forall fuel m now, wf_shape sh -> sh_auto sh = true ->
  engaged m = false -> (cur m = None \/ at_default sh m = true) -> clk m <= now ->
  let m0 := fst (step sh body (S fuel) m AOnEnable) in
  let f := sh_first sh in
  auto_on m0 = true /\
  exists e, snd (step sh body (S fuel) m0 (AOnIteration now)) =
            EvEnter f :: EvBk f (now + 0) (now + (0 + duration_of sh m f)) :: EvCall f 0 0 true true :: e.
Proof. exact (fun fuel m now Hwf => auto_reenable_fresh sh body Hwf fuel m now). Qed.

(* on_disable() stops the machine immediately *)
Theorem C13_disable_stops : forall fuel m, sh_auto sh = true ->
  let m' := fst (step sh body fuel m AOnDisable) in
  snd (step sh body fuel m AOnDisable) = [EvDone] /\
  engaged m' = false /\ auto_on m' = false /\ should m' = false /\ cur m' = None /\ nt_cur m' = None.
Proof. exact (auto_disable_stops sh body). Qed.
End C13.

(* Non-vacuity: the example machine as an AutonomousStateMachine: a(4) -> b(2) -> end.
   Two autonomous periods; in each the machine runs a, b, finishes through done() and
   then ignores further iterations; the second period starts fresh. *)
Definition auto_hist : list op :=
  [ AOnEnable; AOnIteration 100; AOnIteration 103; AOnIteration 105; AOnIteration 106;
    AOnIteration 108; AOnIteration 109; AOnIteration 110; AOnDisable;
    AOnEnable; AOnIteration 200; AOnIteration 201; AOnDisable; AOnIteration 202 ].
Example C13_nv :
  wf_shape (ex_shape true) /\
  ok (concat (snd (run (ex_shape true) body0 8 ex_init auto_hist))) /\
  map (fun t => filter (fun e => match e with EvCall _ _ _ _ _ | EvDone => true | _ => false end) t)
      (snd (run (ex_shape true) body0 8 ex_init auto_hist))
  = [ []; [EvCall 0%nat 0 0 true true]; [EvCall 0%nat 3 3 false true]; [EvCall 1%nat 5 1 true true];
      [EvCall 1%nat 6 2 false true]; [EvDone; EvCall 3%nat 8 2 true false]; []; []; [EvDone];
      []; [EvCall 0%nat 0 0 true true]; [EvCall 0%nat 1 1 false true]; [EvDone]; [] ].
Proof.
  split; [apply wf_shapeb_sound; vm_compute; reflexivity|].
  split; [apply okb_ok; vm_compute; reflexivity|]. vm_compute. reflexivity.
Qed.

Print Assumptions C13_as_if_engaged.
Print Assumptions C13_done_latches_off.
Print Assumptions C13_done_latches_off_for_any_user_code.
Print Assumptions C13_last_state_expiry_finishes.
Print Assumptions C13_nothing_until_enable.
Print Assumptions C13_off_is_noop.
Print Assumptions C13_reenable_fresh.
Print Assumptions C13_disable_stops.
