(* C04 -- Stopping a StateMachine always goes through done() and resets it.

   [engaged] is is_executing, [nt_cur] is the current_state tunable (None = ''),
   EvDone is an invocation of done() (observable by overriding it).
   Statements only. *)
From Coq Require Import ZArith List Bool.
From RV Require Import SM.Model SM.Basics SM.Engage SM.Invariants SM.Stop SM.Timing SM.Auto SM.Check SM.Examples.
Import ListNotations.
Open Scope Z_scope.

Section C04.
Variable sh : shape.
Variable body : nat -> name -> Z -> Z -> bool -> list action.

(* whatever operation takes is_executing from True to False -- done(), on_disable(),
   an iteration in which engage() stopped being called outside a must_finish state,
   the expiry of the last timed state, a done() inside a state function at any
   nesting depth -- done() was invoked.  No contract needed, any machine state. *)
Theorem C04_stop_calls_done : forall fuel m o,
  engaged m = true -> engaged (fst (step sh body fuel m o)) = false ->
  In EvDone (snd (step sh body fuel m o)).
Proof. exact (stop_calls_done sh body). Qed.

(* done() / on_disable() stop the machine at once *)
Theorem C04_done_resets : forall m,
  engaged (done sh m) = false /\ cur (done sh m) = None /\ nt_cur (done sh m) = None.
Proof. exact (done_stops_now sh). Qed.

(* in every reachable state that is not executing and has no pending request,
   current_state is '' and the machine is at no state or at the default state *)
Theorem C04_stopped_status : forall fuel h m0 , wf_shape sh -> Inv sh m0 ->
  ok (trace_of (snd (run sh body fuel m0 h))) ->
  let m := fst (run sh body fuel m0 h) in
  engaged m = false -> should m = false ->
  nt_cur m = None /\ (cur m = None \/ at_default sh m = true).
Proof.
  exact (fun fuel h m0 Hwf HI Hok =>
    stopped_status sh _ (proj1 (run_inv sh body Hwf fuel h m0 HI Hok))).
Qed.

(* while regular states are running: is_executing is True and current_state names
   the machine's state, which is the one that runs next (C02_holds_until_expiry /
   C02_entered_runs_once) and is not the default state *)
Theorem C04_running_status : forall fuel h m0, wf_shape sh -> Inv sh m0 ->
  ok (trace_of (snd (run sh body fuel m0 h))) ->
  let m := fst (run sh body fuel m0 h) in
  engaged m = true ->
  exists s, cur m = Some s /\ nt_cur m = Some s /\ is_default sh s = false.
Proof.
  exact (fun fuel h m0 Hwf HI Hok =>
    running_status sh _ (proj1 (run_inv sh body Hwf fuel h m0 HI Hok))).
Qed.

(* after a stop no regular state function runs until engage() is called again *)
Theorem C04_nothing_until_engage : forall fuel h m, wf_shape sh ->
  Idle sh m -> forallb no_engage_op h = true ->
  ok (trace_of (snd (run sh body (S fuel) m h))) ->
  Idle sh (fst (run sh body (S fuel) m h)) /\
  forall s tm stm i e, In (EvCall s tm stm i e) (trace_of (snd (run sh body (S fuel) m h))) ->
    is_default sh s = true /\ e = false.
Proof.
  exact (fun fuel h m Hwf HI Hp Hok =>
    let H := idle_until_engage sh body Hwf fuel h m HI Hp Hok in
    conj (proj1 H) (default_calls_in sh _ (proj2 H))).
Qed.

(* the next engage() then starts at the first state, or at the requested
   initial_state, with initial_call True and tm restarting at zero *)
Theorem C04_restart_fresh : forall nested m now init force,
  engaged m = false -> (cur m = None \/ at_default sh m = true) -> clk m <= now ->
  let tgt := match init with Some s => s | None => sh_first sh end in
  is_state sh tgt = true -> is_default sh tgt = false ->
  let m1 := fst (engage sh m init force) in
  snd (engage sh m init force) = [EvEnter tgt] /\
  exists m2 e,
    exec_step sh body nested m1 now =
    (m2, EvBk tgt (now + 0) (now + (0 + duration_of sh m tgt)) :: EvCall tgt 0 0 true true :: e).
Proof. exact (restart_fresh sh body). Qed.
End C04.

(* Non-vacuity: in the example history the machine stops three times (no engage
   after a must_finish state, done() inside a state function, external done()),
   each time with EvDone, '' and not executing, and restarts fresh afterwards. *)
Example C04_nv_stops :
  let tr := snd (run (ex_shape false) ex_body 8 ex_init ex_hist) in
  In EvDone (nth 10 tr []) /\ In EvDone (nth 13 tr []) /\ nth 16 tr [] = [EvDone] /\
  (let m := fst (run (ex_shape false) ex_body 8 ex_init (firstn 11 ex_hist)) in
   engaged m = false /\ should m = false /\ nt_cur m = None /\ at_default (ex_shape false) m = true) /\
  nth 15 tr [] = [EvBk 0%nat 31 39; EvCall 0%nat 0 0 true true].
Proof. vm_compute. intuition. Qed.

Print Assumptions C04_stop_calls_done.
Print Assumptions C04_done_resets.
Print Assumptions C04_stopped_status.
Print Assumptions C04_running_status.
Print Assumptions C04_nothing_until_engage.
Print Assumptions C04_restart_fresh.
