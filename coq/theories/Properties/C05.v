(* C05 -- MagicRobot runs mode code, components, feedbacks, robotPeriodic in fixed order.

   Model: Robot.Model -- the framework code of magicrobot.py / selector.run() as
   guarded programs, executed over a history of loop wake-ups (one [Tick] = the
   driver-station word seen at that wake-up, [End] = endCompetition()).
   [spec_sites c ts] is the specification: the sequence of user callbacks.
   [raises]/[writes]/[fbval] are arbitrary user behaviour, per invocation.
   Statements only. *)
From Coq Require Import ZArith List Bool.
From RV Require Import Robot.Model Robot.Proofs Robot.Loop Robot.Lifecycle Robot.Examples Robot.Period.
From RV Require Delay.Model.
Import ListNotations.
Open Scope Z_scope.

Section C05.
Variable c : cfg.
Variable raises : nat -> bool.
Variable writes : nat -> list (nat * nat * Z).
Variable fbval : nat -> Z.

(* the robot makes exactly the specified calls, in the specified order, for every
   layout and every sequence of mode changes (FMS attached and staying attached: whatever raises;
   the fault-free case is the instance raises = fun _ => false of C07) *)
Theorem C05_calls_are_the_specified_sequence : forall ts, fms c = true -> fms_ticks_stay true ts = true -> setup_quiet c raises ->
  sites (snd (robot_run c raises writes fbval ts)) = spec_sites c ts
  /\ in_flight (fst (robot_run c raises writes fbval ts)) = false.
Proof. exact (fun ts => run_fms c raises writes fbval ts). Qed.

(* the specification of one loop pass, mode by mode: the mode's own code first,
   then execute() of every component in declaration order, then the feedbacks,
   then robotPeriodic *)
Theorem C05_iteration_order :
  iter_sites c Teleop = [SPeriodic Teleop] ++ map SExecute (seq 0 (ncomp c)) ++ map SFeedback (seq 0 (nfb c)) ++ [SRobotPeriodic]
  /\ iter_sites c Auto = (if has_auto c then [SAutoIter] else []) ++ (if teleop_in_auto c then [SPeriodic Teleop] else [])
                         ++ map SExecute (seq 0 (ncomp c)) ++ map SFeedback (seq 0 (nfb c)) ++ [SRobotPeriodic]
  /\ iter_sites c Disabled = [SPeriodic Disabled] ++ map SFeedback (seq 0 (nfb c)) ++ [SRobotPeriodic]
  /\ iter_sites c Test = [SPeriodic Test] ++ map SFeedback (seq 0 (nfb c)) ++ [SRobotPeriodic].
Proof. exact (conj eq_refl (conj eq_refl (conj eq_refl eq_refl))). Qed.

(* execute() of every component exactly once per teleop/autonomous pass, never in
   a disabled or test pass *)
Theorem C05_execute_once_when_enabled_never_otherwise : forall m i, (i < ncomp c)%nat ->
  count_occ site_eq_dec (iter_sites c m) (SExecute i) = if enabled_mode_b m then 1%nat else 0%nat.
Proof. exact (execute_per_iteration c). Qed.

(* one wake-up = one pass: staying in the mode runs exactly one pass of it; a mode
   change leaves the old mode, enters the new one and runs its first pass at once
   (which mode: startCompetition's dispatch; when a loop is left: its own test) *)
Theorem C05_one_pass_per_wakeup : forall m en au te,
  tick_sites c (Some m) (Tick en au te) =
  if stays m en au te then (Some m, iter_sites c m)
  else (Some (dispatch en au te), leave_sites c m ++ enter_sites c (dispatch en au te) ++ iter_sites c (dispatch en au te)).
Proof. exact (fun m en au te => eq_refl). Qed.

(* /robot/mode names the mode being run: entering a mode writes it first *)
Theorem C05_mode_written_on_entry : forall m,
  exists rest, enter c m = PSeq (PMode m) rest.
Proof. exact (fun m => match m with Disabled | Auto | Teleop | Test => ex_intro _ _ eq_refl end). Qed.
End C05.

(* Within a mode exactly one pass happens per control_loop_wait_time of FPGA time: the mode loop
   creates its NotifierDelay (period p microseconds) at entry time t0, runs a pass, calls wait(),
   and so on (the Delay model of C16: a schedule of pass durations [bs]).  Whenever no pass -- the
   first one includes the mode's entry code -- takes longer than the period, the wait after pass i
   returns, i.e. pass i+1 starts, exactly at t0 + (i+1)*p.  (Overruns: C16_catches_up.) *)
Theorem C05_one_iteration_per_period : forall p t0 bs, 0 <= p ->
  (forall i b, nth_error bs i = Some b -> 0 <= b <= p) ->
  forall i c r,
    nth_error (Delay.Model.wait_log (Delay.Model.create p t0, t0) (Delay.Model.sched bs)) i = Some (c, r) ->
    r = Delay.Model.grid t0 p (S i).
Proof. exact passes_on_grid. Qed.

(* The same with late wake-ups (the loop thread is rescheduled [late_i] us after its alarm):
   [bl] lists, per pass, its duration and the lateness of the wake-up that follows it.  Whatever
   the passes and wake-ups do, the alarm programmed by the i-th wait() is the grid point i+2 ... *)
Theorem C05_alarms_never_leave_the_grid : forall p t0 bl,
  map snd (jlog (Delay.Model.create p t0, t0) (jsched bl)) = alarms_from (t0 + p) p (length bl).
Proof. exact loop_alarms_on_grid. Qed.

Theorem C05_alarms_from_is_the_grid : forall e p n i, (i < n)%nat ->
  nth_error (alarms_from e p n) i = Some (Some (e + Z.of_nat (S i) * p)).
Proof. exact alarms_from_nth. Qed.

(* ... and as long as every pass plus the lateness of the wake-up before it fits in the period
   ([fits]), the i-th wake-up happens in the i-th grid cell, exactly [late_i] after its start:
   lateness never accumulates, one pass per period *)
Theorem C05_one_iteration_per_period_late_wakeups : forall p t0 bl, fits p 0 bl ->
  forall i c r a, nth_error (jlog (Delay.Model.create p t0, t0) (jsched bl)) i = Some (c, r, a) ->
  exists b l, nth_error bl i = Some (b, l) /\ r = Delay.Model.grid t0 p (S i) + l
              /\ a = Some (Delay.Model.grid t0 p (S (S i))).
Proof. exact wakes_in_their_cells. Qed.

Example C05_late_nv :
  fits 20000 0 [(3000, 4000); (9000, 6000); (14000, 0)]
  /\ jlog (Delay.Model.create 20000 100, 100) (jsched [(3000, 4000); (9000, 6000); (14000, 0)])
     = [(3100, 24100, Some 40100); (33100, 46100, Some 60100); (60100, 60100, Some 80100)].
Proof. split; [cbn; repeat split; discriminate | reflexivity]. Qed.

(* Non-vacuity: the example robot through disabled, teleop x2, autonomous, test, disabled, end;
   robotPeriodic sees /robot/mode = the running mode in every pass (also under faults) *)
Example C05_nv :
  map (fun e => match e with EvRP m _ _ => m | _ => None end)
      (filter (fun e => match e with EvRP _ _ _ => true | _ => false end) (snd (ex_run true)))
  = [Some Disabled; Some Teleop; Some Teleop; Some Auto; Some Test; Some Disabled]
  /\ sites (snd (ex_run true)) = spec_sites (ex_cfg true) ex_ticks
  /\ length (spec_sites (ex_cfg true) ex_ticks) = 53%nat.
Proof. vm_compute. repeat split. Qed.

Print Assumptions C05_calls_are_the_specified_sequence.
Print Assumptions C05_iteration_order.
Print Assumptions C05_execute_once_when_enabled_never_otherwise.
Print Assumptions C05_one_pass_per_wakeup.
Print Assumptions C05_mode_written_on_entry.
Print Assumptions C05_one_iteration_per_period.
Print Assumptions C05_alarms_never_leave_the_grid.
Print Assumptions C05_alarms_from_is_the_grid.
Print Assumptions C05_one_iteration_per_period_late_wakeups.
