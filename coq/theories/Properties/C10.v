(* C10 -- will_reset_to values never survive into the next control-loop iteration.

   [w_store w ci a] is attribute a of component ci; [marked c ci a = Some d] says it is a
   will_reset_to(d) attribute (inherited markers included: collect_resets walks the class
   and its bases; the harness generates both).  [writes k] are the assignments made by the
   k-th callback invocation -- teleopPeriodic, the autonomous mode, any component, any
   feedback getter.  Statements only. *)
From Coq Require Import ZArith List Bool.
From RV Require Import Robot.Model Robot.Proofs Robot.Loop Robot.Lifecycle Robot.Examples.
Import ListNotations.
Open Scope Z_scope.

Section C10.
Variable c : cfg.
Variable raises : nat -> bool.
Variable writes : nat -> list (nat * nat * Z).
Variable fbval : nat -> Z.

(* each will_reset_to attribute starts at its declared default *)
Theorem C10_defaults_at_start : forall ci a d, marked c ci a = Some d -> w_store (init_world c) ci a = d.
Proof. exact (init_store_defaults c). Qed.

(* after every teleop or autonomous pass -- whatever its callbacks assigned and whichever
   of them raised (FMS attached) -- every will_reset_to attribute holds its default again,
   and the robot is still running *)
Theorem C10_reset_after_enabled_iteration : forall m w, w_fms w = true -> enabled_mode m = true -> in_flight w = false ->
  let '(w', e) := denote c raises writes fbval (iteration c m) w in
  in_flight w' = false /\ forall ci a d, marked c ci a = Some d -> w_store w' ci a = d.
Proof. exact (iteration_resets c raises writes fbval). Qed.

(* the same for every pass that completes: the FMS is attached when it starts, OR no callback
   of the pass raises (the only passes that complete when the FMS is not attached) *)
Theorem C10_reset_after_every_completed_iteration : forall m w,
  (w_fms w = true \/ (forall i, (i < length (psites (iteration c m)))%nat -> raises (w_n w + i)%nat = false)) ->
  enabled_mode m = true -> in_flight w = false ->
  let '(w', e) := denote c raises writes fbval (iteration c m) w in
  in_flight w' = false /\ forall ci a d, marked c ci a = Some d -> w_store w' ci a = d.
Proof. exact (fun m w H => iteration_resets_calm c raises writes fbval m w (calm_iteration_intro c raises m w H)). Qed.

(* the reset comes after all execute() calls, the feedbacks and robotPeriodic *)
Theorem C10_reset_is_last : exists before,
  enabled_periodic c = PSeq before (PSeq (do_periodics c) (PSeq PReset PNop))
  /\ psites before = map SExecute (seq 0 (ncomp c)).
Proof. exact (ex_intro _ _ (conj eq_refl (psites_execs c))). Qed.

(* what a callback assigns is what every later execute() of the same pass sees: the store
   only changes by the callbacks' own assignments ... *)
Theorem C10_assignments_are_visible : forall s w,
  let '(w1, e) := invoke c raises writes s w in
  w_store w1 = apply_writes (writes (w_n w)) (w_store w).
Proof.
  exact (fun s w => match invoke c raises writes s w as r
                          return (let '(w1, e) := r in sites e = [s] /\ _) -> let '(w1, e) := r in _
                    with (w1, e) => fun H => proj1 (proj2 (proj2 (proj2 (proj2 H)))) end
                      (invoke_spec c raises writes s w)).
Qed.
(* ... and execute() is shown the store as it is at that moment *)
Theorem C10_execute_sees_current_values : forall i w, in_flight w = false ->
  snd (invoke c raises writes (SExecute i) w) = [EvExec i (snapshot c w)].
Proof. exact (execute_sees_store c raises writes). Qed.

(* other attributes of the component are never touched by the reset *)
Theorem C10_unmarked_untouched : forall st ci a, marked c ci a = None -> reset_store c st ci a = st ci a.
Proof. exact (reset_store_unmarked c). Qed.
Theorem C10_marked_reset : forall st ci a d, marked c ci a = Some d -> reset_store c st ci a = d.
Proof. exact (reset_store_marked c). Qed.
End C10.

(* Non-vacuity: in the example, execute() of component 0 assigns 99 to its will_reset_to(7)
   attribute and 5 to a plain attribute of component 1 during the first teleop pass: the
   second execute() of that pass sees both; in the next pass the marked one is 7 again and
   the plain one still 5 -- although two feedback getters raised in between (FMS attached) *)
Example C10_nv :
  filter (fun e => match e with EvExec _ _ => true | _ => false end) (firstn 25 (snd (ex_run true)))
  = [ EvExec 0 [[7; 0]; [0; 0]]; EvExec 1 [[99; 0]; [5; 0]];
      EvExec 0 [[7; 0]; [5; 0]]; EvExec 1 [[7; 0]; [5; 0]] ].
Proof. vm_compute. reflexivity. Qed.

Print Assumptions C10_defaults_at_start.
Print Assumptions C10_reset_after_enabled_iteration.
Print Assumptions C10_reset_after_every_completed_iteration.
Print Assumptions C10_reset_is_last.
Print Assumptions C10_assignments_are_visible.
Print Assumptions C10_execute_sees_current_values.
Print Assumptions C10_unmarked_untouched.
Print Assumptions C10_marked_reset.
