(* C19 -- Toggle flips once per press; debouncers and rate limiters fire once
   per period.  Statements only; every proof is [exact <lemma of Control.*>].

   Vocabulary (Control/Machine.v, Toggle.v, Debounce.v, Filter.v, Watchdog.v):
     [run step s h]   all results of the calls [h] made on an object in state [s]
     [out step s h o] the result of the call [o] made after the calls [h]
     [value p h]      the Toggle's value after the samples [h] (p = None: no
                      debounce; Some p: debounce period p)
     [deb_result p h now lvl]  ButtonDebouncer(period p).get() at clock [now],
                      button at [lvl], after the calls [h]
     [passes per byp h r]      PeriodicFilter(per, byp).filter(r) after records [h]
     [expired t0 h now], [warns t0 h now]  SimpleWatchdog(t0 us): isExpired() /
                      "printIfExpired() logs its warning" at clock [now] after [h]
     [mono l] / [mono_from t l]  clock readings never go backwards (and start
                      at or after [t])
   Clock readings, periods and timeouts are integer ticks (microseconds for
   the watchdog); every statement is for every history of every length. *)
From Coq Require Import ZArith List Bool Lia.
From RV Require Import Control.Machine Control.MachineProofs
  Control.Toggle Control.ToggleProofs Control.Debounce Control.DebounceProofs
  Control.Filter Control.FilterProofs Control.Watchdog Control.WatchdogProofs.
Import ListNotations.
Open Scope Z_scope.

(* ---- the observable trace is made of [out]s --------------------------------- *)
(* (the correspondence run compares [run ...] with the implementation; the
   k-th result is the call's [out] after the first k calls) *)
Theorem C19_trace_is_outs : forall (St Op Res : Type) (step : St -> Op -> St * Res) h s k o,
  nth_error h k = Some o ->
  nth_error (run step s h) k = Some (out step s (firstn k h) o).
Proof. exact (fun St Op Res step => run_nth step). Qed.

(* ================= Toggle ==================================================== *)
(* whichever accessor takes the sample (get(), .on, .off, bool()), it reports
   the value after that sample: get/on/bool the value, off its negation *)
Theorem C19_toggle_accessors_report_value : forall p h s,
  out toggle_sample (toggle_new p) h s = shows (s_acc s) (value p (h ++ [s])).
Proof. exact accessors_report_value. Qed.

(* any accessor takes a sample: the state afterwards does not depend on which *)
Theorem C19_toggle_any_accessor_samples : forall p h s a,
  reach toggle_sample (toggle_new p) (h ++ [with_acc s a]) =
  reach toggle_sample (toggle_new p) (h ++ [s]).
Proof. exact any_accessor_samples. Qed.

(* on is always the negation of off (with or without debounce) *)
Theorem C19_toggle_on_is_not_off : forall p h now lvl,
  out toggle_sample (toggle_new p) h (mkSample now lvl AOn) =
  negb (out toggle_sample (toggle_new p) h (mkSample now lvl AOff)).
Proof. exact on_is_not_off. Qed.

Theorem C19_toggle_get_on_bool_agree : forall p h now lvl,
  out toggle_sample (toggle_new p) h (mkSample now lvl AGet) =
  out toggle_sample (toggle_new p) h (mkSample now lvl AOn) /\
  out toggle_sample (toggle_new p) h (mkSample now lvl ABool) =
  out toggle_sample (toggle_new p) h (mkSample now lvl AOn).
Proof. exact get_is_on_is_bool. Qed.

(* without debounce: the value is the parity of the released->pressed edges
   among the sampled levels (the button counts as released before the first
   sample); no hypothesis on the clock *)
Theorem C19_toggle_parity : forall h,
  value None h = Nat.odd (rising false (map s_level h)).
Proof. exact toggle_parity. Qed.

(* ... hence it changes at a sample exactly when that sample reads "pressed"
   and the previous one read "released" *)
Theorem C19_toggle_changes_exactly_at_rising_edges : forall h s,
  value None (h ++ [s]) <> value None h <->
  (s_level s = true /\ last (map s_level h) false = false).
Proof. exact toggle_changes_exactly_at_rising_edges. Qed.

(* never while the button is held (or stays released) ... *)
Theorem C19_toggle_no_change_while_level_steady : forall h s,
  s_level s = last (map s_level h) false -> value None (h ++ [s]) = value None h.
Proof. exact toggle_steady_level_no_change. Qed.

(* ... and never on a sample that reads "released" *)
Theorem C19_toggle_no_change_on_release : forall h s,
  s_level s = false -> value None (h ++ [s]) = value None h.
Proof. exact toggle_released_no_change. Qed.

(* with a debounce period p (any sign): the same edge counting on the levels
   the _SteadyDebounce lets through *)
Theorem C19_toggle_debounce_parity : forall p h,
  value (Some p) h = Nat.odd (rising false (debounced p h)).
Proof. exact toggle_debounce_parity. Qed.

(* two changes are never less than p apart: for clock readings that start at
   or after 0 (FPGA time) and never go backwards, a change at sample s1 and a
   later change at sample s2 are at least p apart *)
Theorem C19_toggle_debounce_spacing : forall p h1 s1 h2 s2,
  mono_from 0 (map s_now (h1 ++ s1 :: h2 ++ [s2])) ->
  value (Some p) (h1 ++ [s1]) <> value (Some p) h1 ->
  value (Some p) (h1 ++ s1 :: h2 ++ [s2]) <> value (Some p) (h1 ++ s1 :: h2) ->
  s_now s2 - s_now s1 >= p.
Proof. exact toggle_debounce_spacing. Qed.

(* a change happens only on a sample that reads the button pressed *)
Theorem C19_toggle_debounce_change_needs_press : forall p h s,
  mono_from 0 (map s_now (h ++ [s])) ->
  value (Some p) (h ++ [s]) <> value (Some p) h ->
  s_level s = true.
Proof. exact toggle_debounce_change_needs_press. Qed.

(* the _SteadyDebounce never reads a pressed button as released: a sample
   that reads the raw button pressed is passed on as pressed (any clock, any
   period, after any history) *)
Theorem C19_toggle_debounce_never_hides_press : forall p h s,
  s_level s = true -> out sd_step (sd_new p) h s = true.
Proof. exact steady_never_hides_press. Qed.

(* never while the button is held -- with or without debounce, whatever the
   clock does, whatever the period: the sample that follows a sample that
   read the button pressed does not change the value (in particular not the
   sample taken exactly one debounce period after the press was registered) *)
Theorem C19_toggle_no_change_while_held : forall p h s1 s2,
  s_level s1 = true -> value p (h ++ [s1; s2]) = value p (h ++ [s1]).
Proof. exact toggle_no_change_after_pressed_sample. Qed.

(* ... so the debounced toggle changes only at a released->pressed edge of
   the sampled raw levels (at most once per press) *)
Theorem C19_toggle_debounce_change_only_at_rising_edge : forall p h s,
  mono_from 0 (map s_now (h ++ [s])) ->
  value (Some p) (h ++ [s]) <> value (Some p) h ->
  s_level s = true /\ last (map s_level h) false = false.
Proof. exact toggle_debounce_change_only_at_rising_edge. Qed.

(* ... and a press is not lost: a sample that reads pressed right after a
   sample that read released (or as the very first sample) does flip the
   toggle when every earlier sample that read pressed lies at least p before
   that released sample (whose clock reading is not negative) *)
Theorem C19_toggle_debounce_press_after_quiet_flips : forall p h s,
  0 <= last (map s_now h) 0 ->
  last (map s_level h) false = false ->
  (forall s', In s' h -> s_level s' = true -> last (map s_now h) 0 - s_now s' >= p) ->
  s_level s = true ->
  value (Some p) (h ++ [s]) <> value (Some p) h.
Proof. exact toggle_debounce_press_after_quiet_flips. Qed.

(* a debounce period of 0 (or less) debounces nothing: every accessor returns
   what it returns on a Toggle without debounce *)
Theorem C19_toggle_nonpositive_period_is_plain : forall p h,
  p <= 0 -> mono_from 0 (map s_now h) ->
  toggle_run (Some p) h = toggle_run None h.
Proof. exact toggle_nonpositive_period_is_plain. Qed.

(* ================= ButtonDebouncer ========================================== *)
Theorem C19_debouncer_get_returns_result : forall p h now lvl,
  out deb_step (deb_new p) h (BGet now lvl) = Some (deb_result p h now lvl).
Proof. exact deb_out_get. Qed.

Theorem C19_debouncer_true_only_when_pressed : forall p h now lvl,
  deb_result p h now lvl = true -> lvl = true.
Proof. exact deb_true_only_when_pressed. Qed.

(* any two True results are more than the period (the one in force at the
   later call; set_debounce_period may have changed it) apart, for clock
   readings that never go backwards *)
Theorem C19_debouncer_spacing : forall p h1 n1 l1 h2 n2 l2,
  mono (bop_times (h1 ++ BGet n1 l1 :: h2 ++ [BGet n2 l2])) ->
  deb_result p h1 n1 l1 = true ->
  deb_result p (h1 ++ BGet n1 l1 :: h2) n2 l2 = true ->
  n2 - n1 > period_of p (h1 ++ BGet n1 l1 :: h2).
Proof. exact deb_spacing. Qed.

(* exactly: True iff pressed and more than the period since the last True
   (since the code's initial latest = 0 when there was none); any clock *)
Theorem C19_debouncer_exact : forall p h now lvl,
  deb_result p h now lvl = lvl && (now - last_true p h >? period_of p h).
Proof. exact deb_exact. Qed.

Theorem C19_debouncer_liveness : forall p h now,
  now - last_true p h > period_of p h -> deb_result p h now true = true.
Proof. exact deb_liveness. Qed.

(* ================= PeriodicFilter =========================================== *)
Theorem C19_filter_bypass_always_passes : forall period bypass h r,
  r_level r >= bypass -> passes period bypass h r = true.
Proof. exact filter_bypass_always_passes. Qed.

(* two passed records below the bypass level are more than the period apart *)
Theorem C19_filter_low_spacing : forall period bypass h1 r1 h2 r2,
  mono (map r_now (h1 ++ r1 :: h2 ++ [r2])) ->
  r_level r1 < bypass -> r_level r2 < bypass ->
  passes period bypass h1 r1 = true ->
  passes period bypass (h1 ++ r1 :: h2) r2 = true ->
  r_now r2 - r_now r1 > period.
Proof. exact filter_low_spacing. Qed.

(* ================= SimpleWatchdog =========================================== *)
Theorem C19_watchdog_calls_return : forall t0 h now,
  out wd_step (wd_new t0) h (WIsExpired now) = OExpired (expired t0 h now) /\
  out wd_step (wd_new t0) h (WPrintIfExpired now) = OPrint (warns t0 h now).
Proof. exact (fun t0 h now => conj (wd_out_isExpired t0 h now) (wd_out_print t0 h now)). Qed.

(* expiry exactly when more than the timeout in force has elapsed since the
   last reset()/enable()/setTimeout(); any clock *)
Theorem C19_watchdog_expired_iff : forall t0 h now f,
  last_feed None h = Some f ->
  (expired t0 h now = true <-> now - f > timeout_of t0 h).
Proof. exact expired_iff. Qed.

(* (before the first reset the expiration time is the constructor's 0) *)
Theorem C19_watchdog_expired_exact : forall t0 h now,
  expired t0 h now =
  match last_feed None h with
  | Some f => now - f >? timeout_of t0 h
  | None => now >? 0
  end.
Proof. exact expired_exact. Qed.

Theorem C19_watchdog_warns_only_if_expired : forall t0 h now,
  warns t0 h now = true -> expired t0 h now = true.
Proof. exact warns_only_if_expired. Qed.

(* the warning at most once per second: two warnings are more than
   kMinPrintPeriod = 1 000 000 us apart *)
Theorem C19_watchdog_warning_spacing : forall t0 h1 n1 h2 n2,
  mono (wop_times (h1 ++ WPrintIfExpired n1 :: h2 ++ [WPrintIfExpired n2])) ->
  warns t0 h1 n1 = true ->
  warns t0 (h1 ++ WPrintIfExpired n1 :: h2) n2 = true ->
  n2 - n1 > 1000000.
Proof. exact watchdog_warning_spacing. Qed.

(* addEpoch never changes expiry: deleting every addEpoch() from a history
   changes no result of any other call, and no later isExpired()/warning *)
Theorem C19_watchdog_epochs_invisible : forall t0 h,
  non_epoch_results h (wd_run t0 h) = wd_run t0 (drop_epochs h).
Proof. exact epochs_invisible. Qed.

Theorem C19_watchdog_epochs_do_not_change_expiry : forall t0 h now,
  expired t0 h now = expired t0 (drop_epochs h) now /\
  warns t0 h now = warns t0 (drop_epochs h) now.
Proof. exact epochs_do_not_change_expiry. Qed.

(* ---- non-vacuity and tightness ---------------------------------------------- *)
Ltac nv := cbv zeta; repeat split;
  first [ vm_compute; reflexivity | simpl; lia | vm_compute; intro; discriminate ].

Definition smp (t : Z) (l : bool) (a : accessor) := mkSample t l a.

(* an 8-sample history through all four accessors: two presses, value flips twice *)
Example C19_nv_toggle :
  let h := [smp 0 false AOff; smp 1 true AOn; smp 2 true AGet; smp 3 false ABool;
            smp 4 true AOff; smp 5 true AOn; smp 6 false AGet; smp 7 true ABool] in
  toggle_run None h = [true; true; true; true; true; false; false; true] /\
  rising false (map s_level h) = 3%nat /\ value None h = true.
Proof. nv. Qed.

(* debounce: hypotheses satisfiable, two changes exactly p = 32 ticks apart
   (the bound >= p is tight), and a press inside the window is swallowed *)
Example C19_nv_toggle_debounce :
  let h1 := [smp 0 false AGet] in let s1 := smp 10 true AGet in
  let h2 := [smp 20 false AGet; smp 30 true AGet; smp 41 false AGet; smp 42 false AGet] in
  let s2 := smp 42 true AGet in
  mono_from 0 (map s_now (h1 ++ s1 :: h2 ++ [s2])) /\
  value (Some 32) (h1 ++ [s1]) <> value (Some 32) h1 /\
  value (Some 32) (h1 ++ s1 :: h2 ++ [s2]) <> value (Some 32) (h1 ++ s1 :: h2) /\
  s_now s2 - s_now s1 = 32 /\
  toggle_run (Some 32) (h1 ++ s1 :: h2 ++ [s2]) = [false; true; true; true; true; true; false].
Proof. nv. Qed.

(* the clock hypothesis of the two debounce theorems is needed: with a
   negative first clock reading the code reports a change with the button
   released (the initial window [latest = -p] is still open) *)
Example C19_toggle_debounce_negative_clock :
  value (Some 32) [smp (-1) false AGet] = true.
Proof. vm_compute. reflexivity. Qed.

(* a button pressed at tick 10 and held, polled every p/2 = 16 ticks: the
   sample exactly one period after the registering press (tick 42) and the
   ones after it change nothing; after a release of p ticks the next press
   flips the toggle again (hypotheses of the liveness theorem satisfied) *)
Example C19_nv_toggle_held_across_period :
  let h := [smp 0 false AGet; smp 10 true AOn; smp 26 true AGet; smp 42 true AOff; smp 58 true ABool;
            smp 74 true AGet; smp 90 false AGet; smp 106 false AOn] in
  let s := smp 122 true AOn in
  toggle_run (Some 32) (h ++ [s]) = [false; true; true; false; true; true; true; true; false] /\
  debounced 32 h = [false; true; true; true; true; true; true; false] /\
  0 <= last (map s_now h) 0 /\ last (map s_level h) false = false /\
  (forallb (fun s' => negb (s_level s') || (last (map s_now h) 0 - s_now s' >=? 32)) h = true) /\
  value (Some 32) (h ++ [s]) <> value (Some 32) h.
Proof. nv. Qed.

(* period 0: plain toggle behaviour, every press registers *)
Example C19_nv_toggle_zero_period :
  let h := [smp 0 false AGet; smp 1 true AGet; smp 1 true AGet; smp 2 false AGet; smp 2 true AGet] in
  mono_from 0 (map s_now h) /\ toggle_run (Some 0) h = [false; true; true; true; false].
Proof. nv. Qed.

(* debouncer: a True, a refused press exactly one period later (the bound
   "> p" is tight), a True one tick after that *)
Example C19_nv_debouncer :
  let h := [BGet 40 true; BGet 72 true; BGet 73 true; BGet 74 false] in
  mono (bop_times h) /\ deb_run 32 h = [Some true; Some false; Some true; Some false] /\
  deb_result 32 [] 40 true = true /\ deb_result 32 [BGet 40 true; BGet 72 true] 73 true = true /\
  last_true 32 [BGet 40 true; BGet 72 true] = 40.
Proof. nv. Qed.

(* interpretation (DESIGN 10): before the first True the anchor is FPGA boot,
   so a press within one period of boot is refused *)
Example C19_debouncer_first_press_after_boot :
  deb_result 32 [] 32 true = false /\ deb_result 32 [] 33 true = true.
Proof. vm_compute. split; reflexivity. Qed.

(* filter: low records pass once per period (strictly more than 64 ticks
   apart), a bypass-level record passes in between *)
Example C19_nv_filter :
  let h := [mkRec 1 20; mkRec 2 20; mkRec 3 30; mkRec 65 20; mkRec 66 20; mkRec 67 20] in
  mono (map r_now h) /\ pf_run 64 30 h = [true; false; true; false; true; false].
Proof. nv. Qed.

(* a bypass-level record that arrives when the period has passed takes the
   slot: the low record right after it is suppressed (the property does not
   promise otherwise) *)
Example C19_filter_bypass_takes_slot :
  pf_run 64 30 [mkRec 100 30; mkRec 101 20] = [true; false].
Proof. vm_compute. reflexivity. Qed.

(* watchdog: not expired at exactly the timeout, expired 1 us later; two
   warnings 1 000 001 us apart, none at exactly 1 000 000 us *)
Example C19_nv_watchdog :
  let h := [WReset 5000000; WIsExpired 5020000; WIsExpired 5020001; WAddEpoch 5020002 7%nat;
            WPrintIfExpired 5020003; WPrintIfExpired 6020003; WPrintIfExpired 6020004] in
  mono (wop_times h) /\ last_feed None h = Some 5000000 /\
  wd_run 20000 h = [ONone; OExpired false; OExpired true; ONone; OPrint true; OPrint false; OPrint true].
Proof. nv. Qed.

Print Assumptions C19_trace_is_outs.
Print Assumptions C19_toggle_accessors_report_value.
Print Assumptions C19_toggle_any_accessor_samples.
Print Assumptions C19_toggle_on_is_not_off.
Print Assumptions C19_toggle_get_on_bool_agree.
Print Assumptions C19_toggle_parity.
Print Assumptions C19_toggle_changes_exactly_at_rising_edges.
Print Assumptions C19_toggle_no_change_while_level_steady.
Print Assumptions C19_toggle_no_change_on_release.
Print Assumptions C19_toggle_debounce_parity.
Print Assumptions C19_toggle_debounce_spacing.
Print Assumptions C19_toggle_debounce_change_needs_press.
Print Assumptions C19_toggle_debounce_never_hides_press.
Print Assumptions C19_toggle_no_change_while_held.
Print Assumptions C19_toggle_debounce_change_only_at_rising_edge.
Print Assumptions C19_toggle_debounce_press_after_quiet_flips.
Print Assumptions C19_toggle_nonpositive_period_is_plain.
Print Assumptions C19_debouncer_get_returns_result.
Print Assumptions C19_debouncer_true_only_when_pressed.
Print Assumptions C19_debouncer_spacing.
Print Assumptions C19_debouncer_exact.
Print Assumptions C19_debouncer_liveness.
Print Assumptions C19_filter_bypass_always_passes.
Print Assumptions C19_filter_low_spacing.
Print Assumptions C19_watchdog_calls_return.
Print Assumptions C19_watchdog_expired_iff.
Print Assumptions C19_watchdog_expired_exact.
Print Assumptions C19_watchdog_warns_only_if_expired.
Print Assumptions C19_watchdog_warning_spacing.
Print Assumptions C19_watchdog_epochs_invisible.
Print Assumptions C19_watchdog_epochs_do_not_change_expiry.
