(* C01 -- StateMachine runs regular states only while engage() keeps being called.

   Model: SM.Model (magicbot/state_machine.py, execute() in phases).  [body] is
   arbitrary user code: the actions of the k-th state-function invocation may
   depend on anything (k, the state, the arguments).  [fuel] bounds the nesting
   of next_state_now(); running out of it is the event EvErr (RecursionError),
   excluded like every other exception by [ok].  [ok t] also says that the trace
   stays inside the usage contract K of DESIGN.md 6.1 (no in-state action while
   the machine is not executing, no explicit transition into the default state,
   clock readings do not go backwards).
   Statements only; every proof is [exact <lemma>]. *)
From Coq Require Import ZArith List Bool.
From RV Require Import SM.Model SM.Basics SM.Engage SM.Invariants SM.Stop SM.Auto SM.Check SM.Examples.
Import ListNotations.
Open Scope Z_scope.

Section C01.
Variable sh : shape.
Variable body : nat -> name -> Z -> Z -> bool -> list action.

(* The request flag seen by an iteration is true exactly when engage() was called
   since the previous iteration: over any history of engage/done/on_disable/
   execute/duration writes, it equals the reference [requested]. *)
Theorem C01_request_iff_engage_since_last_iteration : forall fuel h m,
  sh_auto sh = false -> forallb plain_op h = true ->
  should (fst (run sh body (S fuel) m h)) = requested h (should m).
Proof. exact (should_iff_engaged_since sh body). Qed.

(* In ANY iteration (any machine state whatsoever, any nesting of
   next_state_now) that starts without the request, every state function that is
   called is the default state or a must_finish state. *)
Theorem C01_regular_needs_engage : forall fuel m now, should m = false ->
  forall s tm stm i e, In (EvCall s tm stm i e) (snd (exec sh body fuel m now)) ->
  is_regular sh s = false.
Proof. exact (fun fuel m now H => quiet_in sh _ (exec_quiet sh body fuel m now H)). Qed.

(* Without the request the machine stops as soon as it is not inside a
   must_finish state: if no non-default state function ran in the iteration, the
   machine is stopped afterwards, and if it was executing, done() was invoked. *)
Theorem C01_stops_without_engage : forall fuel m now, wf_shape sh ->
  Inv sh m -> should m = false ->
  ok (snd (exec sh body (S fuel) m now)) ->
  only_default_calls sh (snd (exec sh body (S fuel) m now)) ->
  engaged (fst (exec sh body (S fuel) m now)) = false /\
  (engaged m = true -> In EvDone (snd (exec sh body (S fuel) m now))).
Proof. exact (fun fuel m now Hwf => exec_stops sh body Hwf fuel m now). Qed.

(* ... and then nothing except the default state runs until engage() is called
   again: for EVERY continuation of the history without engage(). *)
Theorem C01_idle_until_engage : forall fuel h m, wf_shape sh ->
  Idle sh m -> forallb no_engage_op h = true ->
  ok (trace_of (snd (run sh body (S fuel) m h))) ->
  Idle sh (fst (run sh body (S fuel) m h)) /\
  forall s tm stm i e, In (EvCall s tm stm i e) (trace_of (snd (run sh body (S fuel) m h))) ->
    is_default sh s = true /\ e = false.
Proof.
  exact (fun fuel h m Hwf HI Hp Hok =>
    let H := idle_until_engage sh body Hwf fuel h m HI Hp Hok in
    conj (proj1 H) (default_calls_in sh _ (proj2 H))).
Qed.

(* When engage() was called and the machine has a state to run, exactly one
   state function runs in the iteration, plus one for each next_state_now(). *)
Theorem C01_exactly_one : forall fuel m now,
  sh_auto sh = false -> should m = true -> cur m <> None ->
  ok (snd (exec sh body fuel m now)) ->
  ncalls (snd (exec sh body fuel m now)) = S (nnow (snd (exec sh body fuel m now))).
Proof. exact (exec_one sh body). Qed.

(* Every state reachable by any history inside the contract satisfies the
   invariant the theorems above assume. *)
Theorem C01_invariant_reachable : forall fuel h m, wf_shape sh -> Inv sh m ->
  ok (trace_of (snd (run sh body fuel m h))) -> Inv sh (fst (run sh body fuel m h)).
Proof. exact (fun fuel h m Hwf HI Hok => proj1 (run_inv sh body Hwf fuel h m HI Hok)). Qed.
End C01.

(* Non-vacuity: a 4-state machine (timed first state, must_finish timed state,
   plain state, default state) and a 20-operation history with next_state_now,
   next_state, done(), a duration write, gaps without engage(): the history is
   inside the contract, the shape is well-formed, the initial machine satisfies
   Inv and is idle, and iterations with and without the request both occur. *)
Example C01_nv_contract : wf_shape (ex_shape false) /\ Inv (ex_shape false) ex_init
  /\ Idle (ex_shape false) ex_init /\ ok ex_trace.
Proof.
  split; [apply wf_shapeb_sound; vm_compute; reflexivity|].
  split; [apply Inv_init|]. split; [split; [apply Inv_init | split; reflexivity]|].
  apply okb_ok. vm_compute. reflexivity.
Qed.
Example C01_nv_counts :
  (* the 3rd iteration: requested, one next_state_now: two state functions ran *)
  let m := fst (run (ex_shape false) ex_body 8 ex_init (firstn 4 ex_hist)) in
  should m = true /\ cur m <> None /\
  ncalls (snd (exec (ex_shape false) ex_body 8 m 12)) = 2%nat /\ nnow (snd (exec (ex_shape false) ex_body 8 m 12)) = 1%nat.
Proof. vm_compute. repeat split; discriminate. Qed.
Example C01_nv_must_finish_runs_unrequested :
  (* Execute 21 without engage(): the must_finish state b still runs, then Execute 22 stops through done() *)
  nth 9 (snd (run (ex_shape false) ex_body 8 ex_init ex_hist)) [] =
    [EvEnter 1%nat; EvBk 1%nat 19 21; EvCall 1%nat 10 2 true true] /\
  nth 10 (snd (run (ex_shape false) ex_body 8 ex_init ex_hist)) [] =
    [EvDone; EvFallback 3%nat; EvBk 3%nat 21 274877906901; EvCall 3%nat 11 1 true false].
Proof. vm_compute. split; reflexivity. Qed.

Print Assumptions C01_request_iff_engage_since_last_iteration.
Print Assumptions C01_regular_needs_engage.
Print Assumptions C01_stops_without_engage.
Print Assumptions C01_idle_until_engage.
Print Assumptions C01_exactly_one.
Print Assumptions C01_invariant_reachable.
