(* C17 -- Sharp IR distance readings are bounded, monotone and invert the sim
   model.  Statements only; every proof is [exact <lemma of IR.Proofs>].

   [reading c e lo hi fl v] is getDistance() of a driver whose analog input
   reports v volts:      max(min(c * pow(max(v, fl), e), hi), lo)
   [volts c e lo hi d]   is the voltage setDistance(d) of the matching helper
   puts on that input:   pow(max(min(d, hi), lo) / c, 1 / e)
   (IR/Model.v; over the real numbers, Rpower x y = exp (y * ln x)).

   Part 1 states the property for EVERY parameter set with
   c > 0, e < 0, 0 < lo < hi, fl > 0;  Parts 2-4 are the three instances with
   the literals of distance_sensors.py / distance_sensors_sim.py, which are
   the property as written (22.5-145 cm, 10-80 cm, 4.5-35 cm).  That the
   literals in the model are the literals in the code is re-established on
   every run by the correspondence (harness/c17.py): all ADC codes and the
   special doubles through the real AnalogInput simulation, each compared
   with [reading_*] / [volts_*] by a generated lemma closed by [interval]. *)
From Coq Require Import Reals.
From RV Require Import IR.Model IR.Proofs.
Open Scope R_scope.

(* ====================================================================== *)
(* Part 1: every admissible parameter set                                 *)
(* ====================================================================== *)
Section C17.
Variables c e lo hi fl : R.
Hypothesis Hadm : 0 < c /\ e < 0 /\ 0 < lo /\ lo < hi /\ 0 < fl.

(* no exception for any voltage: math.pow is never called on a base <= 0 *)
Theorem C17_no_exception : forall v,
  reading_opt c e lo hi fl v = Some (reading c e lo hi fl v).
Proof. exact (reading_total c e lo hi fl Hadm). Qed.

(* for ALL real v: zero, negative, out-of-range included *)
Theorem C17_in_range : forall v, lo <= reading c e lo hi fl v <= hi.
Proof. exact (in_range c e lo hi fl Hadm). Qed.

(* the reading never increases as the voltage increases *)
Theorem C17_antitone : forall v1 v2,
  v1 <= v2 -> reading c e lo hi fl v2 <= reading c e lo hi fl v1.
Proof. exact (antitone c e lo hi fl Hadm). Qed.

(* ... and strictly decreases where it is not pinned to a limit *)
Theorem C17_strictly_decreasing_inside : forall v1 v2,
  fl <= v1 -> v1 < v2 -> lo <= c * Rpower v2 e -> c * Rpower v1 e <= hi ->
  reading c e lo hi fl v2 < reading c e lo hi fl v1.
Proof. exact (strictly_decreasing_inside c e lo hi fl Hadm). Qed.

(* inside the range (and above the floor) the reading IS the power law *)
Theorem C17_power_law : forall v,
  fl <= v -> lo <= c * Rpower v e <= hi ->
  reading c e lo hi fl v = c * Rpower v e.
Proof. exact (power_law_inside c e lo hi fl Hadm). Qed.

(* at and below the floor -- 0 V and every negative voltage -- the reading is
   the reading at the floor *)
Theorem C17_floor : forall v,
  v <= fl -> reading c e lo hi fl v = reading c e lo hi fl fl.
Proof. exact (below_floor c e lo hi fl Hadm). Qed.

(* infinite voltages: still in range, still ordered; +inf reads lo *)
Theorem C17_infinite_voltages :
  (forall v : xreal, lo <= reading_x c e lo hi fl v <= hi) /\
  (forall v1 v2 : xreal,
     xle v1 v2 -> reading_x c e lo hi fl v2 <= reading_x c e lo hi fl v1) /\
  reading_x c e lo hi fl PInf = lo.
Proof.
  exact (conj (in_range_x c e lo hi fl Hadm)
        (conj (antitone_x c e lo hi fl Hadm) (reading_pinf c e lo hi fl Hadm))).
Qed.

(* the helper: no exception for any distance, zero and negative included *)
Theorem C17_sim_no_exception : forall d,
  volts_opt c e lo hi d = Some (volts c e lo hi d).
Proof. exact (volts_total c e lo hi fl Hadm). Qed.

(* the helper is the inverse of the driver: the sensor reads d clamped.
   The side condition says that the lowest voltage the helper ever sets (the
   one for the far limit) is not below the driver's floor. *)
Theorem C17_sim_inverse : forall d,
  fl <= volts c e lo hi hi ->
  reading c e lo hi fl (volts c e lo hi d) = Rmax (Rmin d hi) lo.
Proof. exact (sim_inverse c e lo hi fl Hadm). Qed.

(* ... also for d = +inf / -inf (reads hi / lo) *)
Theorem C17_sim_inverse_inf : forall d : xreal,
  fl <= volts c e lo hi hi ->
  reading c e lo hi fl (volts_x c e lo hi d) = clamp_x lo hi d.
Proof. exact (sim_inverse_x c e lo hi fl Hadm). Qed.

(* the same through the helper's state: after setDistance(d), whatever
   happened before, the sensor reads d clamped ... *)
Theorem C17_sim_sensor : forall (s : sim_state) d,
  fl <= volts c e lo hi hi ->
  sensor_distance c e lo hi fl (set_distance c e lo hi s d) = Rmax (Rmin d hi) lo.
Proof. exact (sim_sensor c e lo hi fl Hadm). Qed.

(* ... and the helper's getDistance() returns the d that was set, unclamped *)
Theorem C17_sim_remembers : forall (s : sim_state) d,
  get_distance (set_distance c e lo hi s d) = d.
Proof. exact (sim_remembers c e lo hi fl Hadm). Qed.

(* ---- the reading depends on the pin voltage and on nothing else -------- *)
(* [rio] is the whole simulated roboRIO: the sensor's pin, the 5 V / 3.3 V /
   6 V user rails, the battery, the rail enable flags, currents, brownout
   threshold, CPU temperature (any non-NaN double each).  getDistance() on it
   is [rio_distance_opt] ([None] = an exception). *)

(* whatever the rails are (sagging, 0 V, negative, infinite, switched off):
   no exception, and the value is the pin-only reading of the theorems above *)
Theorem C17_rio_reading : forall r : rio,
  rio_distance_opt c e lo hi fl r = Some (reading_x c e lo hi fl (pin r)).
Proof. exact (rio_total c e lo hi fl Hadm). Qed.

(* two roboRIOs with the same pin voltage give the same outcome *)
Theorem C17_rio_pin_only : forall r1 r2 : rio,
  pin r1 = pin r2 ->
  rio_distance_opt c e lo hi fl r1 = rio_distance_opt c e lo hi fl r2.
Proof. exact (rio_pin_only c e lo hi fl Hadm). Qed.

Theorem C17_rio_in_range : forall r : rio,
  exists x, rio_distance_opt c e lo hi fl r = Some x /\ lo <= x <= hi.
Proof. exact (rio_in_range c e lo hi fl Hadm). Qed.

(* monotone in the pin voltage even when everything else changes between the
   two readings *)
Theorem C17_rio_antitone : forall r1 r2 : rio,
  xle (pin r1) (pin r2) ->
  rio_distance c e lo hi fl r2 <= rio_distance c e lo hi fl r1.
Proof. exact (rio_antitone c e lo hi fl Hadm). Qed.

Theorem C17_rio_power_law : forall (r : rio) v,
  pin r = Fin v -> fl <= v -> lo <= c * Rpower v e <= hi ->
  rio_distance_opt c e lo hi fl r = Some (c * Rpower v e).
Proof. exact (rio_power_law c e lo hi fl Hadm). Qed.

(* the helper on any roboRIO: the sensor reads d clamped (d = +-inf
   included) and nothing but the pin has changed *)
Theorem C17_rio_sim : forall (r : rio) (d : xreal),
  fl <= volts c e lo hi hi ->
  rio_distance_opt c e lo hi fl (rio_set_distance c e lo hi r d) = Some (clamp_x lo hi d) /\
  same_rails (rio_set_distance c e lo hi r d) r.
Proof. exact (rio_sim c e lo hi fl Hadm). Qed.

End C17.

(* ====================================================================== *)
(* Part 2: SharpIR2Y0A02 -- 62.28 * V ^ -1.092, 22.5 .. 145 cm            *)
(* ====================================================================== *)

Theorem C17_A02_in_range : forall v, 22.5 <= reading_A02 v <= 145.
Proof. exact (in_range _ _ _ _ _ A02_admissible). Qed.

Theorem C17_A02_antitone : forall v1 v2, v1 <= v2 -> reading_A02 v2 <= reading_A02 v1.
Proof. exact (antitone _ _ _ _ _ A02_admissible). Qed.

Theorem C17_A02_power_law : forall v,
  0.00001 <= v -> 22.5 <= 62.28 * Rpower v (-1.092) <= 145 ->
  reading_A02 v = 62.28 * Rpower v (-1.092).
Proof. exact (power_law_inside _ _ _ _ _ A02_admissible). Qed.

(* no exception for any voltage; 0 V, negative voltages and everything up to
   the floor read the far limit, and so does -inf; +inf reads the near limit *)
Theorem C17_A02_edge_voltages :
  (forall v, reading_opt 62.28 (-1.092) 22.5 145 0.00001 v = Some (reading_A02 v)) /\
  (forall v, v <= 0.00001 -> reading_A02 v = 145) /\
  reading_x 62.28 (-1.092) 22.5 145 0.00001 NInf = 145 /\
  reading_x 62.28 (-1.092) 22.5 145 0.00001 PInf = 22.5.
Proof.
  exact (conj (reading_total _ _ _ _ _ A02_admissible)
        (conj (fun v => below_floor_hi _ _ _ _ _ A02_admissible v A02_floor_reads_hi)
        (conj (below_floor_hi _ _ _ _ _ A02_admissible _ A02_floor_reads_hi (Rle_refl _))
              (reading_pinf _ _ _ _ _ A02_admissible)))).
Qed.

Theorem C17_A02_sim_inverse : forall d,
  reading_A02 (volts_A02 d) = Rmax (Rmin d 145) 22.5.
Proof. exact (fun d => sim_inverse _ _ _ _ _ A02_admissible d A02_floor_below_sim). Qed.

Theorem C17_A02_sim_remembers : forall (s : sim_state) d,
  let s' := set_distance 62.28 (-1.092) 22.5 145 s d in
  get_distance s' = d /\
  sensor_distance 62.28 (-1.092) 22.5 145 0.00001 s' = Rmax (Rmin d 145) 22.5.
Proof.
  exact (fun s d => conj (sim_remembers _ _ _ _ _ A02_admissible s d)
                         (sim_sensor _ _ _ _ _ A02_admissible s d A02_floor_below_sim)).
Qed.

(* on every simulated roboRIO -- any 5 V / 3.3 V / 6 V rail, battery, enable
   flags -- the driver returns a distance in range, follows the power law of
   the PIN voltage, and reads d clamped after the helper's setDistance(d) *)
Theorem C17_A02_any_rails : forall r : rio,
  (exists x, rio_distance_opt 62.28 (-1.092) 22.5 145 0.00001 r = Some x /\ 22.5 <= x <= 145) /\
  (forall v, pin r = Fin v -> 0.00001 <= v -> 22.5 <= 62.28 * Rpower v (-1.092) <= 145 ->
     rio_distance_opt 62.28 (-1.092) 22.5 145 0.00001 r = Some (62.28 * Rpower v (-1.092))) /\
  (forall d, rio_distance_opt 62.28 (-1.092) 22.5 145 0.00001 (rio_set_distance 62.28 (-1.092) 22.5 145 r (Fin d))
             = Some (Rmax (Rmin d 145) 22.5)).
Proof.
  exact (fun r => conj (rio_in_range _ _ _ _ _ A02_admissible r)
        (conj (rio_power_law _ _ _ _ _ A02_admissible r)
              (fun d => proj1 (rio_sim _ _ _ _ _ A02_admissible r (Fin d) A02_floor_below_sim)))).
Qed.

(* ====================================================================== *)
(* Part 3: SharpIR2Y0A21 -- 26.449 * V ^ -1.226, 10 .. 80 cm              *)
(* ====================================================================== *)

Theorem C17_A21_in_range : forall v, 10 <= reading_A21 v <= 80.
Proof. exact (in_range _ _ _ _ _ A21_admissible). Qed.

Theorem C17_A21_antitone : forall v1 v2, v1 <= v2 -> reading_A21 v2 <= reading_A21 v1.
Proof. exact (antitone _ _ _ _ _ A21_admissible). Qed.

Theorem C17_A21_power_law : forall v,
  0.00001 <= v -> 10 <= 26.449 * Rpower v (-1.226) <= 80 ->
  reading_A21 v = 26.449 * Rpower v (-1.226).
Proof. exact (power_law_inside _ _ _ _ _ A21_admissible). Qed.

(* no exception for any voltage; 0 V, negative voltages and everything up to
   the floor read the far limit, and so does -inf; +inf reads the near limit *)
Theorem C17_A21_edge_voltages :
  (forall v, reading_opt 26.449 (-1.226) 10 80 0.00001 v = Some (reading_A21 v)) /\
  (forall v, v <= 0.00001 -> reading_A21 v = 80) /\
  reading_x 26.449 (-1.226) 10 80 0.00001 NInf = 80 /\
  reading_x 26.449 (-1.226) 10 80 0.00001 PInf = 10.
Proof.
  exact (conj (reading_total _ _ _ _ _ A21_admissible)
        (conj (fun v => below_floor_hi _ _ _ _ _ A21_admissible v A21_floor_reads_hi)
        (conj (below_floor_hi _ _ _ _ _ A21_admissible _ A21_floor_reads_hi (Rle_refl _))
              (reading_pinf _ _ _ _ _ A21_admissible)))).
Qed.

Theorem C17_A21_sim_inverse : forall d,
  reading_A21 (volts_A21 d) = Rmax (Rmin d 80) 10.
Proof. exact (fun d => sim_inverse _ _ _ _ _ A21_admissible d A21_floor_below_sim). Qed.

Theorem C17_A21_sim_remembers : forall (s : sim_state) d,
  let s' := set_distance 26.449 (-1.226) 10 80 s d in
  get_distance s' = d /\
  sensor_distance 26.449 (-1.226) 10 80 0.00001 s' = Rmax (Rmin d 80) 10.
Proof.
  exact (fun s d => conj (sim_remembers _ _ _ _ _ A21_admissible s d)
                         (sim_sensor _ _ _ _ _ A21_admissible s d A21_floor_below_sim)).
Qed.

(* on every simulated roboRIO -- any 5 V / 3.3 V / 6 V rail, battery, enable
   flags -- the driver returns a distance in range, follows the power law of
   the PIN voltage, and reads d clamped after the helper's setDistance(d) *)
Theorem C17_A21_any_rails : forall r : rio,
  (exists x, rio_distance_opt 26.449 (-1.226) 10 80 0.00001 r = Some x /\ 10 <= x <= 80) /\
  (forall v, pin r = Fin v -> 0.00001 <= v -> 10 <= 26.449 * Rpower v (-1.226) <= 80 ->
     rio_distance_opt 26.449 (-1.226) 10 80 0.00001 r = Some (26.449 * Rpower v (-1.226))) /\
  (forall d, rio_distance_opt 26.449 (-1.226) 10 80 0.00001 (rio_set_distance 26.449 (-1.226) 10 80 r (Fin d))
             = Some (Rmax (Rmin d 80) 10)).
Proof.
  exact (fun r => conj (rio_in_range _ _ _ _ _ A21_admissible r)
        (conj (rio_power_law _ _ _ _ _ A21_admissible r)
              (fun d => proj1 (rio_sim _ _ _ _ _ A21_admissible r (Fin d) A21_floor_below_sim)))).
Qed.

(* ====================================================================== *)
(* Part 4: SharpIR2Y0A41 -- 12.84 * V ^ -0.9824, 4.5 .. 35 cm             *)
(* ====================================================================== *)

Theorem C17_A41_in_range : forall v, 4.5 <= reading_A41 v <= 35.
Proof. exact (in_range _ _ _ _ _ A41_admissible). Qed.

Theorem C17_A41_antitone : forall v1 v2, v1 <= v2 -> reading_A41 v2 <= reading_A41 v1.
Proof. exact (antitone _ _ _ _ _ A41_admissible). Qed.

Theorem C17_A41_power_law : forall v,
  0.00001 <= v -> 4.5 <= 12.84 * Rpower v (-0.9824) <= 35 ->
  reading_A41 v = 12.84 * Rpower v (-0.9824).
Proof. exact (power_law_inside _ _ _ _ _ A41_admissible). Qed.

(* no exception for any voltage; 0 V, negative voltages and everything up to
   the floor read the far limit, and so does -inf; +inf reads the near limit *)
Theorem C17_A41_edge_voltages :
  (forall v, reading_opt 12.84 (-0.9824) 4.5 35 0.00001 v = Some (reading_A41 v)) /\
  (forall v, v <= 0.00001 -> reading_A41 v = 35) /\
  reading_x 12.84 (-0.9824) 4.5 35 0.00001 NInf = 35 /\
  reading_x 12.84 (-0.9824) 4.5 35 0.00001 PInf = 4.5.
Proof.
  exact (conj (reading_total _ _ _ _ _ A41_admissible)
        (conj (fun v => below_floor_hi _ _ _ _ _ A41_admissible v A41_floor_reads_hi)
        (conj (below_floor_hi _ _ _ _ _ A41_admissible _ A41_floor_reads_hi (Rle_refl _))
              (reading_pinf _ _ _ _ _ A41_admissible)))).
Qed.

Theorem C17_A41_sim_inverse : forall d,
  reading_A41 (volts_A41 d) = Rmax (Rmin d 35) 4.5.
Proof. exact (fun d => sim_inverse _ _ _ _ _ A41_admissible d A41_floor_below_sim). Qed.

Theorem C17_A41_sim_remembers : forall (s : sim_state) d,
  let s' := set_distance 12.84 (-0.9824) 4.5 35 s d in
  get_distance s' = d /\
  sensor_distance 12.84 (-0.9824) 4.5 35 0.00001 s' = Rmax (Rmin d 35) 4.5.
Proof.
  exact (fun s d => conj (sim_remembers _ _ _ _ _ A41_admissible s d)
                         (sim_sensor _ _ _ _ _ A41_admissible s d A41_floor_below_sim)).
Qed.

(* on every simulated roboRIO -- any 5 V / 3.3 V / 6 V rail, battery, enable
   flags -- the driver returns a distance in range, follows the power law of
   the PIN voltage, and reads d clamped after the helper's setDistance(d) *)
Theorem C17_A41_any_rails : forall r : rio,
  (exists x, rio_distance_opt 12.84 (-0.9824) 4.5 35 0.00001 r = Some x /\ 4.5 <= x <= 35) /\
  (forall v, pin r = Fin v -> 0.00001 <= v -> 4.5 <= 12.84 * Rpower v (-0.9824) <= 35 ->
     rio_distance_opt 12.84 (-0.9824) 4.5 35 0.00001 r = Some (12.84 * Rpower v (-0.9824))) /\
  (forall d, rio_distance_opt 12.84 (-0.9824) 4.5 35 0.00001 (rio_set_distance 12.84 (-0.9824) 4.5 35 r (Fin d))
             = Some (Rmax (Rmin d 35) 4.5)).
Proof.
  exact (fun r => conj (rio_in_range _ _ _ _ _ A41_admissible r)
        (conj (rio_power_law _ _ _ _ _ A41_admissible r)
              (fun d => proj1 (rio_sim _ _ _ _ _ A41_admissible r (Fin d) A41_floor_below_sim)))).
Qed.

(* ====================================================================== *)
(* Non-vacuity                                                            *)
(* ====================================================================== *)

(* the hypothesis of Part 1 is met by the three parameter sets of the code,
   and so is the side condition of the sim theorems *)
Example C17_nv_admissible :
  (0 < 62.28 /\ -1.092 < 0 /\ 0 < 22.5 /\ 22.5 < 145 /\ 0 < 0.00001) /\
  (0 < 26.449 /\ -1.226 < 0 /\ 0 < 10 /\ 10 < 80 /\ 0 < 0.00001) /\
  (0 < 12.84 /\ -0.9824 < 0 /\ 0 < 4.5 /\ 4.5 < 35 /\ 0 < 0.00001).
Proof. exact (conj A02_admissible (conj A21_admissible A41_admissible)). Qed.
Example C17_nv_side_condition :
  0.00001 <= volts 62.28 (-1.092) 22.5 145 145 /\
  0.00001 <= volts 26.449 (-1.226) 10 80 80 /\
  0.00001 <= volts 12.84 (-0.9824) 4.5 35 35.
Proof. exact (conj A02_floor_below_sim (conj A21_floor_below_sim A41_floor_below_sim)). Qed.
(* the power-law clause is not vacuous: 1 V is inside every range and reads
   the coefficient; the reading is not constant (0 V reads 145 cm) *)
Example C17_nv_power_law :
  reading_A02 1 = 62.28 /\ reading_A21 1 = 26.449 /\ reading_A41 1 = 12.84 /\
  reading_A02 0 = 145.
Proof. exact (conj A02_at_1V (conj A21_at_1V (conj A41_at_1V A02_at_0V))). Qed.
(* the premises of the strict clause are met by 1 V < 1.5 V *)
Example C17_nv_strict : reading_A02 1.5 < reading_A02 1.
Proof. exact A02_strict_example. Qed.
(* the twelve cases of tests/test_distance_sensors.py, exactly *)
Example C17_nv_sim :
  (reading_A02 (volts_A02 10) = 22.5 /\ reading_A02 (volts_A02 200) = 145 /\
   reading_A02 (volts_A02 50) = 50 /\ reading_A02 (volts_A02 100) = 100) /\
  (reading_A21 (volts_A21 5) = 10 /\ reading_A21 (volts_A21 100) = 80 /\
   reading_A21 (volts_A21 30) = 30 /\ reading_A21 (volts_A21 60) = 60) /\
  (reading_A41 (volts_A41 2) = 4.5 /\ reading_A41 (volts_A41 50) = 35 /\
   reading_A41 (volts_A41 10) = 10 /\ reading_A41 (volts_A41 25) = 25).
Proof. exact (conj A02_sim_examples (conj A21_sim_examples A41_sim_examples)). Qed.

(* the rail theorems are about roboRIOs that really differ: 1 V on the pin
   reads 26.449 cm with the 5 V rail sagging to 4.6 V and with the rail at
   0 V and switched off *)
Example C17_nv_rio :
  rio_distance_opt 26.449 (-1.226) 10 80 0.00001
    {| pin := Fin 1; user5V := Fin 4.6; user3V3 := Fin 3.3; user6V := Fin 6; vin := Fin 12;
       active5V := true; active3V3 := true; active6V := true; aux := nil |} = Some 26.449 /\
  rio_distance_opt 26.449 (-1.226) 10 80 0.00001
    {| pin := Fin 1; user5V := Fin 0; user3V3 := PInf; user6V := NInf; vin := Fin 6.3;
       active5V := false; active3V3 := true; active6V := false; aux := Fin 0 :: nil |} = Some 26.449.
Proof. exact (conj (A21_rio_at_1V _ _ _ _ _ _ _ _) (A21_rio_at_1V _ _ _ _ _ _ _ _)). Qed.

Print Assumptions C17_no_exception.
Print Assumptions C17_in_range.
Print Assumptions C17_antitone.
Print Assumptions C17_strictly_decreasing_inside.
Print Assumptions C17_power_law.
Print Assumptions C17_floor.
Print Assumptions C17_infinite_voltages.
Print Assumptions C17_sim_no_exception.
Print Assumptions C17_sim_inverse.
Print Assumptions C17_sim_inverse_inf.
Print Assumptions C17_sim_sensor.
Print Assumptions C17_sim_remembers.
Print Assumptions C17_rio_reading.
Print Assumptions C17_rio_pin_only.
Print Assumptions C17_rio_in_range.
Print Assumptions C17_rio_antitone.
Print Assumptions C17_rio_power_law.
Print Assumptions C17_rio_sim.
Print Assumptions C17_A02_in_range.
Print Assumptions C17_A02_antitone.
Print Assumptions C17_A02_power_law.
Print Assumptions C17_A02_edge_voltages.
Print Assumptions C17_A02_sim_inverse.
Print Assumptions C17_A02_sim_remembers.
Print Assumptions C17_A02_any_rails.
Print Assumptions C17_A21_in_range.
Print Assumptions C17_A21_antitone.
Print Assumptions C17_A21_power_law.
Print Assumptions C17_A21_edge_voltages.
Print Assumptions C17_A21_sim_inverse.
Print Assumptions C17_A21_sim_remembers.
Print Assumptions C17_A21_any_rails.
Print Assumptions C17_A41_in_range.
Print Assumptions C17_A41_antitone.
Print Assumptions C17_A41_power_law.
Print Assumptions C17_A41_edge_voltages.
Print Assumptions C17_A41_sim_inverse.
Print Assumptions C17_A41_sim_remembers.
Print Assumptions C17_A41_any_rails.
