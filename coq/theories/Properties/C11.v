(* C11 -- @feedback methods are published every iteration in every mode under their key.

   Loop part: Robot.Model ([PFeedback j] is  try: v = getter() except: onException()
   else: setter(v) ; [w_nt w j] the NetworkTables entry of feedback j).  Key and topic
   type: Tunable.Model ([fb_key], [fb_owner_key], [fb_publisher]: the decorator and
   collect_feedbacks).  Statements only. *)
From Coq Require Import ZArith List Bool String.
From RV Require Import Robot.Model Robot.Proofs Robot.Loop Robot.Lifecycle Robot.Examples.
From RV Require Tunable.Model Tunable.Proofs.
Notation fb_key := Tunable.Model.fb_key.
Notation fb_owner_key := Tunable.Model.fb_owner_key.
Notation fb_publisher := Tunable.Model.fb_publisher.
Notation OComponent := Tunable.Model.OComponent.
Notation ORobot := Tunable.Model.ORobot.
Notation spec_hint := Tunable.Model.spec_hint.
Notation FbGeneric := Tunable.Model.FbGeneric.
Notation FbRaises := Tunable.Model.FbRaises.
Notation FbTyped := Tunable.Model.FbTyped.
Notation NRaw := Tunable.Model.NRaw.
Import ListNotations.
Open Scope Z_scope.

Section C11.
Variable c : cfg.
Variable raises : nat -> bool.
Variable writes : nat -> list (nat * nat * Z).
Variable fbval : nat -> Z.

(* in every mode (disabled, autonomous, teleop, test) each getter is called exactly once per pass *)
Theorem C11_called_once_per_iteration : forall m j, (j < nfb c)%nat ->
  count_occ site_eq_dec (iter_sites c m) (SFeedback j) = 1%nat.
Proof. exact (feedback_once_per_iteration c). Qed.

(* after the feedback phase of a pass that starts at invocation [w_n w] (FMS attached): the
   entry of every getter that returned holds the value it returned in THIS pass; the entry of
   a getter that raised is exactly what it was; no other entry is touched; and every getter
   was called (the invocation counter advanced by nfb) *)
Theorem C11_entries_after_the_feedback_phase : forall w, in_flight w = false -> w_fms w = true ->
  let '(w', e) := denote c raises writes fbval (pseq (map PFeedback (seq 0 (nfb c)))) w in
  in_flight w' = false /\ w_n w' = (w_n w + nfb c)%nat /\ w_ntmode w' = w_ntmode w /\
  forall j, w_nt w' j =
    if (0 <=? j)%nat && (j <? 0 + nfb c)%nat
    then (if raises (w_n w + (j - 0)) then w_nt w j else Some (fbval (w_n w + (j - 0))))
    else w_nt w j.
Proof. exact (fun w => feedbacks_run c raises writes fbval (nfb c) 0%nat w). Qed.

(* the feedback phase comes after the components and before robotPeriodic, in every mode *)
Theorem C11_feedbacks_then_robot_periodic :
  do_periodics c = pseq [ pseq (map PFeedback (seq 0 (nfb c))); PGuard (PInvoke SRobotPeriodic) ].
Proof. exact eq_refl. Qed.
End C11.

(* key = the explicit key= argument, else the method name with ONE leading "get_" removed *)
Theorem C11_key_explicit : forall k name, fb_key (Some k) name = k.
Proof. exact Tunable.Proofs.C11_key_explicit. Qed.
Theorem C11_key_strips_get : forall r, fb_key None ("get_" ++ r) = r.
Proof. exact Tunable.Proofs.C11_key_strips_get. Qed.
Theorem C11_key_characterised : forall name k,
  fb_key None name = k <-> (name = "get_" ++ k)%string \/ ((forall r, name <> "get_" ++ r)%string /\ name = k).
Proof. exact Tunable.Proofs.C11_key_char. Qed.
(* the entry is /components/<name>/<key> or /robot/<key> *)
Theorem C11_entry_of_component : forall N e name,
  fb_owner_key (OComponent N) e name = ("/components/" ++ N ++ "/" ++ fb_key e name)%string.
Proof. exact Tunable.Proofs.C11_topic_key_component. Qed.
Theorem C11_entry_of_robot : forall e name, fb_owner_key ORobot e name = ("/robot/" ++ fb_key e name)%string.
Proof. exact Tunable.Proofs.C11_topic_key_robot. Qed.
(* the topic type follows the return annotation, or is inferred from the value when there is none *)
Theorem C11_topic_type : forall ann,
  fb_publisher ann =
  match ann with
  | None => FbGeneric
  | Some a => match spec_hint a with
              | None => FbGeneric
              | Some NRaw => FbRaises
              | Some t => FbTyped t
              end
  end.
Proof. exact Tunable.Proofs.C11_topic_type. Qed.

(* Non-vacuity: in the first teleop pass of the example getters 0 and 2 raise: robotPeriodic of
   that pass sees entry 1 fresh (15) and entries 0 and 2 as they were (4 and 6) *)
Example C11_nv :
  map (fun e => match e with EvRP m fb _ => (m, fb) | _ => (None, []) end)
      (firstn 2 (filter (fun e => match e with EvRP _ _ _ => true | _ => false end) (snd (ex_run true))))
  = [ (Some Disabled, [Some 4; Some 5; Some 6]); (Some Teleop, [Some 4; Some 15; Some 6]) ].
Proof. vm_compute. reflexivity. Qed.

Print Assumptions C11_called_once_per_iteration.
Print Assumptions C11_entries_after_the_feedback_phase.
Print Assumptions C11_feedbacks_then_robot_periodic.
Print Assumptions C11_key_explicit.
Print Assumptions C11_key_strips_get.
Print Assumptions C11_key_characterised.
Print Assumptions C11_entry_of_component.
Print Assumptions C11_entry_of_robot.
Print Assumptions C11_topic_type.
