(* C09 -- tunables are per-instance NetworkTables values at the documented key.
   Statements only; every proof is [exact <lemma of Tunable.Proofs>] or a
   one-line term.

   Vocabulary (Tunable/Model.v): [owner_key o subtable attr] is the f-string of
   setup_tunables for the three owner kinds as MagicRobot binds them
   ("components"/cname, "autonomous"/MODE_NAME, None/"robot"); a [world] is the
   NetworkTables map plus, per instance, the map  tunable |-> entry  that
   setup_tunables stores in [_tunables]; a history is a list of
   [Setup | PyWrite | PyRead | NtWrite | NtRead] over any number of instances;
   [py_read w i a] is what the descriptor's __get__ returns.
   Out of the model (ntcore): a topic that already exists with another type,
   values that do not fit the topic type and are rejected by pybind (what an
   entry makes of an accepted value is [entry_value]), the network; a class
   binding one tunable object under two public names ([prog_class] = None). *)
From Coq Require Import String List Bool ZArith NArith.
From RV Require Import Tunable.Model Tunable.Proofs.
Import ListNotations.
Open Scope string_scope.

(* ---- the documented key ------------------------------------------- *)

(* /components/N/A, /autonomous/N/A, /robot/A; a non-empty subtable S is
   inserted before A; for every N, A, S *)
Theorem C09_key : forall N A S, S <> "" ->
  owner_key (OComponent N) None A = "/components/" ++ N ++ "/" ++ A /\
  owner_key (OAutonomous N) None A = "/autonomous/" ++ N ++ "/" ++ A /\
  owner_key ORobot None A = "/robot/" ++ A /\
  owner_key (OComponent N) (Some S) A = "/components/" ++ N ++ "/" ++ S ++ "/" ++ A /\
  owner_key (OAutonomous N) (Some S) A = "/autonomous/" ++ N ++ "/" ++ S ++ "/" ++ A /\
  owner_key ORobot (Some S) A = "/robot/" ++ S ++ "/" ++ A.
Proof.
  exact (fun N A S H =>
    conj (key_component N A) (conj (key_autonomous N A) (conj (key_robot A)
      (conj (key_component_sub N S A H) (conj (key_autonomous_sub N S A H) (key_robot_sub S A H)))))).
Qed.

(* a successful Setup binds every public tunable of the class (distinct
   attribute names) to exactly that key, with the topic type of its
   declaration, in the instance's own map *)
Theorem C09_setup_binds_key : forall w i cls p c d,
  NoDup (map d_attr cls) -> In d cls -> public d = true ->
  snd (step w (Setup i cls p c)) = EvSetup true ->
  exists b ty, inst_get (w_inst (fst (step w (Setup i cls p c)))) i = Some b /\
    decl_topic (d_default d) (d_hint d) = Ok ty /\
    bind_get b (d_attr d) = Some (key_of p c (d_subtable d) (d_attr d), ty, entry_value ty (d_default d)).
Proof. exact setup_binds. Qed.

(* attribute assignment on a bound tunable lands in the topic at its key ... *)
Theorem C09_attr_write_reaches_topic : forall w i b a k ty d v,
  inst_get (w_inst w) i = Some b -> bind_get b a = Some (k, ty, d) ->
  nt_get (w_nt (fst (step w (PyWrite i a v)))) k = Some (ty, entry_value ty v).
Proof. exact bound_write_reaches_topic. Qed.

(* ... and attribute access returns what the topic at its key holds *)
Theorem C09_attr_read_sees_topic : forall w i b a k ty d t v,
  inst_get (w_inst w) i = Some b -> bind_get b a = Some (k, ty, d) ->
  nt_get (w_nt w) k = Some (t, v) -> py_read w i a = EvVal v.
Proof. exact bound_read_sees_topic. Qed.

(* ---- a read returns the latest write from either side -------------- *)

(* [w] is ANY world (any number of instances bound in any way, any topic
   contents); [h] any interleaving of attribute writes/reads on any instances
   and NT-side writes/reads.  [last_write w h k] is the most recent value
   written to topic k in h by an attribute assignment on any instance whose
   tunable is bound to k, or by an NT client. *)
Theorem C09_read_latest : forall w h i b a k ty d,
  no_setup h = true ->
  inst_get (w_inst w) i = Some b -> bind_get b a = Some (k, ty, d) ->
  py_read (fst (run w h)) i a =
  match last_write w h k with Some v => EvVal v | None => py_read w i a end.
Proof. exact read_latest. Qed.

(* the same for a read in the middle of a history: the event it emits *)
Theorem C09_read_latest_event : forall w h1 h2 i b a k ty d,
  no_setup h1 = true ->
  inst_get (w_inst w) i = Some b -> bind_get b a = Some (k, ty, d) ->
  nth (length h1) (snd (run w (h1 ++ PyRead i a :: h2)%list)) EvErr =
  match last_write w h1 k with Some v => EvVal v | None => py_read w i a end.
Proof. exact read_latest_event. Qed.

(* in particular after an arbitrary earlier history h0 (with Setups, re-binding
   under other names, pre-published values ...) *)
Theorem C09_read_latest_after_any_history : forall h0 h i b a k ty d,
  no_setup h = true ->
  inst_get (w_inst (fst (run w0 h0))) i = Some b -> bind_get b a = Some (k, ty, d) ->
  py_read (fst (run (fst (run w0 h0)) h)) i a =
  match last_write (fst (run w0 h0)) h k with
  | Some v => EvVal v
  | None => py_read (fst (run w0 h0)) i a
  end.
Proof. exact (fun h0 => read_latest (fst (run w0 h0))). Qed.

(* an NT client reading the key sees the same latest value *)
Theorem C09_nt_read_latest : forall w h k,
  no_setup h = true ->
  nt_val (w_nt (fst (run w h))) k =
  match last_write w h k with Some v => Some v | None => nt_val (w_nt w) k end.
Proof. exact nt_read_latest. Qed.

(* ---- instances under different names never share ------------------- *)

(* Hypothesis stated: component / mode names contain no "/"
   ([owner_name_ok]).  Then the key sets of two different owners are disjoint,
   whatever the subtables and attribute names are. *)
Theorem C09_keys_disjoint : forall o1 o2 s1 a1 s2 a2,
  owner_name_ok o1 = true -> owner_name_ok o2 = true -> o1 <> o2 ->
  owner_key o1 s1 a1 <> owner_key o2 s2 a2.
Proof. exact owner_keys_disjoint. Qed.

(* a Setup under owner o leaves the instance bound under o, and only another
   Setup of the same instance can change that *)
Theorem C09_setup_bound_under : forall w i cls o,
  snd (step w (Setup i cls (owner_prefix o) (owner_cname o))) = EvSetup true ->
  bound_under (fst (step w (Setup i cls (owner_prefix o) (owner_cname o)))) i o.
Proof. exact setup_bound_under. Qed.

Theorem C09_bound_under_stable : forall w i o x,
  (forall cls p c, x <> Setup i cls p c) ->
  bound_under w i o -> bound_under (fst (step w x)) i o.
Proof. exact bound_under_other. Qed.

(* no operation on instance j -- attribute writes, reads, even setting it up
   again under its owner o2 -- changes what any attribute of instance i,
   bound under a different owner o1, reads *)
Theorem C09_instances_independent : forall h w i j o1 o2,
  i <> j -> o1 <> o2 -> owner_name_ok o1 = true -> owner_name_ok o2 = true ->
  bound_under w i o1 -> bound_under w j o2 ->
  Forall (op_on j o2) h ->
  forall a, py_read (fst (run w h)) i a = py_read w i a.
Proof. exact instances_independent. Qed.

(* ---- writeDefault --------------------------------------------------- *)

(* at setup (attribute names distinct and "/"-free, as dir() of a Python class
   gives them) the topic of every public tunable holds the default when
   writeDefault is true or the topic had no value, and keeps its previous
   value (and type) otherwise *)
Theorem C09_write_default : forall w i cls p c d,
  NoDup (map d_attr cls) -> (forall d, In d cls -> no_slash (d_attr d) = true) ->
  In d cls -> public d = true ->
  snd (step w (Setup i cls p c)) = EvSetup true ->
  exists ty, decl_topic (d_default d) (d_hint d) = Ok ty /\
  nt_get (w_nt (fst (step w (Setup i cls p c)))) (key_of p c (d_subtable d) (d_attr d)) =
  if d_wd d then Some (ty, entry_value ty (d_default d))
  else match nt_get (w_nt w) (key_of p c (d_subtable d) (d_attr d)) with
       | Some tv => Some tv
       | None => Some (ty, entry_value ty (d_default d))
       end.
Proof. exact setup_write_default. Qed.

(* what setup must not change: every topic that is not a key of the class *)
Theorem C09_setup_untouched : forall w i cls p c k,
  (forall d, In d cls -> public d = true -> key_of p c (d_subtable d) (d_attr d) <> k) ->
  nt_get (w_nt (fst (step w (Setup i cls p c)))) k = nt_get (w_nt w) k.
Proof. exact setup_untouched. Qed.

(* ---- topic type ----------------------------------------------------- *)

(* for EVERY default and (optional) hint: the class statement yields the topic
   of the documented table [spec_decl], and raises exactly where that table
   has no entry *)
Theorem C09_topic_type : forall d h, res_to_option (decl_topic d h) = spec_decl d h.
Proof. exact decl_topic_spec. Qed.

(* the finite grid {bool,int,float,str,bytes,struct x2,other} x {scalar truthy/
   falsy, empty, homogeneous and mixed list/tuple} x {no hint, T, bare, list[T],
   Sequence[T], tuple[T], tuple[T,...], tuple[T,T], tuple[T,T,T], tuple[T,U] ...},
   by computation (bound: grid_decls) *)
Theorem C09_topic_type_grid : forall d h, In (d, h) grid_decls ->
  res_to_option (decl_topic d h) = spec_decl d h.
Proof. exact grid_table. Qed.

(* the table, readable: scalars by their type (falsy ones included) *)
Theorem C09_topic_scalar : forall b z n s l sn f,
  topic_of_default (VScalar (SBool b)) = Some NBoolean /\
  topic_of_default (VScalar (SInt z)) = Some NInteger /\
  topic_of_default (VScalar (SFloat n)) = Some NDouble /\
  topic_of_default (VScalar (SStr s)) = Some NString /\
  topic_of_default (VScalar (SBytes l)) = Some NRaw /\
  topic_of_default (VScalar (SStruct sn f)) = Some (NStruct sn) /\
  topic_of_default (VScalar SOther) = None.
Proof.
  exact (fun b z n s l sn f =>
    conj (topic_default_scalar (SBool b)) (conj (topic_default_scalar (SInt z))
    (conj (topic_default_scalar (SFloat n)) (conj (topic_default_scalar (SStr s))
    (conj (topic_default_scalar (SBytes l)) (conj (topic_default_scalar (SStruct sn f))
          (topic_default_scalar SOther))))))).
Qed.

(* non-empty lists and tuples: the array topic of the first element's type
   (bool, int, float, str, struct; none for bytes and anything else) *)
Theorem C09_topic_array : forall e l,
  topic_of_default (VList (e :: l)) = spec_array (base_of e) /\
  topic_of_default (VTuple (e :: l)) = spec_array (base_of e).
Proof. exact topic_default_list. Qed.

(* documented unsupported case: an empty sequence without a type hint *)
Theorem C09_empty_untyped_unsupported :
  topic_of_default (VList []) = None /\ topic_of_default (VTuple []) = None.
Proof. exact topic_default_empty. Qed.

(* with a hint the hint decides, also for empty defaults *)
Theorem C09_topic_hint : forall h d, init_rejects d = false ->
  topic_of_hint h d = spec_hint h.
Proof. exact topic_hint_spec. Qed.

(* tuple hints: supported iff tuple[T, ...] or all arguments the same T *)
Theorem C09_tuple_hint : forall b rest t,
  spec_hint (TGen OTuple (ABase b :: rest)) = Some t <->
  (rest = [AEllipsis] \/ Forall (fun a => a = ABase b) rest) /\ spec_array b = Some t.
Proof. exact tuple_hint_supported. Qed.

(* documented unsupported case: heterogeneous tuples *)
Theorem C09_hetero_tuple_unsupported : forall b c d, b <> c -> init_rejects d = false ->
  topic_of_hint (TGen OTuple [ABase b; ABase c]) d = None.
Proof.
  exact (fun b c d Hne Hd => eq_trans (topic_hint_spec _ d Hd) (tuple_hint_hetero b c Hne)).
Qed.

(* ---- how the hint is written ------------------------------------------ *)

(* Vocabulary: a tunable is written  x [: ann] = tunable[orig](default).
   [mksrc orig ann] is that class-body line: [orig] the subscript (if any),
   [ann] what the class body left in __annotations__ -- the evaluated object
   (RObj), a str with the source text (RStr: every annotation of a module with
   `from __future__ import annotations`, or a hint in quotes) or an object with
   a quoted argument (RFwd).  [spell sp H] writes the hint H in spelling sp:
   tunable[H](..), or an annotation H / tunable[H] / ClassVar[H] /
   ClassVar[tunable[H]], each as object, as string or with a forward
   reference.  [decl_topic_src] is the class statement from that line. *)

(* every accepted spelling of H makes __set_name__ resolve the topic type from
   H itself; [all_spellings] lists them all *)
Theorem C09_hint_spelling : forall sp h,
  In sp all_spellings /\ set_name_hint (spell sp h) = Some h.
Proof. exact (fun sp h => conj (all_spellings_complete sp) (spelled_hint sp h)). Qed.

(* for every class-body line: the subscript decides if present, else the H
   inside the evaluated annotation, else there is no hint *)
Theorem C09_hint_resolution : forall o r,
  set_name_hint (mksrc o r) =
  match o with
  | Some h => Some h
  | None => option_map (fun x => written_hint (get_type_hints x)) r
  end.
Proof. exact set_name_hint_char. Qed.

(* a postponed / quoted annotation (and one with a quoted argument) yields
   the same topic type, or the same rejection, as the evaluated annotation *)
Theorem C09_postponed_annotation : forall d o a,
  decl_topic_src d (mksrc o (Some (RStr a))) = decl_topic_src d (mksrc o (Some (RObj a))) /\
  decl_topic_src d (mksrc o (Some (RFwd a))) = decl_topic_src d (mksrc o (Some (RObj a))).
Proof. exact postponed_annotation_same. Qed.

(* C09_topic_type from the source: for EVERY default, every hint (or none) and
   every spelling the class statement yields the documented table *)
Theorem C09_topic_type_spelled : forall d sp h,
  res_to_option (decl_topic_src d (spell_opt sp h)) = spec_decl d h.
Proof. exact decl_topic_src_spec. Qed.

(* type-hinted empty sequences, in any spelling *)
Theorem C09_hinted_empty_sequence : forall sp b t, spec_array b = Some t ->
  decl_topic_src (VList []) (spell sp (TGen OList [ABase b])) = Ok t /\
  decl_topic_src (VList []) (spell sp (TGen OSeq [ABase b])) = Ok t /\
  decl_topic_src (VTuple []) (spell sp (TGen OSeq [ABase b])) = Ok t /\
  decl_topic_src (VTuple []) (spell sp (TGen OTuple [ABase b; AEllipsis])) = Ok t.
Proof. exact hinted_empty_sequence. Qed.

(* ... and through setup: a tunable whose hint is written in any spelling is
   bound at the documented key with the documented type of (default, hint) *)
Theorem C09_setup_binds_spelled : forall w i cls p c d sp h,
  NoDup (map d_attr cls) -> In d cls -> public d = true ->
  d_hint d = set_name_hint (spell_opt sp h) ->
  snd (step w (Setup i cls p c)) = EvSetup true ->
  exists b ty, inst_get (w_inst (fst (step w (Setup i cls p c)))) i = Some b /\
    spec_decl (d_default d) h = Some ty /\
    bind_get b (d_attr d) = Some (key_of p c (d_subtable d) (d_attr d), ty, entry_value ty (d_default d)).
Proof. exact setup_binds_spelled. Qed.

(* ---- the owner's truthiness plays no role ----------------------------- *)

(* Vocabulary: an owner OBJECT is [(i, t)]: its identity i and how bool() of it
   comes out at present, [t : truth] = TPlain (ordinary class, always true) |
   TLen n (the class defines __len__: false while n = 0) | TBool b (the class
   defines __bool__).  [tunable_get w instance a] is tunable.__get__ (instance
   = None for access through the class), [tunable_set] is __set__.  An [xop]
   history interleaves the operations above with [XSetTruth i t] (the owner's
   state changes: a container-like component empties / fills up, a gate opens
   / closes); [erase h] is the same history on ordinary objects. *)

(* reading through an instance returns what its entry holds -- for EVERY
   truthiness of the instance, the falsy ones (TLen 0, TBool false) included;
   only access through the class yields the tunable object itself *)
Theorem C09_read_ignores_truthiness : forall w i t a,
  tunable_get w (Some (i, t)) a = GResult (py_read w i a) /\
  tunable_get w None a = GSelf.
Proof. exact (fun w i t a => conj (tunable_get_instance w i t a) (tunable_get_class w a)). Qed.

(* "reading the attribute always returns the latest value set from either
   side": any world, any interleaving h of attribute writes/reads, NT-side
   writes/reads AND truthiness changes of any owners; the read happens on an
   owner whose bool() is anything at that moment (t arbitrary) *)
Theorem C09_read_latest_falsy_owner : forall x h i t b a k ty d,
  no_setup (erase h) = true ->
  inst_get (w_inst (x_w x)) i = Some b -> bind_get b a = Some (k, ty, d) ->
  tunable_get (x_w (fst (xrun x h))) (Some (i, t)) a =
  GResult (match last_write (x_w x) (erase h) k with
           | Some v => EvVal v
           | None => py_read (x_w x) i a
           end).
Proof. exact read_latest_any_truth. Qed.

(* the event the read emits inside such a history (the model takes the
   truthiness the owner has at that point of the history) *)
Theorem C09_read_latest_event_falsy_owner : forall x h1 h2 i b a k ty d,
  no_setup (erase h1) = true ->
  inst_get (w_inst (x_w x)) i = Some b -> bind_get b a = Some (k, ty, d) ->
  nth (length h1) (snd (xrun x (h1 ++ XOp (PyRead i a) :: h2)%list)) XDone =
  XEv (match last_write (x_w x) (erase h1) k with
       | Some v => EvVal v
       | None => py_read (x_w x) i a
       end).
Proof. exact read_latest_event_any_truth. Qed.

(* every history (Setups included) emits, operation by operation, the events
   of the same history on ordinary always-true owners, and leaves the same
   NetworkTables contents and bindings: all theorems above carry over *)
Theorem C09_truthiness_irrelevant : forall h x,
  x_w (fst (xrun x h)) = fst (run (x_w x) (erase h)) /\
  xevents (snd (xrun x h)) = map Some (snd (run (x_w x) (erase h))).
Proof. exact xrun_erase. Qed.

(* two runs that differ only in the owners' truthiness (initially and in
   when / how it changes) cannot be told apart *)
Theorem C09_truthiness_unobservable : forall h1 h2 x1 x2,
  x_w x1 = x_w x2 -> erase h1 = erase h2 ->
  xevents (snd (xrun x1 h1)) = xevents (snd (xrun x2 h2)) /\
  x_w (fst (xrun x1 h1)) = x_w (fst (xrun x2 h2)).
Proof. exact truth_irrelevant. Qed.

(* no attribute read on an instance ever hands back the tunable object *)
Theorem C09_read_never_returns_descriptor : forall h x, ~ In XSelf (snd (xrun x h)).
Proof. exact read_never_self. Qed.

(* attribute assignment on an owner of any truthiness lands in its topic *)
Theorem C09_write_falsy_owner : forall w i t b a k ty d v,
  inst_get (w_inst w) i = Some b -> bind_get b a = Some (k, ty, d) ->
  nt_get (w_nt (fst (tunable_set w (i, t) a v))) k = Some (ty, entry_value ty v).
Proof. exact write_reaches_topic_any_truth. Qed.

(* what a truthiness change must not change: NetworkTables, the bindings, and
   the truthiness of every other owner *)
Theorem C09_set_truth_changes_nothing_else : forall x i t,
  x_w (fst (xstep x (XSetTruth i t))) = x_w x /\
  truth_get (x_truth (fst (xstep x (XSetTruth i t)))) i = t /\
  forall j, j <> i ->
    truth_get (x_truth (fst (xstep x (XSetTruth i t)))) j = truth_get (x_truth x) j.
Proof. exact set_truth_changes_nothing. Qed.

(* ---- class hierarchies: a redefined tunable shadows ------------------- *)

(* Vocabulary: a class is given by its MRO, [mro = [vars(k) for k in
   cls.__mro__]] (the class itself first, then its bases in linearised order);
   a class body binds a name to a tunable ([MTun d], name [d_attr d]) or to
   something else ([MPlain name]).  [class_getattr mro n] is getattr(cls, n):
   the first class of the MRO whose body binds n.  [class_members mro] is what
   the loop head of setup_tunables (`for n in dir(cls): prop = getattr(cls, n);
   if not isinstance(prop, tunable): continue`) yields; [setup_class i mro p c]
   is setup_tunables on an instance of that class. *)

(* the loop sees exactly the tunable that attribute lookup on the class finds
   under each name, and one tunable per attribute name *)
Theorem C09_class_members : forall mro,
  (forall d, In d (class_members mro) <-> class_getattr mro (d_attr d) = Some (MTun d)) /\
  NoDup (map d_attr (class_members mro)).
Proof. exact (fun mro => conj (class_members_char mro) (class_members_nodup mro)). Qed.

(* the classes before C in the MRO do not bind the name, C binds it to the
   tunable d: then the class has d under that name and no other tunable,
   whatever the base classes after C declare under the same name *)
Theorem C09_redefinition_shadows : forall pre C post d,
  (forall b, In b pre -> body_get b (d_attr d) = None) ->
  body_get C (d_attr d) = Some (MTun d) ->
  class_getattr (pre ++ C :: post) (d_attr d) = Some (MTun d) /\
  In d (class_members (pre ++ C :: post)) /\
  forall d', In d' (class_members (pre ++ C :: post)) -> d_attr d' = d_attr d -> d' = d.
Proof. exact redefinition_shadows. Qed.

(* a name the class resolves to a non-tunable is not a tunable of the class,
   even when a base class declares a tunable of that name *)
Theorem C09_plain_member_shadows : forall mro n,
  class_getattr mro n = Some (MPlain n) ->
  forall d, In d (class_members mro) -> d_attr d <> n.
Proof. exact plain_member_shadows. Qed.

(* setup of an instance of such a class (names "/"-free): the definition d
   that attribute lookup finds under the name A is bound at the documented key
   with its topic type, and ITS default and ITS writeDefault flag decide what
   the topic holds -- the default when writeDefault is true or the topic had
   no value, else the previous (type, value) *)
Theorem C09_setup_hierarchy : forall w i mro p c d,
  (forall b m, In b mro -> In m b -> no_slash (member_name m) = true) ->
  class_getattr mro (d_attr d) = Some (MTun d) -> public d = true ->
  snd (step w (setup_class i mro p c)) = EvSetup true ->
  exists b ty, inst_get (w_inst (fst (step w (setup_class i mro p c)))) i = Some b /\
    decl_topic (d_default d) (d_hint d) = Ok ty /\
    bind_get b (d_attr d) = Some (key_of p c (d_subtable d) (d_attr d), ty, entry_value ty (d_default d)) /\
    nt_get (w_nt (fst (step w (setup_class i mro p c)))) (key_of p c (d_subtable d) (d_attr d)) =
    if d_wd d then Some (ty, entry_value ty (d_default d))
    else match nt_get (w_nt w) (key_of p c (d_subtable d) (d_attr d)) with
         | Some tv => Some tv
         | None => Some (ty, entry_value ty (d_default d))
         end.
Proof. exact setup_hierarchy. Qed.

(* ... and the attribute reads exactly that right after the setup *)
Theorem C09_setup_hierarchy_read : forall w i mro p c d,
  (forall b m, In b mro -> In m b -> no_slash (member_name m) = true) ->
  class_getattr mro (d_attr d) = Some (MTun d) -> public d = true ->
  snd (step w (setup_class i mro p c)) = EvSetup true ->
  exists ty, decl_topic (d_default d) (d_hint d) = Ok ty /\
  py_read (fst (step w (setup_class i mro p c))) i (d_attr d) =
  EvVal (if d_wd d then entry_value ty (d_default d)
         else match nt_get (w_nt w) (key_of p c (d_subtable d) (d_attr d)) with
              | Some (_, v) => v
              | None => entry_value ty (d_default d)
              end).
Proof. exact setup_hierarchy_read. Qed.

(* what it must not touch: every topic that is not the key of a tunable the
   class resolves a public name to (e.g. the key a shadowed definition with
   another subtable, or a tunable shadowed by a plain attribute, would have) *)
Theorem C09_setup_hierarchy_untouched : forall w i mro p c k,
  (forall d, class_getattr mro (d_attr d) = Some (MTun d) -> public d = true ->
             key_of p c (d_subtable d) (d_attr d) <> k) ->
  nt_get (w_nt (fst (step w (setup_class i mro p c)))) k = nt_get (w_nt w) k.
Proof. exact setup_hierarchy_untouched. Qed.

(* when every class statement of the hierarchy executes (shadowed tunables
   included), the setup succeeds *)
Theorem C09_hierarchy_setup_succeeds : forall w i mro p c,
  hier_defined mro = true -> snd (step w (setup_class i mro p c)) = EvSetup true.
Proof. exact hierarchy_setup_succeeds. Qed.

(* ---- what a typed entry stores --------------------------------------- *)

(* Vocabulary: [entry_value ty v] is what an entry of topic type [ty] makes of
   the Python object v handed to getEntry(default) / set / setDefault: tuples
   arrive as lists, and along Python's numeric tower an int (or bool) handed to
   a double entry arrives as that float, a bool handed to an int entry as 0/1
   (pybind; anything else that is not of the topic's type is rejected there
   and outside the model).  [fits ty v]: v is a value of the topic's type.
   The topic type comes from the HINT when there is one (C09_topic_type), so
   `kp: float = tunable(0)` is a double topic whose default literal is an int. *)

(* a value of the topic's type is stored as it is *)
Theorem C09_typed_value_unchanged : forall ty v, fits ty v = true -> entry_value ty v = canon v.
Proof. exact entry_value_fits. Qed.

(* an int on a double topic is the same number, as a float ([SFloat n] is n/64) *)
Theorem C09_int_on_double_topic : forall z,
  entry_value NDouble (VScalar (SInt z)) = VScalar (SFloat (64 * z)) /\
  forall l, entry_value NDoubleArr (VList (map SInt l)) = VList (map (fun z => SFloat (64 * z)) l) /\
            entry_value NDoubleArr (VTuple (map SInt l)) = VList (map (fun z => SFloat (64 * z)) l).
Proof. exact entry_value_int_on_double. Qed.

(* instance.attr = v; instance.attr  returns what the entry made of v ... *)
Theorem C09_write_reads_back : forall w i b a k ty d v,
  inst_get (w_inst w) i = Some b -> bind_get b a = Some (k, ty, d) ->
  py_read (fst (step w (PyWrite i a v))) i a = EvVal (entry_value ty v).
Proof. exact py_write_read_back. Qed.

(* ... so a python-side write of ANY value of the topic's type is what the
   topic holds and what the next read returns -- whatever the entry's default
   [d] is *)
Theorem C09_write_of_topic_type_reads_back : forall w i b a k ty d v,
  inst_get (w_inst w) i = Some b -> bind_get b a = Some (k, ty, d) -> fits ty v = true ->
  py_read (fst (step w (PyWrite i a v))) i a = EvVal (canon v) /\
  nt_get (w_nt (fst (step w (PyWrite i a v)))) k = Some (ty, canon v).
Proof. exact write_typed_value_reads_back. Qed.

(* through setup: [ty] is the topic type of the declaration (hint first, else
   default); the Python type of the default plays no role in what a later
   assignment of a value of type [ty] stores *)
Theorem C09_setup_then_write_reads_back : forall w i cls p c d v,
  NoDup (map d_attr cls) -> In d cls -> public d = true ->
  snd (step w (Setup i cls p c)) = EvSetup true ->
  exists ty, decl_topic (d_default d) (d_hint d) = Ok ty /\
    (fits ty v = true ->
     py_read (fst (step (fst (step w (Setup i cls p c))) (PyWrite i (d_attr d) v))) i (d_attr d)
       = EvVal (canon v) /\
     nt_get (w_nt (fst (step (fst (step w (Setup i cls p c))) (PyWrite i (d_attr d) v))))
            (key_of p c (d_subtable d) (d_attr d)) = Some (ty, canon v)).
Proof. exact setup_then_write_reads_back. Qed.

(* ---- one tunable object, several classes, each under its own name ----- *)

(* Vocabulary (Model section 12): a [program] is the tunable OBJECTS it creates
   ([tobj]: default, subscript hint, subtable, writeDefault -- no name) and its
   class statements in execution order; a class body line is [OTun name oid ann]
   (name [: ann] = object number oid) or [OPlain name].  A class is given by the
   positions [ixs] of the class statements of its MRO.  [obj_hint pr oid] is the
   hint behind the object's _topic_type slot = what the LAST __set_name__ call
   of the whole program resolved.  [prog_class pr ixs] are the tunables of the
   class as the loop of setup_tunables meets them; it is None for a class that
   resolves two public names to ONE object (outside the model, see Model.v). *)

(* [pr] is ANY program -- any other classes may bind the object under any other
   names, before or after this class.  For the class that resolves the public
   name n to the object, a successful setup binds instance.n at
   <prefix>/<cname>/[the object's subtable/]n  with n the name in THIS class,
   and the object's default / writeDefault flag decide what the topic holds *)
Theorem C09_shared_object_key : forall w i pr ixs om cls p c n oid ann o,
  prog_stmts pr ixs = Some om -> prog_class pr ixs = Some cls ->
  (forall b ob, In b om -> In ob b -> no_slash (obind_name ob) = true) ->
  omro_getattr om n = Some (OTun n oid ann) ->
  nth_error (p_objs pr) oid = Some o ->
  starts_with "_" n = false ->
  snd (step w (Setup i cls p c)) = EvSetup true ->
  exists b ty, inst_get (w_inst (fst (step w (Setup i cls p c)))) i = Some b /\
    decl_topic (t_default o) (obj_hint pr oid) = Ok ty /\
    bind_get b n = Some (key_of p c (t_subtable o) n, ty, entry_value ty (t_default o)) /\
    nt_get (w_nt (fst (step w (Setup i cls p c)))) (key_of p c (t_subtable o) n) =
    if t_wd o then Some (ty, entry_value ty (t_default o))
    else match nt_get (w_nt w) (key_of p c (t_subtable o) n) with
         | Some tv => Some tv
         | None => Some (ty, entry_value ty (t_default o))
         end.
Proof. exact shared_object_setup. Qed.

(* the hint behind the topic type of a shared object: when every class body
   that binds it resolves the same hint hh, that one *)
Theorem C09_shared_object_hint : forall pr oid o hh,
  nth_error (p_objs pr) oid = Some o ->
  (exists stmt n ann, In stmt (p_stmts pr) /\ In (OTun n oid ann) stmt) ->
  (forall stmt n ann, In stmt (p_stmts pr) -> In (OTun n oid ann) stmt ->
                      set_name_hint (mksrc (t_orig o) ann) = hh) ->
  obj_hint pr oid = hh.
Proof. exact shared_object_hint. Qed.

(* a subscript on the object ( tunable[H](..) ) always decides *)
Theorem C09_shared_object_hint_subscript : forall pr oid o h,
  nth_error (p_objs pr) oid = Some o -> t_orig o = Some h ->
  (exists stmt n ann, In stmt (p_stmts pr) /\ In (OTun n oid ann) stmt) ->
  obj_hint pr oid = Some h.
Proof. exact shared_object_hint_subscript. Qed.

(* the documented table for a shared object whose binders all write the hint h
   (or none), each in any accepted spelling *)
Theorem C09_shared_object_topic_type : forall pr oid o h,
  nth_error (p_objs pr) oid = Some o ->
  (exists stmt n ann, In stmt (p_stmts pr) /\ In (OTun n oid ann) stmt) ->
  (forall stmt n ann, In stmt (p_stmts pr) -> In (OTun n oid ann) stmt ->
                      exists sp, mksrc (t_orig o) ann = spell_opt sp h) ->
  res_to_option (decl_topic (t_default o) (obj_hint pr oid)) = spec_decl (t_default o) h.
Proof. exact shared_object_topic_type. Qed.

(* ---- the clock and the timestamps of NetworkTables values ------------- *)

(* Vocabulary (Model section 13).  Every NT value carries a timestamp; a client
   may supply it ([stampsel]: SNow = the NT clock, SSame = the timestamp of the
   value the topic holds now, SOlder = one microsecond before that, SAt t);
   ntcore drops an update that is older than the value the topic holds.  The
   NT clock ([g_now]) is stepped by [GTick d] -- it stands still in between
   (the paused simulation clock of robot tests: everything between two steps
   carries ONE timestamp; d = 1 per operation: a running clock).  [gworld] =
   the world of the sections above + clock + per-topic timestamps
   ([g_stamps], [stamp_get]) + the classes as they are now; [gop] = an
   operation of the sections above ([GX]; its writes happen at the clock's
   time), [GTick], [GNtWriteAt key ty v sel], [GNtStamp key], [GClassAssign],
   [GSetupOf]; [grun] yields per operation its event and whether ntcore
   accepted its writes ([all_accepted]).  [gerase cl h] is the same history
   with clock, timestamps and class changes forgotten (an [xop] history of the
   sections above, every setup with the tunables its class has at that
   moment), [gevents] the events of the operations that survive. *)

(* whatever the clock does and however the clients stamp their updates: as
   long as ntcore drops no update as stale, the history behaves -- NT
   contents, bindings, every event -- as if there were no timestamps at all.
   tunable.__get__ returns what the entry holds; WHEN that value was stamped
   plays no role. *)
Theorem C09_time_irrelevant : forall h g,
  all_accepted (snd (grun g h)) = true ->
  g_x (fst (grun g h)) = fst (xrun (g_x g) (gerase (g_classes g) h)) /\
  gevents (snd (grun g h)) = snd (xrun (g_x g) (gerase (g_classes g) h)).
Proof. exact grun_erase. Qed.

(* nothing is dropped when no topic carries a timestamp from the future, the
   clock never runs backwards (steps of size 0 included: a PAUSED clock) and
   clients stamp with "now" or "the same as the value being replaced" *)
Theorem C09_paused_clock_drops_nothing : forall h g,
  (forall k, (stamp_get (g_stamps g) k <= g_now g)%Z) ->
  forallb gop_timely h = true ->
  all_accepted (snd (grun g h)) = true.
Proof. exact timely_all_accepted. Qed.

(* C09's read clause with the clock in the picture: after ANY such history
   without re-binding -- attribute writes and reads, client writes stamped
   "now" or with the SAME timestamp as the value they replace, clock steps of
   any size >= 0, truthiness changes -- reading i.a (owner of any truthiness)
   gives the most recent write to its key, also when that write carries the
   very timestamp of the value the instance read before *)
Theorem C09_read_latest_any_time : forall g h i t b a k ty d,
  (forall k', (stamp_get (g_stamps g) k' <= g_now g)%Z) ->
  forallb gop_timely h = true ->
  no_setup (erase (gerase (g_classes g) h)) = true ->
  inst_get (w_inst (x_w (g_x g))) i = Some b -> bind_get b a = Some (k, ty, d) ->
  tunable_get (x_w (g_x (fst (grun g h)))) (Some (i, t)) a =
  GResult (match last_write (x_w (g_x g)) (erase (gerase (g_classes g) h)) k with
           | Some v => EvVal v
           | None => py_read (x_w (g_x g)) i a
           end).
Proof. exact read_latest_any_time. Qed.

(* ... and the event such a read emits in the middle of the history *)
Theorem C09_read_latest_event_any_time : forall g h1 h2 i b a k ty d,
  (forall k', (stamp_get (g_stamps g) k' <= g_now g)%Z) ->
  forallb gop_timely (h1 ++ GX (XOp (PyRead i a)) :: h2) = true ->
  no_setup (erase (gerase (g_classes g) h1)) = true ->
  inst_get (w_inst (x_w (g_x g))) i = Some b -> bind_get b a = Some (k, ty, d) ->
  nth (length (gerase (g_classes g) h1))
      (gevents (snd (grun g (h1 ++ GX (XOp (PyRead i a)) :: h2)))) XDone =
  XEv (match last_write (x_w (g_x g)) (erase (gerase (g_classes g) h1)) k with
       | Some v => EvVal v
       | None => py_read (x_w (g_x g)) i a
       end).
Proof. exact read_latest_event_any_time. Qed.

(* the boundary (ntcore, not /repo): an update stamped older than the value
   the topic holds is dropped -- no topic, timestamp or binding changes *)
Theorem C09_stale_update_dropped : forall g k ty v s,
  accepts (stamp_get (g_stamps g) k) (sel_time (g_now g) (stamp_get (g_stamps g) k) s) = false ->
  gstep g (GNtWriteAt k ty v s) = (g, GEv (XEv EvWrote), false).
Proof. exact stale_write_dropped. Qed.

(* ---- classes whose tunables change between two setups ------------------ *)

(* Vocabulary: [GClassAssign c m] is `cls.name = obj` executed after the class
   statement (obj a new tunable [MTun d] or anything else [MPlain name]) on
   class number c; magicbot's StateMachine does it in EVERY instance
   construction (cls.state_names = tunable(..), cls.state_descriptions =
   tunable(..)).  [mro_assign mro m] is the class afterwards.  [GSetupOf i c p n]
   is setup_tunables(instance i of class c, n, p): the class AS IT IS NOW. *)

(* attribute lookup on the class after `cls.name = obj` *)
Theorem C09_class_assign_lookup : forall mro m n,
  class_getattr (mro_assign mro m) n =
  if String.eqb (member_name m) n then Some m else class_getattr mro n.
Proof. exact class_getattr_assign. Qed.

(* it touches nothing else: no topic, no timestamp, the clock, no binding of
   an instance that is set up already, no other class *)
Theorem C09_class_assign_changes_nothing_else : forall g c m,
  let g' := fst (fst (gstep g (GClassAssign c m))) in
  g_x g' = g_x g /\ g_stamps g' = g_stamps g /\ g_now g' = g_now g /\
  snd (gstep g (GClassAssign c m)) = true /\
  forall c', c' <> c -> nth_error (g_classes g') c' = nth_error (g_classes g) c'.
Proof. exact class_assign_changes_nothing_else. Qed.

(* EVERY setup binds the tunables the class has at that moment (however many
   instances of the class were set up before, whatever the class looked like
   then): per public name the tunable attribute lookup finds NOW, at the
   documented key, with its topic type; its default / writeDefault flag decide
   what the topic holds *)
Theorem C09_setup_binds_current_class : forall g i c mro p n d,
  (forall k, (stamp_get (g_stamps g) k <= g_now g)%Z) ->
  nth_error (g_classes g) c = Some mro ->
  (forall b x, In b mro -> In x b -> no_slash (member_name x) = true) ->
  class_getattr mro (d_attr d) = Some (MTun d) -> public d = true ->
  snd (fst (gstep g (GSetupOf i c p n))) = GEv (XEv (EvSetup true)) ->
  snd (gstep g (GSetupOf i c p n)) = true /\
  exists b ty,
    inst_get (w_inst (x_w (g_x (fst (fst (gstep g (GSetupOf i c p n))))))) i = Some b /\
    decl_topic (d_default d) (d_hint d) = Ok ty /\
    bind_get b (d_attr d) =
      Some (key_of p n (d_subtable d) (d_attr d), ty, entry_value ty (d_default d)) /\
    nt_get (w_nt (x_w (g_x (fst (fst (gstep g (GSetupOf i c p n)))))))
           (key_of p n (d_subtable d) (d_attr d)) =
    if d_wd d then Some (ty, entry_value ty (d_default d))
    else match nt_get (w_nt (x_w (g_x g))) (key_of p n (d_subtable d) (d_attr d)) with
         | Some tv => Some tv
         | None => Some (ty, entry_value ty (d_default d))
         end.
Proof. exact setup_binds_current_class. Qed.

(* in particular: after `cls.A = tunable(..)` (= d), an instance that is set
   up next has A bound to THAT tunable *)
Theorem C09_setup_after_class_assign : forall g i c mro p n d,
  (forall k, (stamp_get (g_stamps g) k <= g_now g)%Z) ->
  nth_error (g_classes g) c = Some mro ->
  (forall b x, In b (mro_assign mro (MTun d)) -> In x b -> no_slash (member_name x) = true) ->
  public d = true ->
  let g1 := fst (fst (gstep g (GClassAssign c (MTun d)))) in
  snd (fst (gstep g1 (GSetupOf i c p n))) = GEv (XEv (EvSetup true)) ->
  exists b ty,
    inst_get (w_inst (x_w (g_x (fst (fst (gstep g1 (GSetupOf i c p n))))))) i = Some b /\
    decl_topic (d_default d) (d_hint d) = Ok ty /\
    bind_get b (d_attr d) =
      Some (key_of p n (d_subtable d) (d_attr d), ty, entry_value ty (d_default d)) /\
    nt_get (w_nt (x_w (g_x (fst (fst (gstep g1 (GSetupOf i c p n)))))))
           (key_of p n (d_subtable d) (d_attr d)) =
    if d_wd d then Some (ty, entry_value ty (d_default d))
    else match nt_get (w_nt (x_w (g_x g))) (key_of p n (d_subtable d) (d_attr d)) with
         | Some tv => Some tv
         | None => Some (ty, entry_value ty (d_default d))
         end.
Proof. exact setup_after_class_assign. Qed.

(* ---- subtable strings and owner names with structure ------------------- *)

(* The key is plain string concatenation.  A non-empty subtable string S goes
   in VERBATIM between the owner's table and the attribute name -- a leading
   slash ("/pid" gives  <owner>//pid/A), a trailing one ("limits/" gives
   <owner>/limits//A), "a//b", ".", "..", "cfg/../x" are not interpreted as a
   path: nothing is dropped, collapsed or resolved.  (For names without "/"
   C09_keys_disjoint above already covers ALL subtable strings.) *)
Theorem C09_key_verbatim : forall p c S A, S <> "" ->
  key_of p c (Some S) A = key_prefix p c ++ "/" ++ S ++ "/" ++ A.
Proof. exact key_verbatim. Qed.

(* for EVERY subtable string (or none) and attribute, names with ANY characters
   (slashes, dots included): the same tunable bound under two names of the same
   kind lives at two different topics *)
Theorem C09_key_injective_in_name : forall p c1 c2 s a,
  key_of p c1 s a = key_of p c2 s a -> c1 = c2.
Proof. exact key_of_inj_name. Qed.

Theorem C09_other_name_other_topic : forall p c1 c2 s a,
  c1 <> c2 -> key_of p c1 s a <> key_of p c2 s a.
Proof. exact key_of_other_name. Qed.

(* ... and across components, autonomous modes and the robot *)
Theorem C09_owner_key_injective : forall o1 o2 s a,
  owner_key o1 s a = owner_key o2 s a -> o1 = o2.
Proof. exact owner_key_inj. Qed.

(* ---- accesses made from inside the framework's loop functions ---------- *)

(* Vocabulary (Model 13d): MagicRobot runs the user's code location by
   location -- one PASS of the control loop is teleopPeriodic(), then every
   component's execute() (_enabled_periodic), then the @feedback getters and
   periodic methods (_do_periodics); a pass is the list of its locations, a
   location the list of operations performed there (reads / writes of any
   component's tunables, dashboard updates that arrive meanwhile, the clock
   moving on); [loop_history passes] is the history: their concatenation. *)

(* C09's read clause for an attribute read made from ANY place of ANY pass:
   it gives the most recent write to its key among everything that happened
   before it -- in earlier passes, in the earlier locations of this pass
   (another component's execute(), a dashboard update that arrived after the
   pass had started), earlier in the same function -- else what it read at the
   start.  In particular an assignment made late in a pass is not lost to a
   dashboard update that arrived earlier in that pass. *)
Theorem C09_read_latest_inside_a_pass : forall g before locs1 ops1 i a ops2 locs2 after b k ty d,
  (forall k', (stamp_get (g_stamps g) k' <= g_now g)%Z) ->
  forallb gop_timely
    (loop_history (before ++ [locs1 ++ (ops1 ++ GX (XOp (PyRead i a)) :: ops2) :: locs2] ++ after)%list) = true ->
  no_setup (erase (gerase (g_classes g) (loop_history before ++ concat locs1 ++ ops1)%list)) = true ->
  inst_get (w_inst (x_w (g_x g))) i = Some b -> bind_get b a = Some (k, ty, d) ->
  nth (length (gerase (g_classes g) (loop_history before ++ concat locs1 ++ ops1)%list))
      (gevents (snd (grun g (loop_history
         (before ++ [locs1 ++ (ops1 ++ GX (XOp (PyRead i a)) :: ops2) :: locs2] ++ after)%list)))) XDone =
  XEv (match last_write (x_w (g_x g))
               (erase (gerase (g_classes g) (loop_history before ++ concat locs1 ++ ops1)%list)) k with
       | Some v => EvVal v
       | None => py_read (x_w (g_x g)) i a
       end).
Proof. exact read_latest_inside_a_pass. Qed.

(* whatever framework function an access is made from, it is an access like
   any other: regrouping the same operations into other passes / locations
   changes no topic, no binding, no event *)
Theorem C09_loop_structure_irrelevant : forall g p1 p2,
  loop_history p1 = loop_history p2 -> grun g (loop_history p1) = grun g (loop_history p2).
Proof. exact loop_structure_irrelevant. Qed.

(* ---- non-vacuity ----------------------------------------------------- *)

Definition ex_cls : list decl :=
  [ mkdecl "gain" (VScalar (SFloat 96)) None None true;
    mkdecl "limits" (VTuple []) (Some (TGen OSeq [ABase BInt])) (Some "cfg") false;
    mkdecl "_hidden" (VScalar (SInt 1)) None None true;
    mkdecl "name" (VScalar (SStr "")) None None false ].

Definition ex_h0 : list op :=
  [ NtWrite "/components/ab/name" NString (VScalar (SStr "kept"));
    Setup 0 ex_cls (Some "components") "a";
    Setup 1 ex_cls (Some "components") "ab" ].

Definition ex_h : list op :=
  [ PyWrite 0 "gain" (VScalar (SFloat 64));
    NtWrite "/components/ab/gain" NDouble (VScalar (SFloat 32));
    PyRead 1 "gain";
    NtWrite "/components/a/gain" NDouble (VScalar (SFloat 16));
    PyWrite 1 "limits" (VTuple [SInt 1; SInt 2]);
    NtRead "/components/ab/cfg/limits" ].

(* the class is definable, both Setups succeed, the hypotheses of the history
   theorems hold, and the run shows what they claim *)
Example C09_nv_run :
  snd (run w0 (ex_h0 ++ ex_h ++ [PyRead 0 "gain"; PyRead 1 "gain"; PyRead 1 "name";
                                   PyRead 0 "name"; PyRead 0 "_hidden"; PyRead 2 "gain"])%list) =
  [ EvWrote; EvSetup true; EvSetup true;
    EvWrote; EvWrote; EvVal (VScalar (SFloat 32)); EvWrote; EvWrote;
    EvNt (Some (NIntegerArr, VList [SInt 1; SInt 2]));
    EvVal (VScalar (SFloat 16)); EvVal (VScalar (SFloat 32)); EvVal (VScalar (SStr "kept"));
    EvVal (VScalar (SStr "")); EvErr; EvErr ].
Proof. vm_compute. reflexivity. Qed.

Example C09_nv_hyps :
  no_setup ex_h = true /\
  NoDup (map d_attr ex_cls) /\ (forall d, In d ex_cls -> no_slash (d_attr d) = true) /\
  bound_under (fst (run w0 ex_h0)) 0 (OComponent "a") /\
  bound_under (fst (run w0 ex_h0)) 1 (OComponent "ab") /\
  OComponent "a" <> OComponent "ab" /\
  owner_name_ok (OComponent "a") = true /\ owner_name_ok (OComponent "ab") = true /\
  Forall (op_on 1 (OComponent "ab")) [PyWrite 1 "gain" (VScalar (SFloat 8)); PyRead 1 "gain";
                                       Setup 1 ex_cls (Some "components") "ab"] /\
  last_write (fst (run w0 ex_h0)) ex_h "/components/a/gain" = Some (VScalar (SFloat 16)).
Proof.
  split; [reflexivity|]. split; [repeat constructor; simpl; intuition discriminate|].
  split; [intros d [<-|[<-|[<-|[<-|[]]]]]; reflexivity|].
  split.
  { apply (C09_bound_under_stable _ 0 (OComponent "a") (Setup 1 ex_cls (Some "components") "ab"));
      [intros cls p c; discriminate|].
    apply (C09_setup_bound_under _ 0 ex_cls (OComponent "a")). reflexivity. }
  split.
  { apply (C09_setup_bound_under _ 1 ex_cls (OComponent "ab")). reflexivity. }
  split; [discriminate|]. split; [reflexivity|]. split; [reflexivity|].
  split; [repeat constructor; simpl; auto|]. vm_compute. reflexivity.
Qed.

(* the grid is not trivial: it contains supported and unsupported points *)
Definition count_supported : N :=
  N.of_nat (length (filter (fun dh => match spec_decl (fst dh) (snd dh) with
                                      | Some _ => true | None => false end) grid_decls)).
Example C09_nv_grid :
  N.of_nat (length grid_defaults) = 159%N /\ N.of_nat (length grid_hints) = 237%N /\
  N.of_nat (length grid_decls) = 37842%N /\ count_supported = 10490%N /\
  spec_decl (VTuple []) (Some (TGen OTuple [ABase BInt; AEllipsis])) = Some NIntegerArr /\
  spec_decl (VList [SInt 3]) (Some (TGen OTuple [ABase BInt; ABase BStr])) = None.
Proof. vm_compute. intuition. Qed.

(* spellings: 13 of them; a module with `from __future__ import annotations`
   declaring  gains: list[float] = tunable([])  and
   flags: ClassVar[tunable[List[bool]]] = tunable(())  is definable, set up under
   component "intake" both are bound with double[] / boolean[] at the documented
   keys; a heterogeneous tuple hint stays rejected when it is a string *)
Definition ex_postponed : list decl :=
  [ mkdecl "flags" (VTuple [])
      (set_name_hint (mksrc None (Some (RStr (AClassVar (ITunable (TGen OList [ABase BBool])))))))
      None true;
    mkdecl "gains" (VList [])
      (set_name_hint (spell (SpAnn QStr false false) (TGen OList [ABase BFloat])))
      (Some "cfg") true ].
Example C09_nv_spelling :
  N.of_nat (length all_spellings) = 13%N /\
  snd (run w0 [Setup 0 ex_postponed (Some "components") "intake";
               NtRead "/components/intake/cfg/gains"; NtRead "/components/intake/flags";
               PyWrite 0 "gains" (VList [SFloat 16]); PyRead 0 "gains"]) =
  [ EvSetup true; EvNt (Some (NDoubleArr, VList [])); EvNt (Some (NBooleanArr, VList []));
    EvWrote; EvVal (VList [SFloat 16]) ] /\
  decl_topic_src (VList []) (spell (SpAnn QStr false false) (TGen OTuple [ABase BInt; ABase BStr]))
    = RaiseTypeError /\
  decl_topic_src (VList []) (mksrc None None) = RaiseValueError.
Proof. vm_compute. intuition. Qed.

(* falsy owners: instance 0 is an empty container (len 0), instance 1 a closed
   gate (__bool__ False); both are set up and read WHILE FALSY, written from
   both sides, the container fills up and empties again *)
Definition ex_xh : list xop :=
  [ XSetTruth 0 (TLen 0); XSetTruth 1 (TBool false);
    XOp (Setup 0 ex_cls (Some "components") "idx"); XOp (Setup 1 ex_cls None "robot");
    XOp (PyRead 0 "gain");
    XOp (NtWrite "/components/idx/gain" NDouble (VScalar (SFloat 48)));
    XOp (PyRead 0 "gain");
    XSetTruth 0 (TLen 1);
    XOp (PyWrite 0 "gain" (VScalar (SFloat 16)));
    XSetTruth 0 (TLen 0);
    XOp (PyRead 0 "gain"); XOp (PyRead 1 "gain");
    XOp (PyWrite 1 "gain" (VScalar (SFloat 160))); XOp (PyRead 1 "gain") ].
Example C09_nv_falsy :
  snd (xrun x0 ex_xh) =
  [ XDone; XDone; XEv (EvSetup true); XEv (EvSetup true);
    XEv (EvVal (VScalar (SFloat 96)));
    XEv EvWrote; XEv (EvVal (VScalar (SFloat 48)));
    XDone; XEv EvWrote; XDone;
    XEv (EvVal (VScalar (SFloat 16))); XEv (EvVal (VScalar (SFloat 96)));
    XEv EvWrote; XEv (EvVal (VScalar (SFloat 160))) ] /\
  falsy_now (fst (xrun x0 (firstn 6 ex_xh))) 0 = true /\
  falsy_now (fst (xrun x0 (firstn 9 ex_xh))) 0 = false /\
  falsy_now (fst (xrun x0 ex_xh)) 0 = true /\ falsy_now (fst (xrun x0 ex_xh)) 1 = true /\
  falsy_now (fst (xrun x0 ex_xh)) 2 = false /\
  truth_value (TLen 0) = false /\ truth_value (TBool false) = false /\
  truth_value (TLen 3) = true /\ truth_value TPlain = true /\
  no_setup (erase (skipn 4 ex_xh)) = true /\
  last_write (x_w (fst (xrun x0 (firstn 4 ex_xh)))) (erase (skipn 4 ex_xh)) "/components/idx/gain"
    = Some (VScalar (SFloat 16)).
Proof. vm_compute. intuition. Qed.

(* a hierarchy with redefinitions: Shooter <- FastShooter(Shooter, Mixin) *)
Definition ex_shooter : classbody :=
  [ MTun (mkdecl "speed" (VScalar (SFloat 64)) None None true);
    MTun (mkdecl "ratio" (VScalar (SFloat 32)) None None true);
    MTun (mkdecl "limit" (VScalar (SInt 5)) None None true);
    MTun (mkdecl "shots" (VScalar (SInt 3)) None (Some "stats") true);
    MTun (mkdecl "mode" (VScalar (SStr "base")) None None true) ].
Definition ex_mixin : classbody :=
  [ MTun (mkdecl "boost" (VScalar (SBool false)) None None true); MPlain "helper" ].
Definition ex_fast : classbody :=
  [ MTun (mkdecl "speed" (VScalar (SFloat 576)) None None true);
    MTun (mkdecl "limit" (VScalar (SInt 7)) None None false);
    MTun (mkdecl "shots" (VScalar (SInt 40)) None (Some "other") true);
    MPlain "mode";
    MTun (mkdecl "boost" (VScalar (SBool true)) None None true) ].
Definition ex_mro : list classbody := [ex_fast; ex_shooter; ex_mixin].
Example C09_nv_hierarchy :
  dir_names ex_mro = ["boost"; "helper"; "limit"; "mode"; "ratio"; "shots"; "speed"] /\
  map d_attr (class_members ex_mro) = ["boost"; "limit"; "ratio"; "shots"; "speed"] /\
  hier_defined ex_mro = true /\
  (forall b m, In b ex_mro -> In m b -> no_slash (member_name m) = true) /\
  class_getattr ex_mro "limit" = Some (MTun (mkdecl "limit" (VScalar (SInt 7)) None None false)) /\
  class_getattr ex_mro "mode" = Some (MPlain "mode") /\
  snd (run w0 [ NtWrite "/components/f/limit" NInteger (VScalar (SInt 2));
                NtWrite "/components/f/speed" NDouble (VScalar (SFloat (-256)));
                setup_class 0 ex_mro (Some "components") "f";
                setup_class 1 [ex_shooter] (Some "components") "b";
                PyRead 0 "speed"; PyRead 0 "limit"; PyRead 0 "ratio"; PyRead 0 "boost";
                NtRead "/components/f/other/shots"; NtRead "/components/f/stats/shots";
                NtRead "/components/f/mode"; PyRead 1 "speed"; PyRead 1 "limit";
                NtRead "/components/b/mode" ]) =
  [ EvWrote; EvWrote; EvSetup true; EvSetup true;
    EvVal (VScalar (SFloat 576)); EvVal (VScalar (SInt 2)); EvVal (VScalar (SFloat 32));
    EvVal (VScalar (SBool true));
    EvNt (Some (NInteger, VScalar (SInt 40))); EvNt None; EvNt None;
    EvVal (VScalar (SFloat 64)); EvVal (VScalar (SInt 5));
    EvNt (Some (NString, VScalar (SStr "base"))) ].
Proof.
  split; [vm_compute; reflexivity|]. split; [vm_compute; reflexivity|].
  split; [vm_compute; reflexivity|].
  split; [intros b m [<-|[<-|[<-|[]]]] Hm; simpl in Hm;
          repeat (destruct Hm as [<-|Hm]; [reflexivity|]); destruct Hm|].
  split; [vm_compute; reflexivity|]. split; [vm_compute; reflexivity|].
  vm_compute. reflexivity.
Qed.

(* shared presets, as a user writes them:
     default_kp = tunable(0.5); default_limit = tunable(40, subtable="limits")
     default_label = tunable("idle", writeDefault=False)
     class Intake:  intake_kp = default_kp;  intake_current = default_limit;  mode = default_label; own = tunable(1.0)
     class Shooter: shooter_kp = default_kp; shooter_current = default_limit; mode = default_label; own = tunable(2.0)
                    kf: float = tunable(0)
     class Robot:   drive_kp = default_kp;   breaker = default_limit
   every owner gets the topic under ITS name for the object; `kf` is a double
   topic with an int default literal: 0.75 and 2 assigned read back 0.75, 2.0 *)
Definition ex_prog : program :=
  mkprog
    [ mktobj (VScalar (SFloat 32)) None None true;
      mktobj (VScalar (SInt 40)) None (Some "limits") true;
      mktobj (VScalar (SStr "idle")) None None false;
      mktobj (VScalar (SFloat 64)) None None true;
      mktobj (VScalar (SFloat 128)) None None true;
      mktobj (VScalar (SInt 0)) None None true ]
    [ [OTun "intake_kp" 0 None; OTun "intake_current" 1 None; OTun "mode" 2 None; OTun "own" 3 None];
      [OTun "shooter_kp" 0 None; OTun "shooter_current" 1 None; OTun "mode" 2 None; OTun "own" 4 None;
       OTun "kf" 5 (Some (RObj (APlain (IType (TBase BFloat)))))];
      [OTun "drive_kp" 0 None; OTun "breaker" 1 None] ].
Example C09_nv_shared :
  prog_in_model ex_prog [[0]; [1]; [2]] = true /\
  prog_stmts ex_prog [1] = Some [nth 1 (p_stmts ex_prog) []] /\
  omro_getattr [nth 1 (p_stmts ex_prog) []] "shooter_kp" = Some (OTun "shooter_kp" 0 None) /\
  omro_getattr [nth 0 (p_stmts ex_prog) []] "intake_kp" = Some (OTun "intake_kp" 0 None) /\
  obj_hint ex_prog 5 = Some (TBase BFloat) /\ obj_hint ex_prog 0 = None /\
  snd (run w0 [ NtWrite "/components/shooter/mode" NString (VScalar (SStr "spin"));
                Setup 0 (prog_class_list ex_prog [0]) (Some "components") "intake";
                Setup 1 (prog_class_list ex_prog [1]) (Some "components") "shooter";
                Setup 2 (prog_class_list ex_prog [2]) None "robot";
                NtRead "/components/intake/intake_kp"; NtRead "/components/shooter/shooter_kp";
                NtRead "/robot/drive_kp"; NtRead "/components/intake/shooter_kp";
                NtRead "/components/intake/drive_kp"; NtRead "/components/intake/limits/intake_current";
                NtRead "/robot/limits/breaker";
                PyWrite 0 "intake_kp" (VScalar (SFloat 48)); PyRead 0 "intake_kp";
                PyRead 1 "shooter_kp"; PyRead 2 "drive_kp"; PyRead 0 "mode"; PyRead 1 "mode";
                NtRead "/components/shooter/kf";
                PyWrite 1 "kf" (VScalar (SFloat 48)); PyRead 1 "kf";
                PyWrite 1 "kf" (VScalar (SInt 2)); PyRead 1 "kf"; NtRead "/components/shooter/kf" ]) =
  [ EvWrote; EvSetup true; EvSetup true; EvSetup true;
    EvNt (Some (NDouble, VScalar (SFloat 32))); EvNt (Some (NDouble, VScalar (SFloat 32)));
    EvNt (Some (NDouble, VScalar (SFloat 32))); EvNt None; EvNt None;
    EvNt (Some (NInteger, VScalar (SInt 40))); EvNt (Some (NInteger, VScalar (SInt 40)));
    EvWrote; EvVal (VScalar (SFloat 48));
    EvVal (VScalar (SFloat 32)); EvVal (VScalar (SFloat 32));
    EvVal (VScalar (SStr "idle")); EvVal (VScalar (SStr "spin"));
    EvNt (Some (NDouble, VScalar (SFloat 0)));
    EvWrote; EvVal (VScalar (SFloat 48));
    EvWrote; EvVal (VScalar (SFloat 128)); EvNt (Some (NDouble, VScalar (SFloat 128))) ] /\
  fits NDouble (VScalar (SFloat 48)) = true /\ fits NDouble (VScalar (SInt 2)) = false /\
  fits NDoubleArr (VTuple [SFloat 1; SFloat 2]) = true /\ fits NInteger (VScalar (SFloat 64)) = false.
Proof. vm_compute. intuition. Qed.

(* the model boundary: one object under two public names of one class (also
   through a base class) is outside the model; a private alias is not bound at
   all and does no harm *)
Example C09_nv_alias_outside_model :
  let o := mktobj (VScalar (SInt 1)) None None true in
  prog_class (mkprog [o] [[OTun "p" 0 None; OTun "q" 0 None]]) [0] = None /\
  prog_class (mkprog [o] [[OTun "a1" 0 None]; [OTun "b1" 0 None]]) [1; 0] = None /\
  (exists cls, prog_class (mkprog [o] [[OTun "p" 0 None; OTun "_q" 0 None]]) [0] = Some cls) /\
  (exists cls, prog_class (mkprog [o] [[OTun "a1" 0 None]; [OTun "b1" 0 None]]) [1] = Some cls).
Proof. vm_compute. repeat split; eexists; reflexivity. Qed.

(* DISCREPANCY (the model follows the library): a shared object has ONE
   _topic_type slot, so when the classes that bind it annotate it differently
   the class statement that ran LAST decides for all of them:
     shared = tunable(0);  class A: x: float = shared;  class B: y = shared
   publishes A.x as an int topic although A writes the hint float; with the
   class statements in the other order it is a double topic *)
Example C09_shared_annotation_last_class_wins :
  let o := mktobj (VScalar (SInt 0)) None None true in
  let ax := OTun "x" 0 (Some (RObj (APlain (IType (TBase BFloat))))) in
  let pr1 := mkprog [o] [[ax]; [OTun "y" 0 None]] in
  let pr2 := mkprog [o] [[OTun "y" 0 None]; [ax]] in
  obj_hint pr1 0 = None /\ obj_hint pr2 0 = Some (TBase BFloat) /\
  snd (run w0 [Setup 0 (prog_class_list pr1 [0]) (Some "components") "a"; NtRead "/components/a/x"]) =
    [EvSetup true; EvNt (Some (NInteger, VScalar (SInt 0)))] /\
  snd (run w0 [Setup 0 (prog_class_list pr2 [1]) (Some "components") "a"; NtRead "/components/a/x"]) =
    [EvSetup true; EvNt (Some (NDouble, VScalar (SFloat 0)))].
Proof. vm_compute. intuition. Qed.

(* the clock: a component is set up and reads `speed` under a PAUSED clock
   (t = 1000), a client publishes 7.25 -- same timestamp --, the read gives 7.25;
   the clock is stepped, the component assigns 4.0, a client re-publishes with
   the SAME timestamp as that value (SSame), then with "now": each time the
   read gives the latest; every timestamp is as ntcore assigns it (a duplicate
   keeps the old one, setDefault leaves 0); a stale update (SOlder, and SAt 900)
   is dropped and the read keeps the value; the hypotheses of the theorems
   hold for the timely part, and fail for the stale update *)
Definition ex_speed : decl := mkdecl "speed" (VScalar (SFloat 64)) None None true.
Definition ex_keep : decl := mkdecl "keep" (VScalar (SInt 3)) None None false.
Definition ex_gh : list gop :=
  [ GSetupOf 0 0 (Some "components") "shooter";
    GX (XOp (PyRead 0 "speed")); GNtStamp "/components/shooter/speed"; GNtStamp "/components/shooter/keep";
    GX (XOp (NtWrite "/components/shooter/speed" NDouble (VScalar (SFloat 464))));
    GX (XOp (PyRead 0 "speed")); GNtStamp "/components/shooter/speed";
    GTick 20000;
    GX (XOp (PyWrite 0 "speed" (VScalar (SFloat 256)))); GX (XOp (PyRead 0 "speed"));
    GNtWriteAt "/components/shooter/speed" NDouble (VScalar (SFloat 320)) SSame;
    GX (XOp (PyRead 0 "speed")); GNtStamp "/components/shooter/speed";
    GTick 0;
    GNtWriteAt "/components/shooter/speed" NDouble (VScalar (SFloat 320)) SNow;   (* a duplicate *)
    GNtStamp "/components/shooter/speed";
    GTick 5;
    GNtWriteAt "/components/shooter/speed" NDouble (VScalar (SFloat 384)) SNow;
    GX (XOp (PyRead 0 "speed")); GNtStamp "/components/shooter/speed" ].
Definition ex_stale : list gop :=
  [ GNtWriteAt "/components/shooter/speed" NDouble (VScalar (SFloat 0)) SOlder;
    GX (XOp (PyRead 0 "speed"));
    GNtWriteAt "/components/shooter/speed" NDouble (VScalar (SFloat 0)) (SAt 900);
    GX (XOp (PyRead 0 "speed")); GNtStamp "/components/shooter/speed" ].
Example C09_nv_time :
  let g := g0 1000 [[[MTun ex_speed; MTun ex_keep]]] in
  snd (grun g ex_gh) =
  [ (GEv (XEv (EvSetup true)), true);
    (GEv (XEv (EvVal (VScalar (SFloat 64)))), true); (GStamp 1000, true); (GStamp 0, true);
    (GEv (XEv EvWrote), true);
    (GEv (XEv (EvVal (VScalar (SFloat 464)))), true); (GStamp 1000, true);
    (GDone, true);
    (GEv (XEv EvWrote), true); (GEv (XEv (EvVal (VScalar (SFloat 256)))), true);
    (GEv (XEv EvWrote), true);
    (GEv (XEv (EvVal (VScalar (SFloat 320)))), true); (GStamp 21000, true);
    (GDone, true);
    (GEv (XEv EvWrote), true); (GStamp 21000, true);
    (GDone, true);
    (GEv (XEv EvWrote), true);
    (GEv (XEv (EvVal (VScalar (SFloat 384)))), true); (GStamp 21005, true) ] /\
  forallb gop_timely ex_gh = true /\ all_accepted (snd (grun g ex_gh)) = true /\
  (forall k, (stamp_get (g_stamps g) k <= g_now g)%Z) /\
  gerase (g_classes g) ex_gh =
  [ XOp (setup_class 0 [[MTun ex_speed; MTun ex_keep]] (Some "components") "shooter");
    XOp (PyRead 0 "speed");
    XOp (NtWrite "/components/shooter/speed" NDouble (VScalar (SFloat 464))); XOp (PyRead 0 "speed");
    XOp (PyWrite 0 "speed" (VScalar (SFloat 256))); XOp (PyRead 0 "speed");
    XOp (NtWrite "/components/shooter/speed" NDouble (VScalar (SFloat 320))); XOp (PyRead 0 "speed");
    XOp (NtWrite "/components/shooter/speed" NDouble (VScalar (SFloat 320)));
    XOp (NtWrite "/components/shooter/speed" NDouble (VScalar (SFloat 384))); XOp (PyRead 0 "speed") ] /\
  no_setup (erase (gerase (g_classes g) (tl ex_gh))) = true /\
  (* the stale updates: dropped, flagged, the read keeps 6.0 and the timestamp stays *)
  snd (grun (fst (grun g ex_gh)) ex_stale) =
  [ (GEv (XEv EvWrote), false); (GEv (XEv (EvVal (VScalar (SFloat 384)))), true);
    (GEv (XEv EvWrote), false); (GEv (XEv (EvVal (VScalar (SFloat 384)))), true); (GStamp 21005, true) ] /\
  forallb gop_timely ex_stale = false /\
  (* the clock jumps BACK (HAL initialised after NT was used): a write "now" is dropped too *)
  snd (grun (fst (grun g ex_gh))
            [GTick (-30000); GX (XOp (PyWrite 0 "speed" (VScalar (SFloat 0)))); GX (XOp (PyRead 0 "speed"))]) =
  [ (GDone, true); (GEv (XEv EvWrote), false); (GEv (XEv (EvVal (VScalar (SFloat 384)))), true) ].
Proof.
  vm_compute. repeat split; try reflexivity. intros k. discriminate.
Qed.

(* classes that change: a StateMachine-like class (own tunable `power`, the
   base's `current_state`); constructing an instance assigns state_names anew.
   left is constructed and set up, right is constructed (the class gets a NEW
   state_names object, here with another default to tell them apart, and a
   tunable `extra` is added, `power` is replaced by one with default 0.75) and
   set up: right has all of them at ITS keys with the NEW defaults, left's
   topics are untouched *)
Definition ex_names (l : list string) : decl :=
  mkdecl "state_names" (VList (map SStr l)) None (Some "state") true.
Definition ex_sm : list classbody :=
  [ [MTun (mkdecl "power" (VScalar (SFloat 32)) None None true)];
    [MTun (mkdecl "current_state" (VScalar (SStr "")) None (Some "state") true)] ].
Definition ex_ch : list gop :=
  [ GClassAssign 0 (MTun (ex_names ["idle"; "eject"]));
    GSetupOf 0 0 (Some "components") "left";
    GX (XOp (PyRead 0 "state_names"));
    GClassAssign 0 (MTun (ex_names ["idle"; "eject"; "jam"]));
    GClassAssign 0 (MTun (mkdecl "extra" (VScalar (SInt 5)) None None true));
    GClassAssign 0 (MTun (mkdecl "power" (VScalar (SFloat 48)) None None true));
    GSetupOf 1 0 (Some "components") "right";
    GX (XOp (PyRead 1 "state_names")); GX (XOp (PyRead 1 "extra")); GX (XOp (PyRead 1 "power"));
    GX (XOp (PyRead 1 "current_state"));
    GX (XOp (NtRead "/components/right/state/state_names"));
    GX (XOp (NtRead "/components/left/state/state_names"));
    GX (XOp (NtRead "/components/left/power")); GX (XOp (NtRead "/components/left/extra"));
    GSetupOf 2 7 None "nobody"; GClassAssign 7 (MPlain "x") ].
Example C09_nv_class_change :
  let g := g0 5 [ex_sm] in
  snd (grun g ex_ch) =
  [ (GDone, true); (GEv (XEv (EvSetup true)), true);
    (GEv (XEv (EvVal (VList [SStr "idle"; SStr "eject"]))), true);
    (GDone, true); (GDone, true); (GDone, true); (GEv (XEv (EvSetup true)), true);
    (GEv (XEv (EvVal (VList [SStr "idle"; SStr "eject"; SStr "jam"]))), true);
    (GEv (XEv (EvVal (VScalar (SInt 5)))), true); (GEv (XEv (EvVal (VScalar (SFloat 48)))), true);
    (GEv (XEv (EvVal (VScalar (SStr "")))), true);
    (GEv (XEv (EvNt (Some (NStringArr, VList [SStr "idle"; SStr "eject"; SStr "jam"])))), true);
    (GEv (XEv (EvNt (Some (NStringArr, VList [SStr "idle"; SStr "eject"])))), true);
    (GEv (XEv (EvNt (Some (NDouble, VScalar (SFloat 32))))), true); (GEv (XEv (EvNt None)), true);
    (GNoClass, true); (GNoClass, true) ] /\
  map member_name (nth 0 (nth 0 (g_classes (fst (grun g ex_ch))) []) []) =
    ["power"; "extra"; "state_names"] /\
  class_getattr (mro_assign ex_sm (MTun (ex_names ["idle"]))) "state_names" = Some (MTun (ex_names ["idle"])) /\
  class_getattr (mro_assign ex_sm (MPlain "current_state")) "current_state" = Some (MPlain "current_state") /\
  class_members (mro_assign ex_sm (MPlain "current_state")) =
    [mkdecl "power" (VScalar (SFloat 32)) None None true] /\
  (forall b x, In b (mro_assign ex_sm (MTun (ex_names ["idle"; "eject"]))) -> In x b ->
               no_slash (member_name x) = true) /\
  forallb gop_timely ex_ch = true /\
  length (gerase (g_classes g) ex_ch) = 11%nat.
Proof.
  vm_compute. repeat split; try reflexivity.
  intros b x [<-|[<-|[]]] Hx; simpl in Hx; intuition (subst; reflexivity).
Qed.

(* subtables with structure:  class Arm: gain = tunable(1.0, subtable="/pid");
   top = tunable(10, subtable="limits/"); up = tunable(2, subtable="..")  on two
   components and an autonomous mode (its name has a slash): every owner has
   its OWN topics, at the concatenated keys; left.gain = 2.5 reaches only left;
   nothing lives at the keys a path-join would produce *)
Definition ex_arm : list decl :=
  [ mkdecl "gain" (VScalar (SFloat 64)) None (Some "/pid") true;
    mkdecl "top" (VScalar (SInt 10)) None (Some "limits/") true;
    mkdecl "up" (VScalar (SInt 2)) None (Some "..") true ].
Example C09_nv_structured_subtable :
  key_of (Some "components") "left" (Some "/pid") "gain" = "/components/left//pid/gain" /\
  key_of (Some "components") "left" (Some "limits/") "top" = "/components/left/limits//top" /\
  owner_key (OAutonomous "Two/Steps") (Some "..") "up" = "/autonomous/Two/Steps/../up" /\
  owner_key ORobot (Some "//") "x" = "/robot////x" /\
  snd (run w0 [ Setup 0 ex_arm (Some "components") "left"; Setup 1 ex_arm (Some "components") "right";
                Setup 2 ex_arm (Some "autonomous") "Two/Steps";
                PyWrite 0 "gain" (VScalar (SFloat 160)); PyRead 0 "gain"; PyRead 1 "gain"; PyRead 2 "gain";
                NtRead "/components/left//pid/gain"; NtRead "/components/right//pid/gain";
                NtRead "/autonomous/Two/Steps//pid/gain"; NtRead "/pid/gain"; NtRead "/components/left/pid/gain";
                NtRead "/components/right/limits//top"; NtRead "/components/right/limits/top";
                NtRead "/components/left/../up"; NtRead "/components/up" ]) =
  [ EvSetup true; EvSetup true; EvSetup true; EvWrote;
    EvVal (VScalar (SFloat 160)); EvVal (VScalar (SFloat 64)); EvVal (VScalar (SFloat 64));
    EvNt (Some (NDouble, VScalar (SFloat 160))); EvNt (Some (NDouble, VScalar (SFloat 64)));
    EvNt (Some (NDouble, VScalar (SFloat 64))); EvNt None; EvNt None;
    EvNt (Some (NInteger, VScalar (SInt 10))); EvNt None;
    EvNt (Some (NInteger, VScalar (SInt 2))); EvNt None ] /\
  "/pid" <> "" /\ "left" <> "right".
Proof. vm_compute. repeat split; try reflexivity; discriminate. Qed.

(* the loop: robotInit binds shooter.level (0); pass 1: shooter.execute()
   assigns 1 and reads 1; pass 2 starts, 5 ms later the dashboard sets 7 from
   the intake's execute(), the shooter's execute() reads 7, assigns 9, reads 9,
   its @feedback getter reads 9; between the passes the dashboard sets 11, the
   component assigns 12 -- every read gives the latest value, every write is
   accepted; the hypotheses of C09_read_latest_inside_a_pass hold for the read
   after `level = 9` *)
Definition ex_level : decl := mkdecl "level" (VScalar (SInt 0)) None None true.
Definition ex_lvl (z : Z) : value := VScalar (SInt z).
Definition ex_lkey : string := "/components/shooter/level".
Definition ex_passes : list (list (list gop)) :=
  [ [ [GX (XOp (PyWrite 0 "level" (ex_lvl 1))); GX (XOp (PyRead 0 "level"))] ];
    [ [GTick 5000; GX (XOp (NtWrite ex_lkey NInteger (ex_lvl 7)))];
      [GX (XOp (PyRead 0 "level")); GX (XOp (PyWrite 0 "level" (ex_lvl 9))); GX (XOp (PyRead 0 "level"))];
      [GX (XOp (PyRead 0 "level"))] ];
    [ [GTick 20000; GX (XOp (NtWrite ex_lkey NInteger (ex_lvl 11))); GX (XOp (PyRead 0 "level"));
       GX (XOp (PyWrite 0 "level" (ex_lvl 12))); GX (XOp (PyRead 0 "level")); GX (XOp (NtRead ex_lkey))] ] ].
Example C09_nv_loop :
  let g := fst (fst (gstep (g0 1000 [[[MTun ex_level]]]) (GSetupOf 0 0 (Some "components") "shooter"))) in
  snd (grun g (loop_history ex_passes)) =
  [ (GEv (XEv EvWrote), true); (GEv (XEv (EvVal (ex_lvl 1))), true);
    (GDone, true); (GEv (XEv EvWrote), true);
    (GEv (XEv (EvVal (ex_lvl 7))), true); (GEv (XEv EvWrote), true); (GEv (XEv (EvVal (ex_lvl 9))), true);
    (GEv (XEv (EvVal (ex_lvl 9))), true);
    (GDone, true); (GEv (XEv EvWrote), true); (GEv (XEv (EvVal (ex_lvl 11))), true);
    (GEv (XEv EvWrote), true); (GEv (XEv (EvVal (ex_lvl 12))), true);
    (GEv (XEv (EvNt (Some (NInteger, ex_lvl 12)))), true) ] /\
  forallb gop_timely (loop_history ex_passes) = true /\
  (forall k, (stamp_get (g_stamps g) k <= g_now g)%Z) /\
  inst_get (w_inst (x_w (g_x g))) 0 = Some [("level", (ex_lkey, NInteger, ex_lvl 0))] /\
  (* the read after `level = 9`: before = pass 1, locs1 = the intake's execute(), ops1 = read; assign *)
  loop_history ex_passes =
    loop_history ([nth 0 ex_passes []] ++
                  [[nth 0 (nth 1 ex_passes []) []] ++
                   ([GX (XOp (PyRead 0 "level")); GX (XOp (PyWrite 0 "level" (ex_lvl 9)))] ++
                    GX (XOp (PyRead 0 "level")) :: []) :: [nth 2 (nth 1 ex_passes []) []]] ++
                  [nth 2 ex_passes []])%list /\
  last_write (x_w (g_x g))
    (erase (gerase (g_classes g)
       (loop_history [nth 0 ex_passes []] ++ concat [nth 0 (nth 1 ex_passes []) []] ++
        [GX (XOp (PyRead 0 "level")); GX (XOp (PyWrite 0 "level" (ex_lvl 9)))])%list)) ex_lkey = Some (ex_lvl 9) /\
  (* a write stamped with the time the pass STARTED, after the dashboard's later update, would be dropped *)
  snd (grun g [GTick 5000; GX (XOp (NtWrite ex_lkey NInteger (ex_lvl 7)));
               GNtWriteAt ex_lkey NInteger (ex_lvl 9) (SAt 1000); GX (XOp (PyRead 0 "level"))]) =
  [ (GDone, true); (GEv (XEv EvWrote), true); (GEv (XEv EvWrote), false); (GEv (XEv (EvVal (ex_lvl 7))), true) ].
Proof.
  cbv zeta. repeat split; try (vm_compute; reflexivity).
  intros k.
  replace (g_stamps _) with [(ex_lkey, 1000%Z)] by (vm_compute; reflexivity).
  replace (g_now _) with 1000%Z by (vm_compute; reflexivity).
  cbn [stamp_get]. destruct (String.eqb ex_lkey k); apply Z.leb_le; reflexivity.
Qed.

Print Assumptions C09_key.
Print Assumptions C09_setup_binds_key.
Print Assumptions C09_attr_write_reaches_topic.
Print Assumptions C09_attr_read_sees_topic.
Print Assumptions C09_read_latest.
Print Assumptions C09_read_latest_event.
Print Assumptions C09_read_latest_after_any_history.
Print Assumptions C09_nt_read_latest.
Print Assumptions C09_keys_disjoint.
Print Assumptions C09_setup_bound_under.
Print Assumptions C09_bound_under_stable.
Print Assumptions C09_instances_independent.
Print Assumptions C09_write_default.
Print Assumptions C09_setup_untouched.
Print Assumptions C09_topic_type.
Print Assumptions C09_topic_type_grid.
Print Assumptions C09_topic_scalar.
Print Assumptions C09_topic_array.
Print Assumptions C09_empty_untyped_unsupported.
Print Assumptions C09_topic_hint.
Print Assumptions C09_tuple_hint.
Print Assumptions C09_hetero_tuple_unsupported.
Print Assumptions C09_hint_spelling.
Print Assumptions C09_hint_resolution.
Print Assumptions C09_postponed_annotation.
Print Assumptions C09_topic_type_spelled.
Print Assumptions C09_hinted_empty_sequence.
Print Assumptions C09_setup_binds_spelled.
Print Assumptions C09_read_ignores_truthiness.
Print Assumptions C09_read_latest_falsy_owner.
Print Assumptions C09_read_latest_event_falsy_owner.
Print Assumptions C09_truthiness_irrelevant.
Print Assumptions C09_truthiness_unobservable.
Print Assumptions C09_read_never_returns_descriptor.
Print Assumptions C09_write_falsy_owner.
Print Assumptions C09_set_truth_changes_nothing_else.
Print Assumptions C09_class_members.
Print Assumptions C09_redefinition_shadows.
Print Assumptions C09_plain_member_shadows.
Print Assumptions C09_setup_hierarchy.
Print Assumptions C09_setup_hierarchy_read.
Print Assumptions C09_setup_hierarchy_untouched.
Print Assumptions C09_hierarchy_setup_succeeds.
Print Assumptions C09_typed_value_unchanged.
Print Assumptions C09_int_on_double_topic.
Print Assumptions C09_write_reads_back.
Print Assumptions C09_write_of_topic_type_reads_back.
Print Assumptions C09_setup_then_write_reads_back.
Print Assumptions C09_shared_object_key.
Print Assumptions C09_shared_object_hint.
Print Assumptions C09_shared_object_hint_subscript.
Print Assumptions C09_shared_object_topic_type.
Print Assumptions C09_time_irrelevant.
Print Assumptions C09_paused_clock_drops_nothing.
Print Assumptions C09_read_latest_any_time.
Print Assumptions C09_read_latest_event_any_time.
Print Assumptions C09_stale_update_dropped.
Print Assumptions C09_class_assign_lookup.
Print Assumptions C09_class_assign_changes_nothing_else.
Print Assumptions C09_setup_binds_current_class.
Print Assumptions C09_setup_after_class_assign.
Print Assumptions C09_key_verbatim.
Print Assumptions C09_key_injective_in_name.
Print Assumptions C09_other_name_other_topic.
Print Assumptions C09_owner_key_injective.
Print Assumptions C09_read_latest_inside_a_pass.
Print Assumptions C09_loop_structure_irrelevant.
