(* C18 -- units.convert is consistent (identity, there-and-back, composition)
   and linear for user-defined unit chains of ANY depth; the built-in table
   means 100 cm per metre, 0.3048 m per foot, 12 inches per foot; the MaxSonar
   drivers report period / 147 us inches resp. voltage / 4.9 mV centimetres in
   the requested unit; the REV pressure sensor reports 250 V / Vcc - 25, never
   raises, and reports p after calibrate(p) at the calibration voltage.
   Statements only; every proof is [exact <lemma of Units.Proofs>].

   Numbers are exact rationals ([==] is equality of values); float rounding is
   not modelled (the correspondence run compares the implementation's doubles
   with this model to a relative 1e-12).

   A unit is the chain of Unit objects from itself up to (excluding) the
   ultimate base unit; [link] = the two callables of one Unit.
   [link_inverse l]: unit_to_base and base_to_unit of l are mutually inverse;
   [link_linear l]: both are linear; [link_scaling l]: they are x |-> k x and
   x |-> x / k for some k <> 0 (which implies the other two).

   [T] in the second part is the unit table of the implementation as
   REGENERATED on every run from the imported module (work/C18/Gen_units.v:
   parent links and the factors unit_to_base(1), base_to_unit(1)); the
   hypothesis [units_ok T = true] is re-proved for it by computation.
   [K] in the second and third part is the record of the literals of the two
   sensor drivers (divisors and source units of the sonar get() methods; scale,
   offset, floor and except-value of pressure; floor, slope and offset of
   calibrate), REGENERATED on every run from the source files
   (work/C18/Gen_sensors.v); [consts_ok K = true] -- they have the documented
   values 0.000147 s/inch, 0.0049 V/cm, 250, 25, 0.00001 V, 0, 0.004, 0.1 -- is
   re-proved for it by computation. *)
From Coq Require Import QArith List.
From RV Require Import Units.Model Units.Proofs.
Import ListNotations.
Open Scope Q_scope.

(* ---------------- any chains, any depth --------------------------- *)

Theorem C18_same_unit : forall (u : list link) (x : Q),
  Forall link_inverse u -> convert u u x == x.
Proof. exact same_unit. Qed.

Theorem C18_there_and_back : forall (a b : list link) (x : Q),
  Forall link_inverse a -> Forall link_inverse b ->
  convert b a (convert a b x) == x.
Proof. exact there_and_back. Qed.

(* a -> b -> c equals a -> c.  The code never compares roots and neither does
   this statement: it holds for any three chains, in particular for three
   units below the same ultimate base unit. *)
Theorem C18_composition : forall (a b c : list link) (x : Q),
  Forall link_inverse b -> Forall link_proper c ->
  convert b c (convert a b x) == convert a c x.
Proof. exact composition. Qed.

Theorem C18_linear : forall (a b : list link),
  Forall link_linear a -> Forall link_linear b ->
  (forall x y, convert a b (x + y) == convert a b x + convert a b y) /\
  (forall c x, convert a b (c * x) == c * convert a b x).
Proof. exact linear. Qed.

(* links of the form x |-> k x / x |-> x / k (k <> 0) meet both hypotheses *)
Theorem C18_scaling_links_qualify : forall l : link,
  link_scaling l -> link_inverse l /\ link_linear l.
Proof. exact (fun l H => conj (scaling_inverse l H) (scaling_linear l H)). Qed.

(* The same four facts for units given as objects with base_unit pointers
   (a table of any size and shape; roots carry unused callables).  A
   conversion whose `while` loops terminate returns [Val _]. *)
Theorem C18_table_same_unit : forall tbl u x y,
  table_links_inverse tbl -> convert_tbl tbl u u x = Val y -> y == x.
Proof. exact tbl_same_unit. Qed.

Theorem C18_table_there_and_back : forall tbl a b x y,
  table_links_inverse tbl -> convert_tbl tbl a b x = Val y ->
  exists z, convert_tbl tbl b a y = Val z /\ z == x.
Proof. exact tbl_there_and_back. Qed.

Theorem C18_table_composition : forall tbl a b c x y z,
  table_links_inverse tbl ->
  convert_tbl tbl a b x = Val y -> convert_tbl tbl b c y = Val z ->
  exists w, convert_tbl tbl a c x = Val w /\ z == w.
Proof. exact tbl_composition. Qed.

Theorem C18_table_linear : forall tbl a b x1 x2 c y1 y2,
  table_links_linear tbl ->
  convert_tbl tbl a b x1 = Val y1 -> convert_tbl tbl a b x2 = Val y2 ->
  (exists s, convert_tbl tbl a b (x1 + x2) = Val s /\ s == y1 + y2) /\
  (exists m, convert_tbl tbl a b (c * x1) = Val m /\ m == c * y1).
Proof. exact tbl_linear. Qed.

(* which callables convert() applies, in which order: unit_to_base of the
   source, of its base, ... up to the root; then base_to_unit from the unit
   next to the root down to the target (this is what the symbolic
   correspondence observes on the real code) *)
Theorem C18_application_order : forall (P : Type) (tbl : list (option nat * P)) a b ca cb,
  chain_of tbl a = Val ca -> chain_of tbl b = Val cb ->
  trace_tbl tbl a b =
  Val (map (fun u => (u, true)) (map fst ca) ++
       map (fun u => (u, false)) (rev (map fst cb))).
Proof. exact (@trace_tbl_shape). Qed.

(* ---------------- re-entrant unit definitions ----------------------
   A user-defined Unit whose callables are themselves written with
   units.convert (yard = Unit(meter, lambda m: convert(meter, inch, m) / 36,
   lambda y: convert(inch, meter, y * 36))), further units hung below it, and
   such definitions nested to any depth.  Each activation of convert() works on
   its own chains: [via_link s d k] is the pair of callables
   y |-> convert d s (y * k)  /  m |-> convert s d m / k.

   A user's module is a definition list [spec]: unit i has base_unit = an
   earlier unit or None and callables [UAffine a b] (x |-> a x + b and its
   inverse) or [UVia s d k] (the above, on earlier units s, d);
   [build_units spec] are the resulting Unit objects, [convert_built] is
   convert() on them, [trace_built] is convert() with the log of every
   callable application, the nested activations' included.
   [spec_ok]: a <> 0 and k <> 0 for every non-root unit; [spec_linear]:
   additionally b = 0. *)

(* a unit defined through convert() qualifies for the generic theorems
   whenever the units it mentions do *)
Theorem C18_reentrant_link : forall (s d : list link) (k : Q), ~ k == 0 ->
  (Forall link_inverse s -> Forall link_inverse d -> link_inverse (via_link s d k)) /\
  (Forall link_linear s -> Forall link_linear d -> link_linear (via_link s d k)).
Proof.
  exact (fun s d k Hk => conj (fun Hs Hd => via_link_inverse s d k Hs Hd Hk)
                              (fun Hs Hd => via_link_linear s d k Hs Hd Hk)).
Qed.

(* so does every unit of a definition list, at any depth of chaining and of
   nesting ... *)
Theorem C18_reentrant_units_qualify : forall spec tbl,
  build_units spec = Val tbl ->
  (spec_ok spec = true -> table_links_inverse (pure_table tbl)) /\
  (spec_linear spec = true -> table_links_linear (pure_table tbl)).
Proof.
  exact (fun spec tbl H => conj (fun Hok => built_inverse spec tbl Hok H)
                                (fun Hok => built_linear spec tbl Hok H)).
Qed.

(* ... hence: same unit, there and back, a -> b -> c = a -> c for every ordered
   triple of such units *)
Theorem C18_reentrant_consistent : forall spec tbl,
  spec_ok spec = true -> build_units spec = Val tbl ->
  (forall u x y, convert_built tbl u u x = Val y -> y == x) /\
  (forall a b x y, convert_built tbl a b x = Val y ->
     exists z, convert_built tbl b a y = Val z /\ z == x) /\
  (forall a b c x y z, convert_built tbl a b x = Val y -> convert_built tbl b c y = Val z ->
     exists w, convert_built tbl a c x = Val w /\ z == w).
Proof. exact built_consistent. Qed.

Theorem C18_reentrant_linear : forall spec tbl a b x1 x2 c y1 y2,
  spec_linear spec = true -> build_units spec = Val tbl ->
  convert_built tbl a b x1 = Val y1 -> convert_built tbl a b x2 = Val y2 ->
  (exists s, convert_built tbl a b (x1 + x2) = Val s /\ s == y1 + y2) /\
  (exists m, convert_built tbl a b (c * x1) = Val m /\ m == c * y1).
Proof. exact built_convert_linear. Qed.

(* units defined in order: every conversion between two of them returns (no
   loop runs forever, nothing raises), whatever the callables nest *)
Theorem C18_reentrant_returns : forall spec tbl a b x,
  build_units spec = Val tbl -> (a < length tbl)%nat -> (b < length tbl)%nat ->
  exists y, convert_built tbl a b x = Val y.
Proof. exact built_convert_returns. Qed.

(* the run that logs returns the number of the run that does not *)
Theorem C18_reentrant_log_value : forall spec tbl a b x,
  build_units spec = Val tbl ->
  match trace_built tbl a b x, convert_built tbl a b x with
  | Val r, Val y => fst r = y
  | Raise e, Raise e' => e = e'
  | Loops, Loops => True
  | _, _ => False
  end.
Proof. exact built_trace_value. Qed.

(* Which callables run, in which order, nested activations included:
   [up_log l] / [down_log l] is what ONE application of unit_to_base /
   base_to_unit of l appends to the log.  convert(a, b, x) appends the logs of
   a's chain in order, then those of b's chain from the root end -- each in one
   piece and for every x: after a nested activation returns, the outer one
   goes on exactly where it was. *)
Theorem C18_reentrant_application_order : forall spec tbl a b x ca cb,
  build_units spec = Val tbl -> chain_of tbl a = Val ca -> chain_of tbl b = Val cb ->
  exists r, trace_built tbl a b x = Val r /\
            snd r = concat (map up_log (llinks ca)) ++ concat (map down_log (rev (llinks cb))).
Proof. exact built_trace_log. Qed.

(* ... where a plain callable logs itself, and a callable that calls convert()
   logs itself followed by the complete log of that conversion *)
Theorem C18_reentrant_callable_log :
  (forall u l, uniform (logged u l) /\
     up_log (logged u l) = [(u, true)] /\ down_log (logged u l) = [(u, false)]) /\
  (forall u s d k, Forall uniform s -> Forall uniform d ->
     uniform (lvia u s d k) /\
     up_log (lvia u s d k) =
       (u, true) :: concat (map up_log d) ++ concat (map down_log (rev s)) /\
     down_log (lvia u s d k) =
       (u, false) :: concat (map up_log s) ++ concat (map down_log (rev d))).
Proof. exact (conj logged_log lvia_log). Qed.

(* ---------------- the built-in table ------------------------------ *)

Section Builtin.
Variable T : ltable.
Hypothesis HT : units_ok T = true.

Theorem C18_constants :
  (exists y, convert_tbl (link_table T) u_meter u_centimeter 1 = Val y /\ y == 100) /\
  (exists y, convert_tbl (link_table T) u_foot u_meter 1 = Val y /\ y == 3048 # 10000) /\
  (exists y, convert_tbl (link_table T) u_foot u_inch 1 = Val y /\ y == 12).
Proof. exact (constants T HT). Qed.

(* all 16 ordered pairs (the matrix is spelled out in C18_nv_factor_matrix) *)
Theorem C18_pairwise_factors : forall a b x,
  In a builtin_units -> In b builtin_units ->
  exists y, convert_tbl (link_table T) a b x = Val y /\
            y == x * metres_per a / metres_per b.
Proof. exact (fun a b x => builtin_factor T a b x HT). Qed.

(* the built-in chains are chains of scaling links, so the generic theorems
   apply to every pair and triple of them *)
Theorem C18_builtin_chains_qualify : forall u, In u builtin_units ->
  exists ch, chain_of (link_table T) u = Val ch /\ Forall link_scaling (map snd ch).
Proof. exact (fun u => builtin_chains_scaling T u HT). Qed.

Variable K : sconsts.
Hypothesis HK : consts_ok K = true.

(* MaxSonarEZPulseWidth.get() / MaxSonarEZAnalog.get() for every output unit *)
Theorem C18_sonar_scale : forall out r, In out builtin_units ->
  (exists y, sonar_pw K (link_table T) out r = Val y /\
             y == (r / (147 # 1000000)) * metres_per u_inch / metres_per out) /\
  (exists y, sonar_an K (link_table T) out r = Val y /\
             y == (r / (49 # 10000)) * metres_per u_centimeter / metres_per out).
Proof.
  exact (fun out r H => conj (sonar_pw_scale T K out r HT HK H) (sonar_an_scale T K out r HT HK H)).
Qed.

(* with the default / natural output unit: exactly the scaled reading *)
Theorem C18_sonar_native : forall r,
  (exists y, sonar_pw K (link_table T) u_inch r = Val y /\ y == r / (147 # 1000000)) /\
  (exists y, sonar_an K (link_table T) u_centimeter r = Val y /\ y == r / (49 # 10000)).
Proof.
  exact (fun r => conj (sonar_pw_inches T K r HT HK) (sonar_an_centimetres T K r HT HK)).
Qed.

End Builtin.

(* ---------------- pressure ---------------------------------------- *)

Section PressureSensor.
Variable K : sconsts.
Hypothesis HK : consts_ok K = true.

(* [supply s] is Vcc: the constructor's voltage_in, or Vn after calibrate() *)
Theorem C18_pressure_formula : forall s v,
  (1 # 100000) <= v -> ~ supply s == 0 ->
  exists y, pressure K s v = Val y /\ y == 250 * (v / supply s) - 25.
Proof. exact (pressure_formula K HK). Qed.

(* below the documented floor of 0.00001 V: the value at the floor *)
Theorem C18_pressure_below_floor : forall s v,
  v <= (1 # 100000) -> ~ supply s == 0 ->
  exists y, pressure K s v = Val y /\ y == 250 * ((1 # 100000) / supply s) - 25.
Proof. exact (pressure_below_floor K HK). Qed.

(* never raises: a value for every sensor state and every voltage; 0 exactly
   when the supply voltage is 0 *)
Theorem C18_pressure_total : forall s v,
  exists y, pressure K s v = Val y /\
    (supply s == 0 -> y == 0) /\
    (~ supply s == 0 -> y == 250 * (pymax v (1 # 100000) / supply s) - 25).
Proof. exact (pressure_total K HK). Qed.

Theorem C18_pressure_zero_branch : forall s v,
  pressure_try K s v = Raise ZeroDivisionError <-> supply s == 0.
Proof. exact (pressure_zero_branch K). Qed.

(* calibrate(p), p >= 0, at ANY voltage v (also below the floor, also
   negative): it does not raise, keeps voltage_in, and the sensor then
   reports p while the voltage is v *)
Theorem C18_calibrated : forall s v p,
  0 <= p ->
  exists s' y,
    calibrate K s v p = Val s' /\ voltage_in s' = voltage_in s /\
    pressure K s' v = Val y /\ y == p.
Proof. exact (calibrated K HK). Qed.

(* ... and at any other voltage v' it reports (p + 25) * V'/V - 25 with both
   voltages floored; the calibrated supply voltage is never 0 *)
Theorem C18_calibrated_general : forall s v p v',
  ~ p == -25 ->
  exists s' y,
    calibrate K s v p = Val s' /\ voltage_in s' = voltage_in s /\
    ~ supply s' == 0 /\
    pressure K s' v' = Val y /\
    y == (p + 25) * (pymax v' (1 # 100000) / pymax v (1 # 100000)) - 25.
Proof. exact (calibrated_general K HK). Qed.

(* outside the property's domain (p >= 0): calibrate(-25) raises *)
Theorem C18_calibrate_minus25_raises : forall s v p,
  p == -25 -> calibrate K s v p = Raise ZeroDivisionError.
Proof. exact (calibrate_raises K HK). Qed.

(* the two voltage floors of a checked record are positive *)
Theorem C18_floor_positive : 0 < c_floor K /\ 0 < c_cal_floor K.
Proof. exact (consts_ok_floor_pos K HK). Qed.

(* ---- one sensor object over ANY sequence of calls ------------------
   [sop] = OpRead v (the `pressure` getter while the input reads v volts) |
   OpCalibrate v p (`calibrate(p)` while the input reads v volts) |
   OpSetSupply vcc (the assignment `sensor.voltage_in = vcc` of the public
   supply-voltage attribute: the measured rail, or the real value after a
   placeholder at construction);
   [observations K s0 ops] = what each call returned, [final_state K s0 ops] =
   the object afterwards; [is_read o] = o is an OpRead; [no_calibrate o] = o is
   an OpRead or an OpSetSupply; [last_supply vcc ops] = the last value assigned
   to voltage_in by [ops], [vcc] if there is none. *)

(* reads never change the object (no caching, no drift) *)
Theorem C18_reads_keep_state : forall s ops,
  Forall is_read ops -> final_state K s ops = s.
Proof. exact (reads_keep_state K). Qed.

(* after calibrate(p), p >= 0, the sensor reports p at the calibration
   voltage -- whatever was done with the object before (reads, earlier
   calibrations, failed calibrations, assignments of voltage_in: [pre] is
   arbitrary) and however many reads at whatever voltages and assignments of
   voltage_in lie in between *)
Theorem C18_history_calibrated : forall s0 pre v p mid,
  0 <= p -> Forall no_calibrate mid ->
  exists obs y,
    observations K s0 (pre ++ OpCalibrate v p :: mid ++ [OpRead v]) = obs ++ [ObsRead (Val y)] /\
    y == p.
Proof. exact (history_calibrated K HK). Qed.

(* ... and at any other voltage v' the reading follows the LAST calibration *)
Theorem C18_history_calibrated_general : forall s0 pre v p mid v',
  ~ p == -25 -> Forall no_calibrate mid ->
  exists obs y,
    observations K s0 (pre ++ OpCalibrate v p :: mid ++ [OpRead v']) = obs ++ [ObsRead (Val y)] /\
    y == (p + 25) * (pymax v' (1 # 100000) / pymax v (1 # 100000)) - 25.
Proof. exact (history_calibrated_general K HK). Qed.

(* an uncalibrated sensor reports 250 V / Vcc - 25 after any number of reads *)
Theorem C18_history_uncalibrated : forall vcc reads v,
  Forall is_read reads -> (1 # 100000) <= v -> ~ vcc == 0 ->
  exists obs y,
    observations K (new_sensor vcc) (reads ++ [OpRead v]) = obs ++ [ObsRead (Val y)] /\
    y == 250 * (v / vcc) - 25.
Proof. exact (history_uncalibrated K HK). Qed.

(* "for every sensor reading and supply voltage": an uncalibrated sensor
   divides by the supply voltage it has NOW.  Built with vcc0, then ANY reads
   and ANY assignments of voltage_in, a read at v reports 250 v / Vcc - 25 with
   Vcc the last value given to voltage_in (vcc0 if it was never assigned) *)
Theorem C18_history_supply_tracked : forall vcc0 ops v,
  Forall no_calibrate ops -> (1 # 100000) <= v -> ~ last_supply vcc0 ops == 0 ->
  exists obs y,
    observations K (new_sensor vcc0) (ops ++ [OpRead v]) = obs ++ [ObsRead (Val y)] /\
    y == 250 * (v / last_supply vcc0 ops) - 25.
Proof. exact (history_supply_tracked K HK). Qed.

(* ... at every voltage and for every value of voltage_in: a value, never an
   exception; 0 exactly while voltage_in is 0 (a sensor built with 0 follows
   the formula as soon as voltage_in is given a non-zero value) *)
Theorem C18_history_supply_total : forall vcc0 ops v,
  Forall no_calibrate ops ->
  exists obs y,
    observations K (new_sensor vcc0) (ops ++ [OpRead v]) = obs ++ [ObsRead (Val y)] /\
    (last_supply vcc0 ops == 0 -> y == 0) /\
    (~ last_supply vcc0 ops == 0 ->
       y == 250 * (pymax v (1 # 100000) / last_supply vcc0 ops) - 25).
Proof. exact (history_supply_total K HK). Qed.

(* the assignment itself: nothing returned or raised, voltage_in replaced, Vn
   untouched; an uncalibrated sensor divides by the new value from the next
   read on, a calibrated one reads exactly as before *)
Theorem C18_history_set_supply : forall s vcc,
  step_obs K s (OpSetSupply vcc) = ObsSet /\
  voltage_in (step_state K s (OpSetSupply vcc)) = vcc /\
  vn (step_state K s (OpSetSupply vcc)) = vn s /\
  (vn s = None -> supply (step_state K s (OpSetSupply vcc)) = vcc) /\
  (vn s <> None -> forall v, pressure K (step_state K s (OpSetSupply vcc)) v = pressure K s v).
Proof. exact (step_set_supply K). Qed.

(* in no history does a read raise *)
Theorem C18_history_reads_never_raise : forall ops s0,
  Forall read_returns (observations K s0 ops).
Proof. exact (history_reads_never_raise K HK). Qed.

(* calibrate(p) returns for p <> -25; calibrate(-25) raises and leaves the
   object as it was *)
Theorem C18_history_calibrate_outcome : forall s v p,
  (~ p == -25 -> step_obs K s (OpCalibrate v p) = ObsCalibrate (Val tt)) /\
  (p == -25 -> step_state K s (OpCalibrate v p) = s /\
               step_obs K s (OpCalibrate v p) = ObsCalibrate (Raise ZeroDivisionError)).
Proof. exact (fun s v p => conj (step_calibrate_returns K HK s v p) (step_calibrate_fails K HK s v p)). Qed.

(* complete description: after ANY calls voltage_in is the last value assigned
   to it (the initial one if none); Vn is the initial one if no
   calibrate(p <> -25) was among the calls, else Vn is set and the object
   reads, at every voltage and whatever voltage_in is by now, as the last
   such calibration (vc, p) says *)
Theorem C18_history_spec : forall s0 ops,
  voltage_in (final_state K s0 ops) = last_supply (voltage_in s0) ops /\
  match last_cal ops with
  | None => vn (final_state K s0 ops) = vn s0
  | Some (vc, p) =>
      (exists n, vn (final_state K s0 ops) = Some n) /\
      forall v, exists y, pressure K (final_state K s0 ops) v = Val y /\
                          y == (p + 25) * (pymax v (1 # 100000) / pymax vc (1 # 100000)) - 25
  end.
Proof. exact (history_spec K HK). Qed.

(* reads and assignments of voltage_in: the object afterwards, exactly *)
Theorem C18_history_no_calibrate_state : forall s ops,
  Forall no_calibrate ops ->
  final_state K s ops = {| voltage_in := last_supply (voltage_in s) ops; vn := vn s |}.
Proof. exact (no_calibrate_state K). Qed.

End PressureSensor.

(* ---------------- non-vacuity -------------------------------------- *)

(* the table as the source has it today satisfies the hypothesis *)
Definition ref_table : ltable :=
  [ (None, (0, 0));
    (Some 0%nat, (1 # 100, 100));
    (Some 0%nat, (3048 # 10000, 10000 # 3048));
    (Some 2%nat, (1 # 12, 12)) ].
Example C18_nv_units_ok : units_ok ref_table = true /\ table_inverse ref_table = true.
Proof. split; vm_compute; reflexivity. Qed.
(* ... and so does a differently shaped table with the same meaning (inch
   hung directly below metre): the hypothesis does not fix the shape *)
Example C18_nv_units_ok_other_shape :
  units_ok [ (None, (0, 0)); (Some 0%nat, (1 # 100, 100));
             (Some 0%nat, (3048 # 10000, 10000 # 3048));
             (Some 0%nat, (254 # 10000, 10000 # 254)) ] = true.
Proof. vm_compute. reflexivity. Qed.
(* ... and a table with 0.3084 in one direction does not *)
Example C18_nv_units_ok_rejects :
  units_ok [ (None, (0, 0)); (Some 0%nat, (1 # 100, 100));
             (Some 0%nat, (3084 # 10000, 10000 # 3048));
             (Some 2%nat, (1 # 12, 12)) ] = false.
Proof. vm_compute. reflexivity. Qed.

(* metres_per a / metres_per b for the 16 ordered pairs, rows = source
   (metre, centimetre, foot, inch), columns = target *)
Example C18_nv_factor_matrix :
  map (fun a => map (fun b => Qred (metres_per a / metres_per b)) builtin_units) builtin_units =
  [ [1;           100;       1250 # 381; 5000 # 127];
    [1 # 100;     1;         25 # 762;   50 # 127];
    [381 # 1250;  762 # 25;  1;          12];
    [127 # 5000;  127 # 50;  1 # 12;     1] ].
Proof. vm_compute. reflexivity. Qed.

Example C18_nv_inch_to_cm :
  exists y, convert_tbl (link_table ref_table) u_inch u_centimeter 10 = Val y /\ y == 254 # 10.
Proof. eexists. split; [reflexivity|]. vm_compute. reflexivity. Qed.

(* user-defined chains: depth 3 of scalings, and affine temperature scales
   (kelvin <- celsius <- fahrenheit), which are mutually inverse, not linear *)
Definition nv_deep : list link := [scale_link 3; scale_link (1 # 7); scale_link (-2)].
Example C18_nv_deep : Forall link_scaling nv_deep /\ convert nv_deep [scale_link 5] 7 == -(6 # 5).
Proof.
  split; [repeat constructor; apply scale_link_scaling; discriminate | vm_compute; reflexivity].
Qed.
Definition nv_celsius : link := affine_link 1 (27315 # 100).
Definition nv_fahrenheit : link := affine_link (5 # 9) (-(160 # 9)).
Example C18_nv_affine :
  Forall link_inverse [nv_fahrenheit; nv_celsius] /\
  convert [nv_fahrenheit; nv_celsius] [] 212 == 37315 # 100 /\
  convert [] [nv_fahrenheit; nv_celsius] (37315 # 100) == 212.
Proof.
  split; [repeat constructor; apply affine_link_inverse; discriminate|].
  split; vm_compute; reflexivity.
Qed.
(* the order of the second loop matters for such chains: unfolding the target
   chain from the wrong end gives another number *)
Example C18_nv_order_matters :
  ~ fold_left (fun acc l => from_base l acc) [nv_fahrenheit; nv_celsius] (37315 # 100) == 212.
Proof. vm_compute. discriminate. Qed.

(* the code has no "same root" check: converting between units of different
   ultimate base units silently returns a number *)
Example C18_nv_no_root_check :
  let tbl := [ (None, scale_link 1); (Some 0%nat, scale_link 2);
               (None, scale_link 1); (Some 2%nat, scale_link 10) ] in
  root_of tbl 1 = Val 0%nat /\ root_of tbl 3 = Val 2%nat /\
  convert_tbl tbl 1 3 5 = Val (2 * 5 / 10).
Proof. repeat split. Qed.
(* a cyclic base_unit chain: the loop of convert() does not end *)
Example C18_nv_cycle :
  convert_tbl [ (Some 1%nat, scale_link 2); (Some 0%nat, scale_link 3) ] 0 0 1 = Loops.
Proof. reflexivity. Qed.

(* re-entrant definitions: metre, centimetre, foot, inch as plain units, then
   4 yard (via convert(meter, inch, .) / 36), 5 fathom = 2 yd below yard,
   6 cable = 100 fathoms below fathom, 7 rod = 5.5 yd defined below foot via
   convert(foot, yard, .) / 5.5 -- a nested call whose own chain contains a
   callable that calls convert() again *)
Definition nv_yard_spec : list (option nat * uspec) :=
  [ (None, UAffine 1 0); (Some 0%nat, UAffine (1 # 100) 0);
    (Some 0%nat, UAffine (3048 # 10000) 0); (Some 2%nat, UAffine (1 # 12) 0);
    (Some 0%nat, UVia 0 3 36); (Some 4%nat, UAffine 2 0); (Some 5%nat, UAffine 100 0);
    (Some 2%nat, UVia 2 4 (11 # 2)) ].
Definition nv_built_value (a b : nat) (x : Q) : option Q :=
  match build_units nv_yard_spec with
  | Val tbl => match convert_built tbl a b x with Val y => Some (Qred y) | _ => None end
  | _ => None
  end.
Definition nv_built_log (a b : nat) : list (nat * bool) :=
  match build_units nv_yard_spec with
  | Val tbl => match trace_built tbl a b 1 with Val r => snd r | _ => [] end
  | _ => []
  end.
Example C18_nv_reentrant :
  spec_ok nv_yard_spec = true /\ spec_linear nv_yard_spec = true /\
  nv_built_value 5 0 1 = Some (1143 # 625) /\        (* 1 fathom = 1.8288 m *)
  nv_built_value 6 3 1 = Some 7200 /\                 (* 1 cable = 7200 in *)
  nv_built_value 7 5 4 = Some 11 /\                   (* 4 rods = 11 fathoms *)
  nv_built_value 0 7 (50292 # 10000) = Some 1 /\      (* 5.0292 m = 1 rod *)
  (* metre -> fathom: yard's base_to_unit, inside it foot and inch of the
     nested convert(meter, inch, .), and THEN fathom's base_to_unit *)
  nv_built_log 0 5 = [(4, false); (2, false); (3, false); (5, false)]%nat /\
  (* fathom -> rod: up fathom, yard (nested: inch, foot up); down foot, rod
     (nested convert(foot, yard, .): foot up; yard down, nested foot, inch down) *)
  nv_built_log 5 7 = [(5, true); (4, true); (3, true); (2, true);
                      (2, false); (7, false); (2, true); (4, false); (2, false); (3, false)]%nat.
Proof. repeat split; vm_compute; reflexivity. Qed.
(* a definition that mentions a unit not defined yet is rejected, not guessed *)
Example C18_nv_reentrant_forward_reference :
  build_units [ (None, UAffine 1 0); (Some 0%nat, UVia 0 2 3); (Some 0%nat, UAffine 2 0) ]
  = Raise NoSuchUnit.
Proof. reflexivity. Qed.

(* pressure: the repository's own test points (3.3 V supply, 2.0 V reading) *)
Example C18_nv_consts_ok : consts_ok doc_consts = true.
Proof. vm_compute. reflexivity. Qed.
(* ... other fractions with the same values pass, other values do not *)
Example C18_nv_consts_ok_other_fractions :
  consts_ok {| c_pw_unit := 3; c_pw_div := 294 # 2000000; c_an_unit := 1; c_an_div := 49 # 10000;
               c_scale := 500 # 2; c_offset := 25; c_floor := 1 # 100000; c_zero := 0 # 5;
               c_cal_floor := 2 # 200000; c_cal_slope := 1 # 250; c_cal_off := 1 # 10 |} = true.
Proof. vm_compute. reflexivity. Qed.
Example C18_nv_consts_ok_rejects :
  consts_ok {| c_pw_unit := 3; c_pw_div := 174 # 1000000; c_an_unit := 1; c_an_div := 49 # 10000;
               c_scale := 250; c_offset := 25; c_floor := 1 # 100000; c_zero := 0;
               c_cal_floor := 1 # 100000; c_cal_slope := 4 # 1000; c_cal_off := 1 # 10 |} = false
  /\ consts_ok {| c_pw_unit := 3; c_pw_div := 147 # 1000000; c_an_unit := 1; c_an_div := 49 # 10000;
               c_scale := 501 # 2; c_offset := 25; c_floor := 1 # 100000; c_zero := 0;
               c_cal_floor := 1 # 100000; c_cal_slope := 4 # 1000; c_cal_off := 1 # 10 |} = false.
Proof. split; vm_compute; reflexivity. Qed.

Example C18_nv_pressure :
  exists y, pressure doc_consts (new_sensor (33 # 10)) 2 = Val y /\ y == 4175 # 33 /\
  pressure doc_consts (new_sensor 0) 2 = Val 0.
Proof. eexists. split; [reflexivity|]. split; vm_compute; reflexivity. Qed.
Example C18_nv_calibrated :
  exists s' y, calibrate doc_consts (new_sensor (33 # 10)) 2 50 = Val s' /\ supply s' == 20 # 3 /\
               pressure doc_consts s' 2 = Val y /\ y == 50.
Proof.
  eexists. eexists. split; [reflexivity|]. split; [vm_compute; reflexivity|].
  split; [reflexivity|]. vm_compute. reflexivity.
Qed.

(* histories: a reading taken BEFORE calibrate() does not affect the reading
   after it (read, calibrate(50) at 2 V, read -> 4175/33 then 50), nor does a
   reading between two calibrations *)
Example C18_nv_history :
  observations doc_consts (new_sensor (33 # 10)) [OpRead 2; OpCalibrate 2 50; OpRead 2] =
    [ObsRead (Val (250 * (2 / (33 # 10)) - 25)); ObsCalibrate (Val tt);
     ObsRead (Val (250 * (2 / (2 / ((4 # 1000) * 50 + (1 # 10)))) - 25))] /\
  250 * (2 / (2 / ((4 # 1000) * 50 + (1 # 10)))) - 25 == 50 /\
  last_cal [OpCalibrate 1 20; OpRead 1; OpCalibrate (31 # 10) 110; OpCalibrate 3 (-25); OpRead 3] =
    Some (31 # 10, 110) /\
  (exists y, pressure doc_consts (final_state doc_consts (new_sensor 5)
               [OpCalibrate 1 20; OpRead 1; OpCalibrate (31 # 10) 110; OpCalibrate 3 (-25); OpRead 3]) (31 # 10) = Val y
             /\ y == 110) /\
  Forall is_read [OpRead 1; OpRead (1 # 2)] /\ ~ is_read (OpCalibrate 1 1).
Proof.
  split; [reflexivity|]. split; [vm_compute; reflexivity|]. split; [reflexivity|].
  split; [eexists; split; [reflexivity|vm_compute; reflexivity]|].
  split; [repeat constructor|exact (fun H => H)].
Qed.

(* the supply voltage tracked while running: a sensor built for the nominal
   5 V reads 75 at 2 V, after `voltage_in = 3.3` it reads 4175/33 at the same
   2 V; a sensor built with 0 reports 0, and 75 once voltage_in = 5; after
   calibrate(50) at 2 V the assignment no longer matters *)
Example C18_nv_supply_tracked :
  observations doc_consts (new_sensor 5) [OpRead 2; OpSetSupply (33 # 10); OpRead 2] =
    [ObsRead (Val (250 * (2 / 5) - 25)); ObsSet; ObsRead (Val (250 * (2 / (33 # 10)) - 25))] /\
  250 * (2 / 5) - 25 == 75 /\ 250 * (2 / (33 # 10)) - 25 == 4175 # 33 /\
  observations doc_consts (new_sensor 0) [OpRead 2; OpSetSupply 5; OpRead 2] =
    [ObsRead (Val 0); ObsSet; ObsRead (Val (250 * (2 / 5) - 25))] /\
  last_supply 5 [OpRead 2; OpSetSupply (33 # 10); OpRead 2; OpSetSupply (47 # 10); OpCalibrate 1 1] = 47 # 10 /\
  last_supply 5 [OpRead 2; OpCalibrate 1 1] = 5 /\
  Forall no_calibrate [OpRead 2; OpSetSupply (33 # 10); OpRead 2] /\ ~ no_calibrate (OpCalibrate 1 1) /\
  (exists y, pressure doc_consts (final_state doc_consts (new_sensor 5)
               [OpCalibrate 2 50; OpSetSupply (47 # 10); OpRead 1; OpSetSupply 0]) 2 = Val y /\ y == 50).
Proof.
  split; [reflexivity|]. split; [vm_compute; reflexivity|]. split; [vm_compute; reflexivity|].
  split; [reflexivity|]. split; [reflexivity|]. split; [reflexivity|].
  split; [repeat constructor|]. split; [exact (fun H => H)|].
  eexists. split; [reflexivity|vm_compute; reflexivity].
Qed.

Print Assumptions C18_same_unit.
Print Assumptions C18_there_and_back.
Print Assumptions C18_composition.
Print Assumptions C18_linear.
Print Assumptions C18_scaling_links_qualify.
Print Assumptions C18_table_same_unit.
Print Assumptions C18_table_there_and_back.
Print Assumptions C18_table_composition.
Print Assumptions C18_table_linear.
Print Assumptions C18_application_order.
Print Assumptions C18_reentrant_link.
Print Assumptions C18_reentrant_units_qualify.
Print Assumptions C18_reentrant_consistent.
Print Assumptions C18_reentrant_linear.
Print Assumptions C18_reentrant_returns.
Print Assumptions C18_reentrant_log_value.
Print Assumptions C18_reentrant_application_order.
Print Assumptions C18_reentrant_callable_log.
Print Assumptions C18_constants.
Print Assumptions C18_pairwise_factors.
Print Assumptions C18_builtin_chains_qualify.
Print Assumptions C18_sonar_scale.
Print Assumptions C18_sonar_native.
Print Assumptions C18_pressure_formula.
Print Assumptions C18_pressure_below_floor.
Print Assumptions C18_pressure_total.
Print Assumptions C18_pressure_zero_branch.
Print Assumptions C18_calibrated.
Print Assumptions C18_calibrated_general.
Print Assumptions C18_calibrate_minus25_raises.
Print Assumptions C18_floor_positive.
Print Assumptions C18_reads_keep_state.
Print Assumptions C18_history_calibrated.
Print Assumptions C18_history_calibrated_general.
Print Assumptions C18_history_uncalibrated.
Print Assumptions C18_history_supply_tracked.
Print Assumptions C18_history_supply_total.
Print Assumptions C18_history_set_supply.
Print Assumptions C18_history_reads_never_raise.
Print Assumptions C18_history_calibrate_outcome.
Print Assumptions C18_history_spec.
Print Assumptions C18_history_no_calibrate_state.
