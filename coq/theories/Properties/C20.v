(* C20 -- crc7 equals the bitwise CRC-7 (reflected polynomial 0x91) for every
   message; linear over XOR; detects single-bit, close double-bit and burst<=7
   errors.  Statements only; every proof is [exact <lemma of CRC.Proofs>].

   [T] is the lookup table of the implementation.  The hypothesis
   [table_ok T = true] (T is, entry by entry, the 256 values of the bit-serial
   round function) is discharged on every run for the table regenerated from
   /repo's robotpy_ext.misc.crc7._crc7_table (work/C20/Gen_C20.v). *)
From Coq Require Import NArith List.
From RV Require Import CRC.Model CRC.Proofs.
Import ListNotations.
Open Scope N_scope.

Section C20.
Variable T : list N.
Hypothesis HT : table_ok T = true.

(* for every byte string, of every length *)
Theorem C20_table_equals_bitwise : forall data,
  Forall is_byte data -> crc_table T data = crc_bitwise data.
Proof. exact (fun data => table_equals_bitwise T data HT). Qed.

(* ... also when the table lookup is modelled as partial (IndexError) *)
Theorem C20_no_index_error : forall data,
  Forall is_byte data -> crc_table_opt T data = Some (crc_bitwise data).
Proof. exact (fun data => table_opt_total T data HT). Qed.

(* the bit-serial reading of the reference: LSB first, one shift per bit *)
Theorem C20_bitwise_is_bit_serial : forall data,
  Forall is_byte data -> crc_bitwise data = crc_bits (bits_of_bytes data).
Proof. exact bitwise_is_bit_serial. Qed.

Theorem C20_seven_bits : forall data,
  Forall is_byte data -> crc_table T data < 128.
Proof.
  exact (fun data H => eq_ind_r (fun x => x < 128) (crc_seven_bits data H)
                         (table_equals_bitwise T data HT H)).
Qed.

Theorem C20_linear : forall a b,
  Forall is_byte a -> Forall is_byte b -> length a = length b ->
  crc_table T (xor_bytes a b) = N.lxor (crc_table T a) (crc_table T b).
Proof.
  exact (fun a b Ha Hb Hl =>
    eq_trans (table_equals_bitwise T _ HT (xor_bytes_is_byte a Ha b Hb))
      (eq_trans (crc_linear a b Ha Hb Hl)
         (f_equal2 N.lxor (eq_sym (table_equals_bitwise T a HT Ha))
                          (eq_sym (table_equals_bitwise T b HT Hb))))).
Qed.

(* [apply_error err data] flips exactly the bits of [data] marked in [err]
   (message-wide bit positions, LSB of the first byte is position 0). *)
Theorem C20_apply_error_flips : forall err data,
  length err = (8 * length data)%nat ->
  bits_of_bytes (apply_error err data) = xorb_list (bits_of_bytes data) err
  /\ length (apply_error err data) = length data.
Proof. exact apply_error_flips. Qed.

Definition changes_checksum (err : list bool) : Prop :=
  forall data, Forall is_byte data -> length err = (8 * length data)%nat ->
  crc_table T (apply_error err data) <> crc_table T data.

Lemma detects_T err : crc_bits err <> 0 -> changes_checksum err.
Proof.
  intros He data Hd Hl.
  rewrite (table_equals_bitwise T _ HT (apply_error_is_byte err data Hd Hl)).
  rewrite (table_equals_bitwise T _ HT Hd).
  exact (detects err data Hd Hl He).
Qed.

(* any single flipped bit, anywhere in a message of any length *)
Theorem C20_single_bit : forall pre post, changes_checksum (single_bit pre post).
Proof. exact (fun pre post => detects_T _ (single_bit_nonzero pre post)). Qed.

(* any two flipped bits whose positions differ by gap+1 < 127 *)
Theorem C20_double_bit : forall pre gap post, (gap + 1 < 127)%nat ->
  changes_checksum (double_bit pre gap post).
Proof. exact (fun pre gap post H => detects_T _ (double_bit_nonzero pre gap post H)). Qed.

(* any non-empty error pattern confined to 7 consecutive bit positions *)
Theorem C20_burst7 : forall pre mid post, (length mid <= 6)%nat ->
  changes_checksum (burst pre mid post).
Proof. exact (fun pre mid post H => detects_T _ (burst_nonzero pre mid post H)). Qed.

End C20.

(* Non-vacuity: the hypothesis is satisfiable (by the table the reference
   itself generates) and the premises of the detection theorems are met by
   concrete messages. *)
Example C20_nv_table : table_ok bitwise_table = true.
Proof. vm_compute. reflexivity. Qed.
Example C20_nv_message :
  Forall is_byte [1; 2; 255] /\ length (double_bit 3 9 10) = (8 * length [1; 2; 255])%nat
  /\ crc_table bitwise_table [1; 2; 255] = 69
  /\ crc_table bitwise_table (apply_error (double_bit 3 9 10) [1; 2; 255]) = 2.
Proof. repeat split; try (repeat constructor; reflexivity); vm_compute; reflexivity. Qed.
(* the bound 127 of the double-bit clause is tight *)
Example C20_double_bit_127_undetected : crc_bits (double_bit 0 126 0) = 0.
Proof. exact double_bit_127_undetected. Qed.

Print Assumptions C20_table_equals_bitwise.
Print Assumptions C20_no_index_error.
Print Assumptions C20_bitwise_is_bit_serial.
Print Assumptions C20_seven_bits.
Print Assumptions C20_linear.
Print Assumptions C20_apply_error_flips.
Print Assumptions C20_single_bit.
Print Assumptions C20_double_bit.
Print Assumptions C20_burst7.
