(* C14 -- Autonomous mode selector: faithful discovery, one active mode, clean
   lifecycle.  Statements only; every proof is [exact <lemma of Selector.Proofs>].

   Vocabulary (Selector/Model.v, Selector/Spec.v):
     package      a layout: missing | its own import fails | the *.py files the
                  glob returns, each with its classes (MODE_NAME, DISABLED,
                  DEFAULT, raising constructor) or a failing import
     discover fms p   = AutonomousModeSelector.__init__: [Built r] or [Raised e calls]
     init fms pkgname i   the same, starting one step earlier: i is what
                  import_module(pkgname) did (an ImportError -- ModuleNotFoundError or
                  not -- with its e.name, another exception, or the package), and the
                  test that tells a missing package from a failing import is part of
                  the model
     ImportedNamespace path   ... the package is an implicit one (no __file__): the entries
                  of its __path__ (directory, glob of the directory), repetitions included
     ctor_raises c   calling the class raises, by whatever mechanism ([ctor_behaviour])
     needed p     the classes with MODE_NAME and not DISABLED of the importable
                  modules other than __init__.py, in scan order
     ctor_calls r the constructor calls __init__ made, as (file, class) pairs
     modes r      selector.modes;  option_names r / preselection r  the chooser
     select r s   the mode chosen for s = (dashboard string, chooser selection)
     trace r ops  the callbacks delivered by a sequence of start/periodic/
                  disable/run()/endCompetition calls; a run() period lists the
                  passes of its loop as (clock, autonomous+enabled?, disable()
                  called on the selector during this pass?)
     conforms     the language (on_enable . on_iteration* . on_disable)* of the
                  property, period by period, for the selected modes
     periods ops / conforms_marked   the same for call sequences of ANY shape: each
                  period with the mark "a disable() ends it before the next one
                  begins"; an unmarked period is on_enable . on_iteration* only *)
From Coq Require Import String List ZArith Bool.
From RV Require Import Selector.Model Selector.Spec Selector.Proofs.
Import ListNotations.
Open Scope string_scope.
Open Scope list_scope.

(* ---- discovery ---------------------------------------------------- *)

(* Whenever construction succeeds (FMS or not), the constructor calls are the
   needed classes in scan order ... *)
Theorem C14_constructor_calls : forall fms p r,
  discover fms p = Built r -> ctor_calls r = map call_of (needed p).
Proof. exact built_ctor_calls. Qed.

(* ... that is: no call is repeated, a class of an importable module is
   called iff it defines MODE_NAME and is not DISABLED, nothing else is called. *)
Theorem C14_instantiated_exactly : forall fms p r,
  discover fms p = Built r -> layout_ok p ->
  NoDup (ctor_calls r) /\
  (forall m c, In m (loaded_modules p) -> In c (classes m) ->
     (In (file m, cname c) (ctor_calls r) <-> is_needed c = true)) /\
  (forall x, In x (ctor_calls r) ->
     exists m c, In m (loaded_modules p) /\ In c (classes m) /\ x = (file m, cname c)).
Proof. exact instantiated_exactly. Qed.

(* when it raises, only a prefix of them was called *)
Theorem C14_raise_calls_prefix : forall fms p e c,
  discover fms p = Raised e c -> is_prefix c (map call_of (needed p)).
Proof. exact raised_ctor_calls_prefix. Qed.

(* Without FMS a successful construction means a fault-free layout, the map is
   keyed by MODE_NAME, and the mode flagged DEFAULT (else "None") is preselected. *)
Theorem C14_keyed_by_mode_name : forall p r,
  discover false p = Built r ->
  modes r = map entry_of (needed p) /\
  match filter is_default (needed p) with
  | [] => preselection r = "None"
  | [i] => preselection r = name_of i
  | _ => False
  end.
Proof. exact no_fms_offer. Qed.

(* The chooser (FMS or not): the options are the keys of selector.modes plus
   "None"; "None" stands for no mode; every other key stands for its instance;
   the preselection is "None" without a DEFAULT mode, the DEFAULT mode if there
   is one, one of them if there are several (possible with FMS only). *)
Theorem C14_offers_none_and_default : forall fms p r,
  discover fms p = Built r ->
  (forall k, In k (option_names r) <-> k = "None" \/ In k (map fst (modes r))) /\
  (forall k, dict_get k (options (chooser_of r)) =
             if "None" =? k then Some None else option_map Some (dict_get k (modes r))) /\
  match filter is_default_kv (modes r) with
  | [] => preselection r = "None"
  | [(k, i)] => preselection r = k
  | _ => exists k i, In (k, i) (modes r) /\ is_default i = true /\ preselection r = k
  end.
Proof.
  exact (fun fms p r H => conj (built_option_names fms p r H)
                            (conj (built_options fms p r H) (built_preselection fms p r H))).
Qed.

(* no FMS: the constructor raises exactly when the layout has one of the faults *)
Theorem C14_no_fms_raises_iff : forall p,
  (exists e c, discover false p = Raised e c) <->
  (package_fault p \/ import_fault p \/ ctor_fault p \/ duplicate_names p \/ several_defaults p).
Proof. exact no_fms_raises_iff. Qed.

(* a missing package is not a fault *)
Theorem C14_missing_package_tolerated : forall fms, exists r, discover fms PkgMissing = Built r.
Proof. exact discover_missing_built. Qed.

(* FMS attached: never raises, whatever the layout (a package whose own import
   fails included) ... *)
Theorem C14_fms_never_raises : forall p, exists r, discover true p = Built r.
Proof. exact fms_never_raises. Qed.

(* ... and every healthy mode is in the map, offered by the chooser and
   selectable, under its MODE_NAME or -- a duplicate -- under "<class>_<file>". *)
Theorem C14_fms_tolerates : forall p,
  exists r, discover true p = Built r /\
    (no_key_clash p ->
     forall i, In i (needed p) -> healthy i = true ->
       exists k, (k = name_of i \/ k = renamed i) /\
                 dict_get k (modes r) = Some i /\
                 In k (option_names r) /\
                 (choosable k -> chooser_selected (chooser_of r) (Some k) = Some i)).
Proof. exact fms_tolerates. Qed.

(* ... and nothing unhealthy or foreign is in the map *)
Theorem C14_fms_modes_are_healthy : forall p r,
  discover true p = Built r -> no_key_clash p ->
  forall k i, dict_get k (modes r) = Some i ->
    In i (needed p) /\ healthy i = true /\ (k = name_of i \/ k = renamed i).
Proof. exact (fun p r H Hc => proj2 (fms_modes p r H Hc)). Qed.

(* ---- the import of the package itself ------------------------------ *)

(* An ImportError out of import_module(pkgname).  "No such package" -- a
   ModuleNotFoundError whose name is the package or a package it is nested in
   ([no_such_package], [dotted_prefix]) -- is tolerated, FMS or not, with nothing
   but "None" offered; every other ImportError raises at start-up without FMS. *)
Theorem C14_package_import_policy : forall pkgname mnf ename,
  (~ no_such_package pkgname (ImportRaisesImportError mnf ename) ->
     init false pkgname (ImportRaisesImportError mnf ename) = Raised ErrPackage []) /\
  (no_such_package pkgname (ImportRaisesImportError mnf ename) ->
     forall fms, exists r, init fms pkgname (ImportRaisesImportError mnf ename) = Built r /\ offers_nothing r).
Proof. exact import_error_policy. Qed.

(* the test of the code is that notion: (pkgname + ".").startswith(n + ".") *)
Theorem C14_dotted_prefix_is_the_startswith_test : forall n pkgname,
  prefix (n ++ ".")%string (pkgname ++ ".")%string = true <-> dotted_prefix n pkgname.
Proof. exact dotted_prefix_iff. Qed.

(* any other exception out of the package's own code: raised *)
Theorem C14_package_import_other_exception : forall pkgname,
  init false pkgname ImportRaisesOther = Raised ErrPackage [].
Proof. exact import_other_exception_policy. Qed.

(* [repaired, /repo 92ab354] an ImportError that is not a ModuleNotFoundError
   ("from . import helper" in the package's __init__.py raises
   ImportError(name=<the package>)) raises without FMS WHATEVER its name *)
Theorem C14_plain_import_error_raises : forall pkgname ename,
  init false pkgname (ImportRaisesImportError false ename) = Raised ErrPackage [].
Proof. exact plain_import_error_raises. Qed.

(* ... and so does a ModuleNotFoundError without a name *)
Theorem C14_nameless_module_not_found_raises : forall pkgname,
  init false pkgname (ImportRaisesImportError true None) = Raised ErrPackage [].
Proof. exact nameless_module_not_found_raises. Qed.

(* [repaired, /repo 3697c7e] a package missing at ANY level of the dotted name
   (first component, one in the middle, the package itself) is a missing
   package: tolerated, FMS or not, only "None" offered *)
Theorem C14_missing_package_at_any_level_tolerated : forall fms pkgname n,
  dotted_prefix n pkgname ->
  exists r, init fms pkgname (ImportRaisesImportError true (Some n)) = Built r /\ offers_nothing r.
Proof. exact missing_package_at_any_level_tolerated. Qed.

(* a missing module that is NOT the package or a package it is nested in is a
   failing import: raised without FMS ... *)
Theorem C14_missing_other_module_raises : forall pkgname n,
  ~ dotted_prefix n pkgname ->
  init false pkgname (ImportRaisesImportError true (Some n)) = Raised ErrPackage [].
Proof. exact missing_other_module_raises. Qed.

(* ... sharing the first dotted component with the package does not change that ... *)
Theorem C14_missing_module_in_namespace_raises : forall pkgname n,
  top_component n = top_component pkgname -> ~ dotted_prefix n pkgname ->
  init false pkgname (ImportRaisesImportError true (Some n)) = Raised ErrPackage [].
Proof. exact missing_module_in_namespace_raises. Qed.

(* ... e.g. a sub-module the package's __init__ needs ("from .helper import X") ... *)
Theorem C14_missing_submodule_raises : forall pkgname sub,
  init false pkgname (ImportRaisesImportError true (Some (pkgname ++ "." ++ sub)%string)) = Raised ErrPackage [].
Proof. exact missing_submodule_raises. Qed.

(* ... or a module of the parent package ("import robot.helpers" in
   robot/autonomous/__init__.py) that is not a package the autonomous package is
   nested in *)
Theorem C14_missing_sibling_raises : forall top rest sub,
  ~ dotted_prefix sub rest ->
  init false (top ++ "." ++ rest)%string (ImportRaisesImportError true (Some (top ++ "." ++ sub)%string))
  = Raised ErrPackage [].
Proof. exact missing_sibling_raises. Qed.

(* no FMS, from the import on: raises exactly when the import of the package
   fails (other than "no such package") or the layout has one of the faults *)
Theorem C14_init_no_fms_raises_iff : forall pkgname i,
  let p := import_outcome pkgname i in
  (exists e c, init false pkgname i = Raised e c) <->
  (package_import_fault pkgname i \/ import_fault p \/ ctor_fault p \/ duplicate_names p \/ several_defaults p).
Proof. exact init_no_fms_raises_iff. Qed.

(* FMS attached: never raises, whatever the import did *)
Theorem C14_init_fms_never_raises : forall pkgname i, exists r, init true pkgname i = Built r.
Proof. exact init_fms_never_raises. Qed.

(* ---- failing constructors, whatever makes them fail ------------------ *)

(* [ctor_raises c]: the call obj(args..) of the class raises.  The model -- like
   the selector -- knows nothing about the mechanism: an __init__ that raises, a
   __new__ or a metaclass __call__ that raises, an abstract class (abc; TypeError
   out of object.__new__), an __init__ that wants arguments ([ctor_behaviour],
   [fails]: all but [Constructs]).  For EVERY layout and every such class with
   MODE_NAME, not DISABLED, in an importable module: start-up raises without FMS;
   with FMS the call is made, the class is not offered (nothing that failed to
   construct is in selector.modes), and every healthy mode is still offered and
   selectable. *)
Theorem C14_failing_constructor_policy : forall p i,
  In i (needed p) -> ctor_raises (icls i) = true ->
  (exists e c, discover false p = Raised e c) /\
  (exists r, discover true p = Built r /\
     In (call_of i) (ctor_calls r) /\
     (forall k j, In (k, j) (modes r) -> ctor_raises (icls j) = false) /\
     (no_key_clash p ->
      forall j, In j (needed p) -> healthy j = true ->
        exists k, (k = name_of j \/ k = renamed j) /\
                  dict_get k (modes r) = Some j /\
                  In k (option_names r) /\
                  (choosable k -> chooser_selected (chooser_of r) (Some k) = Some j))).
Proof. exact failing_constructor_policy. Qed.

(* whatever was built, FMS or not: only constructed instances are in selector.modes *)
Theorem C14_modes_are_constructed : forall fms p r,
  discover fms p = Built r -> forall k i, In (k, i) (modes r) -> ctor_raises (icls i) = false.
Proof. exact built_modes_constructed. Qed.

(* ---- implicit (namespace) packages ---------------------------------- *)

(* A package without __file__ is scanned through its __path__, which may list
   several directories and the same directory several times (it is on sys.path
   twice).  [path_dirs] = list(set(__path__)): every directory once ... *)
Theorem C14_namespace_path_is_a_set : forall path,
  NoDup (map pdir (path_dirs path)) /\
  (forall po, In po (path_dirs path) -> In po path) /\
  (forall d, In d (map pdir path) <-> In d (map pdir (path_dirs path))).
Proof. exact path_dirs_set. Qed.

(* ... [fix f71dd92] of the files found there ONE per module name is scanned
   ([path_modules]; files of the same name in other directories are shadowed,
   Python imports the name from one of them only): no file twice, no name twice,
   nothing foreign, every module name represented; when no name occurs in two
   directories these are all the files ([path_ok]: what the file system
   guarantees about the listings) ... *)
Theorem C14_namespace_modules_once : forall path, path_ok path ->
  NoDup (map file (path_modules path)) /\
  NoDup (map mname (path_modules path)) /\
  (forall m, In m (path_modules path) -> in_path path m) /\
  (forall m, in_path path m -> exists m', In m' (path_modules path) /\ mname m' = mname m) /\
  (names_distinct path -> forall m, in_path path m -> In m (path_modules path)).
Proof. exact path_modules_once. Qed.

(* ... an entry that names a directory listed earlier changes NOTHING: same
   outcome, same constructor calls, same modes, same chooser ... *)
Theorem C14_namespace_repeated_directory_ignored : forall fms pkgname pre po mid po' post,
  pdir po' = pdir po ->
  init fms pkgname (ImportedNamespace (pre ++ po :: mid ++ po' :: post)) =
  init fms pkgname (ImportedNamespace (pre ++ po :: mid ++ post)).
Proof. exact namespace_repeated_directory_ignored. Qed.

(* ... and "once each" holds for implicit packages: whenever construction
   succeeds no constructor call is repeated, a class of a scanned file is called
   iff it defines MODE_NAME and is not DISABLED, and nothing else is called. *)
Theorem C14_namespace_instantiated_once : forall fms pkgname path r,
  init fms pkgname (ImportedNamespace path) = Built r ->
  path_ok path ->
  (forall m, in_path path m -> NoDup (map cname (classes m))) ->
  NoDup (ctor_calls r) /\
  (forall m c, In m (path_modules path) -> mname m <> "__init__" -> import_fails m = false -> In c (classes m) ->
     (In (file m, cname c) (ctor_calls r) <-> is_needed c = true)) /\
  (forall x, In x (ctor_calls r) ->
     exists m c, In m (path_modules path) /\ In c (classes m) /\ is_needed c = true /\ x = (file m, cname c)).
Proof. exact namespace_instantiated_once. Qed.

(* [D15, fix f71dd92] Files of the same name in several directories of
   __path__ ([name_determines_module]: they all stand for the ONE module Python
   imports under that name): of all the files bearing the name of an importable
   module exactly one, m', is used; every class of the module with MODE_NAME and
   not DISABLED is called through m' -- once, by NoDup above -- and through no
   other file of that name: no second round of constructor calls, hence no
   "Duplicate name" and no phantom mode. *)
Theorem C14_namespace_one_file_per_name : forall fms pkgname path r,
  init fms pkgname (ImportedNamespace path) = Built r ->
  path_ok path -> name_determines_module path ->
  (forall m, in_path path m -> NoDup (map cname (classes m))) ->
  forall m, in_path path m -> mname m <> "__init__" -> import_fails m = false ->
  exists m', In m' (path_modules path) /\ mname m' = mname m /\
    forall c, In c (classes m) -> is_needed c = true ->
      In (file m', cname c) (ctor_calls r) /\
      (forall n, in_path path n -> mname n = mname m -> In (file n, cname c) (ctor_calls r) -> n = m').
Proof. exact namespace_one_file_per_name. Qed.

(* ... and a file whose name a directory scanned earlier already has changes
   NOTHING: same outcome, calls, modes, chooser as without that file *)
Theorem C14_namespace_shadowed_file_ignored : forall fms pkgname a d pre m' post,
  pdir a <> d -> (exists m, In m (pfiles a) /\ mname m = mname m') ->
  init fms pkgname (ImportedNamespace [a; mkPortion d (pre ++ m' :: post)]) =
  init fms pkgname (ImportedNamespace [a; mkPortion d (pre ++ post)]).
Proof. exact namespace_shadowed_file_ignored. Qed.

(* ---- selection ---------------------------------------------------- *)

(* the dashboard's "Auto Selector" string wins if it names a mode ... *)
Theorem C14_selection_dashboard : forall r a c m,
  dict_get a (modes r) = Some m -> select r (Some a, c) = Some m.
Proof. exact select_dashboard. Qed.

(* ... otherwise the chooser decides: its selection, else its preselection *)
Theorem C14_selection_chooser : forall fms p r, discover fms p = Built r ->
  forall d c, (forall a, d = Some a -> dict_get a (modes r) = None) ->
  select r (d, c) =
  let name := match c with Some s => s | None => preselection r end in
  if (name =? "") || (name =? "None") then None else dict_get name (modes r).
Proof.
  exact (fun fms p r H d c Hd =>
           eq_trans (select_chooser r d c Hd) (chooser_selected_built fms p r H c)).
Qed.

(* ---- lifecycle ---------------------------------------------------- *)

(* For every well-formed call sequence under a monotone clock the delivered
   callbacks are, period by period, on_enable . on_iteration(t)* . on_disable of
   the mode selected when the period began, 0 <= t non-decreasing, only the last
   period possibly still open -- and no call raises AttributeError. *)
Theorem C14_lifecycle : forall r ops,
  well_formed ops = true -> clock_monotone ops ->
  conforms r (selections ops) (trace r ops) /\ snd (run_ops r init_lstate ops) <> None.
Proof. exact lifecycle. Qed.

(* no other mode receives any callback *)
Theorem C14_only_selected_modes : forall r ops,
  well_formed ops = true -> clock_monotone ops ->
  forall e, In e (trace r ops) ->
    exists s, In s (selections ops) /\ select r s = Some (mode_of e).
Proof. exact only_selected_modes. Qed.

(* nothing is delivered after on_disable before the next on_enable *)
Theorem C14_nothing_after_disable : forall r ops,
  well_formed ops = true -> clock_monotone ops -> quiet_after_disable (trace r ops).
Proof. exact nothing_after_disable. Qed.

(* once per loop: one run() period delivers on_enable, then exactly one
   on_iteration per live pass of the loop -- the passes that saw "autonomous and
   enabled", up to and including the pass during which somebody (an iter_fn hook,
   another thread) called disable() -- with t = clock - entry time, then on_disable
   exactly once, whoever called disable() first *)
Theorem C14_run_period_exact : forall r st s t0 wakes,
  active st = None ->
  do_run r st s t0 wakes =
  (mkL None (timer st) (robot_exit st),
   match select r s with
   | None => []
   | Some m => OnEnable m ::
               map (OnIteration m)
                   (if robot_exit st then [] else map (fun now => now - t0)%Z (live_prefix wakes)) ++
               [OnDisable m]
   end).
Proof. exact run_period_exact. Qed.

(* nobody calls disable() during the loop: one on_iteration per enabled pass *)
Theorem C14_run_period_undisturbed : forall r st s t0 wakes,
  active st = None -> undisturbed wakes ->
  do_run r st s t0 wakes =
  (mkL None (timer st) (robot_exit st),
   match select r s with
   | None => []
   | Some m => OnEnable m ::
               map (OnIteration m)
                   (if robot_exit st then [] else map (fun now => now - t0)%Z (enabled_prefix wakes)) ++
               [OnDisable m]
   end).
Proof. exact run_period_undisturbed. Qed.

(* disable() called while run() is still going round (during the pass that read
   [now]; the passes [pre] before it enabled and undisturbed): on_disable is
   delivered once, and NOTHING after it -- however many passes [post] the loop
   still makes with the driver station in autonomous+enabled, and although run()
   calls disable() again when the loop ends *)
Theorem C14_run_period_disable_mid : forall r st s m t0 pre now post,
  active st = None -> robot_exit st = false -> select r s = Some m -> Forall calm pre ->
  do_run r st s t0 (pre ++ (now, true, true) :: post) =
  (mkL None (timer st) false,
   OnEnable m ::
   map (OnIteration m) (map (fun n => n - t0)%Z (map wake_now pre ++ [now])) ++ [OnDisable m]).
Proof. exact run_period_disabled_mid. Qed.

(* ... and start . periodic^n . disable delivers exactly n of them *)
Theorem C14_timed_period_exact : forall r st s now nows,
  active st = None ->
  run_ops r st (Start s now :: map Periodic nows ++ [Disable]) =
  (match select r s with
   | None => []
   | Some m => OnEnable m :: map (fun n => OnIteration m (n - now)%Z) nows ++ [OnDisable m]
   end,
   Some (mkL None (Some now) (robot_exit st))).
Proof. exact timed_period_exact. Qed.

(* ---- periods that are not followed by disable() --------------------- *)

(* start() enables the mode selected NOW, whatever an earlier period left in
   self.active_mode (no hypothesis on the state) ... *)
Theorem C14_start_selects_afresh : forall r st s now,
  do_start r st s now =
  (mkL (select r s) (Some now) (robot_exit st),
   match select r s with Some m => [OnEnable m] | None => [] end).
Proof. exact start_selects_afresh. Qed.

(* ... and so does run(): C14_run_period_exact from ANY state *)
Theorem C14_run_period_exact_any : forall r st s t0 wakes,
  do_run r st s t0 wakes =
  (mkL None (timer st) (robot_exit st),
   match select r s with
   | None => []
   | Some m => OnEnable m ::
               map (OnIteration m)
                   (if robot_exit st then [] else map (fun now => now - t0)%Z (live_prefix wakes)) ++
               [OnDisable m]
   end).
Proof. exact run_period_exact_any. Qed.

(* TimedRobot without disable(): start . periodic^n . start . periodic^k delivers
   on_enable . on_iteration^n to the mode selected at the first start() and
   on_enable . on_iteration^k to the mode selected at the second one -- nothing
   at all if that selection is "None" -- from any state; the first mode hears
   nothing after the second start() *)
Theorem C14_period_after_open_period : forall r st s1 now1 nows1 s2 now2 nows2,
  run_ops r st (Start s1 now1 :: map Periodic nows1 ++ Start s2 now2 :: map Periodic nows2) =
  (open_period r s1 now1 nows1 ++ open_period r s2 now2 nows2,
   Some (mkL (select r s2) (Some now2) (robot_exit st))).
Proof. exact period_after_open_period. Qed.

(* EVERY call sequence in which periodic() does not precede the first start()
   (periods following one another without disable(), start() and run() mixed at
   will), monotone clock: period by period the mode selected when the period
   begins gets on_enable . on_iteration(t)*, 0 <= t non-decreasing, and on_disable
   exactly if a disable() ends the period before the next one begins; no
   AttributeError *)
Theorem C14_lifecycle_any_periods : forall r ops,
  timer_ready false ops = true -> clock_monotone ops ->
  conforms_marked r (periods ops) (trace r ops) /\ snd (run_ops r init_lstate ops) <> None.
Proof. exact lifecycle_marked. Qed.

(* ... hence no other mode receives any callback there either *)
Theorem C14_only_selected_modes_any_periods : forall r ops,
  timer_ready false ops = true -> clock_monotone ops ->
  forall e, In e (trace r ops) ->
    exists s, In s (selections ops) /\ select r s = Some (mode_of e).
Proof. exact only_selected_modes_marked. Qed.

(* ---- the package-import policy; where the code is narrower than the wording (open findings) -- *)

(* [repaired, /repo 87f7d89] a failing import of the package itself: raised
   without FMS, tolerated with it (only "None" is offered) *)
Theorem C14_package_failure_policy :
  discover false PkgInitFails = Raised ErrPackage [] /\
  exists r, discover true PkgInitFails = Built r /\
    modes r = [] /\ ctor_calls r = [] /\ option_names r = ["None"] /\ preselection r = "None".
Proof. exact package_failure_policy. Qed.

(* without [no_key_clash] a healthy mode can be lost under FMS *)
Theorem C14_fms_key_clash_refuted :
  exists r, discover true clash_pkg = Built r /\
    In (mkInst "/p/m.py" (mkCls "A0" (Some "B_/p/m.py") false false false)) (needed clash_pkg) /\
    forall k, dict_get k (modes r) <> Some (mkInst "/p/m.py" (mkCls "A0" (Some "B_/p/m.py") false false false)).
Proof. exact fms_key_clash_loses_a_mode. Qed.

(* a mode called "None" cannot be chosen through the chooser, DEFAULT or not *)
Theorem C14_mode_called_None_refuted :
  exists r, discover false none_pkg = Built r /\
    preselection r = "None" /\ chooser_selected (chooser_of r) None = None /\
    chooser_selected (chooser_of r) (Some "None") = None.
Proof. exact mode_called_None_not_choosable. Qed.

(* without well-formedness (start() twice) a mode is left without on_disable *)
Theorem C14_ill_formed_refuted :
  exists r, discover false two_pkg = Built r /\
    well_formed [Start (None, None) 0; Start (Some "b", None) 5; Disable] = false /\
    map ev_kind (trace r [Start (None, None) 0; Start (Some "b", None) 5; Disable]) =
      [("enable", "A"); ("enable", "B"); ("disable", "B")].
Proof. exact ill_formed_start_start. Qed.

(* ---- non-vacuity --------------------------------------------------- *)

Definition ex_pkg : package :=
  PkgPresent [
    mkMod "__init__" "/p/__init__.py" false [mkCls "Hidden" (Some "hidden") false true false];
    mkMod "beta" "/p/beta.py" false
      [mkCls "B" (Some "two") false false false; mkCls "Base" None false true false;
       mkCls "Off" (Some "off") true true false];
    mkMod "alpha" "/p/alpha.py" false [mkCls "A" (Some "one") false true false]].

Definition ex_A := mkInst "/p/alpha.py" (mkCls "A" (Some "one") false true false).
Definition ex_B := mkInst "/p/beta.py" (mkCls "B" (Some "two") false false false).

(* a fault-free layout with a class in __init__.py, a non-mode class and a
   disabled mode: two constructor calls, keyed by MODE_NAME, "one" preselected *)
Example ex_discover :
  exists r, discover false ex_pkg = Built r /\
    ctor_calls r = [("/p/beta.py", "B"); ("/p/alpha.py", "A")] /\
    modes r = [("two", ex_B); ("one", ex_A)] /\
    option_names r = ["one"; "two"; "None"] /\ preselection r = "one".
Proof. eexists. split; [vm_compute; reflexivity|]. vm_compute. auto. Qed.

Example ex_layout_ok : layout_ok ex_pkg /\ no_key_clash ex_pkg.
Proof.
  split; split; simpl.
  - repeat constructor; simpl; intuition discriminate.
  - intros m [H|[H|[]]]; subst; simpl; repeat constructor; simpl; intuition discriminate.
  - repeat constructor; simpl; intuition discriminate.
  - intros i j [Hi|[Hi|[]]] [Hj|[Hj|[]]]; subst; discriminate.
Qed.

(* every fault kind is inhabited and raises without FMS *)
Example ex_duplicate_raises :
  discover false (PkgPresent [mkMod "a" "/p/a.py" false [mkCls "A" (Some "x") false false false];
                              mkMod "b" "/p/b.py" false [mkCls "B" (Some "x") false false false]])
  = Raised (ErrDuplicate "x" "/p/b.py") [("/p/a.py", "A"); ("/p/b.py", "B")].
Proof. reflexivity. Qed.

Example ex_duplicate_tolerated_with_fms :
  exists r, discover true (PkgPresent [mkMod "a" "/p/a.py" false [mkCls "A" (Some "x") false false false];
                                       mkMod "b" "/p/b.py" true [];
                                       mkMod "c" "/p/c.py" false [mkCls "B" (Some "x") false true false;
                                                                   mkCls "C" (Some "y") false true true]])
            = Built r /\
    map fst (modes r) = ["x"; "B_/p/c.py"] /\ option_names r = ["B_/p/c.py"; "x"; "None"] /\
    preselection r = "B_/p/c.py".
Proof. eexists. split; [vm_compute; reflexivity|]. vm_compute. auto. Qed.

(* a well-formed call sequence with two periods, both selection sources, a
   run() period of three loop passes, periodic() after disable() *)
Example ex_lifecycle :
  exists r, discover false ex_pkg = Built r /\
  let ops := [Start (None, None) 100; Periodic 120; Periodic 140; Disable; Disable; Periodic 150;
              RunPeriod (Some "two", Some "one") 200
                [(200, true, false); (220, true, false); (240, true, false); (260, false, false)]]%Z in
  well_formed ops = true /\ clock_monotone ops /\
  trace r ops = [OnEnable ex_A; OnIteration ex_A 20; OnIteration ex_A 40; OnDisable ex_A;
                 OnEnable ex_B; OnIteration ex_B 0; OnIteration ex_B 20; OnIteration ex_B 40;
                 OnDisable ex_B]%Z.
Proof.
  eexists. split; [vm_compute; reflexivity|]. split; [reflexivity|].
  split; [unfold clock_monotone; simpl; intuition discriminate|reflexivity].
Qed.

(* a run() period during whose second pass an iter_fn hook calls disable(), the
   driver station staying in autonomous+enabled for two more passes: the mode
   hears nothing after its on_disable; the next period works as usual *)
Example ex_disable_mid_run :
  exists r, discover false ex_pkg = Built r /\
  let ops := [RunPeriod (None, None) 100
                [(100, true, false); (120, true, true); (140, true, false); (160, true, false); (180, false, false)];
              RunPeriod (Some "two", None) 200 [(200, true, false); (220, false, false)]]%Z in
  well_formed ops = true /\ clock_monotone ops /\
  trace r ops = [OnEnable ex_A; OnIteration ex_A 0; OnIteration ex_A 20; OnDisable ex_A;
                 OnEnable ex_B; OnIteration ex_B 0; OnDisable ex_B]%Z.
Proof.
  eexists. split; [vm_compute; reflexivity|]. split; [reflexivity|].
  split; [unfold clock_monotone; simpl; intuition discriminate|reflexivity].
Qed.

(* robot/autonomous/__init__.py does "import robot.helpers", which does not exist:
   raised; so is "from . import helper" (a plain ImportError naming the package);
   "robot", "robot.autonomous" -- or "a.b" of "a.b.c" -- not found: tolerated *)
Example ex_package_import :
  init false "robot.autonomous" (ImportRaisesImportError true (Some "robot.helpers")) = Raised ErrPackage [] /\
  init false "robot.autonomous" (ImportRaisesImportError true (Some "robot.autonomous.helper")) = Raised ErrPackage [] /\
  init false "robot.autonomous" (ImportRaisesImportError true (Some "numpy")) = Raised ErrPackage [] /\
  init false "robot.autonomous" (ImportRaisesImportError true (Some "rob")) = Raised ErrPackage [] /\
  init false "robot.autonomous" (ImportRaisesImportError true None) = Raised ErrPackage [] /\
  init false "robot.autonomous" (ImportRaisesImportError false (Some "robot.autonomous")) = Raised ErrPackage [] /\
  init false "robot.autonomous" (ImportRaisesImportError false (Some "robot")) = Raised ErrPackage [] /\
  (exists r, init false "robot.autonomous" (ImportRaisesImportError true (Some "robot.autonomous")) = Built r) /\
  (exists r, init false "robot.autonomous" (ImportRaisesImportError true (Some "robot")) = Built r) /\
  (exists r, init false "a.b.c" (ImportRaisesImportError true (Some "a.b")) = Built r) /\
  dotted_prefix "a.b" "a.b.c" /\ ~ dotted_prefix "a.bc" "a.b.c" /\ ~ dotted_prefix "robot.helpers" "robot.autonomous".
Proof.
  repeat split; try reflexivity; try (eexists; vm_compute; reflexivity).
  - right. exists "c". reflexivity.
  - intros H. apply dotted_prefix_iff in H. discriminate.
  - intros H. apply dotted_prefix_iff in H. discriminate.
Qed.

(* three TimedRobot periods without disable() in between, the chooser selection
   changed from the default to "two" and then to "None": not well-formed in the
   strict sense, covered by C14_lifecycle_any_periods; the third period is silent *)
Example ex_open_periods :
  exists r, discover false ex_pkg = Built r /\
  let ops := [Start (None, None) 100; Periodic 120; Start (None, Some "two") 200; Periodic 220; Periodic 240;
              Start (None, Some "None") 300; Periodic 320; Disable]%Z in
  well_formed ops = false /\ timer_ready false ops = true /\ clock_monotone ops /\
  periods ops = [((None, None), false); ((None, Some "two"), false); ((None, Some "None"), true)] /\
  trace r ops = [OnEnable ex_A; OnIteration ex_A 20; OnEnable ex_B; OnIteration ex_B 20; OnIteration ex_B 40]%Z.
Proof.
  eexists. split; [vm_compute; reflexivity|]. split; [reflexivity|]. split; [reflexivity|].
  split; [unfold clock_monotone; simpl; intuition discriminate|]. split; reflexivity.
Qed.

(* five ways of failing, one healthy mode: raised without FMS at the first of
   them; with FMS all six calls are made and only the healthy mode is offered *)
Definition ex_failing_pkg : package :=
  PkgPresent [
    mkMod "m" "/p/m.py" false
      [mkCls "A" (Some "abstract") false false (fails AbstractClass);
       mkCls "G" (Some "good") false true (fails Constructs);
       mkCls "I" (Some "init") false false (fails InitRaises);
       mkCls "M" (Some "meta") false false (fails MetaCallRaises);
       mkCls "N" (Some "new") false true (fails NewRaises);
       mkCls "W" (Some "wants") false false (fails NeedsArguments)]].

Example ex_failing_constructors :
  discover false ex_failing_pkg = Raised (ErrCtor "/p/m.py" "A") [("/p/m.py", "A")] /\
  In (mkInst "/p/m.py" (mkCls "A" (Some "abstract") false false true)) (needed ex_failing_pkg) /\
  no_key_clash ex_failing_pkg /\
  exists r, discover true ex_failing_pkg = Built r /\
    map snd (ctor_calls r) = ["A"; "G"; "I"; "M"; "N"; "W"] /\
    map fst (modes r) = ["good"] /\ option_names r = ["good"; "None"] /\ preselection r = "good".
Proof.
  split; [reflexivity|]. split; [simpl; auto|]. split.
  - split; simpl.
    + repeat constructor; simpl; intuition discriminate.
    + intros i j Hi Hj. repeat (destruct Hi as [Hi|Hi]; [subst i|]); try contradiction;
        repeat (destruct Hj as [Hj|Hj]; [subst j|]); try contradiction; discriminate.
  - eexists. split; [vm_compute; reflexivity|]. vm_compute. auto.
Qed.

(* an implicit package whose __path__ is [/a/p; /b/p; /a/p] (sys.path lists /a
   twice, /b contributes another module): two directories, three module files,
   each class called once; exactly what __path__ = [/a/p; /b/p] gives *)
Definition ex_po_a : portion :=
  mkPortion "/a/p" [mkMod "left" "/a/p/left.py" false [mkCls "L" (Some "Left") false true false];
                    mkMod "right" "/a/p/right.py" false [mkCls "R" (Some "Right") false false false]].
Definition ex_po_b : portion :=
  mkPortion "/b/p" [mkMod "mid" "/b/p/mid.py" false [mkCls "M" (Some "Mid") false false false]].

Example ex_namespace_path :
  path_ok [ex_po_a; ex_po_b; ex_po_a] /\
  map pdir (path_dirs [ex_po_a; ex_po_b; ex_po_a]) = ["/a/p"; "/b/p"] /\
  init false "p" (ImportedNamespace [ex_po_a; ex_po_b; ex_po_a]) = init false "p" (ImportedNamespace [ex_po_a; ex_po_b]) /\
  init false "p" (ImportedNamespace [ex_po_a; ex_po_a]) = init false "p" (Imported (pfiles ex_po_a)) /\
  exists r, init false "p" (ImportedNamespace [ex_po_a; ex_po_b; ex_po_a]) = Built r /\
    ctor_calls r = [("/a/p/left.py", "L"); ("/a/p/right.py", "R"); ("/b/p/mid.py", "M")] /\
    map fst (modes r) = ["Left"; "Right"; "Mid"] /\ preselection r = "Left".
Proof.
  split.
  - split; [|split].
    + intros a b Ha Hb. simpl in Ha, Hb.
      destruct Ha as [Ha|[Ha|[Ha|[]]]], Hb as [Hb|[Hb|[Hb|[]]]]; subst; simpl; intros H; try reflexivity; discriminate.
    + intros a b m n Ha Hb. simpl in Ha, Hb.
      destruct Ha as [Ha|[Ha|[Ha|[]]]], Hb as [Hb|[Hb|[Hb|[]]]]; subst; simpl; intros Hm Hn H; try reflexivity;
        repeat (destruct Hm as [Hm|Hm]; [subst m|]); try contradiction;
        repeat (destruct Hn as [Hn|Hn]; [subst n|]); try contradiction; discriminate.
    + intros a Ha. simpl in Ha. destruct Ha as [Ha|[Ha|[Ha|[]]]]; subst; simpl;
        repeat constructor; simpl; intuition discriminate.
  - split; [reflexivity|]. split; [reflexivity|]. split; [reflexivity|].
    eexists. split; [vm_compute; reflexivity|]. vm_compute. auto.
Qed.

(* D15: /a/p and /b/p both have a left.py; "p.left" is one module (class L):
   it is scanned once, through the file met first -- without FMS no "Duplicate
   name", with FMS no phantom "L_/b/p/left.py"; the unfixed loop (no
   [unique_names]) raised / offered the phantom *)
Definition ex_po_b2 : portion :=
  mkPortion "/b/p" [mkMod "left" "/b/p/left.py" false [mkCls "L" (Some "Left") false true false];
                    mkMod "mid" "/b/p/mid.py" false [mkCls "M" (Some "Mid") false false false]].

Example ex_same_name_in_two_directories :
  path_ok [ex_po_a; ex_po_b2] /\ name_determines_module [ex_po_a; ex_po_b2] /\ ~ names_distinct [ex_po_a; ex_po_b2] /\
  map file (path_modules [ex_po_a; ex_po_b2]) = ["/a/p/left.py"; "/a/p/right.py"; "/b/p/mid.py"] /\
  map file (path_modules [ex_po_b2; ex_po_a]) = ["/b/p/left.py"; "/b/p/mid.py"; "/a/p/right.py"] /\
  init false "p" (ImportedNamespace [ex_po_a; ex_po_b2]) = init false "p" (ImportedNamespace [ex_po_a; ex_po_b]) /\
  (exists r, init true "p" (ImportedNamespace [ex_po_a; ex_po_b2]) = Built r /\
     ctor_calls r = [("/a/p/left.py", "L"); ("/a/p/right.py", "R"); ("/b/p/mid.py", "M")] /\
     map fst (modes r) = ["Left"; "Right"; "Mid"]) /\
  discover false (PkgPresent (path_files [ex_po_a; ex_po_b2])) =
    Raised (ErrDuplicate "Left" "/b/p/left.py") [("/a/p/left.py", "L"); ("/a/p/right.py", "R"); ("/b/p/left.py", "L")] /\
  (exists r, discover true (PkgPresent (path_files [ex_po_a; ex_po_b2])) = Built r /\
     map fst (modes r) = ["Left"; "Right"; "L_/b/p/left.py"; "Mid"]).
Proof.
  assert (Hin : forall m, in_path [ex_po_a; ex_po_b2] m ->
            m = mkMod "left" "/a/p/left.py" false [mkCls "L" (Some "Left") false true false] \/
            m = mkMod "right" "/a/p/right.py" false [mkCls "R" (Some "Right") false false false] \/
            m = mkMod "left" "/b/p/left.py" false [mkCls "L" (Some "Left") false true false] \/
            m = mkMod "mid" "/b/p/mid.py" false [mkCls "M" (Some "Mid") false false false]).
  { intros m [po [[Hp|[Hp|[]]] Hm]]; subst po; simpl in Hm; intuition. }
  split.
  - split; [|split].
    + intros a b Ha Hb. simpl in Ha, Hb.
      destruct Ha as [Ha|[Ha|[]]], Hb as [Hb|[Hb|[]]]; subst; simpl; intros H; try reflexivity; discriminate.
    + intros a b m n Ha Hb. simpl in Ha, Hb.
      destruct Ha as [Ha|[Ha|[]]], Hb as [Hb|[Hb|[]]]; subst; simpl; intros Hm Hn H; try reflexivity;
        repeat (destruct Hm as [Hm|Hm]; [subst m|]); try contradiction;
        repeat (destruct Hn as [Hn|Hn]; [subst n|]); try contradiction; discriminate.
    + intros a Ha. simpl in Ha. destruct Ha as [Ha|[Ha|[]]]; subst; simpl;
        repeat constructor; simpl; intuition discriminate.
  - split.
    { intros m n Hm Hn. apply Hin in Hm. apply Hin in Hn.
      destruct Hm as [Hm|[Hm|[Hm|Hm]]], Hn as [Hn|[Hn|[Hn|Hn]]]; subst; simpl; intros H; try (split; reflexivity); discriminate. }
    split.
    { intros H.
      assert (E : mkMod "left" "/a/p/left.py" false [mkCls "L" (Some "Left") false true false] =
                  mkMod "left" "/b/p/left.py" false [mkCls "L" (Some "Left") false true false]); [|discriminate].
      apply H; [exists ex_po_a; simpl; auto|exists ex_po_b2; simpl; auto|reflexivity]. }
    split; [reflexivity|]. split; [reflexivity|]. split; [reflexivity|]. split.
    { eexists. split; [vm_compute; reflexivity|]. vm_compute. auto. }
    split; [reflexivity|]. eexists. split; [vm_compute; reflexivity|]. vm_compute. auto.
Qed.

Print Assumptions C14_constructor_calls.
Print Assumptions C14_instantiated_exactly.
Print Assumptions C14_raise_calls_prefix.
Print Assumptions C14_keyed_by_mode_name.
Print Assumptions C14_offers_none_and_default.
Print Assumptions C14_no_fms_raises_iff.
Print Assumptions C14_missing_package_tolerated.
Print Assumptions C14_fms_never_raises.
Print Assumptions C14_fms_tolerates.
Print Assumptions C14_fms_modes_are_healthy.
Print Assumptions C14_package_import_policy.
Print Assumptions C14_dotted_prefix_is_the_startswith_test.
Print Assumptions C14_package_import_other_exception.
Print Assumptions C14_plain_import_error_raises.
Print Assumptions C14_nameless_module_not_found_raises.
Print Assumptions C14_missing_package_at_any_level_tolerated.
Print Assumptions C14_missing_other_module_raises.
Print Assumptions C14_missing_module_in_namespace_raises.
Print Assumptions C14_missing_submodule_raises.
Print Assumptions C14_missing_sibling_raises.
Print Assumptions C14_init_no_fms_raises_iff.
Print Assumptions C14_init_fms_never_raises.
Print Assumptions C14_failing_constructor_policy.
Print Assumptions C14_modes_are_constructed.
Print Assumptions C14_namespace_path_is_a_set.
Print Assumptions C14_namespace_modules_once.
Print Assumptions C14_namespace_repeated_directory_ignored.
Print Assumptions C14_namespace_instantiated_once.
Print Assumptions C14_namespace_one_file_per_name.
Print Assumptions C14_namespace_shadowed_file_ignored.
Print Assumptions C14_selection_dashboard.
Print Assumptions C14_selection_chooser.
Print Assumptions C14_lifecycle.
Print Assumptions C14_only_selected_modes.
Print Assumptions C14_nothing_after_disable.
Print Assumptions C14_run_period_exact.
Print Assumptions C14_run_period_undisturbed.
Print Assumptions C14_run_period_disable_mid.
Print Assumptions C14_timed_period_exact.
Print Assumptions C14_start_selects_afresh.
Print Assumptions C14_run_period_exact_any.
Print Assumptions C14_period_after_open_period.
Print Assumptions C14_lifecycle_any_periods.
Print Assumptions C14_only_selected_modes_any_periods.
Print Assumptions C14_package_failure_policy.
Print Assumptions C14_fms_key_clash_refuted.
Print Assumptions C14_mode_called_None_refuted.
Print Assumptions C14_ill_formed_refuted.
