(* C07 -- FMS attached: no user-callback exception stops the robot; otherwise it crashes.

   Every user callback the framework invokes (component on_enable / on_disable / execute,
   the modes' init and periodic methods -- also teleopPeriodic run during autonomous, and
   robotPeriodic --, feedback getters, the selected autonomous mode's on_enable /
   on_iteration / on_disable) may raise at any of its invocations: [raises k] says whether
   the k-th callback invocation of the run does.  [in_flight w] = an exception is
   propagating (the robot program dies).  setup() is not in the property's list and is not
   guarded by the code: [setup_quiet] says no setup() raises.  The FMS may be attached or
   detached between loop passes ([Fms b] ticks); [fms_ticks_stay v ts] says it is not.
   Statements only. *)
From Coq Require Import ZArith List Bool.
From RV Require Import Robot.Model Robot.Proofs Robot.Loop Robot.Mixed Robot.Lifecycle Robot.Examples.
Import ListNotations.
Open Scope Z_scope.

Section C07.
Variable c : cfg.
Variable raises : nat -> bool.
Variable writes : nat -> list (nat * nat * Z).
Variable fbval : nat -> Z.

(* FMS attached: for any set of faulty invocations (single, multiple, every time) every
   callback of the specified sequence still runs, in order, and the robot is still running *)
Theorem C07_fms_every_callback_still_runs : forall ts, fms c = true -> fms_ticks_stay true ts = true -> setup_quiet c raises ->
  sites (snd (robot_run c raises writes fbval ts)) = spec_sites c ts
  /\ in_flight (fst (robot_run c raises writes fbval ts)) = false.
Proof. exact (fun ts => run_fms c raises writes fbval ts). Qed.

(* ... i.e. the calls made are those of the fault-free robot *)
Theorem C07_fms_calls_independent_of_faults : forall ts, fms c = true -> fms_ticks_stay true ts = true -> setup_quiet c raises ->
  sites (snd (robot_run c raises writes fbval ts)) = sites (snd (robot_run c (fun _ => false) writes fbval ts)).
Proof. exact (fun ts => run_fms_independent_of_faults c raises writes fbval ts). Qed.

(* the reason, program by program: every callback of the mode programs sits directly
   under a guard (try/except: onException()), also inside the autonomous loop *)
Theorem C07_every_callback_is_guarded : forall cur ts, safe (ticks_prog c cur ts) = true.
Proof. exact (fun cur ts => safe_ticks c ts cur). Qed.

(* FMS not attached: the first raising invocation is the last callback that runs; the
   exception propagates out of the robot program *)
Theorem C07_no_fms_crashes_at_first_fault : forall ts, fms c = false -> fms_ticks_stay false ts = true ->
  match first_raise raises 0 (length (spec_sites c ts)) with
  | Some i => sites (snd (robot_run c raises writes fbval ts)) = firstn (S i) (spec_sites c ts)
              /\ in_flight (fst (robot_run c raises writes fbval ts)) = true
  | None => sites (snd (robot_run c raises writes fbval ts)) = spec_sites c ts
            /\ in_flight (fst (robot_run c raises writes fbval ts)) = false
  end.
Proof. exact (fun ts => run_nofms c raises writes fbval ts). Qed.

(* The FMS attached and detached at will while the robot runs: the run makes exactly the
   specified calls up to and including the first raising invocation that happens WHILE THE FMS
   IS NOT ATTACHED ([spec_fms]: the FMS state in force at each call of the specified sequence),
   and the robot dies there and only there.  The two theorems above are the instances
   "always attached" and "never attached". *)
Theorem C07_decided_by_the_fms_state_at_the_fault : forall ts, setup_quiet c raises ->
  match first_fatal raises 0 (spec_fms c ts) with
  | Some i => sites (snd (robot_run c raises writes fbval ts)) = firstn (S i) (spec_sites c ts)
              /\ in_flight (fst (robot_run c raises writes fbval ts)) = true
  | None => sites (snd (robot_run c raises writes fbval ts)) = spec_sites c ts
            /\ in_flight (fst (robot_run c raises writes fbval ts)) = false
  end.
Proof. exact (run_mixed c raises writes fbval). Qed.

Theorem C07_first_fatal_is_the_first : forall fl k0 i, first_fatal raises k0 fl = Some i ->
  raises (k0 + i) = true /\ nth i fl true = false /\
  (forall j, (j < i)%nat -> raises (k0 + j) = false \/ nth j fl true = true).
Proof. exact (first_fatal_some raises). Qed.

Theorem C07_first_raise_is_the_first : forall k0 n i, first_raise raises k0 n = Some i ->
  (i < n)%nat /\ raises (k0 + i) = true /\ (forall j, (j < i)%nat -> raises (k0 + j) = false).
Proof. exact (first_raise_some raises). Qed.
End C07.

(* Non-vacuity: the example robot with three faulty invocations (two feedback getters and
   teleopPeriodic): with the FMS all 53 callbacks run; without it the run ends at the 15th *)
Example C07_nv :
  fms (ex_cfg true) = true /\ setup_quiet (ex_cfg true) ex_raises
  /\ length (sites (snd (ex_run true))) = 53%nat /\ in_flight (fst (ex_run true)) = false
  /\ first_raise ex_raises 0 (length (spec_sites (ex_cfg false) ex_ticks)) = Some 14%nat
  /\ length (sites (snd (ex_run false))) = 15%nat /\ w_exc (fst (ex_run false)) = Some (SFeedback 0).
Proof.
  split; [reflexivity|]. split; [intros k Hk; cbn in Hk; destruct k as [|[|?]]; [reflexivity | exfalso; inversion Hk; inversion H0 ..]|].
  vm_compute. repeat split.
Qed.

Print Assumptions C07_fms_every_callback_still_runs.
Print Assumptions C07_fms_calls_independent_of_faults.
Print Assumptions C07_every_callback_is_guarded.
Print Assumptions C07_no_fms_crashes_at_first_fault.
Print Assumptions C07_first_raise_is_the_first.
Print Assumptions C07_decided_by_the_fms_state_at_the_fault.
Print Assumptions C07_first_fatal_is_the_first.
