(* Lemmas and theorems about Stateful.Model, for all shapes, all user code
   (carried by the operations) and all histories. *)
From Coq Require Import ZArith List Bool Lia.
From RecordUpdate Require Import RecordSet.
Import ListNotations RecordSetNotations.
From RV Require Import Stateful.Model.
Open Scope Z_scope.

(* ------------------------------------------------------------------ *)
(* generic list facts                                                  *)

Lemma calls_app a b : calls (a ++ b) = calls a ++ calls b.
Proof. unfold calls. apply filter_app. Qed.

Lemma status_tr_app a b : status_tr (a ++ b) = fold_left status_ev b (status_tr a).
Proof. unfold status_tr. apply fold_left_app. Qed.

Lemma last_call_start_app a b acc :
  last_call_start (a ++ b) acc = last_call_start b (last_call_start a acc).
Proof.
  revert acc. induction a as [|e a IH]; intros acc; cbn; [reflexivity|].
  destruct e; apply IH.
Qed.

Lemma last_call_start_nocalls e acc : calls e = [] -> last_call_start e acc = acc.
Proof.
  revert acc. induction e as [|x e IH]; intros acc H; cbn; [reflexivity|].
  destruct x; cbn in H; try discriminate; apply IH; exact H.
Qed.

Lemma init_discipline_app a b st :
  init_discipline st (a ++ b) <->
  init_discipline st a /\ init_discipline (fold_left status_ev a st) b.
Proof.
  revert st. induction a as [|e a IH]; intros st; cbn.
  - tauto.
  - rewrite IH. tauto.
Qed.

Lemma init_discipline_nocalls e st : calls e = [] -> init_discipline st e.
Proof.
  revert st. induction e as [|x e IH]; intros st H; cbn; [exact I|].
  destruct x; cbn in H; try discriminate; split; try exact I; apply IH; exact H.
Qed.

Lemma last_dash_app a b acc : last_dash (a ++ b) acc = last_dash b (last_dash a acc).
Proof.
  revert acc. induction a as [|o a IH]; intros acc; cbn; [reflexivity|].
  destruct o; apply IH.
Qed.

Lemma upd_same {A} (f : name -> A) k v : upd f k v k = v.
Proof. unfold upd. rewrite Nat.eqb_refl. reflexivity. Qed.

Section P.
Variable sh : shape.

Notation next_state := (next_state sh).
Notation run_actions := (run_actions sh).
Notation on_iteration := (on_iteration sh).
Notation on_enable := (on_enable sh).
Notation step := (step sh).
Notation run := (run sh).
Notation duration_of := (duration_of sh).

(* ------------------------------------------------------------------ *)
(* run / final / trace                                                  *)

Lemma run_app m h1 h2 :
  run m (h1 ++ h2) =
  (fst (run (fst (run m h1)) h2), snd (run m h1) ++ snd (run (fst (run m h1)) h2)).
Proof.
  revert m. induction h1 as [|o r IH]; intros m; cbn [app Model.run].
  - cbn. destruct (run m h2); reflexivity.
  - destruct (step m o) as [m1 e1]. rewrite IH.
    destruct (run m1 r) as [m2 e2]. cbn. rewrite app_assoc. reflexivity.
Qed.

Lemma final_app h1 h2 : final sh (h1 ++ h2) = fst (run (final sh h1) h2).
Proof. unfold final. rewrite run_app. reflexivity. Qed.

Lemma trace_app h1 h2 : trace sh (h1 ++ h2) = trace sh h1 ++ trace_from sh (final sh h1) h2.
Proof. unfold trace, trace_from, final. rewrite run_app. reflexivity. Qed.

Lemma run_single m o : run m [o] = (fst (step m o), snd (step m o)).
Proof. cbn. destruct (step m o) as [m1 e1]. cbn. rewrite app_nil_r. reflexivity. Qed.

Lemma run_cons m o r :
  run m (o :: r) = (fst (run (fst (step m o)) r), snd (step m o) ++ snd (run (fst (step m o)) r)).
Proof. cbn. destruct (step m o) as [m1 e1]. cbn. destruct (run m1 r). reflexivity. Qed.

(* ------------------------------------------------------------------ *)
(* next_state, done, actions                                            *)

Lemma next_state_some m s m' : next_state m s = Some m' ->
  declared sh s = true /\
  m' = m <| enabled := true |> <| cur := Some s |>
         <| sdat := upd (sdat m) s (sdat m s <| ran := false |>) |>.
Proof.
  unfold Model.next_state. destruct (declared sh s); [|discriminate].
  intros [= <-]. split; reflexivity.
Qed.

Lemma next_state_declared m s : declared sh s = true ->
  next_state m s = Some (m <| enabled := true |> <| cur := Some s |>
                           <| sdat := upd (sdat m) s (sdat m s <| ran := false |>) |>).
Proof. intros H. unfold Model.next_state. rewrite H. reflexivity. Qed.

Lemma next_state_undeclared m s : declared sh s = false -> next_state m s = None.
Proof. intros H. unfold Model.next_state. rewrite H. reflexivity. Qed.

Lemma status_next m s m' : next_state m s = Some m' -> status_of m' = Entered s.
Proof.
  intros H. apply next_state_some in H. destruct H as [_ ->].
  unfold status_of. cbn. rewrite upd_same. reflexivity.
Qed.

Lemma status_done m : status_of (done m) = Ended.
Proof. reflexivity. Qed.

Lemma dur_next m s m' : next_state m s = Some m' -> dur m' = dur m.
Proof. intros H. apply next_state_some in H. destruct H as [_ ->]. reflexivity. Qed.

Lemma run_actions_nocalls acts : forall m, calls (snd (run_actions acts m)) = [].
Proof.
  induction acts as [|a r IH]; intros m; cbn [Model.run_actions]; [reflexivity|].
  destruct a as [n|].
  - destruct (next_state m n) as [m'|]; [|reflexivity].
    specialize (IH m'). destruct (run_actions r m') as [m'' e]. exact IH.
  - specialize (IH (done m)). destruct (run_actions r (done m)) as [m'' e]. exact IH.
Qed.

Lemma run_actions_status acts : forall m,
  status_of (fst (run_actions acts m)) =
  fold_left status_ev (snd (run_actions acts m)) (status_of m).
Proof.
  induction acts as [|a r IH]; intros m; cbn [Model.run_actions]; [reflexivity|].
  destruct a as [n|].
  - destruct (next_state m n) as [m'|] eqn:E; [|reflexivity].
    specialize (IH m'). destruct (run_actions r m') as [m'' e]. cbn in *.
    rewrite IH, (status_next _ _ _ E). reflexivity.
  - specialize (IH (done m)). destruct (run_actions r (done m)) as [m'' e]. cbn in *.
    rewrite IH. reflexivity.
Qed.

Lemma run_actions_status_acts acts : forall m,
  status_of (fst (run_actions acts m)) = status_acts sh acts (status_of m).
Proof.
  induction acts as [|a r IH]; intros m; cbn [Model.run_actions status_acts]; [reflexivity|].
  destruct a as [n|].
  - unfold Model.next_state. destruct (declared sh n) eqn:D; [|reflexivity].
    match goal with |- context [run_actions r ?x] => set (m' := x) end.
    specialize (IH m'). destruct (run_actions r m') as [m'' e]. cbn in *.
    rewrite IH. unfold m', status_of. cbn. rewrite upd_same. reflexivity.
  - specialize (IH (done m)). destruct (run_actions r (done m)) as [m'' e]. cbn in *.
    rewrite IH. reflexivity.
Qed.

Lemma run_actions_dur acts : forall m, dur (fst (run_actions acts m)) = dur m.
Proof.
  induction acts as [|a r IH]; intros m; cbn [Model.run_actions]; [reflexivity|].
  destruct a as [n|].
  - destruct (next_state m n) as [m'|] eqn:E; [|reflexivity].
    specialize (IH m'). destruct (run_actions r m') as [m'' e]. cbn in *.
    rewrite IH. exact (dur_next _ _ _ E).
  - specialize (IH (done m)). destruct (run_actions r (done m)) as [m'' e]. cbn in *.
    rewrite IH. reflexivity.
Qed.

(* if the state function leaves the mode Running, it changed nothing *)
Lemma run_actions_running acts : forall m x,
  status_of (fst (run_actions acts m)) = Running x -> fst (run_actions acts m) = m.
Proof.
  induction acts as [|a r IH]; intros m x; cbn [Model.run_actions]; [reflexivity|].
  destruct a as [n|].
  - destruct (next_state m n) as [m'|] eqn:E; [|reflexivity].
    specialize (IH m' x). destruct (run_actions r m') as [m'' e]. cbn in *.
    intros H. specialize (IH H). subst m''. rewrite (status_next _ _ _ E) in H. discriminate.
  - specialize (IH (done m) x). destruct (run_actions r (done m)) as [m'' e]. cbn in *.
    intros H. specialize (IH H). subst m''. discriminate.
Qed.

(* ------------------------------------------------------------------ *)
(* status inversion                                                     *)

Lemma status_entered_inv m s : status_of m = Entered s ->
  enabled m = true /\ cur m = Some s /\ ran (sdat m s) = false.
Proof.
  unfold status_of. destruct (enabled m); cbn; [|discriminate].
  destruct (cur m) as [c|]; [|discriminate].
  destruct (ran (sdat m c)) eqn:R; [discriminate|]. intros [= <-]. auto.
Qed.

Lemma status_running_inv m s : status_of m = Running s ->
  enabled m = true /\ cur m = Some s /\ ran (sdat m s) = true.
Proof.
  unfold status_of. destruct (enabled m); cbn; [|discriminate].
  destruct (cur m) as [c|]; [|discriminate].
  destruct (ran (sdat m c)) eqn:R; [|discriminate]. intros [= <-]. auto.
Qed.

Lemma status_ended_inv m : status_of m = Ended -> enabled m = true /\ cur m = None.
Proof.
  unfold status_of. destruct (enabled m); cbn; [|discriminate].
  destruct (cur m) as [c|]; [|auto]. destruct (ran (sdat m c)); discriminate.
Qed.

Lemma status_notenabled_inv m : status_of m = NotEnabled -> enabled m = false.
Proof.
  unfold status_of. destruct (enabled m); cbn; [|reflexivity].
  destruct (cur m) as [c|]; [|discriminate]. destruct (ran (sdat m c)); discriminate.
Qed.

(* ------------------------------------------------------------------ *)
(* on_iteration, case by case (flat view of the statement-by-statement
   model; every later proof goes through these)                         *)

Definition then_call (m2 : mach) (pre : list event) (s : name) (tm stm : Z) (init : bool)
  (b : ubody) : mach * list event :=
  (fst (run_actions (b s tm stm init) m2),
   pre ++ EvCall s tm stm init :: snd (run_actions (b s tm stm init) m2)).

Lemma iter_not_enabled m tm b : enabled m = false ->
  on_iteration m tm b = (m, [EvErr ErrNotEnabled]).
Proof. intros H. unfold Model.on_iteration, iteration_gen. rewrite H. reflexivity. Qed.

Lemma iter_ended m tm b : enabled m = true -> cur m = None ->
  on_iteration m tm b = (m <| fin := true |>, []).
Proof.
  intros He Hc. unfold Model.on_iteration, iteration_gen, expire. rewrite He, Hc. cbn.
  rewrite Hc. reflexivity.
Qed.

(* the two assignments the code makes on entry / on the first call *)
Definition ns (m : mach) (s : name) : mach :=
  m <| enabled := true |> <| cur := Some s |>
    <| sdat := upd (sdat m) s (sdat m s <| ran := false |>) |>.
Definition bk (m : mach) (s : name) (nss : Z) : mach :=
  m <| sdat := upd (sdat m) s {| ran := true; st_start := nss;
                                 st_exp := nss + duration_of m s |} |>.

Lemma iter_entered m s tm b :
  enabled m = true -> cur m = Some s -> ran (sdat m s) = false ->
  on_iteration m tm b = then_call (bk m s tm) [] s tm 0 true b.
Proof.
  intros He Hc Hr. unfold Model.on_iteration, iteration_gen, expire, expired_now, then_call, bk.
  rewrite He, Hc, Hr. cbn. rewrite Hc. unfold enter_bk. rewrite Hr. cbn.
  rewrite upd_same. cbn. rewrite Z.sub_diag.
  match goal with |- context [run_actions ?a ?x] => destruct (run_actions a x) end.
  reflexivity.
Qed.

Lemma iter_hold m s tm b :
  enabled m = true -> cur m = Some s -> ran (sdat m s) = true -> tm <= st_exp (sdat m s) ->
  on_iteration m tm b = then_call m [] s tm (tm - st_start (sdat m s)) false b.
Proof.
  intros He Hc Hr Ht. unfold Model.on_iteration, iteration_gen, expire, expired_now, then_call.
  rewrite He, Hc, Hr. cbn.
  assert (E : (st_exp (sdat m s) <? tm) = false) by (apply Z.ltb_ge; exact Ht).
  rewrite E, Hc. unfold enter_bk. rewrite Hr.
  match goal with |- context [run_actions ?a ?x] => destruct (run_actions a x) end.
  reflexivity.
Qed.

Lemma iter_handover m s tm b dflt n :
  enabled m = true -> cur m = Some s -> ran (sdat m s) = true -> st_exp (sdat m s) < tm ->
  lookup sh s = Some (Timed dflt (Some n)) -> declared sh n = true ->
  on_iteration m tm b =
  then_call (bk (ns m n) n (st_exp (sdat m s))) [EvEnter (Some n)] n tm
            (tm - st_exp (sdat m s)) true b.
Proof.
  intros He Hc Hr Ht Hl Hd.
  unfold Model.on_iteration, iteration_gen, expire, expired_now, then_call.
  rewrite He, Hc, Hr. cbn.
  assert (E : (st_exp (sdat m s) <? tm) = true) by (apply Z.ltb_lt; exact Ht).
  rewrite E, Hl, (next_state_declared _ _ Hd). cbn.
  unfold enter_bk. cbn. rewrite upd_same. cbn. rewrite upd_same. cbn.
  unfold bk, ns. cbn.
  match goal with |- context [run_actions ?a ?x] => destruct (run_actions a x) end.
  reflexivity.
Qed.

Lemma iter_handover_unknown m s tm b dflt n :
  enabled m = true -> cur m = Some s -> ran (sdat m s) = true -> st_exp (sdat m s) < tm ->
  lookup sh s = Some (Timed dflt (Some n)) -> declared sh n = false ->
  on_iteration m tm b = (m, [EvErr ErrAttr]).
Proof.
  intros He Hc Hr Ht Hl Hd.
  unfold Model.on_iteration, iteration_gen, expire, expired_now.
  rewrite He, Hc, Hr. cbn.
  assert (E : (st_exp (sdat m s) <? tm) = true) by (apply Z.ltb_lt; exact Ht).
  rewrite E, Hl, (next_state_undeclared _ _ Hd). reflexivity.
Qed.

Lemma iter_last m s tm b dflt :
  enabled m = true -> cur m = Some s -> ran (sdat m s) = true -> st_exp (sdat m s) < tm ->
  lookup sh s = Some (Timed dflt None) ->
  on_iteration m tm b = (done m <| fin := true |>, [EvEnter None]).
Proof.
  intros He Hc Hr Ht Hl.
  unfold Model.on_iteration, iteration_gen, expire, expired_now.
  rewrite He, Hc, Hr. cbn.
  assert (E : (st_exp (sdat m s) <? tm) = true) by (apply Z.ltb_lt; exact Ht).
  rewrite E, Hl. reflexivity.
Qed.

Lemma iter_no_successor_attr m s tm b :
  enabled m = true -> cur m = Some s -> ran (sdat m s) = true -> st_exp (sdat m s) < tm ->
  (lookup sh s = Some Untimed \/ lookup sh s = None) ->
  on_iteration m tm b = (m, [EvErr ErrAttr]).
Proof.
  intros He Hc Hr Ht Hl.
  unfold Model.on_iteration, iteration_gen, expire, expired_now.
  rewrite He, Hc, Hr. cbn.
  assert (E : (st_exp (sdat m s) <? tm) = true) by (apply Z.ltb_lt; exact Ht).
  rewrite E. destruct Hl as [-> | ->]; reflexivity.
Qed.


(* one view for all cases *)
Inductive iter_view (m : mach) (tm : Z) (b : ubody) : mach * list event -> Prop :=
| IV_not_enabled : enabled m = false -> iter_view m tm b (m, [EvErr ErrNotEnabled])
| IV_ended : enabled m = true -> cur m = None -> iter_view m tm b (m <| fin := true |>, [])
| IV_entered s : enabled m = true -> cur m = Some s -> ran (sdat m s) = false ->
    iter_view m tm b (then_call (bk m s tm) [] s tm 0 true b)
| IV_hold s : enabled m = true -> cur m = Some s -> ran (sdat m s) = true ->
    tm <= st_exp (sdat m s) ->
    iter_view m tm b (then_call m [] s tm (tm - st_start (sdat m s)) false b)
| IV_handover s dflt n : enabled m = true -> cur m = Some s -> ran (sdat m s) = true ->
    st_exp (sdat m s) < tm -> lookup sh s = Some (Timed dflt (Some n)) -> declared sh n = true ->
    iter_view m tm b (then_call (bk (ns m n) n (st_exp (sdat m s))) [EvEnter (Some n)] n tm
                                (tm - st_exp (sdat m s)) true b)
| IV_last s dflt : enabled m = true -> cur m = Some s -> ran (sdat m s) = true ->
    st_exp (sdat m s) < tm -> lookup sh s = Some (Timed dflt None) ->
    iter_view m tm b (done m <| fin := true |>, [EvEnter None])
| IV_unknown s dflt n : enabled m = true -> cur m = Some s -> ran (sdat m s) = true ->
    st_exp (sdat m s) < tm -> lookup sh s = Some (Timed dflt (Some n)) -> declared sh n = false ->
    iter_view m tm b (m, [EvErr ErrAttr])
| IV_noattr s : enabled m = true -> cur m = Some s -> ran (sdat m s) = true ->
    st_exp (sdat m s) < tm -> (lookup sh s = Some Untimed \/ lookup sh s = None) ->
    iter_view m tm b (m, [EvErr ErrAttr]).

Lemma iter_cases m tm b : iter_view m tm b (on_iteration m tm b).
Proof.
  destruct (enabled m) eqn:He.
  2:{ rewrite iter_not_enabled by exact He. constructor; exact He. }
  destruct (cur m) as [s|] eqn:Hc.
  2:{ rewrite iter_ended by assumption. constructor; assumption. }
  destruct (ran (sdat m s)) eqn:Hr.
  2:{ rewrite (iter_entered m s) by assumption. constructor; assumption. }
  destruct (Z_le_gt_dec tm (st_exp (sdat m s))) as [Hle|Hgt].
  { rewrite (iter_hold m s) by assumption. constructor; assumption. }
  assert (Hlt : st_exp (sdat m s) < tm) by lia.
  destruct (lookup sh s) as [[dflt [n|]|]|] eqn:Hl.
  - destruct (declared sh n) eqn:Hd.
    + rewrite (iter_handover m s tm b dflt n) by assumption. econstructor; eassumption.
    + rewrite (iter_handover_unknown m s tm b dflt n) by assumption.
      apply (IV_unknown m tm b s dflt n); assumption.
  - rewrite (iter_last m s tm b dflt) by assumption. econstructor; eassumption.
  - rewrite (iter_no_successor_attr m s) by auto. apply (IV_noattr m tm b s); auto.
  - rewrite (iter_no_successor_attr m s) by auto. apply (IV_noattr m tm b s); auto.
Qed.

Lemma status_intro_running m s :
  enabled m = true -> cur m = Some s -> ran (sdat m s) = true -> status_of m = Running s.
Proof. intros He Hc Hr. unfold status_of. rewrite He, Hc, Hr. reflexivity. Qed.
Lemma status_intro_entered m s :
  enabled m = true -> cur m = Some s -> ran (sdat m s) = false -> status_of m = Entered s.
Proof. intros He Hc Hr. unfold status_of. rewrite He, Hc, Hr. reflexivity. Qed.
Lemma status_intro_ended m : enabled m = true -> cur m = None -> status_of m = Ended.
Proof. intros He Hc. unfold status_of. rewrite He, Hc. reflexivity. Qed.
Lemma status_intro_notenabled m : enabled m = false -> status_of m = NotEnabled.
Proof. intros He. unfold status_of. rewrite He. reflexivity. Qed.

Lemma bk_status m s x : enabled m = true -> cur m = Some s -> status_of (bk m s x) = Running s.
Proof.
  intros He Hc. apply status_intro_running; cbn; try assumption. rewrite upd_same. reflexivity.
Qed.
Lemma bk_ns_status m n x : status_of (bk (ns m n) n x) = Running n.
Proof. apply bk_status; reflexivity. Qed.
Lemma bk_sdat m s x : sdat (bk m s x) s = {| ran := true; st_start := x; st_exp := x + duration_of m s |}.
Proof. cbn. apply upd_same. Qed.
Lemma duration_of_ext m m' s : (forall x, dur m' x = dur m x) -> duration_of m' s = duration_of m s.
Proof. intros H. unfold Model.duration_of. rewrite H. reflexivity. Qed.

Lemma calls_cons_call s tm stm i e : calls (EvCall s tm stm i :: e) = EvCall s tm stm i :: calls e.
Proof. reflexivity. Qed.

Lemma then_call_calls m2 pre s tm stm init b : calls pre = [] ->
  calls (snd (then_call m2 pre s tm stm init b)) = [EvCall s tm stm init].
Proof.
  intros H. unfold then_call. cbn [snd]. rewrite calls_app, H, calls_cons_call, run_actions_nocalls.
  reflexivity.
Qed.

Lemma then_call_status m2 pre s tm stm init b st : status_of m2 = Running s ->
  status_of (fst (then_call m2 pre s tm stm init b)) =
  fold_left status_ev (snd (then_call m2 pre s tm stm init b)) st.
Proof.
  intros H. unfold then_call. cbn [fst snd]. rewrite run_actions_status, fold_left_app, H.
  reflexivity.
Qed.

Lemma then_call_status_acts m2 pre s tm stm init b : status_of m2 = Running s ->
  status_of (fst (then_call m2 pre s tm stm init b)) = status_acts sh (b s tm stm init) (Running s).
Proof. intros H. unfold then_call. cbn [fst]. rewrite run_actions_status_acts, H. reflexivity. Qed.

Lemma then_call_dur m2 pre s tm stm init b : dur (fst (then_call m2 pre s tm stm init b)) = dur m2.
Proof. unfold then_call. cbn [fst]. apply run_actions_dur. Qed.

(* ------------------------------------------------------------------ *)
(* A. the observer's status is the machine's status                     *)

Lemma iter_status m tm b :
  status_of (fst (on_iteration m tm b)) =
  fold_left status_ev (snd (on_iteration m tm b)) (status_of m).
Proof.
  destruct (iter_cases m tm b).
  - reflexivity.
  - reflexivity.
  - apply then_call_status, bk_status; assumption.
  - apply then_call_status, status_intro_running; assumption.
  - apply then_call_status, bk_ns_status.
  - reflexivity.
  - reflexivity.
  - reflexivity.
Qed.

Lemma enable_status m d :
  status_of (fst (on_enable m d)) = fold_left status_ev (snd (on_enable m d)) (status_of m).
Proof.
  unfold Model.on_enable.
  destruct (next_state (read_dashboard sh m d) (sh_first sh)) as [m2|] eqn:E; cbn.
  - change (status_of (m2 <| fin := false |>)) with (status_of m2). exact (status_next _ _ _ E).
  - reflexivity.
Qed.

Lemma step_status m o :
  status_of (fst (step m o)) = fold_left status_ev (snd (step m o)) (status_of m).
Proof. destruct o; cbn [Model.step]; [apply enable_status|apply iter_status|reflexivity]. Qed.

Lemma run_status h : forall m,
  status_of (fst (run m h)) = fold_left status_ev (snd (run m h)) (status_of m).
Proof.
  induction h as [|o r IH]; intros m; [reflexivity|].
  rewrite run_cons. cbn [fst snd]. rewrite fold_left_app, IH, step_status. reflexivity.
Qed.

Theorem status_observable h : status_of (final sh h) = status_tr (trace sh h).
Proof. unfold final, trace, status_tr. rewrite run_status. reflexivity. Qed.

(* ------------------------------------------------------------------ *)
(* B. the durations in force are those read at the last on_enable       *)

Definition dur_untimed (m : mach) : Prop :=
  forall s, match lookup sh s with Some (Timed _ _) => True | _ => dur m s = None end.

Definition dur_ok (od : option (name -> option Z)) (m : mach) : Prop :=
  dur_untimed m /\
  match od with
  | None => enabled m = false
  | Some d => forall s, duration_of m s = period_duration sh d s
  end.

Lemma iter_dur m tm b : dur (fst (on_iteration m tm b)) = dur m.
Proof. destruct (iter_cases m tm b); try reflexivity; rewrite then_call_dur; reflexivity. Qed.

Lemma enable_dur m d : dur (fst (on_enable m d)) = dur (read_dashboard sh m d).
Proof.
  unfold Model.on_enable.
  destruct (next_state (read_dashboard sh m d) (sh_first sh)) as [m2|] eqn:E; cbn; [|reflexivity].
  exact (dur_next _ _ _ E).
Qed.

Lemma read_dashboard_ok m d : dur_untimed m -> dur_ok (Some d) (read_dashboard sh m d).
Proof.
  intros H. split.
  - intros s. specialize (H s). cbn. destruct (lookup sh s) as [[dflt nx|]|]; auto.
  - intros s. specialize (H s). unfold Model.duration_of, period_duration. cbn.
    destruct (lookup sh s) as [[dflt nx|]|]; [reflexivity| |]; rewrite H; reflexivity.
Qed.

Lemma dur_ok_ext od m m' : dur m' = dur m -> enabled m' = enabled m -> dur_ok od m -> dur_ok od m'.
Proof.
  intros Hd He [H1 H2]. split.
  - intros s. specialize (H1 s). rewrite Hd. exact H1.
  - destruct od as [d|]; [|congruence]. intros s. rewrite <- H2. unfold Model.duration_of.
    rewrite Hd. reflexivity.
Qed.

Definition od_next (od : option (name -> option Z)) (o : op) :=
  match o with OnEnable d => Some d | _ => od end.

Lemma step_dur_ok od m o : dur_ok od m -> dur_ok (od_next od o) (fst (step m o)).
Proof.
  intros H. destruct o as [d|tm b|]; cbn [Model.step od_next].
  - destruct H as [H _]. pose proof (read_dashboard_ok m d H) as [K1 K2]. split.
    + intros s. rewrite enable_dur. apply K1.
    + intros s. rewrite <- K2. unfold Model.duration_of. rewrite enable_dur. reflexivity.
  - destruct od as [d|].
    + destruct H as [H1 H2]. split.
      * intros s. rewrite iter_dur. apply H1.
      * intros s. rewrite <- H2. unfold Model.duration_of. rewrite iter_dur. reflexivity.
    + destruct H as [H1 H2]. rewrite iter_not_enabled by exact H2. split; assumption.
  - exact H.
Qed.

Lemma run_dur_ok h : forall od m, dur_ok od m -> dur_ok (last_dash h od) (fst (run m h)).
Proof.
  induction h as [|o r IH]; intros od m H; [exact H|].
  rewrite run_cons. cbn [fst].
  replace (last_dash (o :: r) od) with (last_dash r (od_next od o)) by (destruct o; reflexivity).
  apply IH, step_dur_ok, H.
Qed.

Lemma init_dur_ok : dur_ok None (init_mach sh).
Proof. split; [|reflexivity]. intros s. cbn. destruct (lookup sh s) as [[? ?|]|]; auto. Qed.

Theorem durations_from_last_enable h : dur_ok (last_dash h None) (final sh h).
Proof. apply run_dur_ok, init_dur_ok. Qed.

(* ------------------------------------------------------------------ *)
(* F. after the end nothing runs until the next on_enable               *)

Lemma after_end p : forall m, status_of m = Ended -> no_enable p ->
  calls (snd (run m p)) = [] /\ status_of (fst (run m p)) = Ended.
Proof.
  induction p as [|o r IH]; intros m Hs Hp; [split; [reflexivity|exact Hs]|].
  inversion Hp as [|? ? Ho Hr]; subst. rewrite run_cons. cbn [fst snd].
  destruct (status_ended_inv _ Hs) as [He Hc].
  destruct o as [d|tm b|]; [contradiction| |]; cbn [Model.step].
  - rewrite iter_ended by assumption. cbn [fst snd app]. apply IH; [|exact Hr].
    apply status_intro_ended; assumption.
  - cbn [fst snd app]. apply IH; assumption.
Qed.

(* ------------------------------------------------------------------ *)
(* E. initial_call discipline                                           *)

Lemma then_call_discipline m2 pre s tm stm init b st :
  init_discipline st pre ->
  (fold_left status_ev pre st = Entered s /\ init = true \/
   fold_left status_ev pre st = Running s /\ init = false) ->
  init_discipline st (snd (then_call m2 pre s tm stm init b)).
Proof.
  intros Hp Hc. unfold then_call. cbn [snd]. apply init_discipline_app. split; [exact Hp|].
  cbn [init_discipline]. split; [exact Hc|]. apply init_discipline_nocalls, run_actions_nocalls.
Qed.

Lemma iter_discipline m tm b : init_discipline (status_of m) (snd (on_iteration m tm b)).
Proof.
  destruct (iter_cases m tm b).
  - cbn. auto.
  - exact I.
  - apply then_call_discipline; [exact I|]. left. split; [|reflexivity].
    apply status_intro_entered; assumption.
  - apply then_call_discipline; [exact I|]. right. split; [|reflexivity].
    apply status_intro_running; assumption.
  - apply then_call_discipline; [cbn; auto|]. left. split; reflexivity.
  - cbn. auto.
  - cbn. auto.
  - cbn. auto.
Qed.

Lemma step_discipline m o : init_discipline (status_of m) (snd (step m o)).
Proof.
  destruct o as [d|tm b|]; cbn [Model.step]; [|apply iter_discipline|exact I].
  apply init_discipline_nocalls. unfold Model.on_enable.
  destruct (next_state (read_dashboard sh m d) (sh_first sh)); reflexivity.
Qed.

Lemma run_discipline h : forall m, init_discipline (status_of m) (snd (run m h)).
Proof.
  induction h as [|o r IH]; intros m; [exact I|].
  rewrite run_cons. cbn [snd]. apply init_discipline_app. split; [apply step_discipline|].
  rewrite <- step_status. apply IH.
Qed.

Theorem initial_call_discipline h : init_discipline NotEnabled (trace sh h).
Proof. exact (run_discipline h (init_mach sh)). Qed.

(* ------------------------------------------------------------------ *)
(* G. simulation: what the future depends on                            *)

Definition sd_equiv (a b : sdata) : Prop :=
  ran a = ran b /\ (ran a = true -> st_start a = st_start b /\ st_exp a = st_exp b).

Definition same_future (m1 m2 : mach) : Prop :=
  enabled m1 = enabled m2 /\ cur m1 = cur m2 /\
  (forall s, duration_of m1 s = duration_of m2 s) /\
  (forall s, cur m1 = Some s -> sd_equiv (sdat m1 s) (sdat m2 s)).

Lemma same_future_ns m1 m2 n : (forall s, duration_of m1 s = duration_of m2 s) ->
  same_future (ns m1 n) (ns m2 n).
Proof.
  intros Hd. repeat split; try reflexivity; try exact Hd; cbn in *.
  - injection H as <-. rewrite !upd_same. reflexivity.
  - injection H as <-. rewrite upd_same in H0. discriminate.
  - injection H as <-. rewrite upd_same in H0. discriminate.
Qed.

Lemma same_future_done m1 m2 : (forall s, duration_of m1 s = duration_of m2 s) ->
  same_future (done m1) (done m2).
Proof. intros Hd. repeat split; try reflexivity; try exact Hd; cbn in *; discriminate. Qed.

Lemma same_future_bk m1 m2 s x : same_future m1 m2 -> cur m1 = Some s ->
  same_future (bk m1 s x) (bk m2 s x).
Proof.
  intros (He & Hc & Hd & Hs) Hcs. unfold same_future. cbn. repeat split; try assumption.
  - rewrite Hcs in H. injection H as <-. rewrite !upd_same. reflexivity.
  - rewrite Hcs in H. injection H as <-. rewrite !upd_same. reflexivity.
  - rewrite Hcs in H. injection H as <-. rewrite !upd_same. cbn.
    f_equal. apply Hd.
Qed.

Lemma same_future_fin m1 m2 v : same_future m1 m2 -> same_future (m1 <| fin := v |>) (m2 <| fin := v |>).
Proof. intros H. exact H. Qed.

Lemma run_actions_same acts : forall m1 m2, same_future m1 m2 ->
  snd (run_actions acts m1) = snd (run_actions acts m2) /\
  same_future (fst (run_actions acts m1)) (fst (run_actions acts m2)).
Proof.
  induction acts as [|a r IH]; intros m1 m2 H; cbn [Model.run_actions]; [split; [reflexivity|exact H]|].
  assert (Hd : forall s, duration_of m1 s = duration_of m2 s) by apply H.
  destruct a as [n|].
  - unfold Model.next_state. destruct (declared sh n); [|split; [reflexivity|exact H]].
    fold (ns m1 n). fold (ns m2 n).
    specialize (IH (ns m1 n) (ns m2 n) (same_future_ns m1 m2 n Hd)).
    destruct (run_actions r (ns m1 n)) as [a1 e1]. destruct (run_actions r (ns m2 n)) as [a2 e2].
    cbn in *. destruct IH as [-> K]. split; [reflexivity|exact K].
  - specialize (IH (done m1) (done m2) (same_future_done m1 m2 Hd)).
    destruct (run_actions r (done m1)) as [a1 e1]. destruct (run_actions r (done m2)) as [a2 e2].
    cbn in *. destruct IH as [-> K]. split; [reflexivity|exact K].
Qed.

Lemma then_call_same m1 m2 pre s tm stm init b : same_future m1 m2 ->
  snd (then_call m1 pre s tm stm init b) = snd (then_call m2 pre s tm stm init b) /\
  same_future (fst (then_call m1 pre s tm stm init b)) (fst (then_call m2 pre s tm stm init b)).
Proof.
  intros H. unfold then_call. cbn [fst snd].
  destruct (run_actions_same (b s tm stm init) m1 m2 H) as [-> K]. split; [reflexivity|exact K].
Qed.

Lemma iter_same m1 m2 tm b : same_future m1 m2 ->
  snd (on_iteration m1 tm b) = snd (on_iteration m2 tm b) /\
  same_future (fst (on_iteration m1 tm b)) (fst (on_iteration m2 tm b)).
Proof.
  intros H. pose proof H as (He & Hc & Hd & Hs).
  destruct (iter_cases m1 tm b) as [E|E C|s E C R|s E C R T|s dflt n E C R T L D|s dflt E C R T L
                                   |s dflt n E C R T L D|s E C R T L].
  - rewrite (iter_not_enabled m2) by congruence. split; [reflexivity|exact H].
  - rewrite (iter_ended m2) by congruence. split; [reflexivity|exact H].
  - destruct (Hs s C) as [Hr _].
    rewrite (iter_entered m2 s) by congruence.
    apply then_call_same, same_future_bk; assumption.
  - destruct (Hs s C) as [Hr Hv]. destruct (Hv R) as [Hst Hex].
    rewrite (iter_hold m2 s) by congruence. rewrite Hst. apply then_call_same, H.
  - destruct (Hs s C) as [Hr Hv]. destruct (Hv R) as [Hst Hex].
    rewrite (iter_handover m2 s tm b dflt n) by congruence. rewrite Hex.
    apply then_call_same, same_future_bk; [apply same_future_ns; exact Hd|reflexivity].
  - destruct (Hs s C) as [Hr Hv]. destruct (Hv R) as [Hst Hex].
    rewrite (iter_last m2 s tm b dflt) by congruence. split; [reflexivity|].
    apply same_future_fin, same_future_done, Hd.
  - destruct (Hs s C) as [Hr Hv]. destruct (Hv R) as [Hst Hex].
    rewrite (iter_handover_unknown m2 s tm b dflt n) by congruence. split; [reflexivity|exact H].
  - destruct (Hs s C) as [Hr Hv]. destruct (Hv R) as [Hst Hex].
    rewrite (iter_no_successor_attr m2 s) by congruence. split; [reflexivity|exact H].
Qed.


Lemma same_future_refl m : same_future m m.
Proof. repeat split; reflexivity. Qed.

Section WithFirst.
(* the constructor guarantees it: __first is the name of a state found by dir(cls) *)
Hypothesis Hfirst : declared sh (sh_first sh) = true.

Lemma enable_ok m d :
  on_enable m d = (ns (read_dashboard sh m d) (sh_first sh) <| fin := false |>,
                   [EvEnter (Some (sh_first sh))]).
Proof. unfold Model.on_enable. rewrite (next_state_declared _ _ Hfirst). reflexivity. Qed.

Lemma enable_entered m d : status_of (fst (on_enable m d)) = Entered (sh_first sh).
Proof.
  rewrite enable_ok. cbn [fst]. apply status_intro_entered; cbn; try reflexivity.
  rewrite upd_same. reflexivity.
Qed.

Lemma enable_same m1 m2 d : dur_untimed m1 -> dur_untimed m2 ->
  snd (on_enable m1 d) = snd (on_enable m2 d) /\
  same_future (fst (on_enable m1 d)) (fst (on_enable m2 d)).
Proof.
  intros U1 U2. rewrite !enable_ok. cbn [fst snd]. split; [reflexivity|].
  apply same_future_fin, same_future_ns. intros s. unfold Model.duration_of. cbn.
  specialize (U1 s). specialize (U2 s).
  destruct (lookup sh s) as [[? ?|]|]; [reflexivity| |]; rewrite U1, U2; reflexivity.
Qed.

Lemma step_same m1 m2 o : same_future m1 m2 -> dur_untimed m1 -> dur_untimed m2 ->
  snd (step m1 o) = snd (step m2 o) /\ same_future (fst (step m1 o)) (fst (step m2 o)).
Proof.
  intros H U1 U2. destruct o as [d|tm b|]; cbn [Model.step].
  - apply enable_same; assumption.
  - apply iter_same, H.
  - split; [reflexivity|exact H].
Qed.

Lemma step_dur_untimed m o : dur_untimed m -> dur_untimed (fst (step m o)).
Proof.
  intros U. destruct o as [d|tm b|]; cbn [Model.step].
  - intros s. rewrite enable_dur. apply (read_dashboard_ok m d U).
  - intros s. rewrite iter_dur. apply U.
  - exact U.
Qed.

Lemma run_same h : forall m1 m2, same_future m1 m2 -> dur_untimed m1 -> dur_untimed m2 ->
  snd (run m1 h) = snd (run m2 h).
Proof.
  induction h as [|o r IH]; intros m1 m2 H U1 U2; [reflexivity|].
  rewrite !run_cons. cbn [snd]. destruct (step_same m1 m2 o H U1 U2) as [-> K].
  f_equal. apply IH; [exact K| |]; apply step_dur_untimed; assumption.
Qed.

(* the trace of a period does not depend on what happened before it *)
Theorem period_independent h d p :
  trace_from sh (final sh h) (OnEnable d :: p) = trace sh (OnEnable d :: p).
Proof.
  unfold trace_from, trace. rewrite !run_cons. cbn [snd Model.step].
  pose proof (durations_from_last_enable h) as [U1 _].
  pose proof init_dur_ok as [U2 _].
  destruct (enable_same (final sh h) (init_mach sh) d U1 U2) as [-> K]. f_equal.
  apply run_same; [exact K| |].
  - apply (step_dur_untimed _ (OnEnable d)), U1.
  - apply (step_dur_untimed _ (OnEnable d)), U2.
Qed.

Corollary period_independent_trace h d p :
  trace sh (h ++ OnEnable d :: p) = trace sh h ++ trace sh (OnEnable d :: p).
Proof. rewrite trace_app, period_independent. reflexivity. Qed.

(* ------------------------------------------------------------------ *)
(* C. a running state's clock, as an observer knows it                  *)

Definition clock_ok (tr : list event) (m : mach) : Prop :=
  forall s, status_of m = Running s ->
    last_call_start tr None = Some (s, st_start (sdat m s)) /\
    st_exp (sdat m s) = st_start (sdat m s) + duration_of m s.

Lemma then_call_clock tr m2 pre s tm stm init b :
  status_of m2 = Running s -> calls pre = [] ->
  st_start (sdat m2 s) = tm - stm ->
  st_exp (sdat m2 s) = st_start (sdat m2 s) + duration_of m2 s ->
  clock_ok (tr ++ snd (then_call m2 pre s tm stm init b)) (fst (then_call m2 pre s tm stm init b)).
Proof.
  intros Hs Hp Hst Hex s' Hs'. unfold then_call in *. cbn [fst snd] in *.
  pose proof (run_actions_running _ _ _ Hs') as Eq. rewrite Eq in Hs' |- *.
  rewrite Hs in Hs'. injection Hs' as <-.
  split; [|exact Hex].
  rewrite !last_call_start_app. rewrite (last_call_start_nocalls pre) by exact Hp.
  cbn [last_call_start]. rewrite last_call_start_nocalls by apply run_actions_nocalls.
  rewrite Hst. reflexivity.
Qed.

Lemma clock_ok_err tr m e : clock_ok tr m -> clock_ok (tr ++ [EvErr e]) m.
Proof. intros H s Hs. rewrite last_call_start_app. cbn. apply H, Hs. Qed.

Lemma iter_clock tr m tm b : clock_ok tr m ->
  clock_ok (tr ++ snd (on_iteration m tm b)) (fst (on_iteration m tm b)).
Proof.
  intros H.
  destruct (iter_cases m tm b) as [E|E C|s E C R|s E C R T|s dflt n E C R T L D|s dflt E C R T L
                                  |s dflt n E C R T L D|s E C R T L].
  - apply clock_ok_err, H.
  - intros s Hs. cbn [fst] in Hs.
    assert (K : status_of (m <| fin := true |>) = Ended) by (apply status_intro_ended; assumption).
    rewrite K in Hs. discriminate.
  - apply then_call_clock.
    + apply bk_status; assumption.
    + reflexivity.
    + rewrite bk_sdat. cbn. lia.
    + rewrite bk_sdat. cbn. f_equal.
  - destruct (H s (status_intro_running m s E C R)) as [_ Hex].
    apply then_call_clock; [apply status_intro_running; assumption|reflexivity|lia|exact Hex].
  - apply then_call_clock.
    + apply bk_ns_status.
    + reflexivity.
    + rewrite bk_sdat. cbn. lia.
    + rewrite bk_sdat. cbn. f_equal.
  - intros s' Hs'. discriminate.
  - apply clock_ok_err, H.
  - apply clock_ok_err, H.
Qed.

Lemma step_clock tr m o : clock_ok tr m -> clock_ok (tr ++ snd (step m o)) (fst (step m o)).
Proof.
  intros H. destruct o as [d|tm b|]; cbn [Model.step].
  - intros s Hs. rewrite enable_entered in Hs. discriminate.
  - apply iter_clock, H.
  - cbn. rewrite app_nil_r. exact H.
Qed.

Lemma run_clock h : forall tr m, clock_ok tr m -> clock_ok (tr ++ snd (run m h)) (fst (run m h)).
Proof.
  induction h as [|o r IH]; intros tr m H.
  - cbn. rewrite app_nil_r. exact H.
  - rewrite run_cons. cbn [fst snd]. rewrite app_assoc. apply IH, step_clock, H.
Qed.

Theorem clock_observable h : clock_ok (trace sh h) (final sh h).
Proof.
  apply (run_clock h [] (init_mach sh)). intros s Hs. discriminate.
Qed.

(* ------------------------------------------------------------------ *)
(* D. state_tm is never negative                                        *)

Definition bounded (lo : option Z) (m : mach) : Prop :=
  forall s, status_of m = Running s -> exists l, lo = Some l /\ st_start (sdat m s) <= l.

Lemma nocalls_nonneg e : calls e = [] -> Forall nonneg_ev e.
Proof.
  induction e as [|x e IH]; intros H; constructor.
  - destruct x; cbn in *; try exact I. discriminate.
  - apply IH. destruct x; cbn in *; try exact H. discriminate.
Qed.

Lemma then_call_nonneg m2 pre s tm stm init b :
  status_of m2 = Running s -> calls pre = [] -> 0 <= stm -> st_start (sdat m2 s) <= tm ->
  Forall nonneg_ev (snd (then_call m2 pre s tm stm init b)) /\
  bounded (Some tm) (fst (then_call m2 pre s tm stm init b)).
Proof.
  intros Hs Hp Hn Hb. unfold then_call. cbn [fst snd]. split.
  - apply Forall_app. split; [apply nocalls_nonneg, Hp|]. constructor; [exact Hn|].
    apply nocalls_nonneg, run_actions_nocalls.
  - intros s' Hs'. pose proof (run_actions_running _ _ _ Hs') as Eq. rewrite Eq in Hs' |- *.
    rewrite Hs in Hs'. injection Hs' as <-. exists tm. split; [reflexivity|exact Hb].
Qed.

Lemma iter_nonneg lo m tm b : bounded lo m ->
  match lo with Some l => l <= tm | None => True end ->
  Forall nonneg_ev (snd (on_iteration m tm b)) /\ bounded (Some tm) (fst (on_iteration m tm b)).
Proof.
  intros H Hlo.
  destruct (iter_cases m tm b) as [E|E C|s E C R|s E C R T|s dflt n E C R T L D|s dflt E C R T L
                                  |s dflt n E C R T L D|s E C R T L].
  - split; [repeat constructor|]. intros s Hs. cbn [fst] in Hs.
    rewrite (status_intro_notenabled m E) in Hs. discriminate.
  - split; [constructor|]. intros s Hs. cbn [fst] in Hs.
    assert (K : status_of (m <| fin := true |>) = Ended) by (apply status_intro_ended; assumption).
    rewrite K in Hs. discriminate.
  - apply then_call_nonneg; [apply bk_status; assumption|reflexivity|lia|].
    rewrite bk_sdat. cbn. lia.
  - destruct (H s (status_intro_running m s E C R)) as (l & -> & Hl).
    apply then_call_nonneg; [apply status_intro_running; assumption|reflexivity|lia|lia].
  - apply then_call_nonneg; [apply bk_ns_status|reflexivity|lia|].
    rewrite bk_sdat. cbn. lia.
  - split; [repeat constructor|]. intros s' Hs'. discriminate.
  - split; [repeat constructor|]. intros s' Hs'.
    destruct (H s' Hs') as (l & -> & Hl). exists tm. cbn [fst]. split; [reflexivity|lia].
  - split; [repeat constructor|]. intros s' Hs'.
    destruct (H s' Hs') as (l & -> & Hl). exists tm. cbn [fst]. split; [reflexivity|lia].
Qed.

Lemma run_nonneg h : forall lo m, bounded lo m -> mono lo h -> Forall nonneg_ev (snd (run m h)).
Proof.
  induction h as [|o r IH]; intros lo m H Hm; [constructor|].
  rewrite run_cons. cbn [snd]. apply Forall_app.
  destruct o as [d|tm b|]; cbn [Model.step mono] in *.
  - split.
    + rewrite enable_ok. repeat constructor.
    + apply (IH None); [|exact Hm]. intros s Hs. rewrite enable_entered in Hs. discriminate.
  - destruct Hm as [Hlo Hm]. destruct (iter_nonneg lo m tm b H Hlo) as [K1 K2].
    split; [exact K1|]. apply (IH (Some tm)); assumption.
  - split; [constructor|]. apply (IH lo); assumption.
Qed.

Theorem state_tm_nonneg h : mono None h -> Forall nonneg_ev (trace sh h).
Proof.
  intros Hm. apply (run_nonneg h None (init_mach sh)); [|exact Hm]. intros s Hs. discriminate.
Qed.


(* ------------------------------------------------------------------ *)
(* H. the clauses of the property, machine level                        *)

Lemma iter_shape m tm b :
  calls (snd (on_iteration m tm b)) = [] \/
  exists m2 pre s stm init,
    on_iteration m tm b = then_call m2 pre s tm stm init b /\
    status_of m2 = Running s /\ calls pre = [].
Proof.
  destruct (iter_cases m tm b) as [E|E C|s E C R|s E C R T|s dflt n E C R T L D|s dflt E C R T L
                                  |s dflt n E C R T L D|s E C R T L];
    try (left; reflexivity); right.
  - exists (bk m s tm), [], s, 0, true. repeat split. apply bk_status; assumption.
  - exists m, [], s, (tm - st_start (sdat m s)), false. repeat split.
    apply status_intro_running; assumption.
  - exists (bk (ns m n) n (st_exp (sdat m s))), [EvEnter (Some n)], n, (tm - st_exp (sdat m s)), true.
    repeat split. apply bk_ns_status.
Qed.

Lemma m_entered_runs m s tm b : status_of m = Entered s ->
  calls (snd (on_iteration m tm b)) = [EvCall s tm 0 true] /\
  status_of (fst (on_iteration m tm b)) = status_acts sh (b s tm 0 true) (Running s).
Proof.
  intros H. destruct (status_entered_inv _ _ H) as (E & C & R).
  rewrite (iter_entered m s) by assumption. split.
  - apply then_call_calls. reflexivity.
  - apply then_call_status_acts, bk_status; assumption.
Qed.

Lemma m_holds m s tm b : status_of m = Running s -> tm <= st_exp (sdat m s) ->
  calls (snd (on_iteration m tm b)) = [EvCall s tm (tm - st_start (sdat m s)) false] /\
  status_of (fst (on_iteration m tm b)) =
    status_acts sh (b s tm (tm - st_start (sdat m s)) false) (Running s).
Proof.
  intros H T. destruct (status_running_inv _ _ H) as (E & C & R).
  rewrite (iter_hold m s) by assumption. split.
  - apply then_call_calls. reflexivity.
  - apply then_call_status_acts, H.
Qed.

Lemma m_hands_over m s tm b dflt n : status_of m = Running s -> st_exp (sdat m s) < tm ->
  lookup sh s = Some (Timed dflt (Some n)) -> declared sh n = true ->
  exists rest,
    snd (on_iteration m tm b) =
      EvEnter (Some n) :: EvCall n tm (tm - st_exp (sdat m s)) true :: rest /\
    calls rest = [] /\
    status_of (fst (on_iteration m tm b)) =
      status_acts sh (b n tm (tm - st_exp (sdat m s)) true) (Running n).
Proof.
  intros H T L D. destruct (status_running_inv _ _ H) as (E & C & R).
  rewrite (iter_handover m s tm b dflt n) by assumption.
  eexists. split; [reflexivity|]. split; [apply run_actions_nocalls|].
  apply then_call_status_acts, bk_ns_status.
Qed.

Lemma m_last_expires m s tm b dflt : status_of m = Running s -> st_exp (sdat m s) < tm ->
  lookup sh s = Some (Timed dflt None) ->
  snd (on_iteration m tm b) = [EvEnter None] /\ status_of (fst (on_iteration m tm b)) = Ended.
Proof.
  intros H T L. destruct (status_running_inv _ _ H) as (E & C & R).
  rewrite (iter_last m s tm b dflt) by assumption. split; reflexivity.
Qed.

Lemma m_untimed_overflow m s tm b : status_of m = Running s -> st_exp (sdat m s) < tm ->
  lookup sh s = Some Untimed ->
  on_iteration m tm b = (m, [EvErr ErrAttr]).
Proof.
  intros H T L. destruct (status_running_inv _ _ H) as (E & C & R).
  apply (iter_no_successor_attr m s); auto.
Qed.

Lemma status_acts_snoc_next acts n : forall st, valid_acts sh acts = true -> declared sh n = true ->
  status_acts sh (acts ++ [ANext n]) st = Entered n.
Proof.
  induction acts as [|a r IH]; intros st V D; cbn.
  - rewrite D. reflexivity.
  - cbn in V. apply andb_true_iff in V. destruct V as [V1 V2].
    destruct a as [x|]; [rewrite V1|]; apply IH; assumption.
Qed.

Lemma status_acts_snoc_done acts : forall st, valid_acts sh acts = true ->
  status_acts sh (acts ++ [ADone]) st = Ended.
Proof.
  induction acts as [|a r IH]; intros st V; cbn; [reflexivity|].
  cbn in V. apply andb_true_iff in V. destruct V as [V1 V2].
  destruct a as [x|]; [rewrite V1|]; apply IH; assumption.
Qed.

(* ------------------------------------------------------------------ *)
(* I. the same clauses over histories, in terms of observables only      *)

Lemma final_snoc h o : final sh (h ++ [o]) = fst (step (final sh h) o).
Proof. rewrite final_app, run_single. reflexivity. Qed.

Lemma trace_snoc h o : trace sh (h ++ [o]) = trace sh h ++ snd (step (final sh h) o).
Proof. rewrite trace_app. unfold trace_from. rewrite run_single. reflexivity. Qed.

Lemma trace_snoc_iter h tm b :
  trace sh (h ++ [OnIteration tm b]) = trace sh h ++ iter_after sh h tm b.
Proof. apply trace_snoc. Qed.

Lemma status_after_iter h tm b :
  status_tr (trace sh (h ++ [OnIteration tm b])) = status_of (fst (on_iteration (final sh h) tm b)).
Proof. rewrite <- status_observable, final_snoc. reflexivity. Qed.

Theorem first_runs h d tm b :
  calls (iter_after sh (h ++ [OnEnable d]) tm b) = [EvCall (sh_first sh) tm 0 true].
Proof.
  unfold iter_after. rewrite final_snoc. cbn [Model.step].
  apply m_entered_runs, enable_entered.
Qed.

Theorem enable_enters_first h d :
  status_tr (trace sh (h ++ [OnEnable d])) = Entered (sh_first sh).
Proof. rewrite <- status_observable, final_snoc. apply enable_entered. Qed.

Theorem entered_runs h s tm b : status_tr (trace sh h) = Entered s ->
  calls (iter_after sh h tm b) = [EvCall s tm 0 true] /\
  status_tr (trace sh (h ++ [OnIteration tm b])) = status_acts sh (b s tm 0 true) (Running s).
Proof.
  intros H. rewrite <- status_observable in H. rewrite status_after_iter.
  apply m_entered_runs, H.
Qed.

(* the expiry instant of the running state, from observables: start of its
   most recent call's clock plus the duration read at the last on_enable *)
Lemma expiry_observable h s st0 d : status_tr (trace sh h) = Running s ->
  last_call_start (trace sh h) None = Some (s, st0) -> last_dash h None = Some d ->
  st_start (sdat (final sh h) s) = st0 /\
  st_exp (sdat (final sh h) s) = st0 + period_duration sh d s.
Proof.
  intros H L D. rewrite <- status_observable in H.
  destruct (clock_observable h s H) as [K1 K2]. rewrite L in K1. injection K1 as K1.
  pose proof (durations_from_last_enable h) as [_ K3]. rewrite D in K3.
  split; [congruence|]. rewrite K2, K3. congruence.
Qed.

Theorem running_has_clock h s : status_tr (trace sh h) = Running s ->
  exists st0 d, last_call_start (trace sh h) None = Some (s, st0) /\ last_dash h None = Some d.
Proof.
  intros H. rewrite <- status_observable in H.
  destruct (clock_observable h s H) as [K1 _].
  pose proof (durations_from_last_enable h) as [_ K3].
  destruct (last_dash h None) as [d|].
  - eauto.
  - destruct (status_running_inv _ _ H) as (E & _). congruence.
Qed.

Theorem holds_until_expiry h s st0 d tm b : status_tr (trace sh h) = Running s ->
  last_call_start (trace sh h) None = Some (s, st0) -> last_dash h None = Some d ->
  tm <= st0 + period_duration sh d s ->
  calls (iter_after sh h tm b) = [EvCall s tm (tm - st0) false] /\
  status_tr (trace sh (h ++ [OnIteration tm b])) =
    status_acts sh (b s tm (tm - st0) false) (Running s).
Proof.
  intros H L D T. destruct (expiry_observable h s st0 d H L D) as [K1 K2].
  rewrite <- status_observable in H. rewrite status_after_iter. unfold iter_after.
  rewrite <- K1. apply m_holds; [exact H|]. rewrite K2. exact T.
Qed.

Theorem hands_over_at_expiry h s st0 d tm b dflt n : status_tr (trace sh h) = Running s ->
  last_call_start (trace sh h) None = Some (s, st0) -> last_dash h None = Some d ->
  st0 + period_duration sh d s < tm ->
  lookup sh s = Some (Timed dflt (Some n)) -> declared sh n = true ->
  let expiry := st0 + period_duration sh d s in
  exists rest,
    iter_after sh h tm b = EvEnter (Some n) :: EvCall n tm (tm - expiry) true :: rest /\
    calls rest = [] /\
    status_tr (trace sh (h ++ [OnIteration tm b])) =
      status_acts sh (b n tm (tm - expiry) true) (Running n).
Proof.
  intros H L D T Hl Hd expiry. destruct (expiry_observable h s st0 d H L D) as [K1 K2].
  rewrite <- status_observable in H. rewrite status_after_iter. unfold iter_after, expiry.
  rewrite <- K2. apply (m_hands_over _ s tm b dflt n); try assumption. rewrite K2. exact T.
Qed.

(* ... and the successor's own clock: its expiry is the predecessor's expiry
   plus its own duration (no drift), whatever tm was *)
Theorem successor_clock h s st0 d tm b dflt n : status_tr (trace sh h) = Running s ->
  last_call_start (trace sh h) None = Some (s, st0) -> last_dash h None = Some d ->
  st0 + period_duration sh d s < tm ->
  lookup sh s = Some (Timed dflt (Some n)) -> declared sh n = true ->
  last_call_start (trace sh (h ++ [OnIteration tm b])) None = Some (n, st0 + period_duration sh d s)
  /\ last_dash (h ++ [OnIteration tm b]) None = Some d.
Proof.
  intros H L D T Hl Hd.
  destruct (hands_over_at_expiry h s st0 d tm b dflt n H L D T Hl Hd) as (rest & E & N & _).
  split.
  - rewrite trace_snoc_iter, last_call_start_app, E. cbn [last_call_start].
    rewrite last_call_start_nocalls by exact N. f_equal. f_equal. lia.
  - rewrite last_dash_app. cbn. exact D.
Qed.

Theorem after_end_nothing h p : status_tr (trace sh h) = Ended -> no_enable p ->
  calls (trace_from sh (final sh h) p) = [] /\ status_tr (trace sh (h ++ p)) = Ended.
Proof.
  intros H Hp. rewrite <- status_observable in H.
  destruct (after_end p (final sh h) H Hp) as [K1 K2]. split; [exact K1|].
  rewrite <- status_observable, final_app. exact K2.
Qed.

Theorem last_state_expires h s st0 d tm b dflt : status_tr (trace sh h) = Running s ->
  last_call_start (trace sh h) None = Some (s, st0) -> last_dash h None = Some d ->
  st0 + period_duration sh d s < tm -> lookup sh s = Some (Timed dflt None) ->
  iter_after sh h tm b = [EvEnter None] /\
  status_tr (trace sh (h ++ [OnIteration tm b])) = Ended.
Proof.
  intros H L D T Hl. destruct (expiry_observable h s st0 d H L D) as [K1 K2].
  rewrite <- status_observable in H. rewrite status_after_iter. unfold iter_after.
  apply (m_last_expires _ s tm b dflt); try assumption. rewrite K2. exact T.
Qed.

Theorem untimed_overflow h s st0 d tm b : status_tr (trace sh h) = Running s ->
  last_call_start (trace sh h) None = Some (s, st0) -> last_dash h None = Some d ->
  st0 + sh_inf sh < tm -> lookup sh s = Some Untimed ->
  iter_after sh h tm b = [EvErr ErrAttr].
Proof.
  intros H L D T Hl. destruct (expiry_observable h s st0 d H L D) as [K1 K2].
  rewrite <- status_observable in H. unfold iter_after.
  rewrite (m_untimed_overflow _ s tm b H); [reflexivity| |exact Hl].
  rewrite K2. unfold period_duration. rewrite Hl. exact T.
Qed.

Theorem at_most_one_call h tm b : (length (calls (iter_after sh h tm b)) <= 1)%nat.
Proof.
  unfold iter_after. destruct (iter_shape (final sh h) tm b) as [->|(m2 & pre & s & stm & init & -> & Hs & Hp)].
  - cbn. lia.
  - rewrite then_call_calls by exact Hp. cbn. lia.
Qed.

Theorem actions_decide_status h tm b s tm' stm init :
  calls (iter_after sh h tm b) = [EvCall s tm' stm init] ->
  tm' = tm /\
  status_tr (trace sh (h ++ [OnIteration tm b])) = status_acts sh (b s tm stm init) (Running s).
Proof.
  rewrite status_after_iter. unfold iter_after.
  destruct (iter_shape (final sh h) tm b) as [->|(m2 & pre & s0 & stm0 & init0 & -> & Hs & Hp)].
  - discriminate.
  - rewrite then_call_calls by exact Hp. intros [= -> -> -> ->]. split; [reflexivity|].
    apply then_call_status_acts, Hs.
Qed.

Theorem next_state_next_iteration h tm b s stm init acts n :
  calls (iter_after sh h tm b) = [EvCall s tm stm init] ->
  b s tm stm init = acts ++ [ANext n] -> valid_acts sh acts = true -> declared sh n = true ->
  forall tm2 b2,
    calls (iter_after sh (h ++ [OnIteration tm b]) tm2 b2) = [EvCall n tm2 0 true].
Proof.
  intros Hc Hb V D tm2 b2. destruct (actions_decide_status h tm b s tm stm init Hc) as [_ K].
  rewrite Hb, (status_acts_snoc_next acts n _ V D) in K.
  apply (entered_runs _ n tm2 b2 K).
Qed.

Theorem done_next_iteration h tm b s stm init acts :
  calls (iter_after sh h tm b) = [EvCall s tm stm init] ->
  b s tm stm init = acts ++ [ADone] -> valid_acts sh acts = true ->
  forall p, no_enable p -> calls (trace_from sh (final sh (h ++ [OnIteration tm b])) p) = [].
Proof.
  intros Hc Hb V p Hp. destruct (actions_decide_status h tm b s tm stm init Hc) as [_ K].
  rewrite Hb, (status_acts_snoc_done acts _ V) in K.
  apply (after_end_nothing _ p K Hp).
Qed.

(* re-entry: once a state is entered, the future depends on the durations in
   force only -- not on how or how often the state (or any other) ran before *)
Theorem reentry_independent h1 h2 s p :
  status_tr (trace sh h1) = Entered s -> status_tr (trace sh h2) = Entered s ->
  (forall x, duration_of (final sh h1) x = duration_of (final sh h2) x) ->
  trace_from sh (final sh h1) p = trace_from sh (final sh h2) p.
Proof.
  intros H1 H2 Hd. rewrite <- status_observable in H1, H2.
  destruct (status_entered_inv _ _ H1) as (E1 & C1 & R1).
  destruct (status_entered_inv _ _ H2) as (E2 & C2 & R2).
  pose proof (durations_from_last_enable h1) as [U1 _].
  pose proof (durations_from_last_enable h2) as [U2 _].
  apply run_same; try assumption.
  repeat split; try congruence.
Qed.

End WithFirst.

End P.

(* ------------------------------------------------------------------ *)
(* The mode class: __build_states finds exactly the states of the class *)

Lemma assoc_some_in {A} (c : list (name * A)) n a : assoc c n = Some a -> In n (map fst c).
Proof.
  unfold assoc. induction c as [|[k v] c IH]; cbn; [discriminate|].
  destruct (Nat.eqb k n) eqn:E; [apply Nat.eqb_eq in E; auto|auto].
Qed.

Lemma assoc_none_notin {A} (c : list (name * A)) n : assoc c n = None -> ~ In n (map fst c).
Proof.
  unfold assoc. induction c as [|[k v] c IH]; cbn; [tauto|].
  destruct (Nat.eqb k n) eqn:E; [discriminate|].
  apply Nat.eqb_neq in E. intros H [H1|H1]; [congruence|exact (IH H H1)].
Qed.

Lemma class_getattr_dir m n : In n (class_dir m) <-> class_getattr m n <> None.
Proof.
  unfold class_dir. rewrite nodup_In. induction m as [|c r IH]; cbn.
  - tauto.
  - rewrite in_app_iff. destruct (assoc c n) eqn:E.
    + split; [discriminate|]. intros _. left. eapply assoc_some_in; eauto.
    + rewrite <- IH. split; [|tauto]. intros [H|H]; [|exact H].
      exfalso. eapply assoc_none_notin; eauto.
Qed.

Lemma is_first_getattr m n : is_first m n = true <-> exists d, class_getattr m n = Some (AState d true).
Proof.
  unfold is_first. destruct (class_getattr m n) as [[d [|]|]|]; split; try discriminate; eauto.
  all: intros [d' H]; discriminate.
Qed.

Lemma is_first_in_dir m n : is_first m n = true -> In n (class_dir m).
Proof. intros H. apply class_getattr_dir. apply is_first_getattr in H as [d H]. congruence. Qed.

Lemma build_loop_lookup m names : forall first l fi, build_loop m names first = inr (l, fi) ->
  forall n, assoc l n = if existsb (Nat.eqb n) names then state_decl (class_getattr m n) else None.
Proof.
  induction names as [|k r IH]; cbn [build_loop existsb]; intros first l fi H n.
  - inversion H. reflexivity.
  - destruct (class_getattr m k) as [[d f|]|] eqn:E.
    + assert (exists l', build_loop m r (if f then Some k else first) = inr (l', fi) /\ l = (k, d) :: l') as [l' [H1 ->]].
      { destruct f, first; try discriminate;
        match type of H with context [build_loop ?a ?b ?c] => destruct (build_loop a b c) as [|[l' fi']] end;
        try discriminate; inversion H; eauto. }
      specialize (IH _ _ _ H1 n). unfold assoc in *. cbn [find fst].
      rewrite (Nat.eqb_sym n k).
      destruct (Nat.eqb k n) eqn:Ek; cbn [orb].
      * apply Nat.eqb_eq in Ek. subst. rewrite E. reflexivity.
      * exact IH.
    + specialize (IH _ _ _ H n). rewrite IH.
      destruct (Nat.eqb n k) eqn:Ek; cbn [orb]; [|reflexivity].
      apply Nat.eqb_eq in Ek. subst. rewrite E. destruct (existsb (Nat.eqb k) r); reflexivity.
    + specialize (IH _ _ _ H n). rewrite IH.
      destruct (Nat.eqb n k) eqn:Ek; cbn [orb]; [|reflexivity].
      apply Nat.eqb_eq in Ek. subst. rewrite E. destruct (existsb (Nat.eqb k) r); reflexivity.
Qed.

Definition onat (o : option name) : nat := match o with Some _ => 1%nat | None => 0%nat end.

Lemma build_loop_first m names : forall first,
  match build_loop m names first with
  | inl e => e = MultipleFirst /\ (1 < length (filter (is_first m) names) + onat first)%nat
  | inr (l, fi) => (length (filter (is_first m) names) + onat first <= 1)%nat /\
                   fi = match filter (is_first m) names with [] => first | f :: _ => Some f end
  end.
Proof.
  induction names as [|k r IH]; cbn [build_loop filter]; intros first.
  - split; [destruct first; cbn; lia|reflexivity].
  - assert (Hif : is_first m k = match class_getattr m k with Some (AState _ true) => true | _ => false end) by reflexivity.
    destruct (class_getattr m k) as [[d [|]|]|] eqn:E; rewrite Hif.
    + destruct first as [x|].
      * cbn. split; [reflexivity|lia].
      * specialize (IH (Some k)). destruct (build_loop m r (Some k)) as [e|[l fi]].
        -- cbn in *. destruct IH. split; [assumption|lia].
        -- cbn in *. destruct IH as [H1 H2]. split; [lia|].
           destruct (filter (is_first m) r); [assumption|cbn in H1; lia].
    + specialize (IH first).
      destruct first; destruct (build_loop m r _) as [e|[l fi]]; exact IH.
    + apply IH.
    + apply IH.
Qed.

Lemma filter_first_in m n : In n (filter (is_first m) (class_dir m)) <-> is_first m n = true.
Proof.
  rewrite filter_In. split; [tauto|]. intros H. split; [apply is_first_in_dir|]; assumption.
Qed.

Lemma nodup_firsts m : NoDup (filter (is_first m) (class_dir m)).
Proof. apply NoDup_filter. apply NoDup_nodup. Qed.

Theorem build_states_ok inf m sh : build_states inf m = inr sh ->
  (forall n, lookup sh n = state_decl (class_getattr m n)) /\
  is_first m (sh_first sh) = true /\
  (forall n, is_first m n = true -> n = sh_first sh) /\
  declared sh (sh_first sh) = true /\
  sh_inf sh = inf.
Proof.
  unfold build_states. intros H.
  pose proof (build_loop_first m (class_dir m) None) as HF.
  destruct (build_loop m (class_dir m) None) as [e|[l [f|]]] eqn:EB; try discriminate.
  inversion H; subst sh; clear H. cbn [sh_first sh_inf].
  destruct HF as [HL Hfi].
  assert (Hlk : forall n, lookup {| sh_states := l; sh_first := f; sh_inf := inf |} n = state_decl (class_getattr m n)).
  { intros n. change (assoc l n = state_decl (class_getattr m n)).
    rewrite (build_loop_lookup _ _ _ _ _ EB).
    destruct (existsb (Nat.eqb n) (class_dir m)) eqn:Hi; [reflexivity|].
    destruct (class_getattr m n) eqn:Eg; [|reflexivity]. exfalso.
    assert (In n (class_dir m)) as Hin by (apply class_getattr_dir; congruence).
    assert (existsb (Nat.eqb n) (class_dir m) = true) by (apply existsb_exists; exists n; split; [exact Hin|apply Nat.eqb_refl]).
    congruence. }
  destruct (filter (is_first m) (class_dir m)) as [|f0 rest] eqn:EF; [discriminate|].
  inversion Hfi; subst f0. cbn in HL.
  assert (rest = []) by (destruct rest; [reflexivity|cbn in HL; lia]). subst rest.
  assert (Hf : is_first m f = true) by (apply filter_first_in; rewrite EF; left; reflexivity).
  split; [exact Hlk|]. split; [exact Hf|]. split.
  - intros n Hn. apply filter_first_in in Hn. rewrite EF in Hn. destruct Hn as [->|[]]. reflexivity.
  - split; [|reflexivity]. unfold declared. rewrite Hlk.
    apply is_first_getattr in Hf as [d ->]. reflexivity.
Qed.

Theorem build_states_constructs inf m :
  (exists sh, build_states inf m = inr sh) <->
  (exists f, is_first m f = true /\ forall n, is_first m n = true -> n = f).
Proof.
  split.
  - intros [sh H]. apply build_states_ok in H as (_ & H1 & H2 & _). eauto.
  - intros [f [Hf Hu]]. unfold build_states.
    pose proof (build_loop_first m (class_dir m) None) as HF.
    pose proof (nodup_firsts m) as ND.
    assert (EF : filter (is_first m) (class_dir m) = [f]).
    { destruct (filter (is_first m) (class_dir m)) as [|a rest] eqn:E.
      - apply filter_first_in in Hf. rewrite E in Hf. destruct Hf.
      - assert (a = f) by (apply Hu; apply filter_first_in; rewrite E; left; reflexivity). subst a.
        destruct rest as [|b rest]; [reflexivity|].
        assert (b = f) by (apply Hu; apply filter_first_in; rewrite E; right; left; reflexivity). subst b.
        inversion ND as [|? ? Hn _]. exfalso. apply Hn. left. reflexivity. }
    rewrite EF in HF.
    destruct (build_loop m (class_dir m) None) as [e|[l fi]].
    + cbn in HF. destruct HF. lia.
    + destruct HF as [_ ->]. eauto.
Qed.

Theorem build_states_no_first inf m :
  build_states inf m = inl NoFirst <-> forall n, is_first m n = false.
Proof.
  unfold build_states.
  pose proof (build_loop_first m (class_dir m) None) as HF.
  destruct (build_loop m (class_dir m) None) as [e|[l fi]] eqn:EB.
  - destruct HF as [-> HL]. split; [discriminate|]. intros H. exfalso.
    destruct (filter (is_first m) (class_dir m)) as [|a rest] eqn:E; [cbn in HL; lia|].
    assert (is_first m a = true) by (apply filter_first_in; rewrite E; left; reflexivity).
    rewrite H in *. discriminate.
  - destruct HF as [HL ->]. destruct (filter (is_first m) (class_dir m)) as [|a rest] eqn:E.
    + split; [|reflexivity]. intros _ n. destruct (is_first m n) eqn:En; [|reflexivity].
      apply filter_first_in in En. rewrite E in En. destruct En.
    + split; [discriminate|]. intros H.
      assert (is_first m a = true) by (apply filter_first_in; rewrite E; left; reflexivity).
      rewrite H in *. discriminate.
Qed.

Theorem build_states_multiple_first inf m :
  build_states inf m = inl MultipleFirst <->
  exists a b, a <> b /\ is_first m a = true /\ is_first m b = true.
Proof.
  unfold build_states.
  pose proof (build_loop_first m (class_dir m) None) as HF.
  pose proof (nodup_firsts m) as ND.
  destruct (build_loop m (class_dir m) None) as [e|[l fi]] eqn:EB.
  - destruct HF as [-> HL]. split; [intros _|reflexivity].
    destruct (filter (is_first m) (class_dir m)) as [|a [|b rest]] eqn:E; try (cbn in HL; lia).
    exists a, b. split.
    + intros ->. inversion ND as [|? ? Hn _]. apply Hn. left. reflexivity.
    + split; apply filter_first_in; rewrite E; cbn; auto.
  - destruct HF as [HL ->]. split.
    + destruct (filter (is_first m) (class_dir m)); discriminate.
    + intros (a & b & Hab & Ha & Hb). exfalso.
      apply filter_first_in in Ha, Hb.
      destruct (filter (is_first m) (class_dir m)) as [|x [|y rest]] eqn:E.
      * destruct Ha.
      * destruct Ha as [<-|[]], Hb as [<-|[]]. congruence.
      * cbn in HL. lia.
Qed.

Lemma mode_duration_eq inf m sh d s : build_states inf m = inr sh ->
  period_duration sh d s = mode_duration inf m d s.
Proof.
  intros H. apply build_states_ok in H as (Hlk & _ & _ & _ & Hinf).
  unfold period_duration, mode_duration. rewrite Hlk, Hinf.
  destruct (class_getattr m s) as [[[dflt nx|] f|]|]; reflexivity.
Qed.

(* the clauses of the property stated on the CLASS: hypotheses about a state
   read its definition through getattr on the class, wherever in the MRO it is *)
Section Mode.
Variable inf : Z.
Variable m : mro.
Variable sh : shape.
Hypothesis Hb : build_states inf m = inr sh.

Lemma mode_lookup n : lookup sh n = state_decl (class_getattr m n).
Proof. apply (build_states_ok _ _ _ Hb). Qed.

Lemma mode_first_declared : declared sh (sh_first sh) = true.
Proof. apply (build_states_ok _ _ _ Hb). Qed.

Lemma mode_declared n : declared sh n = is_state m n.
Proof. unfold declared, is_state. rewrite mode_lookup. reflexivity. Qed.

Lemma mode_lookup_state s d f : class_getattr m s = Some (AState d f) -> lookup sh s = Some d.
Proof. intros H. rewrite mode_lookup, H. reflexivity. Qed.

Theorem mode_first_runs h d tm b :
  is_first m (sh_first sh) = true /\
  calls (iter_after sh (h ++ [OnEnable d]) tm b) = [EvCall (sh_first sh) tm 0 true].
Proof.
  split; [apply (build_states_ok _ _ _ Hb)|apply (first_runs sh mode_first_declared)].
Qed.

Theorem mode_holds_until_expiry h s st0 d tm b :
  status_tr (trace sh h) = Running s ->
  last_call_start (trace sh h) None = Some (s, st0) ->
  last_dash h None = Some d ->
  tm <= st0 + mode_duration inf m d s ->
  calls (iter_after sh h tm b) = [EvCall s tm (tm - st0) false] /\
  status_tr (trace sh (h ++ [OnIteration tm b])) =
    status_acts sh (b s tm (tm - st0) false) (Running s).
Proof.
  intros H1 H2 H3 H4. rewrite <- (mode_duration_eq _ _ _ _ _ Hb) in H4.
  exact (holds_until_expiry sh mode_first_declared h s st0 d tm b H1 H2 H3 H4).
Qed.

Theorem mode_hands_over_at_expiry h s st0 d tm b dflt n f :
  status_tr (trace sh h) = Running s ->
  last_call_start (trace sh h) None = Some (s, st0) ->
  last_dash h None = Some d ->
  st0 + mode_duration inf m d s < tm ->
  class_getattr m s = Some (AState (Timed dflt (Some n)) f) -> is_state m n = true ->
  let expiry := st0 + mode_duration inf m d s in
  exists rest,
    iter_after sh h tm b = EvEnter (Some n) :: EvCall n tm (tm - expiry) true :: rest /\
    calls rest = [] /\
    status_tr (trace sh (h ++ [OnIteration tm b])) =
      status_acts sh (b n tm (tm - expiry) true) (Running n) /\
    last_call_start (trace sh (h ++ [OnIteration tm b])) None = Some (n, expiry).
Proof.
  intros H1 H2 H3 H4 H5 H6. rewrite <- (mode_duration_eq _ _ _ _ _ Hb) in *.
  apply mode_lookup_state in H5. rewrite <- mode_declared in H6.
  destruct (hands_over_at_expiry sh mode_first_declared h s st0 d tm b dflt n H1 H2 H3 H4 H5 H6)
    as (rest & Ha & Hc & Hd).
  exists rest. repeat split; try assumption.
  apply (successor_clock sh mode_first_declared h s st0 d tm b dflt n H1 H2 H3 H4 H5 H6).
Qed.

Theorem mode_last_state_expires h s st0 d tm b dflt f :
  status_tr (trace sh h) = Running s ->
  last_call_start (trace sh h) None = Some (s, st0) ->
  last_dash h None = Some d ->
  st0 + mode_duration inf m d s < tm ->
  class_getattr m s = Some (AState (Timed dflt None) f) ->
  iter_after sh h tm b = [EvEnter None] /\
  status_tr (trace sh (h ++ [OnIteration tm b])) = Ended.
Proof.
  intros H1 H2 H3 H4 H5. rewrite <- (mode_duration_eq _ _ _ _ _ Hb) in *.
  apply mode_lookup_state in H5.
  exact (last_state_expires sh mode_first_declared h s st0 d tm b dflt H1 H2 H3 H4 H5).
Qed.

End Mode.
