(* The expiry test as it was before the repair of defect D6
   (`if state is not None and state.expires < tm:` -- no `state.ran` guard),
   and the witnesses that this variant violates C15.  Everything else is the
   model of Stateful.Model (same [iteration_gen]). *)
From Coq Require Import ZArith List Bool Lia.
From RecordUpdate Require Import RecordSet.
Import ListNotations RecordSetNotations.
From RV Require Import Stateful.Model.
Open Scope Z_scope.

Definition expired_legacy (d : sdata) (tm : Z) : bool := st_exp d <? tm.

Definition on_iteration_legacy (sh : shape) := iteration_gen sh expired_legacy.

Definition step_legacy (sh : shape) (m : mach) (o : op) : mach * list event :=
  match o with
  | OnIteration tm b => on_iteration_legacy sh m tm b
  | _ => step sh m o
  end.

Fixpoint run_legacy (sh : shape) (m : mach) (h : list op) : mach * list event :=
  match h with
  | [] => (m, [])
  | o :: r => let '(m1, e1) := step_legacy sh m o in
              let '(m2, e2) := run_legacy sh m1 r in (m2, e1 ++ e2)
  end.

Definition final_legacy sh h := fst (run_legacy sh (init_mach sh) h).
Definition trace_legacy sh h := snd (run_legacy sh (init_mach sh) h).

(* The D6 witness (ticks of 1/64 s): a = state 0, timed 1 s, first, next b;
   b = state 1, untimed, calls next_state('a') once tm >= 2 s; on_iteration
   every 0.25 s. *)
Definition d6_shape : shape :=
  {| sh_states := [(0%nat, Timed 64 (Some 1%nat)); (1%nat, Untimed)];
     sh_first := 0%nat; sh_inf := 4294967295 * 64 |}.
Definition d6_body : ubody :=
  fun s tm _ _ => if Nat.eqb s 1 && (128 <=? tm) then [ANext 0%nat] else [].
Definition d6_iters (n : nat) : list op :=
  map (fun i => OnIteration (16 * Z.of_nat i) d6_body) (seq 0 n).
Definition d6_history : list op := OnEnable (fun _ => None) :: d6_iters 9.

(* After the 9 iterations tm = 0 .. 2 s, b has just called next_state('a'):
   every observer sees `a` entered.  The legacy code then tests a's stale
   expires (1 s) against tm = 2.25 s BEFORE a has run, skips a and calls b
   (again with initial_call = true): the entered state does not run. *)
Theorem C15_legacy_refuted :
  exists sh h s tm b,
    declared sh (sh_first sh) = true /\
    mono None (h ++ [OnIteration tm b]) /\
    status_tr (trace_legacy sh h) = Entered s /\
    calls (snd (on_iteration_legacy sh (final_legacy sh h) tm b)) <> [EvCall s tm 0 true].
Proof.
  exists d6_shape, d6_history, 0%nat, 144, d6_body.
  split; [reflexivity|]. split; [cbn; lia|]. split; [vm_compute; reflexivity|].
  vm_compute. intros H. discriminate H.
Qed.

(* what it does instead *)
Example d6_legacy_next_iteration :
  calls (snd (on_iteration_legacy d6_shape (final_legacy d6_shape d6_history) 144 d6_body))
  = [EvCall 1%nat 144 80 true].
Proof. vm_compute. reflexivity. Qed.

(* `a` never runs again and b is "initially called" on every iteration *)
Example d6_legacy_a_skipped_forever :
  calls (skipn 12 (trace_legacy d6_shape (OnEnable (fun _ => None) :: d6_iters 14)))
  = [EvCall 1%nat 144 80 true; EvCall 1%nat 160 96 true; EvCall 1%nat 176 112 true;
     EvCall 1%nat 192 128 true; EvCall 1%nat 208 144 true].
Proof. vm_compute. reflexivity. Qed.

(* the repaired model on the same history: a runs, with initial_call *)
Example d6_repaired :
  calls (iter_after d6_shape d6_history 144 d6_body) = [EvCall 0%nat 144 0 true].
Proof. vm_compute. reflexivity. Qed.

(* Second symptom: the second period depends on the first.  One state a
   (1 s, first); period 1 runs it at tm = 0; period 2 starts late, at
   tm = 5 s > a's stale expires: the legacy code skips the first state. *)
Definition d6_shape2 : shape :=
  {| sh_states := [(0%nat, Timed 64 None)]; sh_first := 0%nat; sh_inf := 4294967295 * 64 |}.
Definition quiet : ubody := fun _ _ _ _ => [].

Theorem C15_legacy_period_dependent :
  exists sh h d p,
    declared sh (sh_first sh) = true /\ mono None (h ++ OnEnable d :: p) /\
    snd (run_legacy sh (final_legacy sh h) (OnEnable d :: p)) <> trace_legacy sh (OnEnable d :: p).
Proof.
  exists d6_shape2, [OnEnable (fun _ => None); OnIteration 0 quiet], (fun _ => None),
         [OnIteration 320 quiet].
  split; [reflexivity|]. split; [cbn; lia|]. vm_compute. intros H. discriminate H.
Qed.

Example d6_legacy_second_period :
  snd (run_legacy d6_shape2 (final_legacy d6_shape2 [OnEnable (fun _ => None); OnIteration 0 quiet])
         [OnEnable (fun _ => None); OnIteration 320 quiet])
  = [EvEnter (Some 0%nat); EvEnter None]
  /\ trace_legacy d6_shape2 [OnEnable (fun _ => None); OnIteration 320 quiet]
  = [EvEnter (Some 0%nat); EvCall 0%nat 320 0 true].
Proof. split; vm_compute; reflexivity. Qed.

Print Assumptions C15_legacy_refuted.
Print Assumptions C15_legacy_period_dependent.
