(* Model of robotpy_ext/autonomous/stateful_autonomous.py (StatefulAutonomous,
   the decorators state/timed_state), as the code is NOW (after the D6 repair:
   the expiry test reads `state is not None and state.ran and state.expires < tm`).
   No proofs in this file.

   Time: Z ticks (the harness uses 1/64 s).  Names: nat identifiers.
   User code: every [OnIteration] operation carries the behaviour of the state
   functions for that iteration, [b : name -> tm -> state_tm -> initial_call ->
   list action].  A history therefore quantifies over arbitrary user code,
   including code whose behaviour depends on its own memory of earlier
   iterations or periods (a fixed body is the special case where all
   operations carry the same function). *)
From Coq Require Import ZArith List Bool.
From RecordUpdate Require Import RecordSet.
Import ListNotations RecordSetNotations.
Open Scope Z_scope.

Definition name := nat.

(* What the decorators store on the wrapper object (_State):
   timed_state -> attributes [duration] (default shown on the dashboard) and
   [next_state] (a name or None);  state -> neither attribute exists. *)
Inductive sdecl := Timed (dflt : Z) (nxt : option name) | Untimed.

(* [sh_first]: the state declared first=True (the constructor rejects zero or
   several).  [sh_inf]: the code's constant 0xFFFFFFFF seconds, in ticks. *)
Record shape := { sh_states : list (name * sdecl); sh_first : name; sh_inf : Z }.

(* _State.ran / .start_time / .expires : attributes of the CLASS-level wrapper,
   one per state function, shared by every period (and instance). *)
Record sdata := { ran : bool; st_start : Z; st_exp : Z }.
#[export] Instance eta_sdata : Settable _ := settable! Build_sdata <ran; st_start; st_exp>.

(* enabled: the attribute self.__state exists (on_enable/next_state was called)
   cur:     self.__state (None or a state)
   fin:     self.__done (only gates one log line)
   sdat:    the wrappers' ran/start_time/expires
   dur:     instance attribute <state>_duration, absent before the first
            on_enable and for untimed states *)
Record mach := { enabled : bool; cur : option name; fin : bool;
                 sdat : name -> sdata; dur : name -> option Z }.
#[export] Instance eta_mach : Settable _ := settable! Build_mach <enabled; cur; fin; sdat; dur>.

Inductive action := ANext (s : name) | ADone.
Definition ubody := name -> Z -> Z -> bool -> list action.

(* dash s: value of the SmartDashboard entry "<MODE_NAME>\<s>_duration" when
   on_enable runs; None when the entry is absent or not a number. *)
Inductive op :=
| OnEnable (dash : name -> option Z)
| OnIteration (tm : Z) (b : ubody)
| OnDisable.

Inductive err := ErrNotEnabled (* ValueError *) | ErrAttr (* AttributeError *).
(* EvCall: a state function is invoked (observed by the function itself);
   EvEnter: next_state(name or None) returned normally (observed by overriding
   next_state in the subclass; done() is next_state(None));
   EvErr: an exception escapes on_enable/on_iteration. *)
Inductive event :=
| EvCall (s : name) (tm stm : Z) (init : bool)
| EvEnter (o : option name)
| EvErr (e : err).

Definition upd {A} (f : name -> A) (k : name) (v : A) : name -> A :=
  fun x => if Nat.eqb x k then v else f x.

Definition lookup (sh : shape) (s : name) : option sdecl :=
  option_map snd (find (fun p => Nat.eqb (fst p) s) (sh_states sh)).
Definition declared (sh : shape) (s : name) : bool :=
  match lookup sh s with Some _ => true | None => false end.

Definition init_mach (sh : shape) : mach :=
  {| enabled := false; cur := None; fin := false;
     sdat := fun _ => {| ran := false; st_start := 0; st_exp := sh_inf sh |};
     dur := fun _ => None |}.

(* the expiry test of on_iteration (line 454) *)
Definition expired_now (d : sdata) (tm : Z) : bool := ran d && (st_exp d <? tm).

Section Machine.
Variable sh : shape.

(* next_state(name), name not None: getattr(cls, name) raises AttributeError
   for an unknown name (before anything is assigned); then .ran = False *)
Definition next_state (m : mach) (s : name) : option mach :=
  if declared sh s
  then Some (m <| enabled := true |> <| cur := Some s |>
               <| sdat := upd (sdat m) s (sdat m s <| ran := false |>) |>)
  else None.

(* done() = next_state(None) *)
Definition done (m : mach) : mach := m <| enabled := true |> <| cur := None |>.

(* getattr(self, state.name + "_duration", 0xFFFFFFFF) *)
Definition duration_of (m : mach) (s : name) : Z :=
  match dur m s with Some v => v | None => sh_inf sh end.

(* on_enable, the loop over __sd_args: one entry per timed state,
   val = getNumber(sd_name, state.duration); setattr(self, name, val) *)
Definition read_dashboard (m : mach) (dash : name -> option Z) : mach :=
  m <| dur := fun s => match lookup sh s with
                       | Some (Timed dflt _) =>
                           Some (match dash s with Some v => v | None => dflt end)
                       | _ => dur m s
                       end |>.

Definition on_enable (m : mach) (dash : name -> option Z) : mach * list event :=
  let m1 := read_dashboard m dash in
  match next_state m1 (sh_first sh) with
  | Some m2 => (m2 <| fin := false |>, [EvEnter (Some (sh_first sh))])
  | None => (m1, [EvErr ErrAttr])
  end.

(* lines 451-457.  Result: machine, new_state_start, events; None = an
   exception (AttributeError: untimed wrapper has no next_state attribute /
   unknown successor) escapes before anything was assigned. *)
Definition expire (test : sdata -> Z -> bool) (m : mach) (tm : Z)
  : option (mach * Z * list event) :=
  match cur m with
  | Some s =>
      let d := sdat m s in
      if test d tm then
        match lookup sh s with
        | Some (Timed _ (Some n)) =>
            match next_state m n with
            | Some m' => Some (m', st_exp d, [EvEnter (Some n)])
            | None => None
            end
        | Some (Timed _ None) => Some (done m, st_exp d, [EvEnter None])
        | _ => None
        end
      else Some (m, tm, [])
  | None => Some (m, tm, [])
  end.

(* lines 466-472: first-call bookkeeping; returns initial_call *)
Definition enter_bk (m : mach) (s : name) (nss : Z) : mach * bool :=
  if ran (sdat m s) then (m, false)
  else (m <| sdat := upd (sdat m) s {| ran := true; st_start := nss;
                                        st_exp := nss + duration_of m s |} |>, true).

(* what the state function does with self: a sequence of next_state()/done()
   calls; an unknown name raises and ends the function (and on_iteration) *)
Fixpoint run_actions (acts : list action) (m : mach) : mach * list event :=
  match acts with
  | [] => (m, [])
  | ANext n :: r =>
      match next_state m n with
      | Some m' => let '(m'', e) := run_actions r m' in (m'', EvEnter (Some n) :: e)
      | None => (m, [EvErr ErrAttr])
      end
  | ADone :: r => let '(m'', e) := run_actions r (done m) in (m'', EvEnter None :: e)
  end.

Definition iteration_gen (test : sdata -> Z -> bool) (m : mach) (tm : Z) (b : ubody)
  : mach * list event :=
  if negb (enabled m) then (m, [EvErr ErrNotEnabled]) else
  match expire test m tm with
  | None => (m, [EvErr ErrAttr])
  | Some (m1, nss, ev) =>
      match cur m1 with
      | None => (m1 <| fin := true |>, ev)
      | Some s =>
          let '(m2, init) := enter_bk m1 s nss in
          let stm := tm - st_start (sdat m2 s) in
          let '(m3, e) := run_actions (b s tm stm init) m2 in
          (m3, ev ++ EvCall s tm stm init :: e)
      end
  end.

Definition on_iteration := iteration_gen expired_now.

Definition step (m : mach) (o : op) : mach * list event :=
  match o with
  | OnEnable d => on_enable m d
  | OnIteration tm b => on_iteration m tm b
  | OnDisable => (m, [])          (* on_disable: pass *)
  end.

Fixpoint run (m : mach) (h : list op) : mach * list event :=
  match h with
  | [] => (m, [])
  | o :: r => let '(m1, e1) := step m o in
              let '(m2, e2) := run m1 r in (m2, e1 ++ e2)
  end.

Definition final (h : list op) : mach := fst (run (init_mach sh) h).
Definition trace (h : list op) : list event := snd (run (init_mach sh) h).
Definition trace_from (m : mach) (h : list op) : list event := snd (run m h).

(* the events of one more on_iteration after history h *)
Definition iter_after (h : list op) (tm : Z) (b : ubody) : list event :=
  snd (on_iteration (final h) tm b).

End Machine.

(* ---------- observables: everything below reads events only ---------- *)

Definition is_call (e : event) : bool := match e with EvCall _ _ _ _ => true | _ => false end.
Definition calls (tr : list event) : list event := filter is_call tr.

(* Where the mode stands, as an observer of next_state()/state-function
   invocations knows it. *)
Inductive status := NotEnabled | Entered (s : name) | Running (s : name) | Ended.

Definition status_ev (st : status) (e : event) : status :=
  match e with
  | EvCall s _ _ _ => Running s
  | EvEnter (Some s) => Entered s
  | EvEnter None => Ended
  | EvErr _ => st
  end.
Definition status_tr (tr : list event) : status := fold_left status_ev tr NotEnabled.

(* the same, read from the machine *)
Definition status_of (m : mach) : status :=
  if negb (enabled m) then NotEnabled else
  match cur m with
  | None => Ended
  | Some s => if ran (sdat m s) then Running s else Entered s
  end.

(* start time of the most recent call: tm - state_tm of that call *)
Fixpoint last_call_start (tr : list event) (acc : option (name * Z)) : option (name * Z) :=
  match tr with
  | [] => acc
  | EvCall s tm stm _ :: r => last_call_start r (Some (s, tm - stm))
  | _ :: r => last_call_start r acc
  end.

(* the dashboard map of the most recent on_enable *)
Fixpoint last_dash (h : list op) (acc : option (name -> option Z)) : option (name -> option Z) :=
  match h with
  | [] => acc
  | OnEnable d :: r => last_dash r (Some d)
  | _ :: r => last_dash r acc
  end.

(* duration of state s in a period enabled with dashboard d *)
Definition period_duration (sh : shape) (d : name -> option Z) (s : name) : Z :=
  match lookup sh s with
  | Some (Timed dflt _) => match d s with Some v => v | None => dflt end
  | _ => sh_inf sh
  end.

Definition no_enable (h : list op) : Prop :=
  Forall (fun o => match o with OnEnable _ => False | _ => True end) h.

(* clock readings non-decreasing inside every period (no relation between
   the readings of different periods, no sign condition) *)
Fixpoint mono (lo : option Z) (h : list op) : Prop :=
  match h with
  | [] => True
  | OnEnable _ :: r => mono None r
  | OnIteration tm _ :: r =>
      match lo with Some l => l <= tm | None => True end /\ mono (Some tm) r
  | OnDisable :: r => mono lo r
  end.

Definition nonneg_ev (e : event) : Prop :=
  match e with EvCall _ _ stm _ => 0 <= stm | _ => True end.

(* effect of the (valid prefix of the) actions of a state function on the status *)
Fixpoint status_acts (sh : shape) (acts : list action) (st : status) : status :=
  match acts with
  | [] => st
  | ANext n :: r => if declared sh n then status_acts sh r (Entered n) else st
  | ADone :: r => status_acts sh r Ended
  end.

Definition valid_acts (sh : shape) (acts : list action) : bool :=
  forallb (fun a => match a with ANext n => declared sh n | ADone => true end) acts.

(* initial_call discipline over a whole trace: walking the events with the
   observer's status, every call must be of the state the observer expects,
   with initial_call = true exactly when the state was entered and has not
   been called since. *)
Fixpoint init_discipline (st : status) (tr : list event) : Prop :=
  match tr with
  | [] => True
  | e :: r =>
      match e with
      | EvCall s _ _ init =>
          (st = Entered s /\ init = true) \/ (st = Running s /\ init = false)
      | _ => True
      end /\ init_discipline (status_ev st e) r
  end.

Definition assoc {A} (l : list (name * A)) (s : name) : option A :=
  option_map snd (find (fun p => Nat.eqb (fst p) s) l).

(* ---------- the mode CLASS: where the states come from ----------

   A mode is a Python class.  Its states are whatever attribute lookup on the
   class finds, i.e. they may be defined in the concrete class or inherited
   from any base class (a shared "settle -> shoot" tail in a common base mode,
   the mode-specific states in the subclass), and a subclass may redefine a
   name (as another state, or as something that is not a state).

   [classbody]  vars(C) of one class: the names assigned in its body.
                [AState d first]: a wrapper made by @timed_state/@state with the
                decorator arguments; [AOther]: any other attribute (a plain
                method, a constant, None).
   [mro]        type(self).__mro__, most derived class first (the linearisation
                is Python's; StatefulAutonomous and object contribute no states).
   [class_getattr]  getattr(cls, name): the first class of the MRO whose body
                assigns the name decides.
   [class_dir]  dir(cls): every name assigned in some class of the MRO, once.
                (Python sorts them; the order is immaterial for the outcome of
                __build_states, see Proofs.build_states_* .) *)
Inductive attr := AState (d : sdecl) (first : bool) | AOther.
Definition classbody := list (name * attr).
Definition mro := list classbody.

Fixpoint class_getattr (m : mro) (n : name) : option attr :=
  match m with
  | [] => None
  | c :: r => match assoc c n with Some a => Some a | None => class_getattr r n end
  end.

Definition class_dir (m : mro) : list name :=
  nodup Nat.eq_dec (concat (map (map fst) m)).

(* isinstance(getattr(cls, name), _State), and the wrapper's attributes *)
Definition state_decl (o : option attr) : option sdecl :=
  match o with Some (AState d _) => Some d | _ => None end.
Definition is_state (m : mro) (n : name) : bool :=
  match state_decl (class_getattr m n) with Some _ => true | None => false end.
Definition is_first (m : mro) (n : name) : bool :=
  match class_getattr m n with Some (AState _ true) => true | _ => false end.

(* __build_states (called by __init__), lines 311-370:
     for name in dir(cls):
         state = getattr(cls, name)
         if not isinstance(state, _State): continue
         if state.first:
             if has_first: raise ValueError("Multiple states ...")
             self.__first = name; has_first = True
         if hasattr(state, "duration"): register "<name>_duration" for read-back
     if not has_first: raise ValueError("Starting state not defined!")
   The result is the list of discovered states (with what the decorator stored:
   the read-back list __sd_args is its timed part) and the first state. *)
Inductive ctor_err := MultipleFirst | NoFirst.

Fixpoint build_loop (m : mro) (names : list name) (first : option name)
  : ctor_err + (list (name * sdecl) * option name) :=
  match names with
  | [] => inr ([], first)
  | n :: r =>
      match class_getattr m n with
      | Some (AState d f) =>
          match f, first with
          | true, Some _ => inl MultipleFirst
          | _, _ =>
              match build_loop m r (if f then Some n else first) with
              | inr (l, fi) => inr ((n, d) :: l, fi)
              | inl e => inl e
              end
          end
      | _ => build_loop m r first
      end
  end.

Definition build_states (inf : Z) (m : mro) : ctor_err + shape :=
  match build_loop m (class_dir m) None with
  | inl e => inl e
  | inr (l, Some f) => inr {| sh_states := l; sh_first := f; sh_inf := inf |}
  | inr (_, None) => inl NoFirst
  end.

(* everything observable of a mode object: None when the constructor raised *)
Definition mode_trace (inf : Z) (m : mro) (h : list op) : option (list event) :=
  match build_states inf m with
  | inr sh => Some (trace sh h)
  | inl _ => None
  end.

(* the duration the property gives state s of the class in a period enabled
   with dashboard d -- stated on the class, wherever s is defined *)
Definition mode_duration (inf : Z) (m : mro) (d : name -> option Z) (s : name) : Z :=
  match class_getattr m s with
  | Some (AState (Timed dflt _) _) => match d s with Some v => v | None => dflt end
  | _ => inf
  end.

(* ---------- correspondence interface (used by the generated cases) ---------- *)
Definition dash_tbl (l : list (name * Z)) : name -> option Z := assoc l.

(* scripted state function: first matching rule wins *)
Inductive cond := CAlways | CInit | CNotInit | CStmGe (c : Z).
Definition cond_holds (c : cond) (stm : Z) (init : bool) : bool :=
  match c with
  | CAlways => true
  | CInit => init
  | CNotInit => negb init
  | CStmGe k => k <=? stm
  end.
Fixpoint tbl_body (rules : list (name * cond * list action)) : ubody :=
  fun s tm stm init =>
    match rules with
    | [] => []
    | (n, c, acts) :: r =>
        if Nat.eqb n s && cond_holds c stm init then acts else tbl_body r s tm stm init
    end.

(* what the harness records: the invocations of the state functions (a function
   only sees the parameters its signature names, the others are None) and the
   exceptions that escape.  How the code moves from state to state internally
   (whether it calls self.next_state() at an expiry, how done() is written) is
   not specified by C15: EvEnter events are not compared; every entry shows
   in the calls that follow it. *)
Inductive obs :=
| OCall (s : name) (tm stm : option Z) (init : option bool)
| OErr (e : err).

Definition visible (e : event) : bool := match e with EvEnter _ => false | _ => true end.

Definition opt_agrees {A} (eqb : A -> A -> bool) (o : option A) (v : A) : bool :=
  match o with Some x => eqb x v | None => true end.
Definition ev_matches (e : event) (o : obs) : bool :=
  match e, o with
  | EvCall s tm stm init, OCall s' otm ostm oinit =>
      Nat.eqb s s' && opt_agrees Z.eqb otm tm && opt_agrees Z.eqb ostm stm
      && opt_agrees Bool.eqb oinit init
  | EvErr _, OErr _ => true   (* C15 does not say which exception misuse raises *)
  | _, _ => false
  end.
Fixpoint trace_matches (tr : list event) (os : list obs) : bool :=
  match tr, os with
  | [], [] => true
  | e :: r, o :: q => ev_matches e o && trace_matches r q
  | _, _ => false
  end.

Definition case := (shape * list op * list obs)%type.
Definition case_ok (c : case) : bool :=
  let '(sh, h, os) := c in trace_matches (filter visible (trace sh h)) os.
Fixpoint bad (i : nat) (l : list case) : list nat :=
  match l with
  | [] => []
  | c :: r => if case_ok c then bad (S i) r else i :: bad (S i) r
  end.

(* the same on a mode CLASS: the harness hands over the class bodies in MRO
   order; [None] as observation = the constructor raised (ValueError). *)
Definition ccase := (Z * mro * list op * option (list obs))%type.
Definition ccase_ok (c : ccase) : bool :=
  let '(inf, m, h, oos) := c in
  match mode_trace inf m h, oos with
  | Some tr, Some os => trace_matches (filter visible tr) os
  | None, None => true
  | _, _ => false
  end.
Fixpoint cbad (i : nat) (l : list ccase) : list nat :=
  match l with
  | [] => []
  | c :: r => if ccase_ok c then cbad (S i) r else i :: cbad (S i) r
  end.
