(* The statement-by-statement translation of StatefulAutonomous.on_iteration / next_state / done (Stateful/SrcIter.v,
   regenerated from the source by every C15 check) computes exactly on_iteration / next_state / done of
   Stateful/Model.v, on which the C15 theorems are proved: same machine, same events, and an exception in the source is
   the model's [EvErr] result (machine unchanged). *)
From Coq Require Import ZArith List Bool Lia Arith.
From RecordUpdate Require Import RecordSet.
Import ListNotations RecordSetNotations.
From RV Require Import Stateful.Model Stateful.SrcIter.
Open Scope Z_scope.
Open Scope bool_scope.

Lemma seqf_go : forall g f, g_err f = false -> g_ret f = false -> seqf g f = g f.
Proof. intros g f H1 H2; unfold seqf; rewrite H1, H2; reflexivity. Qed.
Lemma seqf_ext : forall g h f, (forall f, g f = h f) -> seqf g f = seqf h f.
Proof. intros g h f H; unfold seqf; rewrite H; reflexivity. Qed.
Lemma seqf_err : forall g f, g_err f = true -> seqf g f = f.
Proof. intros g f H1; unfold seqf; rewrite H1; reflexivity. Qed.
Lemma seqf_ret : forall g f, g_ret f = true -> seqf g f = f.
Proof. intros g f H1; unfold seqf; rewrite H1, orb_true_r; reflexivity. Qed.

Section Proofs.
Variable sh : shape.

Lemma i0_eq : forall tm b m,
  ref_i0 sh tm b (Build_frame m None 0 [] false false) =
  if enabled m then Build_frame m (cur m) 0 [] false false else Build_frame m None 0 [] true false.
Proof. reflexivity. Qed.

Lemma i1_eq : forall tm b m st n e er rt,
  ref_i1 sh tm b (Build_frame m st n e er rt) = Build_frame m st tm e er rt.
Proof. reflexivity. Qed.

Lemma upd_same : forall A (f : name -> A) k v, upd f k v k = v.
Proof. intros; unfold upd; rewrite Nat.eqb_refl; reflexivity. Qed.

(* statement 2: the expiry test and hand-over, against [expire] *)
Lemma i2_expire : forall tm b m,
  let f := ref_i2 sh tm b (Build_frame m (cur m) tm [] false false) in
  (g_err f = false -> g_ret f = false /\ expire sh expired_now m tm = Some (g_m f, g_nss f, g_ev f) /\ g_state f = cur (g_m f)) /\
  (g_err f = true -> expire sh expired_now m tm = None).
Proof.
  intros tm b m; cbv zeta. unfold ref_i2, expire, expired_now; cbn.
  destruct (cur m) as [s|] eqn:Hc; cbn; [|split; [intros _; rewrite Hc; auto|discriminate]].
  destruct (ran (sdat m s)) eqn:Hr; cbn; [|split; [intros _; rewrite Hc; auto|discriminate]].
  destruct (st_exp (sdat m s) <? tm) eqn:Hx; cbn; [|split; [intros _; rewrite Hc; auto|discriminate]].
  destruct (lookup sh s) as [[dflt [n|]|]|] eqn:Hl; cbn; try (split; [discriminate|reflexivity]).
  - unfold next_state. destruct (declared sh n) eqn:Hd; cbn; [|split; [discriminate|reflexivity]].
    split; [|discriminate]. intros _. repeat split.
    unfold upd. destruct (Nat.eqb s n) eqn:He; [apply Nat.eqb_eq in He; subst n|]; reflexivity.
  - split; [|discriminate]. intros _. repeat split.
Qed.

(* statement 3 (with the rest of the function as its else-branch): nothing left to run, or bookkeeping + the state function *)
Lemma i3_rest : forall tm b m nss ev,
  let f := ref_i3 sh tm b (Build_frame m (cur m) nss ev false false) in
  g_err f = false /\
  (g_m f, g_ev f) =
  match cur m with
  | None => (m <| fin := true |>, ev)
  | Some s =>
      let '(m2, init) := enter_bk sh m s nss in
      let stm := tm - st_start (sdat m2 s) in
      let '(m3, e) := run_actions sh (b s tm stm init) m2 in
      (m3, ev ++ EvCall s tm stm init :: e)
  end.
Proof.
  intros tm b m nss ev; cbv zeta. destruct m as [en cu fi sd du]; unfold ref_i3, enter_bk, duration_of; cbn.
  destruct cu as [s|]; cbn.
  - destruct (ran (sd s)) eqn:Hr; cbn; unfold RecordSet.set; cbn; rewrite ?upd_same; cbn;
      match goal with |- context [run_actions sh ?a ?c] => destruct (run_actions sh a c) as [m3 e] end; cbn; split; reflexivity.
  - destruct fi; cbn; split; reflexivity.
Qed.

Theorem ref_on_iteration_spec : forall m tm b,
  let f := ref_on_iteration sh m tm b in
  (g_err f = false -> (g_m f, g_ev f) = on_iteration sh m tm b) /\
  (g_err f = true -> exists e, on_iteration sh m tm b = (m, [EvErr e])).
Proof.
  intros m tm b; cbv zeta. unfold ref_on_iteration, on_iteration, iteration_gen.
  rewrite (seqf_go (ref_i0 sh tm b)) by reflexivity. rewrite i0_eq.
  destruct (enabled m) eqn:Hen; cbn [negb].
  - rewrite (seqf_go (ref_i1 sh tm b)) by reflexivity. rewrite i1_eq.
    rewrite (seqf_go (ref_i2 sh tm b)) by reflexivity.
    pose proof (i2_expire tm b m) as H2; cbv zeta in H2.
    set (f2 := ref_i2 sh tm b _) in *.
    destruct H2 as [H2a H2b]. destruct (g_err f2) eqn:Herr.
    + rewrite (seqf_err _ f2 Herr), Herr. rewrite (H2b eq_refl). split; [discriminate|]. intros _; eexists; reflexivity.
    + destruct (H2a eq_refl) as (Hrt & Hex & Hst). rewrite Hex.
      rewrite (seqf_go _ f2 Herr Hrt).
      destruct f2 as [m2 st2 nss2 ev2 er2 rt2]; cbn in *; subst.
      pose proof (i3_rest tm b m2 nss2 ev2) as H3; cbv zeta in H3. destruct H3 as [H3a H3b].
      split; [|rewrite H3a; discriminate]. intros _. rewrite H3b.
      destruct (cur m2) as [s|]; [|reflexivity].
      destruct (enter_bk sh m2 s nss2) as [m3 init]. destruct (run_actions sh _ m3) as [m4 e]. reflexivity.
  - rewrite !seqf_err by reflexivity. cbn. split; [discriminate|]. intros _; eexists; reflexivity.
Qed.

Theorem ref_next_state_spec : forall m o,
  let f := ref_next_state sh m o in
  match o with
  | Some s => (g_err f = false -> next_state sh m s = Some (g_m f)) /\ (g_err f = true -> next_state sh m s = None)
  | None => g_err f = false /\ g_m f = done m
  end.
Proof.
  intros m [s|]; cbv zeta; unfold ref_next_state, next_state, done.
  - destruct (declared sh s); cbn; (split; [|try discriminate; try reflexivity]); try discriminate.
    intros _. destruct m; reflexivity.
  - cbn. split; [reflexivity|]. destruct m; reflexivity.
Qed.

End Proofs.
Print Assumptions ref_on_iteration_spec.
Print Assumptions ref_next_state_spec.
