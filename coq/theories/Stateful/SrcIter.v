(* StatefulAutonomous.on_iteration / next_state / done of robotpy_ext/autonomous/stateful_autonomous.py, translated
   statement by statement (harness/c15_translate.py) from the pinned source: one function per top-level statement of
   on_iteration over a frame (the machine + the locals that live across top-level statements), [g_err] = an exception is
   in flight, [g_ret] = `return` was executed.  The text between the markers is the translator's output
   (`python -m harness.c15_translate --ref /repo`); every C15 check translates the CURRENT source again
   (work/C15/Gen_iter.v) and proves the result equal to these; Stateful/SrcIterProofs.v proves them equal to
   on_iteration / next_state / done of Stateful/Model.v.  No proofs in this file. *)
From Coq Require Import ZArith List Bool.
From RecordUpdate Require Import RecordSet.
Import ListNotations RecordSetNotations.
From RV Require Import Stateful.Model.
Open Scope Z_scope.
Open Scope bool_scope.

Record frame := { g_m : mach; g_state : option name; g_nss : Z; g_ev : list event; g_err : bool; g_ret : bool }.
Definition seqf (g : frame -> frame) (f : frame) : frame := if g_err f || g_ret f then f else g f.

(* BEGIN translator output *)
(* try: *)
Definition ref_i0 (sh : shape) (tm : Z) (b : ubody) (f : frame) : frame :=
  (if (enabled (g_m f)) then (Build_frame (g_m f) (cur (g_m f)) (g_nss f) (g_ev f) (g_err f) (g_ret f)) else (Build_frame (g_m f) (g_state f) (g_nss f) (g_ev f) true (g_ret f))).
(* new_state_start = tm *)
Definition ref_i1 (sh : shape) (tm : Z) (b : ubody) (f : frame) : frame :=
  (Build_frame (g_m f) (g_state f) tm (g_ev f) (g_err f) (g_ret f)).
(* if state is not None and state.ran and (state.expires < tm): *)
Definition ref_i2 (sh : shape) (tm : Z) (b : ubody) (f : frame) : frame :=
  (match (g_state f) with Some s1 => (if (ran ((sdat (g_m f)) s1)) then (if ((st_exp ((sdat (g_m f)) s1)) <? tm) then (match lookup sh s1 with Some (Timed d2 (Some n3)) => (match next_state sh (g_m f) n3 with Some m4 => (Build_frame m4 (cur m4) (st_exp ((sdat m4) s1)) (g_ev f ++ [EvEnter (Some n3)]) (g_err f) (g_ret f)) | None => (Build_frame (g_m f) (Some s1) (g_nss f) (g_ev f) true (g_ret f)) end) | Some (Timed d2 None) => (let m5 := done (g_m f) in (Build_frame m5 (cur m5) (st_exp ((sdat m5) s1)) (g_ev f ++ [EvEnter None]) (g_err f) (g_ret f))) | _ => (Build_frame (g_m f) (Some s1) (g_nss f) (g_ev f) true (g_ret f)) end) else (Build_frame (g_m f) (Some s1) (g_nss f) (g_ev f) (g_err f) (g_ret f))) else (Build_frame (g_m f) (Some s1) (g_nss f) (g_ev f) (g_err f) (g_ret f))) | None => (Build_frame (g_m f) None (g_nss f) (g_ev f) (g_err f) (g_ret f)) end).
(* if state is None: *)
Definition ref_i3 (sh : shape) (tm : Z) (b : ubody) (f : frame) : frame :=
  (match (g_state f) with Some s1 => (if (negb (ran ((sdat (g_m f)) s1))) then (let ra := run_actions sh (b s1 tm (tm - (st_start (((sdat (g_m f)) s1) <| ran := true |> <| st_start := (g_nss f) |> <| st_exp := ((st_start (((sdat (g_m f)) s1) <| ran := true |> <| st_start := (g_nss f) |>)) + (match (dur (g_m f)) s1 with Some v => v | None => sh_inf sh end)) |>))) (negb (ran ((sdat (g_m f)) s1)))) (Build_mach (enabled (g_m f)) (cur (g_m f)) (fin (g_m f)) (upd (sdat (g_m f)) s1 (((sdat (g_m f)) s1) <| ran := true |> <| st_start := (g_nss f) |> <| st_exp := ((st_start (((sdat (g_m f)) s1) <| ran := true |> <| st_start := (g_nss f) |>)) + (match (dur (g_m f)) s1 with Some v => v | None => sh_inf sh end)) |>)) (dur (g_m f))) in let m2 := fst ra in (Build_frame m2 (Some s1) (g_nss f) (g_ev f ++ EvCall s1 tm (tm - (st_start (((sdat (g_m f)) s1) <| ran := true |> <| st_start := (g_nss f) |> <| st_exp := ((st_start (((sdat (g_m f)) s1) <| ran := true |> <| st_start := (g_nss f) |>)) + (match (dur (g_m f)) s1 with Some v => v | None => sh_inf sh end)) |>))) (negb (ran ((sdat (g_m f)) s1))) :: snd ra) (g_err f) (g_ret f))) else (let ra := run_actions sh (b s1 tm (tm - (st_start ((sdat (g_m f)) s1))) (negb (ran ((sdat (g_m f)) s1)))) (g_m f) in let m3 := fst ra in (Build_frame m3 (Some s1) (g_nss f) (g_ev f ++ EvCall s1 tm (tm - (st_start ((sdat (g_m f)) s1))) (negb (ran ((sdat (g_m f)) s1))) :: snd ra) (g_err f) (g_ret f)))) | None => (if (negb (fin (g_m f))) then (Build_frame (Build_mach (enabled (g_m f)) (cur (g_m f)) true (sdat (g_m f)) (dur (g_m f))) None (g_nss f) (g_ev f) (g_err f) true) else (Build_frame (g_m f) None (g_nss f) (g_ev f) (g_err f) true)) end).
Definition ref_on_iteration (sh : shape) (m : mach) (tm : Z) (b : ubody) : frame :=
  seqf (ref_i3 sh tm b) (
  seqf (ref_i2 sh tm b) (
  seqf (ref_i1 sh tm b) (
  seqf (ref_i0 sh tm b) (
    (Build_frame m None 0 [] false false))))).
Definition ref_next_state (sh : shape) (m : mach) (o : option name) : frame :=
  (match o with Some s1 => (if declared sh s1 then (Build_frame (Build_mach true (Some s1) (fin m) (upd (sdat m) s1 (((sdat m) s1) <| ran := false |>)) (dur m)) None 0 ([]) false false) else (Build_frame m None 0 ([]) true false)) | None => (Build_frame (Build_mach true None (fin m) (sdat m) (dur m)) None 0 ([]) false true) end).

(* END translator output *)
