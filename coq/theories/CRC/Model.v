(* Model of robotpy_ext/misc/crc7.py.  No proofs in this file. *)
From Coq Require Import NArith List Bool.
Import ListNotations.
Open Scope N_scope.

(* One step of the bit-serial, reflected (LSB first) CRC with polynomial 0x91. *)
Definition round1 (c : N) : N :=
  N.shiftr (if N.testbit c 0 then N.lxor c 145 else c) 1.

Definition rounds8 (c : N) : N :=
  round1 (round1 (round1 (round1 (round1 (round1 (round1 (round1 c))))))).

(* Reference: the bit-serial CRC over bytes, initial value 0. *)
Definition crc_bitwise (data : list N) : N :=
  fold_left (fun c d => rounds8 (N.lxor c d)) data 0.

(* The implementation:  csum = table[d ^ csum]  for each d. A missing entry
   (index outside the table) is an IndexError in Python; [crc_table_opt]
   keeps that visible, [crc_table] is the totalised version used when the
   table is known to have 256 entries. *)
Definition crc_table (T : list N) (data : list N) : N :=
  fold_left (fun c d => nth (N.to_nat (N.lxor d c)) T 0) data 0.

Definition crc_table_opt (T : list N) (data : list N) : option N :=
  fold_left (fun oc d => match oc with
                         | Some c => nth_error T (N.to_nat (N.lxor d c))
                         | None => None end) data (Some 0).

Definition bitwise_table : list N := map (fun i => rounds8 (N.of_nat i)) (seq 0 256).

Definition table_ok (T : list N) : bool :=
  if list_eq_dec N.eq_dec T bitwise_table then true else false.

(* Bit-level view: a message is the list of its bits, byte by byte, least
   significant bit first. *)
Definition bits_of_byte (d : N) : list bool :=
  map (fun i => N.testbit d (N.of_nat i)) (seq 0 8).
Definition bits_of_bytes (data : list N) : list bool := flat_map bits_of_byte data.

Definition b2n (b : bool) : N := if b then 1 else 0.
Fixpoint byte_of_bits (bs : list bool) : N :=
  match bs with [] => 0 | b :: r => b2n b + 2 * byte_of_bits r end.
Fixpoint bytes_of_bits (n : nat) (bs : list bool) : list N :=
  match n with
  | O => []
  | S k => byte_of_bits (firstn 8 bs) :: bytes_of_bits k (skipn 8 bs)
  end.

Definition crc_bits (bs : list bool) : N :=
  fold_left (fun c b => round1 (N.lxor c (b2n b))) bs 0.

(* Error patterns: xor of two bit lists (of equal length), applied to bytes. *)
Fixpoint xorb_list (a b : list bool) : list bool :=
  match a, b with
  | x :: a', y :: b' => xorb x y :: xorb_list a' b'
  | _, _ => a
  end.
Fixpoint xor_bytes (a b : list N) : list N :=
  match a, b with
  | x :: a', y :: b' => N.lxor x y :: xor_bytes a' b'
  | _, _ => a
  end.
Definition is_byte (d : N) : Prop := d < 256.

(* Flip the bits of [data] at the (LSB-first, message-wide) positions where
   [err] is true; [err] has exactly 8 * length data bits. *)
Definition apply_error (err : list bool) (data : list N) : list N :=
  xor_bytes data (bytes_of_bits (length data) err).

(* The three families of error patterns of the property. *)
Definition zeros (n : nat) : list bool := repeat false n.
Definition single_bit (pre post : nat) : list bool := zeros pre ++ [true] ++ zeros post.
Definition double_bit (pre gap post : nat) : list bool :=
  zeros pre ++ [true] ++ zeros gap ++ [true] ++ zeros post.
(* a burst: first bit set, then up to 6 arbitrary bits *)
Definition burst (pre : nat) (mid : list bool) (post : nat) : list bool :=
  zeros pre ++ [true] ++ mid ++ zeros post.
