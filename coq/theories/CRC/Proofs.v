From Coq Require Import NArith List Bool Lia Arith.
From RV Require Import CRC.Model.
Import ListNotations.
Open Scope N_scope.

(* ------------------------------------------------------------------ *)
(* Finite sweeps and how they lift to "for all n < bound"               *)

Definition upto (n : nat) : list N := map N.of_nat (seq 0 n).

Lemma in_upto n (x : N) : x < N.of_nat n -> In x (upto n).
Proof.
  intros H. unfold upto. rewrite <- (N2Nat.id x). apply in_map.
  apply in_seq. lia.
Qed.

Lemma sweep1 (P : N -> bool) n :
  forallb P (upto n) = true -> forall x, x < N.of_nat n -> P x = true.
Proof. intros H x Hx. rewrite forallb_forall in H. apply H, in_upto, Hx. Qed.

Lemma sweep2 (P : N -> N -> bool) n m :
  forallb (fun x => forallb (P x) (upto m)) (upto n) = true ->
  forall x y, x < N.of_nat n -> y < N.of_nat m -> P x y = true.
Proof.
  intros H x y Hx Hy.
  pose proof (sweep1 _ _ H x Hx) as H1. cbv beta in H1.
  exact (sweep1 _ _ H1 y Hy).
Qed.

(* ------------------------------------------------------------------ *)
(* Facts about the round function                                       *)

Lemma round1_0 : round1 0 = 0.
Proof. reflexivity. Qed.

Lemma round1_lt128 c : c < 256 -> round1 c < 128.
Proof.
  intros H.
  assert (E : (round1 c <? 128) = true);
    [| apply N.ltb_lt; exact E].
  revert c H. apply (sweep1 (fun c => round1 c <? 128) 256). vm_compute. reflexivity.
Qed.

Lemma rounds8_lt128 c : c < 256 -> rounds8 c < 128.
Proof.
  intros H.
  assert (E : (rounds8 c <? 128) = true); [| apply N.ltb_lt; exact E].
  revert c H. apply (sweep1 (fun c => rounds8 c <? 128) 256). vm_compute. reflexivity.
Qed.

Lemma lxor_lt256 a b : a < 256 -> b < 256 -> N.lxor a b < 256.
Proof.
  intros Ha Hb.
  assert (E : (N.lxor a b <? 256) = true); [| apply N.ltb_lt; exact E].
  revert a b Ha Hb. apply (sweep2 (fun a b => N.lxor a b <? 256) 256 256).
  vm_compute. reflexivity.
Qed.

Lemma lt128_lt256 a : a < 128 -> a < 256.
Proof. lia. Qed.

Lemma round1_lin a b : a < 256 -> b < 256 ->
  round1 (N.lxor a b) = N.lxor (round1 a) (round1 b).
Proof.
  intros Ha Hb. apply N.eqb_eq. revert a b Ha Hb.
  apply (sweep2 (fun a b => round1 (N.lxor a b) =? N.lxor (round1 a) (round1 b)) 256 256).
  vm_compute. reflexivity.
Qed.

Lemma rounds8_lin a b : a < 256 -> b < 256 ->
  rounds8 (N.lxor a b) = N.lxor (rounds8 a) (rounds8 b).
Proof.
  intros Ha Hb. apply N.eqb_eq. revert a b Ha Hb.
  apply (sweep2 (fun a b => rounds8 (N.lxor a b) =? N.lxor (rounds8 a) (rounds8 b)) 256 256).
  vm_compute. reflexivity.
Qed.

Lemma round1_nonzero c : c < 128 -> c <> 0 -> round1 c <> 0.
Proof.
  intros Hc Hn E. apply Hn.
  assert (X : implb (round1 c =? 0) (c =? 0) = true).
  { clear Hn E. revert c Hc.
    apply (sweep1 (fun c => implb (round1 c =? 0) (c =? 0)) 128).
    vm_compute. reflexivity. }
  rewrite E in X. simpl in X. apply N.eqb_eq. exact X.
Qed.

(* ------------------------------------------------------------------ *)
(* The table                                                            *)

Lemma table_ok_eq T : table_ok T = true -> T = bitwise_table.
Proof. unfold table_ok. destruct (list_eq_dec N.eq_dec T bitwise_table); congruence. Qed.

Lemma bitwise_table_nth i : i < 256 ->
  nth (N.to_nat i) bitwise_table 0 = rounds8 i.
Proof.
  intros H. unfold bitwise_table.
  change 0 with ((fun i => rounds8 (N.of_nat i)) 0%nat) at 1.
  rewrite map_nth. rewrite seq_nth by lia. simpl. rewrite N2Nat.id. reflexivity.
Qed.

Lemma bitwise_table_length : length bitwise_table = 256%nat.
Proof. unfold bitwise_table. rewrite map_length, seq_length. reflexivity. Qed.

(* general fold lemma: table lookup = bitwise step, state stays below 128 *)
Lemma fold_table_bitwise data : Forall is_byte data -> forall c, c < 128 ->
  fold_left (fun c d => nth (N.to_nat (N.lxor d c)) bitwise_table 0) data c
  = fold_left (fun c d => rounds8 (N.lxor c d)) data c
  /\ fold_left (fun c d => rounds8 (N.lxor c d)) data c < 128.
Proof.
  induction 1 as [|d data Hd _ IH]; intros c Hc; cbn [fold_left].
  - split; [reflexivity | exact Hc].
  - assert (Hx : N.lxor d c < 256) by (apply lxor_lt256; [exact Hd | lia]).
    rewrite bitwise_table_nth by exact Hx.
    rewrite (N.lxor_comm d c).
    apply IH. apply rounds8_lt128. rewrite N.lxor_comm. exact Hx.
Qed.

Theorem table_equals_bitwise T data :
  table_ok T = true -> Forall is_byte data -> crc_table T data = crc_bitwise data.
Proof.
  intros HT Hd. apply table_ok_eq in HT. subst T.
  unfold crc_table, crc_bitwise. apply fold_table_bitwise; [exact Hd | reflexivity].
Qed.

Theorem crc_seven_bits data : Forall is_byte data -> crc_bitwise data < 128.
Proof. intros Hd. unfold crc_bitwise. apply fold_table_bitwise; [exact Hd | reflexivity]. Qed.

(* the partial (Python: IndexError) version never fails on bytes *)
Theorem table_opt_total T data :
  table_ok T = true -> Forall is_byte data ->
  crc_table_opt T data = Some (crc_bitwise data).
Proof.
  intros HT Hd. apply table_ok_eq in HT. subst T.
  unfold crc_table_opt, crc_bitwise.
  assert (G : forall c, c < 128 ->
     fold_left (fun oc d => match oc with
                         | Some c => nth_error bitwise_table (N.to_nat (N.lxor d c))
                         | None => None end) data (Some c)
     = Some (fold_left (fun c d => rounds8 (N.lxor c d)) data c)).
  { induction Hd as [|d data Hd _ IH]; intros c Hc; cbn [fold_left]; [reflexivity|].
    assert (Hx : N.lxor d c < 256) by (apply lxor_lt256; [exact Hd | lia]).
    rewrite (nth_error_nth' bitwise_table 0)
      by (rewrite bitwise_table_length; lia).
    rewrite bitwise_table_nth by exact Hx. rewrite (N.lxor_comm d c).
    apply IH. apply rounds8_lt128. rewrite N.lxor_comm. exact Hx. }
  apply G. reflexivity.
Qed.

(* ------------------------------------------------------------------ *)
(* Linearity over XOR for equal-length messages                         *)

Lemma lxor_swap4 a b c d :
  N.lxor (N.lxor a b) (N.lxor c d) = N.lxor (N.lxor a c) (N.lxor b d).
Proof.
  rewrite !N.lxor_assoc. f_equal. rewrite <- !N.lxor_assoc. f_equal. apply N.lxor_comm.
Qed.

Lemma fold_bitwise_lin a : Forall is_byte a -> forall b, Forall is_byte b ->
  length a = length b -> forall c1 c2, c1 < 128 -> c2 < 128 ->
  fold_left (fun c d => rounds8 (N.lxor c d)) (xor_bytes a b) (N.lxor c1 c2)
  = N.lxor (fold_left (fun c d => rounds8 (N.lxor c d)) a c1)
           (fold_left (fun c d => rounds8 (N.lxor c d)) b c2).
Proof.
  induction 1 as [|x a Hx _ IH]; intros b Hb Hl c1 c2 H1 H2.
  - destruct b; [reflexivity | discriminate].
  - destruct b as [|y b]; [discriminate|]. inversion Hb as [|? ? Hy Hb']; subst.
    cbn [xor_bytes fold_left].
    rewrite lxor_swap4.
    rewrite rounds8_lin by (apply lxor_lt256; unfold is_byte in *; lia).
    apply IH; [exact Hb' | simpl in Hl; lia | |];
      apply rounds8_lt128, lxor_lt256; unfold is_byte in *; lia.
Qed.

Theorem crc_linear a b :
  Forall is_byte a -> Forall is_byte b -> length a = length b ->
  crc_bitwise (xor_bytes a b) = N.lxor (crc_bitwise a) (crc_bitwise b).
Proof.
  intros Ha Hb Hl. unfold crc_bitwise.
  change 0 with (N.lxor 0 0) at 1.
  apply fold_bitwise_lin; try assumption; reflexivity.
Qed.

Lemma xor_bytes_is_byte a : Forall is_byte a -> forall b, Forall is_byte b ->
  Forall is_byte (xor_bytes a b).
Proof.
  induction 1 as [|x a Hx Ha IH]; intros b Hb; [constructor|].
  destruct b as [|y b]; cbn [xor_bytes]; [constructor; assumption|].
  inversion Hb; subst. constructor; [apply lxor_lt256; assumption | apply IH; assumption].
Qed.

(* ------------------------------------------------------------------ *)
(* Bytes <-> bits                                                       *)

Definition bitstep (c : N) (b : bool) : N := round1 (N.lxor c (b2n b)).

Lemma byte_is_8_bitsteps c d : c < 128 -> d < 256 ->
  rounds8 (N.lxor c d) = fold_left bitstep (bits_of_byte d) c.
Proof.
  intros Hc Hd. apply N.eqb_eq. revert c d Hc Hd.
  apply (sweep2 (fun c d => rounds8 (N.lxor c d) =? fold_left bitstep (bits_of_byte d) c) 128 256).
  vm_compute. reflexivity.
Qed.

Lemma fold_bytes_bits data : Forall is_byte data -> forall c, c < 128 ->
  fold_left (fun c d => rounds8 (N.lxor c d)) data c
  = fold_left bitstep (bits_of_bytes data) c.
Proof.
  induction 1 as [|d data Hd _ IH]; intros c Hc; [reflexivity|].
  cbn [fold_left bits_of_bytes flat_map]. rewrite fold_left_app.
  rewrite <- byte_is_8_bitsteps by assumption.
  apply IH. apply rounds8_lt128, lxor_lt256; unfold is_byte in *; lia.
Qed.

Theorem bitwise_is_bit_serial data : Forall is_byte data ->
  crc_bitwise data = crc_bits (bits_of_bytes data).
Proof. intros H. unfold crc_bitwise, crc_bits. apply fold_bytes_bits; [exact H | reflexivity]. Qed.

Lemma b2n_lt256 b : b2n b < 256.
Proof. destruct b; reflexivity. Qed.

Lemma bitstep_lt128 c b : c < 128 -> bitstep c b < 128.
Proof. intros H. apply round1_lt128, lxor_lt256; [lia | apply b2n_lt256]. Qed.

Lemma fold_bitstep_lt128 bs : forall c, c < 128 -> fold_left bitstep bs c < 128.
Proof. induction bs as [|b bs IH]; intros c H; [exact H|]. apply IH, bitstep_lt128, H. Qed.

Lemma b2n_xorb x y : b2n (xorb x y) = N.lxor (b2n x) (b2n y).
Proof. destruct x, y; reflexivity. Qed.

Lemma fold_bits_lin a : forall b, length a = length b ->
  forall c1 c2, c1 < 128 -> c2 < 128 ->
  fold_left bitstep (xorb_list a b) (N.lxor c1 c2)
  = N.lxor (fold_left bitstep a c1) (fold_left bitstep b c2).
Proof.
  induction a as [|x a IH]; intros b Hl c1 c2 H1 H2.
  - destruct b; [reflexivity | discriminate].
  - destruct b as [|y b]; [discriminate|]. cbn [xorb_list fold_left].
    change (bitstep (N.lxor c1 c2) (xorb x y))
      with (round1 (N.lxor (N.lxor c1 c2) (b2n (xorb x y)))).
    rewrite b2n_xorb, lxor_swap4.
    rewrite round1_lin by (apply lxor_lt256; [lia | apply b2n_lt256]).
    fold (bitstep c1 x). fold (bitstep c2 y).
    apply IH; [simpl in Hl; lia | apply bitstep_lt128; assumption ..].
Qed.

Lemma crc_bits_lin a b : length a = length b ->
  crc_bits (xorb_list a b) = N.lxor (crc_bits a) (crc_bits b).
Proof.
  intros Hl. unfold crc_bits. fold bitstep. change 0 with (N.lxor 0 0) at 1.
  apply fold_bits_lin; [exact Hl | reflexivity | reflexivity].
Qed.

(* bits_of_byte / byte_of_bits *)
Lemma bits_of_byte_lxor x y :
  bits_of_byte (N.lxor x y) = xorb_list (bits_of_byte x) (bits_of_byte y).
Proof. unfold bits_of_byte. cbn [seq map xorb_list]. rewrite !N.lxor_spec. reflexivity. Qed.

Lemma bits_of_byte_length d : length (bits_of_byte d) = 8%nat.
Proof. reflexivity. Qed.

Lemma xorb_list_app a1 : forall b1 a2 b2, length a1 = length b1 ->
  xorb_list (a1 ++ a2) (b1 ++ b2) = xorb_list a1 b1 ++ xorb_list a2 b2.
Proof.
  induction a1 as [|x a1 IH]; intros [|y b1] a2 b2 Hl; try discriminate; [reflexivity|].
  cbn [app xorb_list]. f_equal. apply IH. simpl in Hl. lia.
Qed.

Lemma byte_of_bits_8 (l : list bool) : length l = 8%nat ->
  byte_of_bits l < 256 /\ bits_of_byte (byte_of_bits l) = l.
Proof.
  intros H.
  do 9 (destruct l as [|[] l]; try discriminate); vm_compute; split; reflexivity.
Qed.

Lemma bytes_of_bits_spec n : forall bs, length bs = (8 * n)%nat ->
  Forall is_byte (bytes_of_bits n bs) /\ bits_of_bytes (bytes_of_bits n bs) = bs
  /\ length (bytes_of_bits n bs) = n.
Proof.
  induction n as [|n IH]; intros bs Hl.
  - destruct bs; [|discriminate]. repeat split. constructor.
  - cbn [bytes_of_bits bits_of_bytes flat_map].
    assert (H8 : length (firstn 8 bs) = 8%nat) by (rewrite firstn_length; lia).
    assert (Hr : length (skipn 8 bs) = (8 * n)%nat) by (rewrite skipn_length; lia).
    destruct (byte_of_bits_8 _ H8) as [Hb Hbits].
    destruct (IH _ Hr) as (Hf & Hbs & Hlen).
    split; [constructor; assumption|]. split.
    + rewrite Hbits. fold (bits_of_bytes (bytes_of_bits n (skipn 8 bs))). rewrite Hbs.
      apply firstn_skipn.
    + simpl. f_equal. exact Hlen.
Qed.

Lemma bits_of_bytes_length data : length (bits_of_bytes data) = (8 * length data)%nat.
Proof.
  induction data as [|d data IH]; [reflexivity|].
  cbn [bits_of_bytes flat_map]. rewrite app_length. fold (bits_of_bytes data).
  rewrite IH, bits_of_byte_length. simpl. lia.
Qed.

Lemma bits_of_xor_bytes a : forall b, length a = length b ->
  bits_of_bytes (xor_bytes a b) = xorb_list (bits_of_bytes a) (bits_of_bytes b).
Proof.
  induction a as [|x a IH]; intros [|y b] Hl; try discriminate; [reflexivity|].
  cbn [xor_bytes bits_of_bytes flat_map].
  rewrite xorb_list_app by reflexivity. rewrite bits_of_byte_lxor. f_equal.
  apply IH. simpl in Hl. lia.
Qed.

Lemma xor_bytes_length a : forall b, length (xor_bytes a b) = length a.
Proof.
  induction a as [|x a IH]; intros [|y b]; try reflexivity.
  cbn [xor_bytes length]. f_equal. apply IH.
Qed.

(* What [apply_error] does, at the bit level: it flips exactly the marked bits. *)
Theorem apply_error_flips err data : length err = (8 * length data)%nat ->
  bits_of_bytes (apply_error err data) = xorb_list (bits_of_bytes data) err
  /\ length (apply_error err data) = length data.
Proof.
  intros Hl. unfold apply_error.
  destruct (bytes_of_bits_spec (length data) err Hl) as (Hf & Hbs & Hlen).
  split.
  - rewrite bits_of_xor_bytes by (symmetry; exact Hlen). rewrite Hbs. reflexivity.
  - apply xor_bytes_length.
Qed.

Theorem crc_of_error err data : Forall is_byte data ->
  length err = (8 * length data)%nat ->
  crc_bitwise (apply_error err data) = N.lxor (crc_bitwise data) (crc_bits err).
Proof.
  intros Hd Hl. unfold apply_error.
  destruct (bytes_of_bits_spec (length data) err Hl) as (Hf & Hbs & Hlen).
  rewrite crc_linear by (try assumption; symmetry; exact Hlen).
  f_equal. rewrite bitwise_is_bit_serial by exact Hf. rewrite Hbs. reflexivity.
Qed.

(* ------------------------------------------------------------------ *)
(* Error detection: crc_bits of each error pattern is non-zero          *)

Lemma fold_zeros_0 n : fold_left bitstep (zeros n) 0 = 0.
Proof. induction n as [|n IH]; [reflexivity|]. cbn [zeros repeat fold_left]. exact IH. Qed.

Lemma fold_zeros_nonzero n : forall c, c < 128 -> c <> 0 ->
  fold_left bitstep (zeros n) c <> 0.
Proof.
  induction n as [|n IH]; intros c Hc Hn; [exact Hn|].
  cbn [zeros repeat fold_left]. apply IH.
  - apply bitstep_lt128, Hc.
  - unfold bitstep. cbn [b2n]. rewrite N.lxor_0_r. apply round1_nonzero; assumption.
Qed.

Lemma fold_zeros_iter n : forall c,
  fold_left bitstep (zeros n) c = Nat.iter n round1 c.
Proof.
  induction n as [|n IH]; intros c; [reflexivity|].
  cbn [zeros repeat fold_left]. rewrite IH. unfold bitstep. cbn [b2n]. rewrite N.lxor_0_r.
  clear IH. revert c. induction n as [|n IH]; intros c; [reflexivity|].
  change (Nat.iter (S n) round1 (round1 c)) with (round1 (Nat.iter n round1 (round1 c))).
  rewrite IH. reflexivity.
Qed.

(* pattern = zeros pre ++ core ++ zeros post: the leading zeros leave the
   register at 0, the trailing ones keep a non-zero register non-zero. *)
Lemma framed_nonzero pre core post :
  fold_left bitstep core 0 <> 0 ->
  crc_bits (zeros pre ++ core ++ zeros post) <> 0.
Proof.
  intros H. unfold crc_bits. fold bitstep. rewrite !fold_left_app, fold_zeros_0.
  apply fold_zeros_nonzero; [apply fold_bitstep_lt128; reflexivity | exact H].
Qed.

Theorem single_bit_nonzero pre post : crc_bits (single_bit pre post) <> 0.
Proof. unfold single_bit. apply framed_nonzero. vm_compute. discriminate. Qed.

(* all bit lists of a given length *)
Fixpoint all_bools (n : nat) : list (list bool) :=
  match n with
  | O => [[]]
  | S k => map (cons true) (all_bools k) ++ map (cons false) (all_bools k)
  end.
Lemma in_all_bools l : In l (all_bools (length l)).
Proof.
  induction l as [|b l IH]; [left; reflexivity|].
  cbn [length all_bools]. apply in_or_app. destruct b; [left | right]; apply in_map, IH.
Qed.

Definition burst_core_ok (mid : list bool) : bool :=
  negb (fold_left bitstep (true :: mid) 0 =? 0).

Lemma burst_sweep : forallb (fun n => forallb burst_core_ok (all_bools n)) (seq 0 7) = true.
Proof. vm_compute. reflexivity. Qed.

Theorem burst_nonzero pre mid post : (length mid <= 6)%nat ->
  crc_bits (burst pre mid post) <> 0.
Proof.
  intros Hl. unfold burst.
  change (zeros pre ++ [true] ++ mid ++ zeros post)
    with (zeros pre ++ (true :: mid) ++ zeros post).
  apply framed_nonzero.
  pose proof burst_sweep as S. rewrite forallb_forall in S.
  specialize (S (length mid)). rewrite forallb_forall in S.
  assert (Hin : In (length mid) (seq 0 7)) by (apply in_seq; lia).
  specialize (S Hin mid (in_all_bools mid)).
  unfold burst_core_ok in S. apply negb_true_iff, N.eqb_neq in S. exact S.
Qed.

Definition double_ok (gap : nat) : bool :=
  negb (round1 (N.lxor (Nat.iter gap round1 (round1 1)) 1) =? 0).

Lemma double_sweep : forallb double_ok (seq 0 126) = true.
Proof. vm_compute. reflexivity. Qed.

(* the two flipped bits are gap+1 positions apart *)
Theorem double_bit_nonzero pre gap post : (gap + 1 < 127)%nat ->
  crc_bits (double_bit pre gap post) <> 0.
Proof.
  intros Hg. unfold double_bit.
  replace (zeros pre ++ [true] ++ zeros gap ++ [true] ++ zeros post)
    with (zeros pre ++ ([true] ++ zeros gap ++ [true]) ++ zeros post)
    by (rewrite <- !app_assoc; reflexivity).
  apply framed_nonzero.
  rewrite !fold_left_app. cbn [fold_left app]. rewrite fold_zeros_iter.
  pose proof double_sweep as S. rewrite forallb_forall in S.
  assert (Hin : In gap (seq 0 126)) by (apply in_seq; lia).
  specialize (S gap Hin). unfold double_ok in S.
  apply negb_true_iff, N.eqb_neq in S.
  unfold bitstep at 1. unfold bitstep at 1. cbn [b2n]. exact S.
Qed.

(* The period of the register is exactly 127: the bound in the double-bit
   clause is tight (two flips 127 apart are NOT detected). *)
Example double_bit_127_undetected : crc_bits (double_bit 0 126 0) = 0.
Proof. vm_compute. reflexivity. Qed.

(* ------------------------------------------------------------------ *)
(* Byte-level detection statements                                      *)

Lemma lxor_ne_self a e : e <> 0 -> N.lxor a e <> a.
Proof.
  intros He E. apply He.
  assert (H : N.lxor a (N.lxor a e) = N.lxor a a) by (rewrite E; reflexivity).
  rewrite <- N.lxor_assoc, N.lxor_nilpotent, N.lxor_0_l in H. exact H.
Qed.

Theorem detects err data :
  Forall is_byte data -> length err = (8 * length data)%nat ->
  crc_bits err <> 0 ->
  crc_bitwise (apply_error err data) <> crc_bitwise data.
Proof. intros Hd Hl He. rewrite crc_of_error by assumption. apply lxor_ne_self, He. Qed.

Lemma apply_error_is_byte err data : Forall is_byte data ->
  length err = (8 * length data)%nat -> Forall is_byte (apply_error err data).
Proof.
  intros Hd Hl. unfold apply_error. apply xor_bytes_is_byte; [exact Hd|].
  apply bytes_of_bits_spec, Hl.
Qed.
