(* C06 (and the counting parts of C05/C11): properties of the specified call
   sequence [spec_sites], for every robot layout and every tick history. *)
From Coq Require Import ZArith List Bool Lia Arith FinFun.
Import ListNotations.
From RV Require Import Robot.Model.

Definition site_eq_dec : forall a b : site, {a = b} + {a <> b}.
Proof. decide equality; try apply Nat.eq_dec; decide equality. Defined.

Definition is_setup (s : site) : bool := match s with SSetup _ => true | _ => false end.
Definition is_execute (s : site) : bool := match s with SExecute _ => true | _ => false end.

Section P.
Variable c : cfg.

(* ------------------------------------------------------------------ *)
(* setup(): once per component that has one, before every other callback *)
Lemma filter_sites_in has f i : (forall a b, f a = f b -> a = b) ->
  In (f i) (filter_sites c has f) <-> (i < ncomp c)%nat /\ has i = true.
Proof.
  intros Hinj. unfold filter_sites, comps. rewrite in_map_iff. split.
  - intros (j & Hj & Hin). apply Hinj in Hj. subst j. apply filter_In in Hin. rewrite in_seq in Hin. split; [lia | tauto].
  - intros [H1 H2]. exists i. split; [reflexivity|]. apply filter_In. split; [apply in_seq; lia | exact H2].
Qed.

Lemma filter_sites_nodup has f : (forall a b, f a = f b -> a = b) -> NoDup (filter_sites c has f).
Proof.
  intros Hinj. unfold filter_sites. apply Injective_map_NoDup; [exact Hinj|].
  apply NoDup_filter, seq_NoDup.
Qed.

Lemma no_setup_filter has f : (forall i, is_setup (f i) = false) -> forallb (fun s => negb (is_setup s)) (filter_sites c has f) = true.
Proof.
  intros H. unfold filter_sites. rewrite forallb_forall. intros s Hin. apply in_map_iff in Hin.
  destruct Hin as (i & <- & _). rewrite H. reflexivity.
Qed.

Definition no_setup (l : list site) : bool := forallb (fun s => negb (is_setup s)) l.
Lemma no_setup_app a b : no_setup (a ++ b) = no_setup a && no_setup b.
Proof. apply forallb_app. Qed.

Lemma no_setup_fb : no_setup (fb_sites c) = true.
Proof.
  unfold fb_sites. rewrite no_setup_app. cbn. rewrite andb_true_r.
  unfold no_setup. rewrite forallb_forall. intros s Hin. apply in_map_iff in Hin. destruct Hin as (j & <- & _). reflexivity.
Qed.
Lemma no_setup_exec : no_setup (exec_sites c) = true.
Proof.
  unfold exec_sites, no_setup. rewrite forallb_forall. intros s Hin. apply in_map_iff in Hin.
  destruct Hin as (j & <- & _). reflexivity.
Qed.
Lemma no_setup_enter m : no_setup (enter_sites c m) = true.
Proof.
  destruct m; unfold enter_sites; rewrite ?no_setup_app; unfold no_setup at 1;
    rewrite ?no_setup_filter by reflexivity; cbn; try reflexivity.
  destruct (has_auto c); reflexivity.
Qed.
Lemma no_setup_iter m : no_setup (iter_sites c m) = true.
Proof.
  destruct m; unfold iter_sites; rewrite ?no_setup_app, ?no_setup_fb, ?no_setup_exec; cbn; try reflexivity.
  destruct (has_auto c), (teleop_in_auto c); reflexivity.
Qed.
Lemma no_setup_leave m : no_setup (leave_sites c m) = true.
Proof.
  destruct m; unfold leave_sites; rewrite ?no_setup_app; try reflexivity.
  - unfold no_setup at 2. rewrite no_setup_filter by reflexivity. destruct (has_auto c); reflexivity.
  - unfold no_setup. apply no_setup_filter. reflexivity.
Qed.
Lemma no_setup_tick cur t : no_setup (snd (tick_sites c cur t)) = true.
Proof.
  destruct t as [en au te| |fb]; cbn [tick_sites].
  - destruct cur as [m|]; [destruct (stays m en au te)|]; cbn [snd];
      rewrite ?no_setup_app, ?no_setup_leave, ?no_setup_enter, ?no_setup_iter; reflexivity.
  - destruct cur; cbn [snd]; [apply no_setup_leave | reflexivity].
  - reflexivity.
Qed.
Lemma no_setup_ticks ts : forall cur, no_setup (ticks_sites c cur ts) = true.
Proof.
  induction ts as [|t r IH]; intros cur; cbn [ticks_sites]; [reflexivity|].
  pose proof (no_setup_tick cur t) as H. destruct (tick_sites c cur t) as [cur' s]. cbn [snd] in H.
  destruct t; [rewrite no_setup_app, H, IH; reflexivity | exact H | rewrite no_setup_app, H, IH; reflexivity].
Qed.

Theorem setup_once_first ts :
  spec_sites c ts = startup_sites c ++ ticks_sites c None ts /\
  NoDup (startup_sites c) /\
  (forall i, In (SSetup i) (startup_sites c) <-> (i < ncomp c)%nat /\ has_setup c i = true) /\
  (forall s, In s (startup_sites c) -> is_setup s = true) /\
  (forall s, In s (ticks_sites c None ts) -> is_setup s = false).
Proof.
  split; [reflexivity|]. split; [apply filter_sites_nodup; intros a b H; injection H; auto|].
  split; [intros i; apply filter_sites_in; intros a b H; injection H; auto|]. split.
  - intros s Hin. unfold startup_sites, filter_sites in Hin. apply in_map_iff in Hin. destruct Hin as (i & <- & _). reflexivity.
  - intros s Hin. pose proof (no_setup_ticks ts None) as H. unfold no_setup in H. rewrite forallb_forall in H.
    apply negb_true_iff, H, Hin.
Qed.

(* ------------------------------------------------------------------ *)
(* execute() only between on_enable() and the next on_disable()         *)
Definition flags := nat -> bool.

Fixpoint brk (en : flags) (l : list site) : option flags :=
  match l with
  | [] => Some en
  | SOnEnable i :: r => brk (updn en i true) r
  | SOnDisable i :: r => brk (updn en i false) r
  | SExecute i :: r => if negb (has_enable c i) || en i then brk en r else None
  | _ :: r => brk en r
  end.

Lemma brk_app en a b : brk en (a ++ b) = match brk en a with Some en' => brk en' b | None => None end.
Proof.
  revert en. induction a as [|s a IH]; intros en; cbn [app brk]; [reflexivity|].
  destruct s; try apply IH. destruct (negb (has_enable c i) || en i); [apply IH | reflexivity].
Qed.

Definition neutral (s : site) : bool :=
  match s with SOnEnable _ | SOnDisable _ | SExecute _ => false | _ => true end.
Lemma brk_neutral en l : forallb neutral l = true -> brk en l = Some en.
Proof.
  induction l as [|s l IH]; cbn [forallb brk]; [reflexivity|]. intros H. apply andb_true_iff in H.
  destruct H as [H1 H2]. destruct s; try discriminate; apply IH, H2.
Qed.

(* pointwise version (no functional extensionality needed) *)
Lemma brk_enable en l : exists en', brk en (map SOnEnable l) = Some en' /\
  forall i, en' i = if existsb (Nat.eqb i) l then true else en i.
Proof.
  revert en. induction l as [|x l IH]; intros en; cbn [map brk existsb].
  - exists en. auto.
  - destruct (IH (updn en x true)) as (en' & H1 & H2). exists en'. split; [exact H1|].
    intros i. rewrite H2. unfold updn. destruct (Nat.eqb i x); cbn; destruct (existsb (Nat.eqb i) l); reflexivity.
Qed.
Lemma brk_disable en l : exists en', brk en (map SOnDisable l) = Some en'.
Proof.
  revert en. induction l as [|x l IH]; intros en; cbn [map brk]; [eauto | apply IH].
Qed.
Lemma brk_exec en l : (forall i, In i l -> has_enable c i = true -> en i = true) ->
  brk en (map SExecute l) = Some en.
Proof.
  induction l as [|x l IH]; intros H; cbn [map brk]; [reflexivity|].
  destruct (has_enable c x) eqn:E; cbn.
  - rewrite (H x (or_introl eq_refl) E). apply IH. intros i Hi. apply H. right. exact Hi.
  - apply IH. intros i Hi. apply H. right. exact Hi.
Qed.

Definition all_enabled (en : flags) : Prop :=
  forall i, (i < ncomp c)%nat -> has_enable c i = true -> en i = true.
Definition G (cur : option mode) (en : flags) : Prop :=
  (cur = Some Auto \/ cur = Some Teleop) -> all_enabled en.

Lemma in_filter_comps has i : In i (filter has (comps c)) <-> (i < ncomp c)%nat /\ has i = true.
Proof. unfold comps. rewrite filter_In, in_seq. split; intros [H1 H2]; split; auto; lia. Qed.

Lemma existsb_eqb_in i l : existsb (Nat.eqb i) l = true <-> In i l.
Proof.
  rewrite existsb_exists. split.
  - intros (x & Hin & He). apply Nat.eqb_eq in He. subst. exact Hin.
  - intros H. exists i. split; [exact H | apply Nat.eqb_refl].
Qed.

Lemma brk_on_enable en : exists en', brk en (filter_sites c (has_enable c) SOnEnable) = Some en' /\ all_enabled en'.
Proof.
  unfold filter_sites. destruct (brk_enable en (filter (has_enable c) (comps c))) as (en' & H1 & H2).
  exists en'. split; [exact H1|]. intros i Hi He. rewrite H2.
  replace (existsb (Nat.eqb i) (filter (has_enable c) (comps c))) with true; [reflexivity|].
  symmetry. apply existsb_eqb_in, in_filter_comps. auto.
Qed.
Lemma brk_on_disable en : exists en', brk en (filter_sites c (has_disable c) SOnDisable) = Some en'.
Proof. apply brk_disable. Qed.

Lemma neutral_fb : forallb neutral (fb_sites c) = true.
Proof.
  unfold fb_sites. rewrite forallb_app. cbn. rewrite andb_true_r. rewrite forallb_forall.
  intros s Hin. apply in_map_iff in Hin. destruct Hin as (j & <- & _). reflexivity.
Qed.

Lemma brk_execs en : all_enabled en -> brk en (exec_sites c) = Some en.
Proof.
  intros H. unfold exec_sites. apply brk_exec. intros i Hi He. apply H; [|exact He].
  unfold comps in Hi. apply in_seq in Hi. lia.
Qed.

Definition enabled_mode_b (m : mode) : bool := match m with Auto | Teleop => true | _ => false end.

Lemma brk_iter m en : (enabled_mode_b m = true -> all_enabled en) -> brk en (iter_sites c m) = Some en.
Proof.
  intros H. destruct m; unfold iter_sites.
  - rewrite brk_app. cbn [brk]. apply brk_neutral, neutral_fb.
  - specialize (H eq_refl).
    rewrite brk_app, (brk_neutral en (if has_auto c then [SAutoIter] else [])) by (destruct (has_auto c); reflexivity).
    rewrite brk_app, (brk_neutral en (if teleop_in_auto c then [SPeriodic Teleop] else [])) by (destruct (teleop_in_auto c); reflexivity).
    rewrite brk_app, (brk_execs en H). apply brk_neutral, neutral_fb.
  - specialize (H eq_refl). rewrite brk_app. cbn [brk]. rewrite brk_app, (brk_execs en H). apply brk_neutral, neutral_fb.
  - rewrite brk_app. cbn [brk]. apply brk_neutral, neutral_fb.
Qed.

Lemma brk_enter m en : exists en', brk en (enter_sites c m) = Some en' /\ (enabled_mode_b m = true -> all_enabled en').
Proof.
  destruct m; unfold enter_sites.
  - destruct (brk_on_disable en) as (en' & H). exists en'. rewrite brk_app, H. cbn. split; [reflexivity | discriminate].
  - destruct (brk_on_enable en) as (en' & H1 & H2). exists en'. rewrite !brk_app, H1. cbn [brk].
    split; [|intros _; exact H2]. destruct (has_auto c); reflexivity.
  - destruct (brk_on_enable en) as (en' & H1 & H2). exists en'. rewrite brk_app, H1. cbn [brk]. auto.
  - exists en. cbn. split; [reflexivity | discriminate].
Qed.
Lemma brk_leave m en : exists en', brk en (leave_sites c m) = Some en'.
Proof.
  destruct m; unfold leave_sites; try (exists en; reflexivity).
  - destruct (brk_on_disable en) as (en' & H). exists en'. rewrite brk_app.
    rewrite (brk_neutral en (if has_auto c then [SAutoDisable] else [])) by (destruct (has_auto c); reflexivity). exact H.
  - apply brk_on_disable.
Qed.

Lemma G_of m en : (enabled_mode_b m = true -> all_enabled en) -> G (Some m) en.
Proof. intros H [E|E]; injection E as E; subst m; apply H; reflexivity. Qed.
Lemma of_G m en : G (Some m) en -> enabled_mode_b m = true -> all_enabled en.
Proof. intros H Hm. destruct m; try discriminate; apply H; auto. Qed.

Lemma brk_tick cur t en : G cur en ->
  exists en', brk en (snd (tick_sites c cur t)) = Some en' /\ G (fst (tick_sites c cur t)) en'.
Proof.
  intros HG. destruct t as [e a te| |fb]; cbn [tick_sites].
  - destruct cur as [m|].
    + destruct (stays m e a te); cbn [fst snd].
      * exists en. split; [apply brk_iter, of_G, HG | exact HG].
      * destruct (brk_leave m en) as (en1 & H1).
        destruct (brk_enter (dispatch e a te) en1) as (en2 & H2 & H3).
        exists en2. rewrite brk_app, H1. cbv beta iota. rewrite brk_app, H2. cbv beta iota. split; [apply brk_iter, H3 | apply G_of, H3].
    + cbn [fst snd]. destruct (brk_enter (dispatch e a te) en) as (en2 & H2 & H3).
      exists en2. rewrite brk_app, H2. cbv beta iota. split; [apply brk_iter, H3 | apply G_of, H3].
  - destruct cur as [m|]; cbn [fst snd].
    + destruct (brk_leave m en) as (en1 & H1). exists en1. split; [exact H1|]. intros [E|E]; discriminate.
    + exists en. split; [reflexivity|]. intros [E|E]; discriminate.
  - cbn [fst snd]. exists en. split; [reflexivity | exact HG].
Qed.

Lemma brk_ticks ts : forall cur en, G cur en -> exists en', brk en (ticks_sites c cur ts) = Some en'.
Proof.
  induction ts as [|t r IH]; intros cur en HG; cbn [ticks_sites]; [exists en; reflexivity|].
  destruct (brk_tick cur t en HG) as (en1 & H1 & H2).
  destruct (tick_sites c cur t) as [cur' s]. cbn [fst snd] in *.
  destruct t; [|exists en1; exact H1|]; rewrite brk_app, H1; apply IH, H2.
Qed.

(* for every layout and every finite sequence of driver-station words: along the
   specified call sequence no execute() of a component with an on_enable() happens
   outside an on_enable()/on_disable() bracket *)
Theorem execute_bracketed ts : brk (fun _ => false) (spec_sites c ts) <> None.
Proof.
  unfold spec_sites. rewrite brk_app.
  rewrite (brk_neutral _ (startup_sites c)).
  - destruct (brk_ticks ts None (fun _ => false)) as (en' & H); [intros [E|E]; discriminate|]. rewrite H. discriminate.
  - unfold startup_sites, filter_sites. rewrite forallb_forall. intros s Hin. apply in_map_iff in Hin.
    destruct Hin as (i & <- & _). reflexivity.
Qed.

Lemma tick_sites_change m en au te : stays m en au te = false ->
  snd (tick_sites c (Some m) (Tick en au te)) =
  leave_sites c m ++ enter_sites c (dispatch en au te) ++ iter_sites c (dispatch en au te).
Proof. intros H. cbn [tick_sites]. rewrite H. reflexivity. Qed.

(* ------------------------------------------------------------------ *)
(* counting: every execute / feedback exactly once per iteration         *)
Notation cnt := (count_occ site_eq_dec).

Lemma cnt_map_seq (f : nat -> site) a n j : (forall x y, f x = f y -> x = y) ->
  cnt (map f (seq a n)) (f j) = if (a <=? j)%nat && (j <? a + n)%nat then 1%nat else 0%nat.
Proof.
  intros Hinj. revert a. induction n as [|n IH]; intros a; cbn [seq map count_occ].
  - replace ((a <=? j)%nat && (j <? a + 0)%nat) with false; [reflexivity|].
    symmetry. apply andb_false_iff. destruct (Nat.leb_spec a j); [right; apply Nat.ltb_ge; lia | left; reflexivity].
  - destruct (site_eq_dec (f a) (f j)) as [E|E].
    + apply Hinj in E. subst a. rewrite IH.
      replace ((S j <=? j)%nat && (j <? S j + n)%nat) with false by (symmetry; apply andb_false_iff; left; apply Nat.leb_gt; lia).
      replace ((j <=? j)%nat && (j <? j + S n)%nat) with true
        by (symmetry; apply andb_true_iff; split; [apply Nat.leb_le | apply Nat.ltb_lt]; lia).
      reflexivity.
    + rewrite IH. assert (a <> j) by (intros ->; apply E; reflexivity).
      destruct (Nat.leb_spec (S a) j), (Nat.leb_spec a j); try lia; cbn [andb]; try reflexivity.
      replace (j <? S a + n)%nat with (j <? a + S n)%nat by (f_equal; lia). reflexivity.
Qed.

Lemma cnt_other l s : (forall x, In x l -> x <> s) -> cnt l s = 0%nat.
Proof. intros H. apply count_occ_not_In. intros Hin. apply (H s Hin). reflexivity. Qed.

Lemma cnt_app a b s : cnt (a ++ b) s = (cnt a s + cnt b s)%nat.
Proof. apply count_occ_app. Qed.

(* in every mode each feedback getter is called exactly once per iteration *)
Theorem feedback_once_per_iteration m j : (j < nfb c)%nat -> cnt (iter_sites c m) (SFeedback j) = 1%nat.
Proof.
  intros Hj.
  assert (Hfb : cnt (fb_sites c) (SFeedback j) = 1%nat).
  { unfold fb_sites. rewrite cnt_app, (cnt_map_seq SFeedback) by (intros x y H; injection H; auto).
    replace ((0 <=? j)%nat && (j <? 0 + nfb c)%nat) with true
      by (symmetry; apply andb_true_iff; split; [apply Nat.leb_le | apply Nat.ltb_lt]; lia).
    cbn; repeat match goal with |- context [site_eq_dec ?a ?b] => destruct (site_eq_dec a b); try discriminate end; try reflexivity; try lia. }
  assert (Hex : cnt (exec_sites c) (SFeedback j) = 0%nat).
  { apply cnt_other. intros x Hin. unfold exec_sites in Hin. apply in_map_iff in Hin. destruct Hin as (i & <- & _). discriminate. }
  destruct m; unfold iter_sites; rewrite ?cnt_app, ?Hfb, ?Hex.
  - cbn; repeat match goal with |- context [site_eq_dec ?a ?b] => destruct (site_eq_dec a b); try discriminate end; try reflexivity; try lia.
  - destruct (has_auto c), (teleop_in_auto c); cbn; repeat match goal with |- context [site_eq_dec ?a ?b] => destruct (site_eq_dec a b); try discriminate end; try reflexivity; try lia.
  - cbn; repeat match goal with |- context [site_eq_dec ?a ?b] => destruct (site_eq_dec a b); try discriminate end; try reflexivity; try lia.
  - cbn; repeat match goal with |- context [site_eq_dec ?a ?b] => destruct (site_eq_dec a b); try discriminate end; try reflexivity; try lia.
Qed.

(* execute() of every component exactly once in teleop and autonomous iterations,
   never in disabled and test iterations *)
Theorem execute_per_iteration m i : (i < ncomp c)%nat ->
  cnt (iter_sites c m) (SExecute i) = if enabled_mode_b m then 1%nat else 0%nat.
Proof.
  intros Hi.
  assert (Hfb : cnt (fb_sites c) (SExecute i) = 0%nat).
  { apply cnt_other. intros x Hin. unfold fb_sites in Hin. apply in_app_iff in Hin. destruct Hin as [Hin|[<-|[]]]; [|discriminate].
    apply in_map_iff in Hin. destruct Hin as (j & <- & _). discriminate. }
  assert (Hex : cnt (exec_sites c) (SExecute i) = 1%nat).
  { unfold exec_sites, comps. rewrite (cnt_map_seq SExecute) by (intros x y H; injection H; auto).
    replace ((0 <=? i)%nat && (i <? 0 + ncomp c)%nat) with true
      by (symmetry; apply andb_true_iff; split; [apply Nat.leb_le | apply Nat.ltb_lt]; lia). reflexivity. }
  destruct m; unfold iter_sites; rewrite ?cnt_app, ?Hfb, ?Hex; cbn [enabled_mode_b].
  - cbn; repeat match goal with |- context [site_eq_dec ?a ?b] => destruct (site_eq_dec a b); try discriminate end; try reflexivity; try lia.
  - destruct (has_auto c), (teleop_in_auto c); cbn; repeat match goal with |- context [site_eq_dec ?a ?b] => destruct (site_eq_dec a b); try discriminate end; try reflexivity; try lia.
  - cbn; repeat match goal with |- context [site_eq_dec ?a ?b] => destruct (site_eq_dec a b); try discriminate end; try reflexivity; try lia.
  - cbn; repeat match goal with |- context [site_eq_dec ?a ?b] => destruct (site_eq_dec a b); try discriminate end; try reflexivity; try lia.
Qed.

End P.
