(* The MagicRobot loop, continued: the framework programs are safe and their static
   call sequence is the specification (C05); the run under faults (C07); lifecycle
   brackets (C06); the will_reset_to reset (C10); feedback publication (C11). *)
From Coq Require Import ZArith List Bool Lia Arith.
From RecordUpdate Require Import RecordSet.
Import ListNotations RecordSetNotations.
From RV Require Import Robot.Model Robot.Proofs.
Open Scope Z_scope.

Section P.
Variable c : cfg.

(* ------------------------------------------------------------------ *)
(* the framework programs are safe, except startup (setup() is unguarded) *)
Lemma safe_on_enable : safe (on_mode_enable_components c) = true.
Proof. apply safe_for_components. intros i. apply safe_pwhen. reflexivity. Qed.
Lemma safe_on_disable : safe (on_mode_disable_components c) = true.
Proof. apply safe_for_components. intros i. apply safe_pwhen. reflexivity. Qed.
Lemma safe_feedbacks : safe (pseq (map PFeedback (seq 0 (nfb c)))) = true.
Proof. rewrite safe_pseq, forallb_forall. intros p H. apply in_map_iff in H. destruct H as (j & <- & _). reflexivity. Qed.
Lemma safe_do_periodics : safe (do_periodics c) = true.
Proof. unfold do_periodics. rewrite safe_pseq. cbn [forallb]. rewrite safe_feedbacks. reflexivity. Qed.
(* a selector callback that exists only when an autonomous mode is selected, under its guard *)
Lemma safe_guard_pwhen b s : safe (PGuard (pwhen b (PInvoke s))) = true.
Proof. destruct b; reflexivity. Qed.
Lemma safe_enabled_periodic : safe (enabled_periodic c) = true.
Proof.
  unfold enabled_periodic. rewrite safe_pseq. cbn [forallb].
  rewrite safe_for_components by (intros i; reflexivity). rewrite safe_do_periodics. reflexivity.
Qed.
Lemma safe_guard_enabled_periodic : safe (PGuard (enabled_periodic c)) = true.
Proof.
  pose proof safe_enabled_periodic as H. unfold enabled_periodic in *. cbn [safe pseq fold_right] in *. exact H.
Qed.

Lemma safe_enter m : safe (enter c m) = true.
Proof.
  destruct m; unfold enter, put_mode; rewrite safe_pseq; cbn [forallb];
    rewrite ?safe_on_enable, ?safe_on_disable, ?safe_guard_pwhen; reflexivity.
Qed.
Lemma safe_iteration m : safe (iteration c m) = true.
Proof.
  destruct m; unfold iteration; rewrite safe_pseq; cbn [forallb];
    rewrite ?safe_do_periodics, ?safe_enabled_periodic, ?safe_guard_enabled_periodic, ?safe_guard_pwhen; try reflexivity.
  rewrite !safe_pwhen by reflexivity. reflexivity.
Qed.
Lemma safe_leave m : safe (leave c m) = true.
Proof.
  destruct m; unfold leave; try reflexivity; try apply safe_on_disable.
  rewrite safe_pseq. cbn [forallb]. rewrite safe_on_disable, safe_guard_pwhen. reflexivity.
Qed.
Lemma safe_tick cur t : safe (snd (tick_prog c cur t)) = true.
Proof.
  destruct t as [en au te| |b]; cbn [tick_prog].
  - destruct cur as [m|].
    + destruct (stays m en au te); cbn [snd]; [apply safe_iteration|].
      rewrite safe_pseq. cbn [forallb]. rewrite safe_leave, safe_enter, safe_iteration. reflexivity.
    + cbn [snd]. rewrite safe_pseq. cbn [forallb]. rewrite safe_enter, safe_iteration. reflexivity.
  - destruct cur; cbn [snd]; [apply safe_leave | reflexivity].
  - reflexivity.
Qed.
Lemma safe_ticks ts : forall cur, safe (ticks_prog c cur ts) = true.
Proof.
  induction ts as [|t r IH]; intros cur; cbn [ticks_prog]; [reflexivity|].
  pose proof (safe_tick cur t) as H. destruct (tick_prog c cur t) as [cur' p]. cbn [snd] in H.
  destruct t; [cbn [safe]; rewrite H, IH; reflexivity | exact H | cbn [safe]; rewrite H, IH; reflexivity].
Qed.

(* the mode programs contain no environment step; a tick list changes the FMS state only
   through its Fms ticks *)
Lemma no_env_on_enable : no_env (on_mode_enable_components c) = true.
Proof. apply no_env_for_components. intros i. apply no_env_pwhen. reflexivity. Qed.
Lemma no_env_on_disable : no_env (on_mode_disable_components c) = true.
Proof. apply no_env_for_components. intros i. apply no_env_pwhen. reflexivity. Qed.
Lemma no_env_do_periodics : no_env (do_periodics c) = true.
Proof.
  unfold do_periodics. rewrite no_env_pseq. cbn [forallb no_env]. rewrite no_env_pseq.
  replace (forallb no_env (map PFeedback (seq 0 (nfb c)))) with true; [reflexivity|].
  symmetry. apply forallb_forall. intros p H. apply in_map_iff in H. destruct H as (j & <- & _). reflexivity.
Qed.
Lemma no_env_guard_pwhen b s : no_env (PGuard (pwhen b (PInvoke s))) = true.
Proof. destruct b; reflexivity. Qed.
Lemma no_env_enabled_periodic : no_env (enabled_periodic c) = true.
Proof.
  unfold enabled_periodic. rewrite no_env_pseq. cbn [forallb].
  rewrite no_env_for_components by (intros i; reflexivity). rewrite no_env_do_periodics. reflexivity.
Qed.
Lemma no_env_enter m : no_env (enter c m) = true.
Proof.
  destruct m; unfold enter, put_mode; rewrite no_env_pseq; cbn [forallb];
    rewrite ?no_env_on_enable, ?no_env_on_disable, ?no_env_guard_pwhen; reflexivity.
Qed.
Lemma no_env_iteration m : no_env (iteration c m) = true.
Proof.
  destruct m; unfold iteration; rewrite no_env_pseq; cbn [forallb];
    rewrite ?no_env_do_periodics, ?no_env_guard_pwhen; cbn [no_env]; rewrite ?no_env_enabled_periodic; try reflexivity.
  rewrite !no_env_pwhen by reflexivity. reflexivity.
Qed.
Lemma no_env_leave m : no_env (leave c m) = true.
Proof.
  destruct m; unfold leave; try reflexivity; try apply no_env_on_disable.
  rewrite no_env_pseq. cbn [forallb]. rewrite no_env_on_disable, no_env_guard_pwhen. reflexivity.
Qed.
Lemma no_env_startup : no_env (startup c) = true.
Proof. apply no_env_for_components. intros i. apply no_env_pwhen. reflexivity. Qed.

Definition fms_ticks_stay (v : bool) (ts : list tick) : bool :=
  forallb (fun t => match t with Fms b => Bool.eqb b v | _ => true end) ts.

Lemma fms_stays_tick v cur t : match t with Fms b => Bool.eqb b v | _ => true end = true ->
  fms_stays v (snd (tick_prog c cur t)) = true.
Proof.
  destruct t as [en au te| |b]; cbn [tick_prog]; intros H.
  - destruct cur as [m|]; [destruct (stays m en au te)|]; cbn [snd]; apply no_env_stays;
      rewrite ?no_env_pseq; cbn [forallb]; rewrite ?no_env_leave, ?no_env_enter, ?no_env_iteration; reflexivity.
  - destruct cur; cbn [snd]; [apply no_env_stays, no_env_leave | reflexivity].
  - cbn. exact H.
Qed.
Lemma fms_stays_ticks v ts : forall cur, fms_ticks_stay v ts = true -> fms_stays v (ticks_prog c cur ts) = true.
Proof.
  induction ts as [|t r IH]; intros cur H; cbn [ticks_prog]; [reflexivity|].
  cbn [fms_ticks_stay forallb] in H. apply andb_true_iff in H. destruct H as [Ht Hr].
  pose proof (fms_stays_tick v cur t Ht) as H1. destruct (tick_prog c cur t) as [cur' p]. cbn [snd] in H1.
  destruct t; [cbn [fms_stays]; rewrite H1, IH; auto | exact H1 | cbn [fms_stays]; rewrite H1, IH; auto].
Qed.

(* ------------------------------------------------------------------ *)
(* the static call sequence of the framework programs is the specification *)
Lemma psites_pwhen b p : psites (pwhen b p) = if b then psites p else [].
Proof. destruct b; reflexivity. Qed.

Lemma concat_filter_map {A} (has : nat -> bool) (f : nat -> A) l :
  concat (map (fun i => if has i then [f i] else []) l) = map f (filter has l).
Proof. induction l as [|x l IH]; cbn; [reflexivity|]. destruct (has x); cbn; rewrite IH; reflexivity. Qed.

Lemma psites_for_components_when has (s : nat -> site) g :
  (forall i, psites (g i) = [s i]) ->
  psites (for_components c (fun i => pwhen (has i) (g i))) = filter_sites c has s.
Proof.
  intros Hg. unfold for_components, filter_sites, comps. rewrite psites_pseq, map_map.
  rewrite <- concat_filter_map. f_equal. apply map_ext. intros i. rewrite psites_pwhen, Hg. reflexivity.
Qed.
Lemma psites_on_enable : psites (on_mode_enable_components c) = filter_sites c (has_enable c) SOnEnable.
Proof. apply psites_for_components_when. reflexivity. Qed.
Lemma psites_on_disable : psites (on_mode_disable_components c) = filter_sites c (has_disable c) SOnDisable.
Proof. apply psites_for_components_when. reflexivity. Qed.
Lemma psites_startup : psites (startup c) = startup_sites c.
Proof. apply psites_for_components_when. reflexivity. Qed.

Lemma concat_map_singleton {A B} (f : A -> B) l : concat (map (fun x => [f x]) l) = map f l.
Proof. induction l as [|x l IH]; cbn; [reflexivity | rewrite IH; reflexivity]. Qed.

Lemma psites_do_periodics : psites (do_periodics c) = fb_sites c.
Proof.
  unfold do_periodics, fb_sites. rewrite psites_pseq. cbn [map concat psites]. rewrite psites_pseq, map_map.
  rewrite (concat_map_singleton SFeedback), app_nil_r. reflexivity.
Qed.
Lemma psites_guard_pwhen b s : psites (PGuard (pwhen b (PInvoke s))) = if b then [s] else [].
Proof. destruct b; reflexivity. Qed.
Lemma psites_execs : psites (for_components c (fun i => PGuard (PInvoke (SExecute i)))) = exec_sites c.
Proof.
  unfold for_components, exec_sites, comps. rewrite psites_pseq, map_map.
  apply (concat_map_singleton SExecute).
Qed.
Lemma psites_enabled_periodic : psites (enabled_periodic c) = exec_sites c ++ fb_sites c.
Proof.
  unfold enabled_periodic. rewrite psites_pseq. cbn [map concat].
  rewrite psites_execs, psites_do_periodics. cbn. rewrite !app_nil_r. reflexivity.
Qed.

Lemma psites_enter m : psites (enter c m) = enter_sites c m.
Proof.
  destruct m; unfold enter, enter_sites, put_mode; rewrite psites_pseq; cbn [map concat];
    rewrite ?psites_guard_pwhen; cbn [psites];
    rewrite ?psites_on_enable, ?psites_on_disable, ?psites_pwhen; cbn [psites app]; rewrite ?app_nil_r; try reflexivity;
    try (destruct (has_auto c); reflexivity).
Qed.
Lemma psites_iteration m : psites (iteration c m) = iter_sites c m.
Proof.
  destruct m; unfold iteration, iter_sites; rewrite psites_pseq; cbn [map concat];
    rewrite ?psites_guard_pwhen; cbn [psites];
    rewrite ?psites_do_periodics, ?psites_enabled_periodic, ?psites_pwhen; cbn [psites app]; rewrite ?app_nil_r; try reflexivity;
    try (destruct (has_auto c), (teleop_in_auto c); cbn; reflexivity).
Qed.
Lemma psites_leave m : psites (leave c m) = leave_sites c m.
Proof.
  destruct m; unfold leave, leave_sites; try reflexivity; try apply psites_on_disable.
  rewrite psites_pseq. cbn [map concat]. rewrite psites_on_disable, psites_guard_pwhen, app_nil_r.
  destruct (has_auto c); reflexivity.
Qed.

Lemma tick_prog_sites cur t :
  fst (tick_prog c cur t) = fst (tick_sites c cur t) /\
  psites (snd (tick_prog c cur t)) = snd (tick_sites c cur t).
Proof.
  destruct t as [en au te| |fb]; cbn [tick_prog tick_sites].
  - destruct cur as [m|].
    + destruct (stays m en au te); cbn [fst snd]; [split; [reflexivity | apply psites_iteration]|].
      split; [reflexivity|]. rewrite psites_pseq. cbn [map concat].
      rewrite psites_leave, psites_enter, psites_iteration, app_nil_r. reflexivity.
    + cbn [fst snd]. split; [reflexivity|]. rewrite psites_pseq. cbn [map concat].
      rewrite psites_enter, psites_iteration, app_nil_r. reflexivity.
  - destruct cur; cbn [fst snd]; split; try reflexivity. apply psites_leave.
  - cbn [fst snd]. split; reflexivity.
Qed.

Lemma psites_ticks ts : forall cur, psites (ticks_prog c cur ts) = ticks_sites c cur ts.
Proof.
  induction ts as [|t r IH]; intros cur; cbn [ticks_prog ticks_sites]; [reflexivity|].
  destruct (tick_prog_sites cur t) as [H1 H2].
  destruct (tick_prog c cur t) as [cur' p]. destruct (tick_sites c cur t) as [cur'' s]. cbn [fst snd] in *. subst.
  destruct t; [cbn [psites]; rewrite IH; reflexivity | reflexivity | cbn [psites]; rewrite IH; reflexivity].
Qed.

Theorem psites_robot ts : psites (robot_prog c ts) = spec_sites c ts.
Proof. unfold robot_prog, spec_sites. cbn [psites]. rewrite psites_startup, psites_ticks. reflexivity. Qed.

(* ------------------------------------------------------------------ *)
(* the run                                                              *)
Variable raises : nat -> bool.
Variable writes : nat -> list (nat * nat * Z).
Variable fbval : nat -> Z.
Notation denote := (denote c raises writes fbval).
Notation robot_run := (robot_run c raises writes fbval).

Lemma nofms_or_keep p : forall w, no_env p = true -> forall v, w_fms w = v -> w_fms (fst (denote p w)) = v.
Proof.
  induction p as [| s | j | | m | b0 | q IH | a IHa b IHb]; intros w Hn v Hv; cbn [Model.denote];
    destruct (in_flight w) eqn:Hw; cbn [fst]; auto; try discriminate.
  - pose proof (invoke_spec c raises writes s w) as Hi. destruct (Model.invoke c raises writes s w) as [w1 e].
    cbn [fst]. destruct Hi as (_ & _ & _ & _ & _ & _ & _ & H8). congruence.
  - pose proof (invoke_spec c raises writes (SFeedback j) w) as Hi.
    destruct (Model.invoke c raises writes (SFeedback j) w) as [w1 e]. destruct Hi as (_ & _ & _ & _ & _ & _ & _ & H8).
    destruct (in_flight w1); cbn [fst]; [destruct (handle_frame w1) as (_ & _ & _ & _ & Hh); congruence | cbn; congruence].
  - cbn [no_env] in Hn. specialize (IH w Hn v Hv). destruct (denote q w) as [w1 e]. cbn [fst] in *.
    destruct (handle_frame w1) as (_ & _ & _ & _ & Hh). congruence.
  - cbn [no_env] in Hn. apply andb_true_iff in Hn. destruct Hn as [Ha Hb].
    specialize (IHa w Ha v Hv). destruct (denote a w) as [w1 e1]. cbn [fst] in IHa.
    specialize (IHb w1 Hb v IHa). destruct (denote b w1) as [w2 e2]. exact IHb.
Qed.

Definition setup_quiet : Prop := forall k, (k < length (startup_sites c))%nat -> raises k = false.

(* C05/C07: with the FMS attached the robot makes exactly the calls of the
   specification, in order, whatever raises (outside setup()), and keeps running *)
Theorem run_fms ts : fms c = true -> fms_ticks_stay true ts = true -> setup_quiet ->
  sites (snd (robot_run ts)) = spec_sites c ts /\ in_flight (fst (robot_run ts)) = false.
Proof.
  intros Hf Hts Hq. unfold Model.robot_run, robot_prog. cbn [Model.denote].
  change (in_flight (init_world c)) with false. cbv iota.
  pose proof (quiet_total c raises writes fbval (startup c) (init_world c) eq_refl) as Hs.
  rewrite psites_startup in Hs. specialize (Hs Hq).
  pose proof (safe_total c (fun _ => false) writes fbval (startup c)) as Hkeep.
  assert (Hfm : w_fms (fst (denote (startup c) (init_world c))) = true).
  { clear Hs. pose proof (nofms_or_keep (startup c) (init_world c)) as K. apply K; [apply no_env_startup | exact Hf]. }
  destruct (denote (startup c) (init_world c)) as [w1 e1]. destruct Hs as (S1 & S2 & S3). cbn [fst] in Hfm.
  pose proof (safe_total c raises writes fbval (ticks_prog c None ts) (safe_ticks ts None)
                (fms_stays_ticks true ts None Hts) w1 S1 Hfm) as Ht.
  destruct (denote (ticks_prog c None ts) w1) as [w2 e2]. destruct Ht as (T1 & T2 & T3 & _).
  cbn [fst snd]. rewrite sites_app, S2, T2, psites_ticks. split; [reflexivity | exact T1].
Qed.

(* ... so the calls made do not depend on which callbacks raise *)
Corollary run_fms_independent_of_faults ts : fms c = true -> fms_ticks_stay true ts = true -> setup_quiet ->
  sites (snd (robot_run ts)) = sites (snd (Model.robot_run c (fun _ => false) writes fbval ts)).
Proof.
  intros Hf Hts Hq. rewrite (proj1 (run_fms ts Hf Hts Hq)). symmetry.
  unfold Model.robot_run.
  pose proof (quiet_total c (fun _ => false) writes fbval (robot_prog c ts) (init_world c) eq_refl (fun _ _ => eq_refl)) as H.
  destruct (Model.denote c (fun _ => false) writes fbval (robot_prog c ts) (init_world c)) as [w e].
  destruct H as (_ & H & _). cbn [snd]. rewrite H. apply psites_robot.
Qed.

(* C07: without the FMS the first raising callback is the last one: the exception
   propagates out of the robot program *)
Theorem run_nofms ts : fms c = false -> fms_ticks_stay false ts = true ->
  match first_raise raises 0 (length (spec_sites c ts)) with
  | Some i => sites (snd (robot_run ts)) = firstn (S i) (spec_sites c ts) /\ in_flight (fst (robot_run ts)) = true
  | None => sites (snd (robot_run ts)) = spec_sites c ts /\ in_flight (fst (robot_run ts)) = false
  end.
Proof.
  intros Hf Hts. unfold Model.robot_run.
  assert (Hst : fms_stays false (robot_prog c ts) = true).
  { unfold robot_prog. cbn [fms_stays]. rewrite (no_env_stays false _ no_env_startup), fms_stays_ticks; auto. }
  pose proof (nofms_cut c raises writes fbval (robot_prog c ts) Hst (init_world c) eq_refl Hf) as H.
  destruct (denote (robot_prog c ts) (init_world c)) as [w e]. rewrite psites_robot in H. cbn [fst snd].
  change (w_n (init_world c)) with 0%nat in H. destruct H as [_ H].
  destruct (first_raise raises 0 (length (spec_sites c ts))); tauto.
Qed.

(* ------------------------------------------------------------------ *)
(* C11: feedback publication                                            *)
Lemma feedback_step j w : in_flight w = false -> w_fms w = true ->
  let '(w', e) := denote (PFeedback j) w in
  in_flight w' = false /\ w_fms w' = true /\ w_n w' = S (w_n w) /\ w_ntmode w' = w_ntmode w /\
  w_nt w' = (if raises (w_n w) then w_nt w else updn (w_nt w) j (Some (fbval (w_n w)))).
Proof.
  intros Hw Hf. cbn [Model.denote]. rewrite Hw.
  pose proof (invoke_spec c raises writes (SFeedback j) w) as Hi.
  destruct (Model.invoke c raises writes (SFeedback j) w) as [w1 e].
  destruct Hi as (H1 & H2 & H3 & H4 & H5 & H6 & H7 & H8).
  destruct (raises (w_n w)) eqn:E.
  - assert (E1 : in_flight w1 = true) by (unfold in_flight; rewrite (H6 eq_refl); reflexivity).
    rewrite E1. destruct (handle_frame w1) as (Hn & _ & Hnt & Hm & Hfm).
    rewrite handle_fms, Hn, Hnt, Hm, Hfm by congruence. repeat split; auto; congruence.
  - assert (E1 : in_flight w1 = false) by (unfold in_flight in *; rewrite (H7 eq_refl); exact Hw).
    rewrite E1. cbn. rewrite H3. repeat split; auto; congruence.
Qed.

(* after the feedback phase of an iteration that started at invocation k0: entry j
   holds what getter j returned in this iteration, or is unchanged if it raised *)
Lemma feedbacks_run n : forall a w, in_flight w = false -> w_fms w = true ->
  let '(w', e) := denote (pseq (map PFeedback (seq a n))) w in
  in_flight w' = false /\ w_n w' = (w_n w + n)%nat /\ w_ntmode w' = w_ntmode w /\
  forall j, w_nt w' j =
    if (a <=? j)%nat && (j <? a + n)%nat
    then (if raises (w_n w + (j - a)) then w_nt w j else Some (fbval (w_n w + (j - a))))
    else w_nt w j.
Proof.
  induction n as [|n IH]; intros a w Hw Hf.
  - cbn [seq map pseq fold_right Model.denote]. rewrite Hw.
    split; [exact Hw|]. split; [lia|]. split; [reflexivity|].
    intros j. replace ((a <=? j)%nat && (j <? a + 0)%nat) with false; [reflexivity|].
    symmetry. apply andb_false_iff. destruct (Nat.leb_spec a j); [right; apply Nat.ltb_ge; lia | left; reflexivity].
  - cbn [seq map]. unfold pseq. cbn [fold_right]. fold (pseq (map PFeedback (seq (S a) n))).
    rewrite (denote_seq c raises writes fbval) by exact Hw.
    pose proof (feedback_step a w Hw Hf) as H1. destruct (denote (PFeedback a) w) as [w1 e1].
    destruct H1 as (A1 & A1f & A2 & A3 & A4).
    specialize (IH (S a) w1 A1 A1f). destruct (denote (pseq (map PFeedback (seq (S a) n))) w1) as [w2 e2].
    destruct IH as (B1 & B2 & B3 & B4).
    split; [exact B1|]. split; [lia|]. split; [congruence|].
    intros j. rewrite B4, A4, A2.
    destruct (Nat.eq_dec j a) as [->|Hne].
    + replace ((S a <=? a)%nat && (a <? S a + n)%nat) with false
        by (symmetry; apply andb_false_iff; left; apply Nat.leb_gt; lia).
      replace ((a <=? a)%nat && (a <? a + S n)%nat) with true
        by (symmetry; apply andb_true_iff; split; [apply Nat.leb_le | apply Nat.ltb_lt]; lia).
      rewrite Nat.sub_diag, Nat.add_0_r. destruct (raises (w_n w)); [reflexivity|].
      unfold updn. rewrite Nat.eqb_refl. reflexivity.
    + assert (Hupd : (if raises (w_n w) then w_nt w else updn (w_nt w) a (Some (fbval (w_n w)))) j = w_nt w j).
      { destruct (raises (w_n w)); [reflexivity|]. unfold updn. destruct (Nat.eqb_spec j a); [contradiction | reflexivity]. }
      destruct (Nat.leb_spec (S a) j) as [Hle|Hgt].
      * replace (a <=? j)%nat with true by (symmetry; apply Nat.leb_le; lia).
        replace (j <? a + S n)%nat with (j <? S a + n)%nat by (f_equal; lia). cbn [andb].
        destruct (j <? S a + n)%nat; [|exact Hupd].
        replace (S (w_n w) + (j - S a))%nat with (w_n w + (j - a))%nat by lia. rewrite Hupd. reflexivity.
      * cbn [andb]. replace (a <=? j)%nat with false by (symmetry; apply Nat.leb_gt; lia). cbn [andb]. exact Hupd.
Qed.

(* ------------------------------------------------------------------ *)
(* C10: the reset at the end of every enabled iteration                  *)

(* framework code proper (no environment step): [safe_total] for it, keyed on the FMS state of
   the world it starts in *)
Lemma safe_fw p w : safe p = true -> no_env p = true -> in_flight w = false -> w_fms w = true ->
  let '(w', e) := denote p w in
  in_flight w' = false /\ sites e = psites p /\ w_n w' = (w_n w + length (psites p))%nat /\ w_fms w' = true.
Proof. intros Hs Hn Hw Hf. apply safe_total; auto. apply no_env_stays, Hn. Qed.

Lemma enabled_periodic_resets w : w_fms w = true -> in_flight w = false ->
  let '(w', e) := denote (enabled_periodic c) w in
  in_flight w' = false /\ exists st, w_store w' = reset_store c st.
Proof.
  intros Hf Hw. unfold enabled_periodic, pseq. cbn [fold_right].
  rewrite (denote_seq c raises writes fbval) by exact Hw.
  pose proof (safe_fw _ w
                (safe_for_components c _ (fun i => eq_refl : safe (PGuard (PInvoke (SExecute i))) = true))
                (no_env_for_components c _ (fun i => eq_refl : no_env (PGuard (PInvoke (SExecute i))) = true)) Hw Hf) as H1.
  destruct (denote (for_components c (fun i => PGuard (PInvoke (SExecute i)))) w) as [w1 e1].
  destruct H1 as (A1 & _ & _ & A4).
  rewrite (denote_seq c raises writes fbval) by exact A1.
  pose proof (safe_fw _ w1 safe_do_periodics no_env_do_periodics A1 A4) as H2.
  destruct (denote (do_periodics c) w1) as [w2 e2]. destruct H2 as (B1 & _).
  rewrite (denote_seq c raises writes fbval) by exact B1.
  cbn [Model.denote]. rewrite B1.
  destruct (in_flight (do_reset c w2)); cbn; (split; [exact B1|]); exists (w_store w2); reflexivity.
Qed.

Lemma reset_store_marked st ci a d : marked c ci a = Some d -> reset_store c st ci a = d.
Proof. intros H. unfold reset_store. rewrite H. reflexivity. Qed.
Lemma reset_store_unmarked st ci a : marked c ci a = None -> reset_store c st ci a = st ci a.
Proof. intros H. unfold reset_store. rewrite H. reflexivity. Qed.

Definition enabled_mode (m : mode) : bool := match m with Auto | Teleop => true | _ => false end.

(* after every teleop/autonomous iteration that starts with the FMS attached -- also when
   callbacks of it raised -- every will_reset_to attribute is back at its declared default *)
Theorem iteration_resets m w : w_fms w = true -> enabled_mode m = true -> in_flight w = false ->
  let '(w', e) := denote (iteration c m) w in
  in_flight w' = false /\ forall ci a d, marked c ci a = Some d -> w_store w' ci a = d.
Proof.
  intros Hf Hm Hw. destruct m; try discriminate; unfold iteration, pseq; cbn [fold_right].
  - (* Auto *)
    rewrite (denote_seq c raises writes fbval) by exact Hw.
    pose proof (safe_fw (PGuard (pwhen (has_auto c) (PInvoke SAutoIter))) w
                  (safe_guard_pwhen _ SAutoIter) (no_env_guard_pwhen _ SAutoIter) Hw Hf) as H1.
    destruct (denote (PGuard (pwhen (has_auto c) (PInvoke SAutoIter))) w) as [w1 e1]. destruct H1 as (A1 & _ & _ & A4).
    rewrite (denote_seq c raises writes fbval) by exact A1.
    pose proof (safe_fw (pwhen (teleop_in_auto c) (PGuard (PInvoke (SPeriodic Teleop)))) w1
                  (safe_pwhen _ (PGuard (PInvoke (SPeriodic Teleop))) eq_refl)
                  (no_env_pwhen _ (PGuard (PInvoke (SPeriodic Teleop))) eq_refl) A1 A4) as H2.
    destruct (denote (pwhen (teleop_in_auto c) (PGuard (PInvoke (SPeriodic Teleop)))) w1) as [w2 e2]. destruct H2 as (B1 & _ & _ & B4).
    rewrite (denote_seq c raises writes fbval) by exact B1.
    cbn [Model.denote]. rewrite B1.
    pose proof (enabled_periodic_resets w2 B4 B1) as H3.
    destruct (denote (enabled_periodic c) w2) as [w3 e3]. destruct H3 as (C1 & st & C2).
    rewrite handle_quiet by exact C1. rewrite C1. cbn. split; [exact C1|].
    intros ci a d Hd. rewrite C2. apply reset_store_marked, Hd.
  - (* Teleop *)
    rewrite (denote_seq c raises writes fbval) by exact Hw.
    pose proof (safe_fw (PGuard (PInvoke (SPeriodic Teleop))) w eq_refl eq_refl Hw Hf) as H1.
    destruct (denote (PGuard (PInvoke (SPeriodic Teleop))) w) as [w1 e1]. destruct H1 as (A1 & _ & _ & A4).
    rewrite (denote_seq c raises writes fbval) by exact A1.
    pose proof (enabled_periodic_resets w1 A4 A1) as H3.
    destruct (denote (enabled_periodic c) w1) as [w3 e3]. destruct H3 as (C1 & st & C2).
    cbn [Model.denote]. rewrite C1. cbn. split; [exact C1|].
    intros ci a d Hd. rewrite C2. apply reset_store_marked, Hd.
Qed.

(* the same for a pass that is calm: the FMS is attached, OR no callback of the pass raises *)
Definition calm (p : prog) (w : world) : Prop :=
  no_env p = true /\
  ((w_fms w = true /\ safe p = true) \/
   (forall i, (i < length (psites p))%nat -> raises (w_n w + i) = false)).

Lemma calm_total p w : calm p w -> in_flight w = false ->
  let '(w', e) := denote p w in
  in_flight w' = false /\ sites e = psites p /\ w_n w' = (w_n w + length (psites p))%nat /\ w_fms w' = w_fms w.
Proof.
  intros [Hn Hc] Hw. pose proof (nofms_or_keep p w Hn _ eq_refl) as Hk.
  destruct Hc as [[Hf Hs]|Hq].
  - pose proof (safe_fw p w Hs Hn Hw Hf) as H. destruct (denote p w) as [w' e]. cbn [fst] in Hk. tauto.
  - pose proof (quiet_total c raises writes fbval p w Hw Hq) as H. destruct (denote p w) as [w' e]. cbn [fst] in Hk. tauto.
Qed.

Lemma calm_seq_l a b w : calm (PSeq a b) w -> calm a w.
Proof.
  intros [Hn Hc]. cbn [no_env] in Hn. apply andb_true_iff in Hn. split; [tauto|].
  destruct Hc as [[Hf Hs]|Hq]; [left | right].
  - cbn [safe] in Hs. apply andb_true_iff in Hs. tauto.
  - intros i Hi. apply Hq. cbn [psites]. rewrite app_length. lia.
Qed.
Lemma calm_seq_r a b w w1 : calm (PSeq a b) w -> w_n w1 = (w_n w + length (psites a))%nat -> w_fms w1 = w_fms w -> calm b w1.
Proof.
  intros [Hn Hc] Hnn Hfm. cbn [no_env] in Hn. apply andb_true_iff in Hn. split; [tauto|].
  destruct Hc as [[Hf Hs]|Hq]; [left | right].
  - cbn [safe] in Hs. apply andb_true_iff in Hs. split; [congruence | tauto].
  - intros i Hi. rewrite Hnn, <- Nat.add_assoc. apply Hq. cbn [psites]. rewrite app_length. lia.
Qed.

Lemma enabled_periodic_resets_calm w : calm (enabled_periodic c) w -> in_flight w = false ->
  let '(w', e) := denote (enabled_periodic c) w in
  in_flight w' = false /\ exists st, w_store w' = reset_store c st.
Proof.
  intros Hc Hw. unfold enabled_periodic, pseq in *. cbn [fold_right] in *.
  rewrite (denote_seq c raises writes fbval) by exact Hw.
  pose proof (calm_total _ w (calm_seq_l _ _ _ Hc) Hw) as H1.
  destruct (denote (for_components c (fun i => PGuard (PInvoke (SExecute i)))) w) as [w1 e1].
  destruct H1 as (A1 & _ & A3 & A4).
  pose proof (calm_seq_r _ _ w w1 Hc A3 A4) as Hc2.
  rewrite (denote_seq c raises writes fbval) by exact A1.
  pose proof (calm_total _ w1 (calm_seq_l _ _ _ Hc2) A1) as H2.
  destruct (denote (do_periodics c) w1) as [w2 e2]. destruct H2 as (B1 & _).
  rewrite (denote_seq c raises writes fbval) by exact B1.
  cbn [Model.denote]. rewrite B1.
  destruct (in_flight (do_reset c w2)); cbn; (split; [exact B1|]); exists (w_store w2); reflexivity.
Qed.

Theorem iteration_resets_calm m w : calm (iteration c m) w -> enabled_mode m = true -> in_flight w = false ->
  let '(w', e) := denote (iteration c m) w in
  in_flight w' = false /\ forall ci a d, marked c ci a = Some d -> w_store w' ci a = d.
Proof.
  intros Hc Hm Hw. destruct m; try discriminate; unfold iteration, pseq in *; cbn [fold_right] in *.
  - (* Auto *)
    rewrite (denote_seq c raises writes fbval) by exact Hw.
    pose proof (calm_total _ w (calm_seq_l _ _ _ Hc) Hw) as H1.
    destruct (denote (PGuard (pwhen (has_auto c) (PInvoke SAutoIter))) w) as [w1 e1]. destruct H1 as (A1 & _ & A3 & A4).
    pose proof (calm_seq_r _ _ w w1 Hc A3 A4) as Hc2.
    rewrite (denote_seq c raises writes fbval) by exact A1.
    pose proof (calm_total _ w1 (calm_seq_l _ _ _ Hc2) A1) as H2.
    destruct (denote (pwhen (teleop_in_auto c) (PGuard (PInvoke (SPeriodic Teleop)))) w1) as [w2 e2]. destruct H2 as (B1 & _ & B3 & B4).
    pose proof (calm_seq_r _ _ w1 w2 Hc2 B3 B4) as Hc3.
    rewrite (denote_seq c raises writes fbval) by exact B1.
    apply calm_seq_l in Hc3.
    assert (Hc4 : calm (enabled_periodic c) w2).
    { destruct Hc3 as [Hn3 [[Hf _]|Hq]]; (split; [exact Hn3|]);
        [left; split; [exact Hf | apply safe_enabled_periodic] | right; exact Hq]. }
    cbn [Model.denote]. rewrite B1.
    pose proof (enabled_periodic_resets_calm w2 Hc4 B1) as H3.
    destruct (denote (enabled_periodic c) w2) as [w3 e3]. destruct H3 as (C1 & st & C2).
    rewrite handle_quiet by exact C1. rewrite C1. cbn. split; [exact C1|].
    intros ci a d Hd. rewrite C2. apply reset_store_marked, Hd.
  - (* Teleop *)
    rewrite (denote_seq c raises writes fbval) by exact Hw.
    pose proof (calm_total _ w (calm_seq_l _ _ _ Hc) Hw) as H1.
    destruct (denote (PGuard (PInvoke (SPeriodic Teleop))) w) as [w1 e1]. destruct H1 as (A1 & _ & A3 & A4).
    pose proof (calm_seq_r _ _ w w1 Hc A3 A4) as Hc2.
    rewrite (denote_seq c raises writes fbval) by exact A1.
    pose proof (enabled_periodic_resets_calm w1 (calm_seq_l _ _ _ Hc2) A1) as H3.
    destruct (denote (enabled_periodic c) w1) as [w3 e3]. destruct H3 as (C1 & st & C2).
    cbn [Model.denote]. rewrite C1. cbn. split; [exact C1|].
    intros ci a d Hd. rewrite C2. apply reset_store_marked, Hd.
Qed.

(* every iteration program is framework code proper, so the [no_env] half of [calm] is free *)
Lemma calm_iteration_intro m w :
  (w_fms w = true \/ (forall i, (i < length (psites (iteration c m)))%nat -> raises (w_n w + i) = false)) ->
  calm (iteration c m) w.
Proof.
  intros H. split; [apply no_env_iteration|]. destruct H as [H|H]; [left; split; [exact H | apply safe_iteration] | right; exact H].
Qed.

Lemma init_store_defaults ci a d : marked c ci a = Some d -> w_store (init_world c) ci a = d.
Proof. intros H. cbn. rewrite H. reflexivity. Qed.

(* what execute() sees is the store at that moment: everything assigned since the
   last reset, by whichever callback *)
Lemma execute_sees_store i w : in_flight w = false ->
  snd (Model.invoke c raises writes (SExecute i) w) = [EvExec i (snapshot c w)].
Proof. intros _. unfold Model.invoke. destruct (raises (w_n w)); reflexivity. Qed.

End P.
