(* Executable model of the MagicRobot control loop: magicbot/magicrobot.py
   (startCompetition, autonomous, _disabled, _operatorControl, _test,
   _on_mode_enable/disable_components, _enabled_periodic, _do_periodics,
   onException) and robotpy_ext/autonomous/selector.py run().
   No proofs in this file.

   The model follows the code's try/except structure call site by call site
   with a tiny exception semantics: an exception in flight ([w_exc]) makes
   every following statement a no-op until a guard (try/except: onException())
   handles it -- swallowing it when the FMS is attached, re-raising otherwise.
   User code is arbitrary: [raises k], [writes k], [fbval k] describe what the
   k-th user-callback invocation of the run does. *)
From Coq Require Import ZArith List Bool.
From RecordUpdate Require Import RecordSet.
Import ListNotations RecordSetNotations.
Open Scope Z_scope.

Inductive mode := Disabled | Auto | Teleop | Test.
Definition mode_eqb (a b : mode) : bool :=
  match a, b with Disabled, Disabled | Auto, Auto | Teleop, Teleop | Test, Test => true | _, _ => false end.

Inductive site :=
| SSetup (i : nat) | SOnEnable (i : nat) | SOnDisable (i : nat) | SExecute (i : nat)
| SInit (m : mode)              (* autonomousInit / disabledInit / teleopInit / testInit *)
| SPeriodic (m : mode)          (* disabledPeriodic / teleopPeriodic / testPeriodic *)
| SRobotPeriodic
| SFeedback (j : nat)
| SAutoEnable | SAutoIter | SAutoDisable.   (* the selected autonomous mode *)

Record cfg := {
  ncomp : nat;                       (* components, in declaration order *)
  has_setup : nat -> bool;
  has_enable : nat -> bool;
  has_disable : nat -> bool;
  nfb : nat;                         (* feedbacks in collection order: the robot's, then each component's *)
  teleop_in_auto : bool;             (* use_teleop_in_autonomous *)
  has_auto : bool;                   (* an autonomous mode is selected *)
  fms : bool;                        (* DriverStation.isFMSAttached() when the program starts *)
  nattr : nat;                       (* tracked attributes per component *)
  marked : nat -> nat -> option Z    (* will_reset_to default of attribute a of component c *)
}.

Record world := {
  w_n : nat;                         (* user-callback invocations so far *)
  w_store : nat -> nat -> Z;         (* component attributes *)
  w_nt : nat -> option Z;            (* NetworkTables entry of feedback j *)
  w_ntmode : option mode;            (* /robot/mode *)
  w_exc : option site;               (* exception in flight, raised by that site *)
  w_fms : bool                       (* DriverStation.isFMSAttached() now *)
}.
#[export] Instance eta_world : Settable _ := settable! Build_world <w_n; w_store; w_nt; w_ntmode; w_exc; w_fms>.

Inductive event :=
| EvCB (s : site)                            (* a user callback was invoked *)
| EvExec (i : nat) (snap : list (list Z))    (* execute() of component i; what it sees in every tracked attribute *)
| EvRP (m : option mode) (fb : list (option Z)) (snap : list (list Z)).
                                             (* robotPeriodic; what NetworkTables shows (/robot/mode, the feedback entries)
                                                and what it sees in every tracked attribute *)

Definition site_of (e : event) : site :=
  match e with EvCB s => s | EvExec i _ => SExecute i | EvRP _ _ _ => SRobotPeriodic end.

Definition act := world -> world * list event.

Definition in_flight (w : world) : bool := match w_exc w with Some _ => true | None => false end.

Definition upd2 (f : nat -> nat -> Z) (c a : nat) (v : Z) : nat -> nat -> Z :=
  fun c' a' => if Nat.eqb c' c && Nat.eqb a' a then v else f c' a'.
Definition updn {A} (f : nat -> A) (k : nat) (v : A) : nat -> A :=
  fun x => if Nat.eqb x k then v else f x.

(* the driver-station control word seen at a loop wake-up, or endCompetition() *)
Inductive tick :=
| Tick (en au te : bool)
| End
| Fms (b : bool).      (* the FMS gets attached / detached while the loop is waiting (no wake-up) *)

(* The framework code, as a program: the nesting of PGuard is the nesting of the
   try/except blocks of the Python source. *)
Inductive prog :=
| PNop
| PInvoke (s : site)               (* call a user callback *)
| PFeedback (j : nat)              (* try: v = getter()  except: onException()  else: setter(v) *)
| PReset                           (* component.__dict__.update(reset_dict) for every component *)
| PMode (m : mode)                 (* NetworkTables /robot/mode := m *)
| PFms (b : bool)                  (* not framework code: the environment attaches / detaches the FMS *)
| PGuard (p : prog)                (* try: p  except: self.onException() *)
| PSeq (a b : prog).
Definition pseq (l : list prog) : prog := fold_right PSeq PNop l.
Definition pwhen (b : bool) (p : prog) : prog := if b then p else PNop.

Section Loop.
Variable c : cfg.

Definition for_components (f : nat -> prog) : prog := pseq (map f (seq 0 (ncomp c))).

Definition on_mode_enable_components : prog :=
  for_components (fun i => pwhen (has_enable c i) (PGuard (PInvoke (SOnEnable i)))).
Definition on_mode_disable_components : prog :=
  for_components (fun i => pwhen (has_disable c i) (PGuard (PInvoke (SOnDisable i)))).

(* _do_periodics: feedbacks, then robotPeriodic (each guarded) *)
Definition do_periodics : prog :=
  pseq [ pseq (map PFeedback (seq 0 (nfb c))); PGuard (PInvoke SRobotPeriodic) ].

Definition reset_store (st : nat -> nat -> Z) : nat -> nat -> Z :=
  fun ci a => match marked c ci a with Some d => d | None => st ci a end.
Definition do_reset (w : world) : world := w <| w_store := reset_store (w_store w) |>.

(* _enabled_periodic: every component's execute() (guarded), _do_periodics, then the reset *)
Definition enabled_periodic : prog :=
  pseq [ for_components (fun i => PGuard (PInvoke (SExecute i))); do_periodics; PReset ].

Definition put_mode (m : mode) : prog := PMode m.

(* entering a mode: everything before its loop *)
Definition enter (m : mode) : prog :=
  match m with
  | Disabled => pseq [ put_mode Disabled; on_mode_disable_components; PGuard (PInvoke (SInit Disabled)) ]
  | Auto => pseq [ put_mode Auto; on_mode_enable_components; PGuard (PInvoke (SInit Auto));
                   PGuard (pwhen (has_auto c) (PInvoke SAutoEnable)) ]
  | Teleop => pseq [ put_mode Teleop; on_mode_enable_components; PGuard (PInvoke (SInit Teleop)) ]
  | Test => pseq [ put_mode Test; PGuard (PInvoke (SInit Test)) ]
  end.

(* one pass of the mode's loop body *)
Definition iteration (m : mode) : prog :=
  match m with
  | Disabled => pseq [ PGuard (PInvoke (SPeriodic Disabled)); do_periodics ]
  | Auto => pseq [ PGuard (pwhen (has_auto c) (PInvoke SAutoIter));
                   pwhen (teleop_in_auto c) (PGuard (PInvoke (SPeriodic Teleop)));
                   PGuard enabled_periodic ]
  | Teleop => pseq [ PGuard (PInvoke (SPeriodic Teleop)); enabled_periodic ]
  | Test => pseq [ PGuard (PInvoke (SPeriodic Test)); do_periodics ]
  end.

(* leaving a mode: everything after its loop *)
Definition leave (m : mode) : prog :=
  match m with
  | Disabled => PNop
  | Auto => pseq [ PGuard (pwhen (has_auto c) (PInvoke SAutoDisable)); on_mode_disable_components ]
  | Teleop => on_mode_disable_components
  | Test => PNop
  end.

(* startCompetition's dispatch and each loop's own stay test *)
Definition dispatch (en au te : bool) : mode :=
  if negb en then Disabled else if au then Auto else if te then Test else Teleop.
Definition stays (m : mode) (en au te : bool) : bool :=
  match m with
  | Disabled => negb en
  | Auto => en && au
  | Teleop => en && negb au && negb te
  | Test => te && en
  end.

(* one wake-up: another pass of the current loop, or leave it, dispatch, enter the
   new mode and run its first pass; endCompetition leaves the loop and the program *)
Definition tick_prog (cur : option mode) (t : tick) : option mode * prog :=
  match t with
  | End => (None, match cur with Some m => leave m | None => PNop end)
  | Fms b => (cur, PFms b)
  | Tick en au te =>
      match cur with
      | Some m =>
          if stays m en au te then (Some m, iteration m)
          else let m' := dispatch en au te in
               (Some m', pseq [leave m; enter m'; iteration m'])
      | None => let m' := dispatch en au te in (Some m', pseq [enter m'; iteration m'])
      end
  end.

Fixpoint ticks_prog (cur : option mode) (ts : list tick) : prog :=
  match ts with
  | [] => PNop
  | t :: r =>
      let '(cur', p) := tick_prog cur t in
      match t with
      | End => p                                  (* the program ends *)
      | _ => PSeq p (ticks_prog cur' r)
      end
  end.

(* robotInit: will_reset_to defaults are in place, then every component's setup() (not guarded) *)
Definition startup : prog :=
  for_components (fun i => pwhen (has_setup c i) (PInvoke (SSetup i))).

Definition robot_prog (ts : list tick) : prog := PSeq startup (ticks_prog None ts).

(* ---- execution ------------------------------------------------------------ *)
Variable raises : nat -> bool.
Variable writes : nat -> list (nat * nat * Z).
Variable fbval : nat -> Z.

Definition snapshot (w : world) : list (list Z) :=
  map (fun ci => map (fun a => w_store w ci a) (seq 0 (nattr c))) (seq 0 (ncomp c)).
Definition nt_view (w : world) : list (option Z) := map (w_nt w) (seq 0 (nfb c)).

Definition apply_writes (l : list (nat * nat * Z)) (st : nat -> nat -> Z) : nat -> nat -> Z :=
  fold_left (fun s p => upd2 s (fst (fst p)) (snd (fst p)) (snd p)) l st.

(* the k-th user-callback invocation: what it sees, what it assigns, whether it raises *)
Definition invoke (s : site) : act :=
  fun w =>
    let k := w_n w in
    let ev := match s with
              | SExecute i => EvExec i (snapshot w)
              | SRobotPeriodic => EvRP (w_ntmode w) (nt_view w) (snapshot w)
              | _ => EvCB s
              end in
    let w1 := w <| w_n := S k |> <| w_store := apply_writes (writes k) (w_store w) |> in
    (if raises k then w1 <| w_exc := Some s |> else w1, [ev]).

(* onException(): re-raises unless the FMS is attached (at this moment) *)
Definition handle (w : world) : world :=
  if in_flight w then (if w_fms w then w <| w_exc := None |> else w) else w.

(* an exception in flight makes every statement a no-op until a guard handles it *)
Fixpoint denote (p : prog) (w : world) : world * list event :=
  if in_flight w then (w, []) else
  match p with
  | PNop => (w, [])
  | PInvoke s => invoke s w
  | PFeedback j =>
      let k := w_n w in
      let '(w1, e) := invoke (SFeedback j) w in
      (if in_flight w1 then handle w1 else w1 <| w_nt := updn (w_nt w1) j (Some (fbval k)) |>, e)
  | PReset => (do_reset w, [])
  | PMode m => (w <| w_ntmode := Some m |>, [])
  | PFms b => (w <| w_fms := b |>, [])
  | PGuard q => let '(w1, e) := denote q w in (handle w1, e)
  | PSeq a b => let '(w1, e1) := denote a w in let '(w2, e2) := denote b w1 in (w2, e1 ++ e2)
  end.

Definition init_world : world :=
  {| w_n := 0; w_store := fun ci a => match marked c ci a with Some d => d | None => 0 end;
     w_nt := fun _ => None; w_ntmode := None; w_exc := None; w_fms := fms c |}.

Definition robot_run (ts : list tick) : world * list event := denote (robot_prog ts) init_world.

(* the static call sequence of a program *)
Fixpoint psites (p : prog) : list site :=
  match p with
  | PNop | PReset | PMode _ | PFms _ => []
  | PInvoke s => [s]
  | PFeedback j => [SFeedback j]
  | PGuard q => psites q
  | PSeq a b => psites a ++ psites b
  end.

End Loop.

(* ---- the specification: the call sequence of a fault-free robot ------------- *)
Section Spec.
Variable c : cfg.

Definition comps := seq 0 (ncomp c).
Definition filter_sites (p : nat -> bool) (f : nat -> site) : list site :=
  map f (filter p comps).

Definition fb_sites : list site := map SFeedback (seq 0 (nfb c)) ++ [SRobotPeriodic].
Definition exec_sites : list site := map SExecute comps.

Definition enter_sites (m : mode) : list site :=
  match m with
  | Disabled => filter_sites (has_disable c) SOnDisable ++ [SInit Disabled]
  | Auto => filter_sites (has_enable c) SOnEnable ++ [SInit Auto] ++ (if has_auto c then [SAutoEnable] else [])
  | Teleop => filter_sites (has_enable c) SOnEnable ++ [SInit Teleop]
  | Test => [SInit Test]
  end.
Definition iter_sites (m : mode) : list site :=
  match m with
  | Disabled => [SPeriodic Disabled] ++ fb_sites
  | Auto => (if has_auto c then [SAutoIter] else []) ++ (if teleop_in_auto c then [SPeriodic Teleop] else [])
            ++ exec_sites ++ fb_sites
  | Teleop => [SPeriodic Teleop] ++ exec_sites ++ fb_sites
  | Test => [SPeriodic Test] ++ fb_sites
  end.
Definition leave_sites (m : mode) : list site :=
  match m with
  | Disabled | Test => []
  | Auto => (if has_auto c then [SAutoDisable] else []) ++ filter_sites (has_disable c) SOnDisable
  | Teleop => filter_sites (has_disable c) SOnDisable
  end.

Definition tick_sites (cur : option mode) (t : tick) : option mode * list site :=
  match t with
  | End => (None, match cur with Some m => leave_sites m | None => [] end)
  | Fms _ => (cur, [])
  | Tick en au te =>
      match cur with
      | Some m =>
          if stays m en au te then (Some m, iter_sites m)
          else let m' := dispatch en au te in (Some m', leave_sites m ++ enter_sites m' ++ iter_sites m')
      | None => let m' := dispatch en au te in (Some m', enter_sites m' ++ iter_sites m')
      end
  end.
Fixpoint ticks_sites (cur : option mode) (ts : list tick) : list site :=
  match ts with
  | [] => []
  | t :: r => let '(cur', s) := tick_sites cur t in
              match t with End => s | _ => s ++ ticks_sites cur' r end
  end.
Definition startup_sites : list site := filter_sites (has_setup c) SSetup.
Definition spec_sites (ts : list tick) : list site := startup_sites ++ ticks_sites None ts.
End Spec.
