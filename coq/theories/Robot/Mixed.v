(* The FMS gets attached / detached while the robot runs: the general form of C07.

   [fflags p v]: for a program started with FMS state [v], the FMS state in force at each
   callback of its static call sequence; [fend p v]: the FMS state after it.  A raising
   invocation is FATAL when the FMS is not attached at that moment.  For safe programs (every
   callback directly under a guard) the run makes exactly the calls up to and including the
   first fatal one -- the decision is taken with the FMS state at the time of the fault, not
   the state at start-up or at some earlier fault. *)
From Coq Require Import ZArith List Bool Arith Lia.
From RV Require Import Robot.Model Robot.Proofs Robot.Loop.
Import ListNotations.

Section P.
Variable c : cfg.
Variable raises : nat -> bool.
Variable writes : nat -> list (nat * nat * Z).
Variable fbval : nat -> Z.

Notation denote := (Model.denote c raises writes fbval).

Fixpoint fend (p : prog) (v : bool) : bool :=
  match p with
  | PFms b => b
  | PGuard q => fend q v
  | PSeq a b => fend b (fend a v)
  | _ => v
  end.
Fixpoint fflags (p : prog) (v : bool) : list bool :=
  match p with
  | PInvoke _ | PFeedback _ => [v]
  | PGuard q => fflags q v
  | PSeq a b => fflags a v ++ fflags b (fend a v)
  | _ => []
  end.

Lemma fflags_length p : forall v, length (fflags p v) = length (psites p).
Proof.
  induction p; intros v; cbn [fflags psites length]; auto.
  rewrite !app_length, IHp1, IHp2. reflexivity.
Qed.
Lemma fend_no_env p : no_env p = true -> forall v, fend p v = v.
Proof.
  induction p; cbn [no_env fend]; intros H v; auto; try discriminate.
  apply andb_true_iff in H. destruct H. rewrite IHp1, IHp2; auto.
Qed.
Lemma fflags_no_env p : no_env p = true -> forall v, fflags p v = repeat v (length (psites p)).
Proof.
  induction p; cbn [no_env fflags psites length repeat]; intros H v; auto; try discriminate.
  apply andb_true_iff in H. destruct H as [H1 H2].
  rewrite app_length, repeat_app, IHp1, IHp2, fend_no_env by auto. reflexivity.
Qed.

(* index of the first raising invocation that happens while the FMS is not attached *)
Fixpoint first_fatal (k0 : nat) (fl : list bool) : option nat :=
  match fl with
  | [] => None
  | f :: r => if raises k0 && negb f then Some O else option_map S (first_fatal (S k0) r)
  end.

Lemma first_fatal_lt fl : forall k0 i, first_fatal k0 fl = Some i -> (i < length fl)%nat.
Proof.
  induction fl as [|f r IH]; intros k0 i; cbn [first_fatal length]; [discriminate|].
  destruct (raises k0 && negb f); [intros [= <-]; lia|].
  destruct (first_fatal (S k0) r) as [i'|] eqn:F; cbn; [|discriminate]. intros [= <-].
  specialize (IH _ _ F). lia.
Qed.
Lemma first_fatal_some fl : forall k0 i, first_fatal k0 fl = Some i ->
  raises (k0 + i) = true /\ nth i fl true = false /\
  (forall j, (j < i)%nat -> raises (k0 + j) = false \/ nth j fl true = true).
Proof.
  induction fl as [|f r IH]; intros k0 i; cbn [first_fatal]; [discriminate|].
  destruct (raises k0 && negb f) eqn:E.
  - intros [= <-]. apply andb_true_iff in E. destruct E as [E1 E2]. apply negb_true_iff in E2.
    rewrite Nat.add_0_r. repeat split; auto. intros j Hj. lia.
  - destruct (first_fatal (S k0) r) as [i'|] eqn:F; cbn; [|discriminate]. intros [= <-].
    destruct (IH _ _ F) as (H1 & H2 & H3). replace (k0 + S i')%nat with (S k0 + i')%nat by lia.
    repeat split; auto. intros j Hj. destruct j as [|j].
    + rewrite Nat.add_0_r. cbn. apply andb_false_iff in E. destruct E as [E|E]; [left; exact E | right; apply negb_false_iff, E].
    + replace (k0 + S j)%nat with (S k0 + j)%nat by lia. apply H3. lia.
Qed.
Lemma first_fatal_none fl : forall k0, first_fatal k0 fl = None <->
  (forall j, (j < length fl)%nat -> raises (k0 + j) = false \/ nth j fl true = true).
Proof.
  induction fl as [|f r IH]; intros k0; cbn [first_fatal length].
  - split; [intros _ j Hj; lia | auto].
  - destruct (raises k0 && negb f) eqn:E.
    + split; [discriminate|]. intros H. specialize (H 0%nat (Nat.lt_0_succ _)). rewrite Nat.add_0_r in H. cbn in H.
      apply andb_true_iff in E. destruct E as [E1 E2]. apply negb_true_iff in E2. destruct H; congruence.
    + destruct (first_fatal (S k0) r) eqn:F; cbn.
      * split; [discriminate|]. intros H. exfalso.
        assert (N : first_fatal (S k0) r = None).
        { apply IH. intros j Hj. replace (S k0 + j)%nat with (k0 + S j)%nat by lia. apply (H (S j)). lia. }
        congruence.
      * split; [|reflexivity]. intros _ j Hj. destruct j as [|j].
        -- rewrite Nat.add_0_r. cbn. apply andb_false_iff in E. destruct E as [E|E]; [left; exact E | right; apply negb_false_iff, E].
        -- replace (k0 + S j)%nat with (S k0 + j)%nat by lia. apply (proj1 (IH (S k0)) F). lia.
Qed.
Lemma first_fatal_app a b : forall k0,
  first_fatal k0 (a ++ b) =
  match first_fatal k0 a with
  | Some i => Some i
  | None => option_map (Nat.add (length a)) (first_fatal (k0 + length a) b)
  end.
Proof.
  induction a as [|f a IH]; intros k0; cbn [app first_fatal length].
  - rewrite Nat.add_0_r. destruct (first_fatal k0 b); reflexivity.
  - destruct (raises k0 && negb f); [reflexivity|]. rewrite IH.
    destruct (first_fatal (S k0) a); cbn; [reflexivity|].
    replace (k0 + S (length a))%nat with (S (k0 + length a))%nat by lia.
    destruct (first_fatal (S (k0 + length a)) b); reflexivity.
Qed.
(* attached throughout: nothing is fatal;  never attached: the first raise is *)
Lemma first_fatal_all_true n : forall k0, first_fatal k0 (repeat true n) = None.
Proof. induction n as [|n IH]; intros k0; cbn; [reflexivity|]. rewrite andb_false_r, IH. reflexivity. Qed.
Lemma first_fatal_all_false n : forall k0, first_fatal k0 (repeat false n) = first_raise raises k0 n.
Proof. induction n as [|n IH]; intros k0; cbn; [reflexivity|]. rewrite andb_true_r, IH. reflexivity. Qed.

(* one invocation followed by the handler that guards it *)
Lemma guarded_invoke s w : in_flight w = false ->
  let '(w1, e) := Model.invoke c raises writes s w in
  sites e = [s] /\ w_n (handle w1) = S (w_n w) /\ w_fms (handle w1) = w_fms w /\
  in_flight (handle w1) = raises (w_n w) && negb (w_fms w).
Proof.
  intros Hw. pose proof (invoke_spec c raises writes s w) as Hi. destruct (Model.invoke c raises writes s w) as [w1 e].
  destruct Hi as (H1 & H2 & _ & _ & _ & H6 & H7 & H8).
  destruct (handle_frame w1) as (Hn & _ & _ & _ & Hfm). rewrite Hn, Hfm, H8. repeat split; auto.
  destruct (raises (w_n w)) eqn:E.
  - assert (E1 : in_flight w1 = true) by (unfold in_flight; rewrite (H6 eq_refl); reflexivity).
    destruct (w_fms w) eqn:Ef; cbn.
    + apply handle_fms. congruence.
    + rewrite handle_nofms by congruence. exact E1.
  - assert (E1 : in_flight w1 = false) by (unfold in_flight in *; rewrite (H7 eq_refl); exact Hw).
    rewrite handle_quiet by exact E1. exact E1.
Qed.

Theorem safe_cut p : safe p = true -> forall w, in_flight w = false ->
  let '(w', e) := denote p w in
  match first_fatal (w_n w) (fflags p (w_fms w)) with
  | Some i => in_flight w' = true /\ sites e = firstn (S i) (psites p) /\ w_n w' = (w_n w + S i)%nat /\ w_fms w' = false
  | None => in_flight w' = false /\ sites e = psites p /\ w_n w' = (w_n w + length (psites p))%nat
            /\ w_fms w' = fend p (w_fms w)
  end.
Proof.
  induction p as [| s | j | | m | b0 | q IH | a IHa b IHb]; intros Hs w Hw; cbn [Model.denote]; rewrite Hw.
  - cbn. repeat split; auto; lia.
  - discriminate.
  - pose proof (guarded_invoke (SFeedback j) w Hw) as G.
    pose proof (invoke_spec c raises writes (SFeedback j) w) as Hi.
    destruct (Model.invoke c raises writes (SFeedback j) w) as [w1 e].
    destruct G as (G1 & G2 & G3 & G4). destruct Hi as (_ & H2 & _ & _ & _ & _ & _ & H8).
    cbn [fflags first_fatal psites length firstn fend].
    destruct (in_flight w1) eqn:E1.
    + rewrite <- G4. destruct (in_flight (handle w1)) eqn:E2; cbn [option_map].
      * repeat split; auto; try lia. rewrite G3. destruct (w_fms w); [|reflexivity].
        rewrite andb_false_r in G4. discriminate.
      * repeat split; auto. lia.
    + rewrite handle_quiet in G4 by exact E1. rewrite <- G4, E1. cbn [option_map].
      cbn. repeat split; auto; try lia.
  - cbn. repeat split; auto.
  - cbn. repeat split; auto.
  - cbn. repeat split; auto.
  - cbn [safe] in Hs. destruct q as [| s | j | | m | b0 | q' | a b].
    + cbn [Model.denote]. rewrite Hw. cbn. rewrite handle_quiet by exact Hw. repeat split; auto; lia.
    + cbn [Model.denote]. rewrite Hw.
      pose proof (guarded_invoke s w Hw) as G. destruct (Model.invoke c raises writes s w) as [w1 e].
      destruct G as (G1 & G2 & G3 & G4).
      cbn [fflags first_fatal psites length firstn fend]. rewrite <- G4.
      destruct (in_flight (handle w1)) eqn:E2; cbn [option_map].
      * repeat split; auto; try lia. rewrite G3. destruct (w_fms w); [|reflexivity].
        rewrite andb_false_r in G4. discriminate.
      * repeat split; auto. lia.
    + specialize (IH Hs w Hw). cbn [fflags fend psites] in *. destruct (denote (PFeedback j) w) as [w1 e].
      destruct (first_fatal (w_n w) [w_fms w]); destruct IH as (I1 & I2 & I3 & I4);
        [rewrite handle_nofms by exact I4 | rewrite handle_quiet by exact I1]; auto.
    + specialize (IH Hs w Hw). cbn [fflags fend psites first_fatal] in *. destruct (denote PReset w) as [w1 e].
      destruct IH as (I1 & I2 & I3 & I4). rewrite handle_quiet by exact I1; auto.
    + specialize (IH Hs w Hw). cbn [fflags fend psites first_fatal] in *. destruct (denote (PMode m) w) as [w1 e].
      destruct IH as (I1 & I2 & I3 & I4). rewrite handle_quiet by exact I1; auto.
    + specialize (IH Hs w Hw). cbn [fflags fend psites first_fatal] in *. destruct (denote (PFms b0) w) as [w1 e].
      destruct IH as (I1 & I2 & I3 & I4). rewrite handle_quiet by exact I1; auto.
    + specialize (IH Hs w Hw). cbn [fflags fend psites] in *. destruct (denote (PGuard q') w) as [w1 e].
      destruct (first_fatal (w_n w) (fflags q' (w_fms w))); destruct IH as (I1 & I2 & I3 & I4);
        [rewrite handle_nofms by exact I4 | rewrite handle_quiet by exact I1]; auto.
    + specialize (IH Hs w Hw). cbn [fflags fend psites] in *. destruct (denote (PSeq a b) w) as [w1 e].
      destruct (first_fatal (w_n w) (fflags a (w_fms w) ++ fflags b (fend a (w_fms w)))); destruct IH as (I1 & I2 & I3 & I4);
        [rewrite handle_nofms by exact I4 | rewrite handle_quiet by exact I1]; auto.
  - cbn [safe] in Hs. apply andb_true_iff in Hs. destruct Hs as [Ha Hb].
    cbn [fflags fend psites]. rewrite first_fatal_app, fflags_length.
    specialize (IHa Ha w Hw). destruct (denote a w) as [w1 e1].
    destruct (first_fatal (w_n w) (fflags a (w_fms w))) as [i|] eqn:Fa.
    + destruct IHa as (A1 & A2 & A3 & A4). rewrite (denote_inert c raises writes fbval b w1 A1). rewrite app_nil_r.
      pose proof (first_fatal_lt _ _ _ Fa) as Hi. rewrite fflags_length in Hi.
      rewrite firstn_app. replace (S i - length (psites a))%nat with 0%nat by lia. cbn [firstn]. rewrite app_nil_r.
      repeat split; auto.
    + destruct IHa as (A1 & A2 & A3 & A4). specialize (IHb Hb w1 A1). destruct (denote b w1) as [w2 e2].
      rewrite A3, A4 in IHb.
      destruct (first_fatal (w_n w + length (psites a)) (fflags b (fend a (w_fms w)))) as [i|] eqn:Fb; cbn [option_map].
      * destruct IHb as (B1 & B2 & B3 & B4). rewrite sites_app, A2, B2.
        rewrite firstn_app. replace (S (length (psites a) + i) - length (psites a))%nat with (S i) by lia.
        rewrite (@firstn_all2 _ (S (length (psites a) + i)) (psites a)) by lia. repeat split; auto. lia.
      * destruct IHb as (B1 & B2 & B3 & B4). rewrite sites_app, app_length, A2, B2. repeat split; auto. lia.
Qed.

(* ------------------------------------------------------------------ *)
(* the run: the FMS state in force at each call of the specified sequence *)
Fixpoint ticks_fms (cur : option mode) (v : bool) (ts : list tick) : list bool :=
  match ts with
  | [] => []
  | Fms b :: r => ticks_fms cur b r
  | t :: r => let '(cur', s) := tick_sites c cur t in
              repeat v (length s) ++ match t with End => [] | _ => ticks_fms cur' v r end
  end.
Definition spec_fms (ts : list tick) : list bool :=
  repeat (fms c) (length (startup_sites c)) ++ ticks_fms None (fms c) ts.

Lemma no_env_tick cur t : match t with Fms _ => False | _ => True end -> no_env (snd (tick_prog c cur t)) = true.
Proof.
  destruct t as [en au te| |b]; cbn [tick_prog]; intros H; [| |contradiction].
  - destruct cur as [m|]; [destruct (stays m en au te)|]; cbn [snd];
      rewrite ?no_env_pseq; cbn [forallb]; rewrite ?no_env_leave, ?no_env_enter, ?no_env_iteration; reflexivity.
  - destruct cur; cbn [snd]; [apply no_env_leave | reflexivity].
Qed.

Lemma fflags_ticks ts : forall cur v, fflags (ticks_prog c cur ts) v = ticks_fms cur v ts.
Proof.
  induction ts as [|t r IH]; intros cur v; cbn [ticks_prog ticks_fms]; [reflexivity|].
  destruct t as [en au te| |b].
  - pose proof (tick_prog_sites c cur (Tick en au te)) as [H1 H2].
    pose proof (no_env_tick cur (Tick en au te) I) as Hn.
    destruct (tick_prog c cur (Tick en au te)) as [cur' p]. destruct (tick_sites c cur (Tick en au te)) as [cur'' s].
    cbn [fst snd] in *. subst. cbn [fflags]. rewrite fflags_no_env, fend_no_env, IH by exact Hn. reflexivity.
  - pose proof (tick_prog_sites c cur End) as [H1 H2].
    pose proof (no_env_tick cur End I) as Hn.
    destruct (tick_prog c cur End) as [cur' p]. destruct (tick_sites c cur End) as [cur'' s].
    cbn [fst snd] in *. subst. rewrite fflags_no_env, app_nil_r by exact Hn. reflexivity.
  - cbn [tick_prog fflags fend app]. apply IH.
Qed.

Lemma first_fatal_quiet fl : forall k0, (forall j, (j < length fl)%nat -> raises (k0 + j) = false) -> first_fatal k0 fl = None.
Proof. intros k0 H. apply first_fatal_none. intros j Hj. left. apply H, Hj. Qed.

(* the whole run, FMS changing at will: exactly the specified calls up to and including the
   first raising invocation that happens while the FMS is not attached; the robot dies there
   and only there *)
Theorem run_mixed ts : setup_quiet c raises ->
  match first_fatal 0 (spec_fms ts) with
  | Some i => sites (snd (Model.robot_run c raises writes fbval ts)) = firstn (S i) (spec_sites c ts)
              /\ in_flight (fst (Model.robot_run c raises writes fbval ts)) = true
  | None => sites (snd (Model.robot_run c raises writes fbval ts)) = spec_sites c ts
            /\ in_flight (fst (Model.robot_run c raises writes fbval ts)) = false
  end.
Proof.
  intros Hq. unfold Model.robot_run, robot_prog, spec_fms. cbn [Model.denote].
  change (in_flight (init_world c)) with false. cbv iota.
  pose proof (quiet_total c raises writes fbval (startup c) (init_world c) eq_refl) as Hs.
  rewrite psites_startup in Hs. specialize (Hs Hq).
  pose proof (nofms_or_keep c raises writes fbval (startup c) (init_world c) (no_env_startup c) _ eq_refl) as Hk.
  destruct (denote (startup c) (init_world c)) as [w1 e1]. destruct Hs as (S1 & S2 & S3). cbn [fst] in Hk.
  change (w_fms (init_world c)) with (fms c) in Hk. change (w_n (init_world c)) with 0%nat in S3.
  rewrite first_fatal_app, repeat_length, first_fatal_quiet by (rewrite repeat_length; exact Hq).
  pose proof (safe_cut (ticks_prog c None ts) (safe_ticks c ts None) w1 S1) as Ht.
  rewrite fflags_ticks, S3, Hk in Ht. cbn [Nat.add] in *.
  destruct (denote (ticks_prog c None ts) w1) as [w2 e2]. cbn [fst snd].
  unfold spec_sites. rewrite sites_app, S2.
  destruct (first_fatal (length (startup_sites c)) (ticks_fms None (fms c) ts)) as [i|]; cbn [option_map].
  - destruct Ht as (T1 & T2 & T3 & T4). rewrite T2, <- psites_ticks. split; [|exact T1].
    rewrite firstn_app. replace (S (length (startup_sites c) + i) - length (startup_sites c))%nat with (S i) by lia.
    rewrite (@firstn_all2 _ (S (length (startup_sites c) + i)) (startup_sites c)) by lia. reflexivity.
  - destruct Ht as (T1 & T2 & T3 & T4). rewrite T2, <- psites_ticks. split; [reflexivity | exact T1].
Qed.

End P.
