(* The MagicRobot loop: exception semantics of guarded programs (C07), the call
   sequence (C05), feedback publication (C11) and the will_reset_to reset (C10). *)
From Coq Require Import ZArith List Bool Lia Arith.
From RecordUpdate Require Import RecordSet.
Import ListNotations RecordSetNotations.
From RV Require Import Robot.Model.
Open Scope Z_scope.

Definition sites (t : list event) : list site := map site_of t.
Lemma sites_app a b : sites (a ++ b) = sites a ++ sites b.
Proof. apply map_app. Qed.

Section P.
Variable c : cfg.
Variable raises : nat -> bool.
Variable writes : nat -> list (nat * nat * Z).
Variable fbval : nat -> Z.

Notation denote := (denote c raises writes fbval).
Notation invoke := (invoke c raises writes).

(* ------------------------------------------------------------------ *)
(* basic facts                                                          *)
Lemma denote_inert p w : in_flight w = true -> denote p w = (w, []).
Proof. intros H. destruct p; cbn [Model.denote]; rewrite H; reflexivity. Qed.

Lemma denote_seq a b w : in_flight w = false ->
  denote (PSeq a b) w =
  (let '(w1, e1) := denote a w in let '(w2, e2) := denote b w1 in (w2, e1 ++ e2)).
Proof. intros H. cbn [Model.denote]. rewrite H. reflexivity. Qed.

Lemma invoke_spec s w :
  let '(w1, e) := invoke s w in
  sites e = [s] /\ w_n w1 = S (w_n w) /\ w_nt w1 = w_nt w /\ w_ntmode w1 = w_ntmode w /\
  w_store w1 = apply_writes (writes (w_n w)) (w_store w) /\
  (raises (w_n w) = true -> w_exc w1 = Some s) /\
  (raises (w_n w) = false -> w_exc w1 = w_exc w) /\ w_fms w1 = w_fms w.
Proof.
  unfold Model.invoke. destruct (raises (w_n w)); cbn; destruct s; cbn; repeat split; auto; discriminate.
Qed.

Lemma handle_fms w : w_fms w = true -> in_flight (handle w) = false.
Proof. intros H. unfold handle. destruct (in_flight w) eqn:E; [rewrite H; reflexivity | exact E]. Qed.
Lemma handle_nofms w : w_fms w = false -> handle w = w.
Proof. intros H. unfold handle. rewrite H. destruct (in_flight w); reflexivity. Qed.
Lemma handle_frame w :
  w_n (handle w) = w_n w /\ w_store (handle w) = w_store w /\ w_nt (handle w) = w_nt w
  /\ w_ntmode (handle w) = w_ntmode w /\ w_fms (handle w) = w_fms w.
Proof. unfold handle. destruct (in_flight w); [destruct (w_fms w) eqn:E|]; cbn; rewrite ?E; repeat split; auto. Qed.
Lemma handle_quiet w : in_flight w = false -> handle w = w.
Proof. intros H. unfold handle. rewrite H. reflexivity. Qed.

(* ------------------------------------------------------------------ *)
(* programs all of whose callbacks sit directly under a guard           *)
Fixpoint safe (p : prog) : bool :=
  match p with
  | PNop | PReset | PMode _ | PFms _ | PFeedback _ => true
  | PInvoke _ => false
  | PGuard q => match q with PInvoke _ => true | _ => safe q end
  | PSeq a b => safe a && safe b
  end.

(* the FMS is never detached / never attached by the program's environment steps *)
Fixpoint fms_stays (v : bool) (p : prog) : bool :=
  match p with
  | PFms b => Bool.eqb b v
  | PGuard q => fms_stays v q
  | PSeq a b => fms_stays v a && fms_stays v b
  | _ => true
  end.
(* framework code proper contains no environment step at all *)
Fixpoint no_env (p : prog) : bool :=
  match p with
  | PFms _ => false
  | PGuard q => no_env q
  | PSeq a b => no_env a && no_env b
  | _ => true
  end.
Lemma no_env_stays v p : no_env p = true -> fms_stays v p = true.
Proof.
  induction p; cbn; auto; try discriminate.
  intros H. apply andb_true_iff in H. destruct H. rewrite IHp1, IHp2; auto.
Qed.

Lemma safe_pseq l : safe (pseq l) = forallb safe l.
Proof. unfold pseq. induction l as [|p l IH]; cbn; [reflexivity | rewrite IH; reflexivity]. Qed.
Lemma safe_pwhen b p : safe p = true -> safe (pwhen b p) = true.
Proof. destruct b; auto. Qed.
Lemma safe_for_components f : (forall i, safe (f i) = true) -> safe (for_components c f) = true.
Proof.
  intros H. unfold for_components. rewrite safe_pseq, forallb_forall.
  intros p Hin. apply in_map_iff in Hin. destruct Hin as (i & <- & _). apply H.
Qed.
Lemma no_env_pseq l : no_env (pseq l) = forallb no_env l.
Proof. unfold pseq. induction l as [|p l IH]; cbn; [reflexivity | rewrite IH; reflexivity]. Qed.
Lemma no_env_pwhen b p : no_env p = true -> no_env (pwhen b p) = true.
Proof. destruct b; auto. Qed.
Lemma no_env_for_components f : (forall i, no_env (f i) = true) -> no_env (for_components c f) = true.
Proof.
  intros H. unfold for_components. rewrite no_env_pseq, forallb_forall.
  intros p Hin. apply in_map_iff in Hin. destruct Hin as (i & <- & _). apply H.
Qed.

Lemma psites_pseq l : psites (pseq l) = concat (map psites l).
Proof. unfold pseq. induction l as [|p l IH]; cbn; [reflexivity | rewrite IH; reflexivity]. Qed.

(* While the FMS stays attached, a safe program runs every callback of its static call
   sequence, in order, whatever raises, and no exception escapes it. *)
Theorem safe_total p : safe p = true -> fms_stays true p = true ->
  forall w, in_flight w = false -> w_fms w = true ->
  let '(w', e) := denote p w in
  in_flight w' = false /\ sites e = psites p /\ w_n w' = (w_n w + length (psites p))%nat /\ w_fms w' = true.
Proof.
  induction p as [| s | j | | m | b0 | q IH | a IHa b IHb]; intros Hs Hst w Hw Hf; cbn [Model.denote]; rewrite Hw.
  - cbn. repeat split; auto; lia.
  - discriminate.
  - pose proof (invoke_spec (SFeedback j) w) as Hi.
    destruct (invoke (SFeedback j) w) as [w1 e]. destruct Hi as (H1 & H2 & _ & _ & _ & _ & _ & H8).
    destruct (in_flight w1) eqn:E1; cbn.
    + destruct (handle_frame w1) as (Hn & _ & _ & _ & Hfm). rewrite handle_fms, Hn, Hfm by congruence.
      repeat split; auto; try lia; congruence.
    + repeat split; auto; try (cbn; lia); cbn; congruence.
  - cbn. repeat split; auto.
  - cbn. repeat split; auto.
  - cbn in Hst. apply Bool.eqb_prop in Hst. subst b0. cbn. repeat split; auto.
  - cbn [safe] in Hs. cbn [fms_stays] in Hst. destruct q as [| s | j | | m | b0 | q' | a b].
    + cbn [Model.denote]. rewrite Hw. cbn. rewrite handle_quiet by exact Hw. repeat split; auto; lia.
    + cbn [Model.denote]. rewrite Hw.
      pose proof (invoke_spec s w) as Hi. destruct (invoke s w) as [w1 e]. destruct Hi as (H1 & H2 & _ & _ & _ & _ & _ & H8).
      destruct (handle_frame w1) as (Hn & _ & _ & _ & Hfm). rewrite handle_fms, Hn, Hfm by congruence. cbn.
      repeat split; auto; try lia; congruence.
    + specialize (IH Hs Hst w Hw Hf). destruct (denote (PFeedback j) w) as [w1 e]. destruct IH as (I1 & I2 & I3 & I4).
      rewrite handle_quiet by exact I1. auto.
    + specialize (IH Hs Hst w Hw Hf). destruct (denote PReset w) as [w1 e]. destruct IH as (I1 & I2 & I3 & I4).
      rewrite handle_quiet by exact I1. auto.
    + specialize (IH Hs Hst w Hw Hf). destruct (denote (PMode m) w) as [w1 e]. destruct IH as (I1 & I2 & I3 & I4).
      rewrite handle_quiet by exact I1. auto.
    + specialize (IH Hs Hst w Hw Hf). destruct (denote (PFms b0) w) as [w1 e]. destruct IH as (I1 & I2 & I3 & I4).
      rewrite handle_quiet by exact I1. auto.
    + specialize (IH Hs Hst w Hw Hf). destruct (denote (PGuard q') w) as [w1 e]. destruct IH as (I1 & I2 & I3 & I4).
      rewrite handle_quiet by exact I1. auto.
    + specialize (IH Hs Hst w Hw Hf). destruct (denote (PSeq a b) w) as [w1 e]. destruct IH as (I1 & I2 & I3 & I4).
      rewrite handle_quiet by exact I1. auto.
  - cbn [safe] in Hs. apply andb_true_iff in Hs. destruct Hs as [Ha Hb].
    cbn [fms_stays] in Hst. apply andb_true_iff in Hst. destruct Hst as [Hsa Hsb].
    specialize (IHa Ha Hsa w Hw Hf). destruct (denote a w) as [w1 e1]. destruct IHa as (A1 & A2 & A3 & A4).
    specialize (IHb Hb Hsb w1 A1 A4). destruct (denote b w1) as [w2 e2]. destruct IHb as (B1 & B2 & B3 & B4).
    cbn [psites]. rewrite sites_app, app_length, A2, B2. repeat split; auto. lia.
Qed.

(* Any program runs its whole static call sequence when no callback of it raises. *)
Theorem quiet_total p : forall w, in_flight w = false ->
  (forall i, (i < length (psites p))%nat -> raises (w_n w + i) = false) ->
  let '(w', e) := denote p w in
  in_flight w' = false /\ sites e = psites p /\ w_n w' = (w_n w + length (psites p))%nat.
Proof.
  induction p as [| s | j | | m | b0 | q IH | a IHa b IHb]; intros w Hw Hr; cbn [Model.denote]; rewrite Hw.
  - cbn. repeat split; auto; lia.
  - pose proof (invoke_spec s w) as Hi. destruct (invoke s w) as [w1 e].
    destruct Hi as (H1 & H2 & _ & _ & _ & _ & H7 & _).
    specialize (Hr 0%nat). cbn in Hr. rewrite Nat.add_0_r in Hr. specialize (Hr (Nat.lt_0_succ 0)).
    unfold in_flight in *. rewrite (H7 Hr). repeat split; auto. cbn. lia.
  - pose proof (invoke_spec (SFeedback j) w) as Hi. destruct (invoke (SFeedback j) w) as [w1 e].
    destruct Hi as (H1 & H2 & _ & _ & _ & _ & H7 & _).
    specialize (Hr 0%nat). cbn in Hr. rewrite Nat.add_0_r in Hr. specialize (Hr (Nat.lt_0_succ 0)).
    assert (E1 : in_flight w1 = false) by (unfold in_flight in *; rewrite (H7 Hr); exact Hw).
    rewrite E1. cbn. repeat split; auto. lia.
  - cbn. repeat split; auto.
  - cbn. repeat split; auto.
  - cbn. repeat split; auto.
  - specialize (IH w Hw Hr). destruct (denote q w) as [w1 e]. destruct IH as (I1 & I2 & I3).
    rewrite handle_quiet by exact I1. auto.
  - cbn [psites] in Hr. rewrite app_length in Hr.
    assert (Hra : forall i, (i < length (psites a))%nat -> raises (w_n w + i) = false) by (intros i Hi; apply Hr; lia).
    specialize (IHa w Hw Hra). destruct (denote a w) as [w1 e1]. destruct IHa as (A1 & A2 & A3).
    assert (Hrb : forall i, (i < length (psites b))%nat -> raises (w_n w1 + i) = false).
    { intros i Hi. rewrite A3, <- Nat.add_assoc. apply Hr. lia. }
    specialize (IHb w1 A1 Hrb). destruct (denote b w1) as [w2 e2]. destruct IHb as (B1 & B2 & B3).
    cbn [psites]. rewrite sites_app, app_length, A2, B2. repeat split; auto. lia.
Qed.

(* ------------------------------------------------------------------ *)
(* without the FMS the first raising callback ends the program          *)
Fixpoint first_raise (k0 n : nat) : option nat :=
  match n with
  | O => None
  | S n' => if raises k0 then Some O else option_map S (first_raise (S k0) n')
  end.

Lemma first_raise_none k0 n : first_raise k0 n = None <->
  (forall i, (i < n)%nat -> raises (k0 + i) = false).
Proof.
  revert k0. induction n as [|n IH]; intros k0; cbn.
  - split; [intros _ i Hi; lia | auto].
  - destruct (raises k0) eqn:E.
    + split; [discriminate|]. intros H. specialize (H 0%nat (Nat.lt_0_succ n)). rewrite Nat.add_0_r in H. congruence.
    + destruct (first_raise (S k0) n) eqn:F; cbn.
      * split; [discriminate|]. intros H. exfalso.
        assert (N : first_raise (S k0) n = None) by (apply IH; intros i Hi; replace (S k0 + i)%nat with (k0 + S i)%nat by lia; apply H; lia).
        congruence.
      * split; [|reflexivity]. intros _ i Hi. destruct i; [rewrite Nat.add_0_r; exact E|].
        replace (k0 + S i)%nat with (S k0 + i)%nat by lia. apply (proj1 (IH (S k0)) F). lia.
Qed.

Lemma first_raise_some k0 n i : first_raise k0 n = Some i ->
  (i < n)%nat /\ raises (k0 + i) = true /\ (forall j, (j < i)%nat -> raises (k0 + j) = false).
Proof.
  revert k0 i. induction n as [|n IH]; intros k0 i; cbn; [discriminate|].
  destruct (raises k0) eqn:E.
  - intros [= <-]. rewrite Nat.add_0_r. repeat split; auto; lia.
  - destruct (first_raise (S k0) n) as [i'|] eqn:F; cbn; [|discriminate]. intros [= <-].
    destruct (IH _ _ F) as (H1 & H2 & H3). split; [lia|]. split.
    + replace (k0 + S i')%nat with (S k0 + i')%nat by lia. exact H2.
    + intros j Hj. destruct j; [rewrite Nat.add_0_r; exact E|].
      replace (k0 + S j)%nat with (S k0 + j)%nat by lia. apply H3. lia.
Qed.

Lemma first_raise_app k0 n1 n2 :
  first_raise k0 (n1 + n2) =
  match first_raise k0 n1 with
  | Some i => Some i
  | None => option_map (Nat.add n1) (first_raise (k0 + n1) n2)
  end.
Proof.
  revert k0. induction n1 as [|n1 IH]; intros k0; cbn.
  - rewrite Nat.add_0_r. destruct (first_raise k0 n2); reflexivity.
  - destruct (raises k0); [reflexivity|]. rewrite IH.
    destruct (first_raise (S k0) n1); cbn; [reflexivity|].
    replace (k0 + S n1)%nat with (S (k0 + n1))%nat by lia.
    destruct (first_raise (S (k0 + n1)) n2); reflexivity.
Qed.

Theorem nofms_cut p : fms_stays false p = true -> forall w, in_flight w = false -> w_fms w = false ->
  let '(w', e) := denote p w in
  w_fms w' = false /\
  match first_raise (w_n w) (length (psites p)) with
  | Some i => sites e = firstn (S i) (psites p) /\ in_flight w' = true /\ w_n w' = (w_n w + S i)%nat
  | None => sites e = psites p /\ in_flight w' = false /\ w_n w' = (w_n w + length (psites p))%nat
  end.
Proof.
  induction p as [| s | j | | m | b0 | q IH | a IHa b IHb]; intros Hst w Hw Hf; cbn [Model.denote]; rewrite Hw.
  - cbn. repeat split; auto; lia.
  - pose proof (invoke_spec s w) as Hi. destruct (invoke s w) as [w1 e].
    destruct Hi as (H1 & H2 & _ & _ & _ & H6 & H7 & H8). cbn. split; [congruence|].
    destruct (raises (w_n w)) eqn:E.
    + unfold in_flight. rewrite (H6 eq_refl). repeat split; auto. lia.
    + unfold in_flight in *. rewrite (H7 eq_refl). repeat split; auto. lia.
  - pose proof (invoke_spec (SFeedback j) w) as Hi. destruct (invoke (SFeedback j) w) as [w1 e].
    destruct Hi as (H1 & H2 & _ & _ & _ & H6 & H7 & H8). cbn.
    destruct (raises (w_n w)) eqn:E.
    + assert (E1 : in_flight w1 = true) by (unfold in_flight; rewrite (H6 eq_refl); reflexivity).
      rewrite E1, handle_nofms by congruence. split; [congruence|]. repeat split; auto. lia.
    + assert (E1 : in_flight w1 = false) by (unfold in_flight in *; rewrite (H7 eq_refl); exact Hw).
      rewrite E1. cbn. split; [congruence|]. repeat split; auto. lia.
  - cbn. repeat split; auto.
  - cbn. repeat split; auto.
  - cbn in Hst. apply Bool.eqb_prop in Hst. subst b0. cbn. repeat split; auto.
  - cbn [fms_stays] in Hst. specialize (IH Hst w Hw Hf). destruct (denote q w) as [w1 e]. destruct IH as [IF IH].
    rewrite handle_nofms by exact IF. split; [exact IF | exact IH].
  - cbn [fms_stays] in Hst. apply andb_true_iff in Hst. destruct Hst as [Hsa Hsb].
    cbn [psites]. rewrite app_length, first_raise_app.
    specialize (IHa Hsa w Hw Hf). destruct (denote a w) as [w1 e1]. destruct IHa as [AF IHa].
    destruct (first_raise (w_n w) (length (psites a))) as [i|] eqn:Fa.
    + destruct IHa as (A1 & A2 & A3). rewrite (denote_inert b w1 A2). rewrite app_nil_r.
      destruct (first_raise_some _ _ _ Fa) as (Hi & _).
      rewrite firstn_app. replace (S i - length (psites a))%nat with 0%nat by lia. cbn. rewrite app_nil_r.
      repeat split; auto.
    + destruct IHa as (A1 & A2 & A3). specialize (IHb Hsb w1 A2 AF). destruct (denote b w1) as [w2 e2].
      destruct IHb as [BF IHb]. rewrite A3 in IHb. split; [exact BF|].
      destruct (first_raise (w_n w + length (psites a)) (length (psites b))) as [i|] eqn:Fb; cbn [option_map].
      * destruct IHb as (B1 & B2 & B3). rewrite sites_app, A1, B1.
        rewrite firstn_app. replace (S (length (psites a) + i) - length (psites a))%nat with (S i) by lia.
        rewrite (@firstn_all2 _ (S (length (psites a) + i)) (psites a)) by lia. repeat split; auto. lia.
      * destruct IHb as (B1 & B2 & B3). rewrite sites_app, A1, B1. repeat split; auto. lia.
Qed.

End P.
