(* Correspondence harness, Coq side, for the MagicRobot loop model.  No proofs. *)
From Coq Require Import ZArith List Bool.
From RV Require Import Robot.Model.
Import ListNotations.
Open Scope Z_scope.

Definition site_eqb (a b : site) : bool :=
  match a, b with
  | SSetup i, SSetup j | SOnEnable i, SOnEnable j | SOnDisable i, SOnDisable j
  | SExecute i, SExecute j | SFeedback i, SFeedback j => Nat.eqb i j
  | SInit m, SInit n | SPeriodic m, SPeriodic n => mode_eqb m n
  | SRobotPeriodic, SRobotPeriodic | SAutoEnable, SAutoEnable
  | SAutoIter, SAutoIter | SAutoDisable, SAutoDisable => true
  | _, _ => false
  end.

Fixpoint list_eqb {A} (eqb : A -> A -> bool) (a b : list A) : bool :=
  match a, b with
  | [], [] => true
  | x :: a', y :: b' => eqb x y && list_eqb eqb a' b'
  | _, _ => false
  end.
Definition optZ_eqb (a b : option Z) : bool :=
  match a, b with Some x, Some y => Z.eqb x y | None, None => true | _, _ => false end.
Definition optmode_eqb (a b : option mode) : bool :=
  match a, b with Some x, Some y => mode_eqb x y | None, None => true | _, _ => false end.

Definition event_eqb (a b : event) : bool :=
  match a, b with
  | EvCB s, EvCB t => site_eqb s t
  | EvExec i s, EvExec j t => Nat.eqb i j && list_eqb (list_eqb Z.eqb) s t
  | EvRP m f s, EvRP n g t => optmode_eqb m n && list_eqb optZ_eqb f g && list_eqb (list_eqb Z.eqb) s t
  | _, _ => false
  end.

Record rcase := {
  rc_ncomp : nat;
  rc_setup : list bool; rc_enable : list bool; rc_disable : list bool;
  rc_nfb : nat; rc_teleop_in_auto : bool; rc_has_auto : bool; rc_fms : bool;
  rc_nattr : nat;
  rc_marked : list (nat * nat * Z);
  rc_raises : list nat;
  rc_writes : list (nat * list (nat * nat * Z));
  rc_fbval : list (nat * Z);
  rc_ticks : list tick;
  rc_obs : list event;          (* the implementation's callback log *)
  rc_crashed : bool             (* an exception escaped startCompetition() *)
}.

Definition cfg_of (r : rcase) : cfg :=
  {| ncomp := rc_ncomp r;
     has_setup := fun i => nth i (rc_setup r) false;
     has_enable := fun i => nth i (rc_enable r) false;
     has_disable := fun i => nth i (rc_disable r) false;
     nfb := rc_nfb r; teleop_in_auto := rc_teleop_in_auto r; has_auto := rc_has_auto r; fms := rc_fms r;
     nattr := rc_nattr r;
     marked := fun ci a =>
       match find (fun p => Nat.eqb (fst (fst p)) ci && Nat.eqb (snd (fst p)) a) (rc_marked r) with
       | Some p => Some (snd p) | None => None end |}.

Definition raises_of (r : rcase) : nat -> bool := fun k => existsb (Nat.eqb k) (rc_raises r).
Definition writes_of (r : rcase) : nat -> list (nat * nat * Z) :=
  fun k => match find (fun p => Nat.eqb (fst p) k) (rc_writes r) with Some p => snd p | None => [] end.
Definition fbval_of (r : rcase) : nat -> Z :=
  fun k => match find (fun p => Nat.eqb (fst p) k) (rc_fbval r) with Some p => snd p | None => 0 end.

Definition model_run (r : rcase) : world * list event :=
  robot_run (cfg_of r) (raises_of r) (writes_of r) (fbval_of r) (rc_ticks r).

Definition check_rcase (r : rcase) : bool :=
  let '(w, e) := model_run r in
  list_eqb event_eqb (rc_obs r) e && Bool.eqb (rc_crashed r) (in_flight w).

Fixpoint bad_from (i : nat) (l : list rcase) : list nat :=
  match l with
  | [] => []
  | c :: r => if check_rcase c then bad_from (S i) r else i :: bad_from (S i) r
  end.
Definition bad_indices (l : list rcase) : list nat := bad_from 0 l.
