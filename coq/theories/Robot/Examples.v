(* A concrete robot used by the non-vacuity examples of Properties C05 C06 C07 C10 C11. *)
From Coq Require Import ZArith List Bool.
From RV Require Import Robot.Model.
Import ListNotations.
Open Scope Z_scope.

(* two components (the 2nd has no on_disable), three feedbacks, teleopPeriodic also in autonomous,
   an autonomous mode, FMS attached; component 0 attribute 0 is will_reset_to(7) *)
Definition ex_cfg (fmsb : bool) : cfg :=
  {| ncomp := 2; has_setup := fun i => Nat.eqb i 0; has_enable := fun _ => true; has_disable := fun i => Nat.eqb i 0;
     nfb := 3; teleop_in_auto := true; has_auto := true; fms := fmsb; nattr := 2;
     marked := fun ci a => if Nat.eqb ci 0 && Nat.eqb a 0 then Some 7 else None |}.
Definition ex_ticks : list tick :=
  [ Tick false false false; Tick true false false; Tick true false false; Tick true true false;
    Tick true false true; Tick false false false; End ].
(* invocation 12 (execute() of component 0 in the first teleop iteration) assigns 99 to the marked attribute
   and 5 to an unmarked one of the other component; invocations 14 and 16 (feedback getters 0 and 2 of that
   iteration) and 18 (teleopPeriodic of the next iteration) raise *)
Definition ex_raises : nat -> bool := fun k => Nat.eqb k 14 || Nat.eqb k 16 || Nat.eqb k 18.
Definition ex_writes : nat -> list (nat * nat * Z) := fun k => if Nat.eqb k 12 then [(0%nat, 0%nat, 99); (1%nat, 0%nat, 5)] else [].
Definition ex_fbval : nat -> Z := fun k => Z.of_nat k.
Definition ex_run (fmsb : bool) := robot_run (ex_cfg fmsb) ex_raises ex_writes ex_fbval ex_ticks.
