(* C05, the time axis: within a mode the k-th loop pass starts exactly k control
   periods after the mode was entered, provided no pass (including the mode's
   entry code before the first one) takes longer than the period.  This composes the
   robot loop (one pass, then NotifierDelay.wait()) with the NotifierDelay theorems
   of C16: the mode loop creates its NotifierDelay at entry time t0, pass i lasts
   b_i, then wait() is called. *)
From Coq Require Import ZArith List Lia.
From RV Require Import Delay.Model Properties.C16.
Import ListNotations.
Open Scope Z_scope.

Lemma passes_on_grid p t0 bs : 0 <= p ->
  (forall i b, nth_error bs i = Some b -> 0 <= b <= p) ->
  forall i c r, nth_error (wait_log (create p t0, t0) (sched bs)) i = Some (c, r) ->
  r = grid t0 p (S i).
Proof.
  intros Hp Hb. pose proof (C16_call_times p t0 bs) as (Hlen & H0 & Hs).
  induction i as [|i IH]; intros c r Hi.
  - apply (C16_exact_when_on_time p t0 bs 0 c r Hi).
    assert (Hb0 : exists b, nth_error bs 0 = Some b).
    { destruct (nth_error bs 0) eqn:E; [eauto|]. apply nth_error_None in E.
      assert (nth_error (wait_log (create p t0, t0) (sched bs)) 0 <> None) by congruence.
      apply nth_error_Some in H. lia. }
    destruct Hb0 as [b Eb]. rewrite (H0 c r b Hi Eb). specialize (Hb 0%nat b Eb). unfold grid. lia.
  - assert (Hprev : exists c0 r0, nth_error (wait_log (create p t0, t0) (sched bs)) i = Some (c0, r0)).
    { destruct (nth_error (wait_log (create p t0, t0) (sched bs)) i) as [[c0 r0]|] eqn:E; [eauto|].
      apply nth_error_None in E.
      assert (nth_error (wait_log (create p t0, t0) (sched bs)) (S i) <> None) by congruence.
      apply nth_error_Some in H. lia. }
    destruct Hprev as (c0 & r0 & E0).
    assert (Hbi : exists b, nth_error bs (S i) = Some b).
    { destruct (nth_error bs (S i)) eqn:E; [eauto|]. apply nth_error_None in E.
      assert (nth_error (wait_log (create p t0, t0) (sched bs)) (S i) <> None) by congruence.
      apply nth_error_Some in H. lia. }
    destruct Hbi as [b Eb].
    apply (C16_exact_when_on_time p t0 bs (S i) c r Hi).
    rewrite (Hs i c0 r0 c r b E0 Hi Eb), (IH c0 r0 E0). specialize (Hb (S i) b Eb). unfold grid. lia.
Qed.
