(* C05, the time axis: within a mode the k-th loop pass starts exactly k control
   periods after the mode was entered, provided no pass (including the mode's
   entry code before the first one) takes longer than the period.  This composes the
   robot loop (one pass, then NotifierDelay.wait()) with the NotifierDelay theorems
   of C16: the mode loop creates its NotifierDelay at entry time t0, pass i lasts
   b_i, then wait() is called. *)
From Coq Require Import ZArith List Bool Arith Lia.
From RV Require Import Delay.Model Properties.C16.
Import ListNotations.
Open Scope Z_scope.

Lemma passes_on_grid p t0 bs : 0 <= p ->
  (forall i b, nth_error bs i = Some b -> 0 <= b <= p) ->
  forall i c r, nth_error (wait_log (create p t0, t0) (sched bs)) i = Some (c, r) ->
  r = grid t0 p (S i).
Proof.
  intros Hp Hb. pose proof (C16_call_times p t0 bs) as (Hlen & H0 & Hs).
  induction i as [|i IH]; intros c r Hi.
  - apply (C16_exact_when_on_time p t0 bs 0 c r Hi).
    assert (Hb0 : exists b, nth_error bs 0 = Some b).
    { destruct (nth_error bs 0) eqn:E; [eauto|]. apply nth_error_None in E.
      assert (nth_error (wait_log (create p t0, t0) (sched bs)) 0 <> None) by congruence.
      apply nth_error_Some in H. lia. }
    destruct Hb0 as [b Eb]. rewrite (H0 c r b Hi Eb). specialize (Hb 0%nat b Eb). unfold grid. lia.
  - assert (Hprev : exists c0 r0, nth_error (wait_log (create p t0, t0) (sched bs)) i = Some (c0, r0)).
    { destruct (nth_error (wait_log (create p t0, t0) (sched bs)) i) as [[c0 r0]|] eqn:E; [eauto|].
      apply nth_error_None in E.
      assert (nth_error (wait_log (create p t0, t0) (sched bs)) (S i) <> None) by congruence.
      apply nth_error_Some in H. lia. }
    destruct Hprev as (c0 & r0 & E0).
    assert (Hbi : exists b, nth_error bs (S i) = Some b).
    { destruct (nth_error bs (S i)) eqn:E; [eauto|]. apply nth_error_None in E.
      assert (nth_error (wait_log (create p t0, t0) (sched bs)) (S i) <> None) by congruence.
      apply nth_error_Some in H. lia. }
    destruct Hbi as [b Eb].
    apply (C16_exact_when_on_time p t0 bs (S i) c r Hi).
    rewrite (Hs i c0 r0 c r b E0 Hi Eb), (IH c0 r0 E0). specialize (Hb (S i) b Eb). unfold grid. lia.
Qed.

(* ------------------------------------------------------------------ *)
(* Late wake-ups.  The thread blocked in HAL_WaitForNotifierAlarm is not rescheduled at the
   very microsecond of its alarm: [JWait late] is a wait() whose return is [late] us after
   the moment the HAL would release it.  The object is the NotifierDelay of Delay.Model (same
   [wait]); only the clock of the caller differs.  [JBody b]: the loop pass takes b us. *)
Inductive jop := JBody (b : Z) | JWait (late : Z).

Definition jstep (s : nd * Z) (o : jop) : nd * Z :=
  match o with
  | JBody b => (fst s, snd s + b)
  | JWait l => let '(d', t) := wait (fst s) (snd s) in (d', t + l)
  end.

(* per wait(): FPGA time at the call, at the return, and the alarm the HAL holds afterwards *)
Fixpoint jlog (s : nd * Z) (ops : list jop) : list (Z * Z * option Z) :=
  match ops with
  | [] => []
  | o :: r =>
      let s' := jstep s o in
      match o with
      | JWait _ => (snd s, snd s', alarm (fst s')) :: jlog s' r
      | JBody _ => jlog s' r
      end
  end.

Definition jsched (bl : list (Z * Z)) : list jop := flat_map (fun x => [JBody (fst x); JWait (snd x)]) bl.

(* whatever the passes and the wake-ups do, the alarms stay on the grid anchored at creation *)
Fixpoint alarms_from (e p : Z) (n : nat) : list (option Z) :=
  match n with O => [] | S n' => Some (e + p) :: alarms_from (e + p) p n' end.

Lemma jlog_alarms bl : forall d now, live d = true ->
  map snd (jlog (d, now) (jsched bl)) = alarms_from (expiry d) (period d) (length bl).
Proof.
  induction bl as [|[b l] r IH]; intros d now Hl; [reflexivity|].
  cbn [jsched flat_map fst snd app jlog jstep length alarms_from map].
  unfold wait. rewrite Hl. cbn [fst snd alarm]. f_equal.
  change (flat_map (fun x => [JBody (fst x); JWait (snd x)]) r) with (jsched r).
  rewrite IH by reflexivity. reflexivity.
Qed.

Theorem loop_alarms_on_grid p t0 bl :
  map snd (jlog (create p t0, t0) (jsched bl)) = alarms_from (t0 + p) p (length bl).
Proof. apply (jlog_alarms bl (create p t0) t0 eq_refl). Qed.

Lemma alarms_from_nth e p n i : (i < n)%nat -> nth_error (alarms_from e p n) i = Some (Some (e + Z.of_nat (S i) * p)).
Proof.
  revert e i. induction n as [|n IH]; intros e i Hi; [lia|]. destruct i as [|i]; cbn [alarms_from nth_error].
  - f_equal. f_equal. lia.
  - rewrite IH by lia. f_equal. f_equal. lia.
Qed.

(* passes and wake-up latenesses that fit in the period: [late0] is how late the previous
   wake-up was *)
Fixpoint fits (p late0 : Z) (bl : list (Z * Z)) : Prop :=
  match bl with
  | [] => True
  | (b, l) :: r => 0 <= b /\ 0 <= l /\ late0 + b <= p /\ fits p l r
  end.

(* then the i-th wake-up happens exactly [late_i] after the i-th grid point *)
Fixpoint wakes_from (e p now : Z) (bl : list (Z * Z)) : list (Z * Z * option Z) :=
  match bl with
  | [] => []
  | (b, l) :: r => (now + b, e + l, Some (e + p)) :: wakes_from (e + p) p (e + l) r
  end.

Lemma jlog_fits bl : forall d now, live d = true -> alarm d = Some (expiry d) ->
  fits (period d) (now - (expiry d - period d)) bl ->
  jlog (d, now) (jsched bl) = wakes_from (expiry d) (period d) now bl.
Proof.
  induction bl as [|[b l] r IH]; intros d now Hl Ha Hf; [reflexivity|].
  cbn [fits] in Hf. destruct Hf as (Hb & Hl0 & Hfit & Hr).
  cbn [jsched flat_map fst snd app jlog jstep wakes_from].
  unfold wait. rewrite Hl, Ha. cbn [fst snd alarm hal_wait].
  change (flat_map (fun x => [JBody (fst x); JWait (snd x)]) r) with (jsched r).
  replace (Z.max (now + b) (expiry d)) with (expiry d) by lia.
  f_equal. rewrite IH; cbn [live alarm expiry period]; auto.
  replace (expiry d + l - (expiry d + period d - period d)) with l by lia. exact Hr.
Qed.

Lemma wakes_from_nth bl : forall e p now i c r a, nth_error (wakes_from e p now bl) i = Some (c, r, a) ->
  exists b l, nth_error bl i = Some (b, l) /\ r = e + Z.of_nat i * p + l /\ a = Some (e + Z.of_nat (S i) * p).
Proof.
  induction bl as [|[b l] rest IH]; intros e p now i c r a H; [destruct i; discriminate|].
  destruct i as [|i]; cbn [wakes_from nth_error] in *.
  - injection H as <- <- <-. exists b, l. split; [reflexivity|]. split; [lia | f_equal; lia].
  - destruct (IH _ _ _ _ _ _ _ H) as (b' & l' & H1 & H2 & H3). exists b', l'. split; [exact H1|]. split; [lia | subst a; f_equal; lia].
Qed.

(* one pass per period, late wake-ups included: as long as every pass plus the lateness of the
   wake-up before it fits in the period, the i-th wake-up of the mode loop happens in the i-th
   cell of the grid anchored at the creation of the loop's NotifierDelay, exactly [late_i]
   after its start -- lateness never accumulates *)
Theorem wakes_in_their_cells p t0 bl : fits p 0 bl ->
  forall i c r a, nth_error (jlog (create p t0, t0) (jsched bl)) i = Some (c, r, a) ->
  exists b l, nth_error bl i = Some (b, l) /\ r = grid t0 p (S i) + l /\ a = Some (grid t0 p (S (S i))).
Proof.
  intros Hf i c r a H. rewrite (jlog_fits bl (create p t0) t0 eq_refl eq_refl) in H.
  - cbn [create expiry period] in H. destruct (wakes_from_nth _ _ _ _ _ _ _ _ H) as (b & l & H1 & H2 & H3).
    exists b, l. unfold grid. split; [exact H1|]. split; [lia | subst a; f_equal; lia].
  - cbn [create expiry period]. replace (t0 - (t0 + p - p)) with 0 by lia. exact Hf.
Qed.

(* correspondence: one mode loop of the real robot = (period, creation time, passes and
   latenesses, what was observed per wait: call, return, alarm programmed) *)
Definition jcase : Type := Z * Z * list (Z * Z) * list (Z * Z * Z).
Definition jcheck (x : jcase) : bool :=
  let '(p, t0, bl, obs) := x in
  let model := map (fun y => match y with (c, r, Some a) => (c, r, a) | (c, r, None) => (c, r, -1) end)
                   (jlog (create p t0, t0) (jsched bl)) in
  (length model =? length obs)%nat &&
  forallb (fun ab => let '((a1, a2, a3), (b1, b2, b3)) := ab in (a1 =? b1) && (a2 =? b2) && (a3 =? b3)) (combine model obs).
Definition jbad (l : list jcase) : list nat :=
  map fst (filter (fun x => negb (jcheck (snd x))) (combine (seq 0 (length l)) l)).
