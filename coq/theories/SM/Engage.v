(* C01: regular states run only while engage() keeps being called;
   the request flag; exactly one state function per requested iteration. *)
From Coq Require Import ZArith List Bool Lia.
From RecordUpdate Require Import RecordSet.
Import ListNotations RecordSetNotations.
From RV Require Import SM.Model SM.Basics.
Open Scope Z_scope.

Section P.
Variable sh : shape.
Variable body : nat -> name -> Z -> Z -> bool -> list action.

(* ------------------------------------------------------------------ *)
(* A. without a request, no regular state function is called          *)

Definition quiet_ev (e : event) : Prop :=
  match e with EvCall s _ _ _ _ => is_regular sh s = false | _ => True end.
Definition quiet (t : list event) := Forall quiet_ev t.

Lemma quiet_app a b : quiet (a ++ b) <-> quiet a /\ quiet b.
Proof. apply Forall_app. Qed.

Definition nocall_ev (e : event) : Prop := match e with EvCall _ _ _ _ _ => False | _ => True end.
Lemma nocall_quiet t : Forall nocall_ev t -> quiet t.
Proof. apply Forall_impl. intros []; cbn; tauto. Qed.

Lemma expire_nocall m now : Forall nocall_ev (s_ev (expire sh m now)).
Proof. unfold expire. repeat break_match; cbn; repeat constructor. Qed.

Lemma stop_nocall x : Forall nocall_ev (s_ev x) -> Forall nocall_ev (s_ev (stop_if_engaged sh x)).
Proof.
  intros H. unfold stop_if_engaged. repeat break_match; cbn; auto.
  apply Forall_app; split; auto. repeat constructor.
Qed.
Lemma fallback_nocall x : Forall nocall_ev (s_ev x) -> Forall nocall_ev (s_ev (fallback sh x)).
Proof.
  intros H. unfold fallback. repeat break_match; cbn; auto.
  apply Forall_app; split; auto. repeat constructor.
Qed.
Lemma select_nocall x : Forall nocall_ev (s_ev x) -> Forall nocall_ev (s_ev (select sh x)).
Proof. intros H. unfold select. apply fallback_nocall, stop_nocall. rewrite deactivate_ev. exact H. Qed.

Lemma must_not_regular s : is_must sh s = true -> is_regular sh s = false.
Proof. unfold is_regular. intros ->. apply andb_false_r. Qed.
Lemma default_not_regular s : is_default sh s = true -> is_regular sh s = false.
Proof. unfold is_regular. intros ->. reflexivity. Qed.

Lemma fallback_st_inv x s : s_st (fallback sh x) = Some s ->
  s_st x = Some s \/ (s_st x = None /\ sh_default sh = Some s).
Proof.
  unfold fallback. destruct (s_st x) as [s0|] eqn:Es.
  - rewrite Es. auto.
  - destruct (sh_default sh) as [d|]; [|rewrite Es; discriminate].
    destruct (is_some_eq (cur (s_m x)) d); cbn; intros [= <-]; auto.
Qed.

Lemma is_default_of s : sh_default sh = Some s -> is_default sh s = true.
Proof. unfold is_default. intros ->. cbn. apply Nat.eqb_refl. Qed.

Lemma select_st_quiet x s : should (s_m x) = false -> s_st (select sh x) = Some s ->
  is_regular sh s = false.
Proof.
  intros Hs H. unfold select in H. apply fallback_st_inv in H. destruct H as [H|[_ H]].
  - rewrite stop_st, deactivate_st in H. destruct (s_st x) as [s0|]; [|discriminate].
    rewrite Hs in H. cbn in H. destruct (is_must sh s0) eqn:E; [|discriminate].
    injection H as <-. apply must_not_regular, E.
  - apply default_not_regular, is_default_of, H.
Qed.

Section Step.
Variable nested : sm -> Z -> sm * list event.
Hypothesis nested_quiet : forall m now, should m = false -> quiet (snd (nested m now)).
Hypothesis nested_unrequested : forall m now, should m = false -> should (fst (nested m now)) = false.

Lemma off_idle_quiet m : quiet (off_if_idle m).
Proof. unfold off_if_idle. destruct (engaged m); repeat constructor. Qed.
Lemma off_default_quiet s : quiet (off_if_default sh s).
Proof. unfold off_if_default. destruct (is_default sh s); repeat constructor. Qed.

Lemma run_actions_quiet acts : forall m, should m = false ->
  quiet (snd (run_actions sh nested acts m)) /\ should (fst (run_actions sh nested acts m)) = false.
Proof.
  induction acts as [|a r IH]; intros m Hs; cbn [run_actions].
  - split; [constructor | exact Hs].
  - destruct a as [n|n now'|].
    + destruct (is_state sh n); [|cbn; split; [repeat constructor | exact Hs]].
      destruct (IH (next_state m n) Hs) as [Hq Hs'].
      destruct (run_actions sh nested r (next_state m n)) as [m' e]. cbn in *.
      split; [|exact Hs'].
      apply quiet_app; split; [apply off_idle_quiet|].
      apply quiet_app; split; [apply off_default_quiet|]. constructor; [exact I | exact Hq].
    + destruct (is_state sh n); [|cbn; split; [repeat constructor | exact Hs]].
      pose proof (nested_quiet (next_state m n) now' Hs) as Hn.
      pose proof (nested_unrequested (next_state m n) now' Hs) as Hu.
      destruct (nested (next_state m n) now') as [m1 e1]. cbn [fst snd] in Hn, Hu.
      set (m1r := if engaged m1 then m1 <| should := should (next_state m n) |> else m1).
      assert (Hs1 : should m1r = false) by (unfold m1r; destruct (engaged m1); cbn; [exact Hs | exact Hu]).
      destruct (IH _ Hs1) as [Hq Hs'].
      destruct (run_actions sh nested r m1r) as [m2 e2].
      cbn in *. split; [|exact Hs'].
      apply quiet_app; split; [apply off_idle_quiet|].
      apply quiet_app; split; [apply off_default_quiet|].
      constructor; [exact I|]. constructor; [exact I|]. apply quiet_app; split; assumption.
    + assert (Hs1 : should (done sh m) = false).
      { rewrite done_should. destruct (sh_auto sh); auto. }
      destruct (IH (done sh m) Hs1) as [Hq Hs'].
      destruct (run_actions sh nested r (done sh m)) as [m' e]. cbn in *.
      split; [|exact Hs'].
      apply quiet_app; split; [apply off_idle_quiet|]. constructor; [exact I | exact Hq].
Qed.

Lemma should_false_through m now : should m = false ->
  should (s_m (select sh (expire sh (latch (m <| clk := now |>) now) now))) = false.
Proof.
  intros Hs. destruct (should (s_m (select sh (expire sh (latch (m <| clk := now |>) now) now)))) eqn:E; auto.
  apply select_should_le, expire_should_le in E. rewrite latch_should in E. cbn in E. congruence.
Qed.

Lemma exec_step_quiet m now : should m = false ->
  quiet (snd (exec_step sh body nested m now)).
Proof.
  intros Hs. unfold exec_step.
  assert (Hback : quiet (if now <? clk m then [EvBack] else [])) by (destruct (now <? clk m); repeat constructor).
  destruct (negb (engaged (m <| clk := now |>)) && negb (should (m <| clk := now |>)) && is_none (sh_default sh));
    [exact Hback|].
  set (x := select sh (expire sh (latch (m <| clk := now |>) now) now)).
  assert (Hx : should (s_m x) = false) by (apply should_false_through, Hs).
  assert (Hq : quiet (s_ev x)) by (apply nocall_quiet, select_nocall, expire_nocall).
  destruct (s_st x) as [s|] eqn:Est.
  - pose proof (enter_bk_frame sh (s_m x) s (s_nss x)) as Hf.
    pose proof (enter_bk_spec sh (s_m x) s (s_nss x)) as Hsp.
    destruct (enter_bk sh (s_m x) s (s_nss x)) as [[m1 init] bk]. cbn in Hf.
    destruct Hf as (Hs1 & _).
    assert (Hbk : quiet bk).
    { destruct Hsp as (_ & _ & _ & H1 & H2). destruct (ran (sdat (s_m x) s)).
      - destruct (H1 eq_refl) as [_ ->]. constructor.
      - destruct (H2 eq_refl) as (_ & _ & ->). repeat constructor. }
    match goal with |- context [run_actions sh nested ?a ?mm] =>
      destruct (run_actions_quiet a mm) as [Hq2 _]; [cbn; congruence|];
      destruct (run_actions sh nested a mm) as [m2 e] end.
    cbn in *.
    apply quiet_app; split; [exact Hback|]. apply quiet_app; split; [exact Hq|].
    apply quiet_app; split; [exact Hbk|]. constructor; [|exact Hq2].
    cbn. unfold x in Est. eapply select_st_quiet; [|exact Est].
    destruct (should (s_m (expire sh (latch (m <| clk := now |>) now) now))) eqn:E; auto.
    apply expire_should_le in E. rewrite latch_should in E. cbn in E. congruence.
  - destruct (s_done x); cbn; (apply quiet_app; split; [exact Hback|]);
      apply quiet_app; split; try exact Hq; repeat constructor.
Qed.
End Step.

Lemma exec_step_should nested m now :
  should (fst (exec_step sh body nested m now)) = false.
Proof.
  unfold exec_step.
  destruct (negb (engaged (m <| clk := now |>)) && negb (should (m <| clk := now |>)) && is_none (sh_default sh)) eqn:E.
  - cbn in *. destruct (should m); [|reflexivity].
    rewrite andb_false_r in E. discriminate.
  - repeat break_match; reflexivity.
Qed.

Theorem exec_quiet fuel : forall m now, should m = false -> quiet (snd (exec sh body fuel m now)).
Proof.
  induction fuel as [|f IH]; intros m now Hs; cbn [exec].
  - repeat constructor.
  - apply exec_step_quiet; try assumption.
    intros m' now' Hs'. destruct f; [exact Hs' | apply exec_step_should].
Qed.

(* ------------------------------------------------------------------ *)
(* B. the request flag: true iff engage() since the previous iteration *)

Lemma exec_should fuel m now : should (fst (exec sh body (S fuel) m now)) = false.
Proof. cbn [exec]. apply exec_step_should. Qed.

Definition plain_op (o : op) : bool :=
  match o with Engage _ _ | Done | OnDisable | Execute _ | SetDuration _ _ => true | _ => false end.

(* the reference: engage() sets the request, an iteration consumes it *)
Fixpoint requested (h : list op) (b : bool) : bool :=
  match h with
  | [] => b
  | Engage _ _ :: r => requested r true
  | Execute _ :: r => requested r false
  | _ :: r => requested r b
  end.

Lemma engage_should m i f : should (fst (engage sh m i f)) = true.
Proof. unfold engage. repeat break_match; reflexivity. Qed.

Theorem should_iff_engaged_since fuel h : forall m,
  sh_auto sh = false -> forallb plain_op h = true ->
  should (fst (run sh body (S fuel) m h)) = requested h (should m).
Proof.
  induction h as [|o r IH]; intros m Ha Hp; [reflexivity|].
  cbn [forallb] in Hp. apply andb_true_iff in Hp. destruct Hp as [Ho Hr].
  cbn [run].
  destruct (step sh body (S fuel) m o) as [m1 e] eqn:Es.
  specialize (IH m1 Ha Hr). destruct (run sh body (S fuel) m1 r) as [m2 es]. cbn in *.
  rewrite IH. clear IH.
  destruct o; try discriminate; cbn [step] in Es; cbn [requested].
  - pose proof (engage_should m init force) as H. rewrite Es in H. cbn in H. rewrite H. reflexivity.
  - injection Es as <- _. rewrite done_should_plain by exact Ha. reflexivity.
  - injection Es as <- _. rewrite done_should_plain by exact Ha. reflexivity.
  - pose proof (exec_should fuel m now) as H. rewrite Es in H. cbn in H. rewrite H. reflexivity.
  - injection Es as <- _. reflexivity.
Qed.

(* ------------------------------------------------------------------ *)
(* C. requested and not stopped: exactly one state function, plus one
      per next_state_now()                                             *)

Fixpoint ncalls (t : list event) : nat :=
  match t with
  | [] => O
  | EvCall _ _ _ _ _ :: r => S (ncalls r)
  | _ :: r => ncalls r
  end.
Fixpoint nnow (t : list event) : nat :=
  match t with
  | [] => O
  | EvNow :: r => S (nnow r)
  | _ :: r => nnow r
  end.
Lemma ncalls_app a b : ncalls (a ++ b) = (ncalls a + ncalls b)%nat.
Proof. induction a as [|[] a IH]; cbn; auto. Qed.
Lemma nnow_app a b : nnow (a ++ b) = (nnow a + nnow b)%nat.
Proof. induction a as [|[] a IH]; cbn; auto. Qed.

Lemma ncalls_nocall t : Forall nocall_ev t -> ncalls t = O.
Proof. induction 1 as [|[] t H _ IH]; cbn in *; auto; contradiction. Qed.
Definition nonow_ev (e : event) : Prop := match e with EvNow => False | _ => True end.
Lemma nnow_nonow t : Forall nonow_ev t -> nnow t = O.
Proof. induction 1 as [|[] t H _ IH]; cbn in *; auto; contradiction. Qed.

Lemma expire_nonow m now : Forall nonow_ev (s_ev (expire sh m now)).
Proof. unfold expire. repeat break_match; cbn; repeat constructor. Qed.
Lemma select_nonow x : Forall nonow_ev (s_ev x) -> Forall nonow_ev (s_ev (select sh x)).
Proof.
  intros H. unfold select, fallback, stop_if_engaged.
  repeat break_match; cbn; rewrite ?deactivate_ev; auto;
    repeat (apply Forall_app; split); auto; repeat constructor.
Qed.

(* when requested, the selected state is the machine's state (never deactivated) *)
Lemma select_requested x : should (s_m x) = true -> s_st x <> None -> s_st (select sh x) = s_st x.
Proof.
  intros Hs Hn. unfold select.
  assert (H : s_st (stop_if_engaged sh (deactivate sh x)) = s_st x).
  { rewrite stop_st, deactivate_st. destruct (s_st x); [rewrite Hs; reflexivity | congruence]. }
  unfold fallback. rewrite H. destruct (s_st x); [exact H | congruence].
Qed.

Lemma expire_st_some m now : sh_auto sh = false -> should m = true -> cur m <> None ->
  ok (s_ev (expire sh m now)) -> s_st (expire sh m now) <> None.
Proof.
  intros Ha Hs Hc. unfold expire. destruct (cur m) as [s|]; [|congruence].
  repeat break_match; cbn; try discriminate; intros Hok;
    try (exfalso; eapply not_ok_err; exact Hok).
  rewrite done_should_plain in * by exact Ha. congruence.
Qed.

Section Step2.
Variable nested : sm -> Z -> sm * list event.
Hypothesis nested_one : forall m now, should m = true -> cur m <> None ->
  ok (snd (nested m now)) -> ncalls (snd (nested m now)) = S (nnow (snd (nested m now))).

Lemma off_idle_ok m : ok (off_if_idle m) -> engaged m = true.
Proof. unfold off_if_idle. destruct (engaged m); auto. intros H. exfalso. eapply not_ok_off, H. Qed.
Lemma off_idle_counts m : ncalls (off_if_idle m) = O /\ nnow (off_if_idle m) = O.
Proof. unfold off_if_idle. destruct (engaged m); auto. Qed.
Lemma off_default_counts s : ncalls (off_if_default sh s) = O /\ nnow (off_if_default sh s) = O.
Proof. unfold off_if_default. destruct (is_default sh s); auto. Qed.

Lemma run_actions_one acts : forall m, (engaged m = true -> should m = true) ->
  ok (snd (run_actions sh nested acts m)) ->
  ncalls (snd (run_actions sh nested acts m)) = nnow (snd (run_actions sh nested acts m)).
Proof.
  induction acts as [|a r IH]; intros m HP Hok; cbn [run_actions] in *; [reflexivity|].
  destruct a as [n|n now'|].
  - destruct (is_state sh n); [|exfalso; eapply not_ok_err; exact Hok].
    specialize (IH (next_state m n) HP).
    destruct (run_actions sh nested r (next_state m n)) as [m' e]. cbn in *.
    apply ok_app in Hok. destruct Hok as [_ Hok]. apply ok_app in Hok. destruct Hok as [_ Hok].
    apply ok_cons in Hok. destruct Hok as [_ Hok].
    rewrite !ncalls_app, !nnow_app.
    destruct (off_idle_counts m) as [-> ->]. destruct (off_default_counts n) as [-> ->].
    cbn. apply IH, Hok.
  - destruct (is_state sh n); [|exfalso; eapply not_ok_err; exact Hok].
    pose proof (nested_one (next_state m n) now') as Hn.
    destruct (nested (next_state m n) now') as [m1 e1].
    set (m1r := if engaged m1 then m1 <| should := should (next_state m n) |> else m1) in *.
    specialize (IH m1r). destruct (run_actions sh nested r m1r) as [m2 e2].
    cbn in *.
    apply ok_app in Hok. destruct Hok as [Hidle Hok]. apply ok_app in Hok. destruct Hok as [_ Hok].
    apply ok_cons in Hok. destruct Hok as [_ Hok]. apply ok_cons in Hok. destruct Hok as [_ Hok].
    apply ok_app in Hok. destruct Hok as [Hok1 Hok2].
    pose proof (off_idle_ok m Hidle) as He.
    rewrite !ncalls_app, !nnow_app.
    destruct (off_idle_counts m) as [-> ->]. destruct (off_default_counts n) as [-> ->].
    cbn. rewrite !ncalls_app, !nnow_app.
    rewrite Hn; [| apply HP, He | discriminate | exact Hok1].
    rewrite IH; [lia | | exact Hok2].
    unfold m1r. destruct (engaged m1) eqn:E1; cbn; [intros _; apply HP, He | congruence].
  - assert (HP' : engaged (done sh m) = true -> should (done sh m) = true)
      by (rewrite done_engaged; discriminate).
    specialize (IH (done sh m) HP').
    destruct (run_actions sh nested r (done sh m)) as [m' e]. cbn in *.
    apply ok_app in Hok. destruct Hok as [_ Hok]. apply ok_cons in Hok. destruct Hok as [_ Hok].
    rewrite !ncalls_app, !nnow_app. destruct (off_idle_counts m) as [-> ->]. cbn. apply IH, Hok.
Qed.

Lemma exec_step_one m now : sh_auto sh = false -> should m = true -> cur m <> None ->
  ok (snd (exec_step sh body nested m now)) ->
  ncalls (snd (exec_step sh body nested m now)) = S (nnow (snd (exec_step sh body nested m now))).
Proof.
  intros Ha Hs Hc. unfold exec_step.
  replace (negb (engaged (m <| clk := now |>)) && negb (should (m <| clk := now |>)) && is_none (sh_default sh))
    with false by (cbn; rewrite Hs, andb_false_r; reflexivity).
  set (m0 := latch (m <| clk := now |>) now).
  set (x0 := expire sh m0 now).
  set (x := select sh x0).
  assert (Hs0 : should m0 = true) by (unfold m0; rewrite latch_should; exact Hs).
  assert (Hc0 : cur m0 <> None) by (unfold m0; rewrite latch_cur; exact Hc).
  assert (Hsx0 : should (s_m x0) = true) by (unfold x0; rewrite expire_should_plain; auto).
  assert (Hsx : should (s_m x) = true) by (unfold x; rewrite select_should_plain; auto).
  destruct (s_st x) as [s|] eqn:Est.
  - pose proof (enter_bk_frame sh (s_m x) s (s_nss x)) as Hf.
    pose proof (enter_bk_spec sh (s_m x) s (s_nss x)) as Hsp.
    destruct (enter_bk sh (s_m x) s (s_nss x)) as [[m1 init] bk]. cbn in Hf.
    destruct Hf as (Hs1 & _).
    match goal with |- context [run_actions sh nested ?a ?mm] =>
      pose proof (run_actions_one a mm) as Hr;
      destruct (run_actions sh nested a mm) as [m2 e] end.
    cbn in *. intros Hok.
    apply ok_app in Hok. destruct Hok as [_ Hok]. apply ok_app in Hok. destruct Hok as [_ Hok].
    apply ok_app in Hok. destruct Hok as [_ Hok]. apply ok_cons in Hok. destruct Hok as [_ Hok].
    rewrite !ncalls_app, !nnow_app. cbn.
    assert (Hbk : ncalls bk = O /\ nnow bk = O).
    { destruct Hsp as (_ & _ & _ & H1 & H2). destruct (ran (sdat (s_m x) s)).
      - destruct (H1 eq_refl) as [_ ->]. auto.
      - destruct (H2 eq_refl) as (_ & _ & ->). auto. }
    destruct Hbk as [-> ->].
    rewrite (ncalls_nocall (s_ev x)) by (apply select_nocall, expire_nocall).
    rewrite (nnow_nonow (s_ev x)) by (apply select_nonow, expire_nonow).
    assert (Hb : ncalls (if now <? clk m then [EvBack] else []) = O /\ nnow (if now <? clk m then [EvBack] else []) = O)
      by (destruct (now <? clk m); auto).
    destruct Hb as [-> ->]. cbn. f_equal. apply Hr; [intros _; congruence | exact Hok].
  - (* impossible: the state is never dropped while requested *)
    intros Hok. exfalso.
    assert (Hok0 : ok (s_ev x0)).
    { destruct (s_done x); cbn in Hok; apply ok_app in Hok; destruct Hok as [_ Hok];
        apply ok_app in Hok; destruct Hok as [Hok _];
        unfold x, select, fallback, stop_if_engaged in Hok;
        repeat break_hyp Hok; cbn in Hok; rewrite ?deactivate_ev in Hok;
        repeat (apply ok_app in Hok; destruct Hok as [Hok _]); exact Hok. }
    pose proof (expire_st_some m0 now Ha Hs0 Hc0 Hok0) as Hne.
    unfold x in Est. rewrite select_requested in Est by assumption. fold x0 in Hne. congruence.
Qed.
End Step2.

Theorem exec_one fuel : forall m now, sh_auto sh = false -> should m = true -> cur m <> None ->
  ok (snd (exec sh body fuel m now)) ->
  ncalls (snd (exec sh body fuel m now)) = S (nnow (snd (exec sh body fuel m now))).
Proof.
  induction fuel as [|f IH]; intros m now Ha Hs Hc; cbn [exec].
  - cbn. intros H. exfalso. eapply not_ok_err, H.
  - apply exec_step_one; auto.
Qed.

End P.
