(* StateMachine.execute() of magicbot/state_machine.py, translated statement by statement (harness/exec_translate.py)
   from the pinned source: one function per top-level statement over a frame (the machine + the locals of execute()
   that live across its top-level statements), [f_err] = an exception is in flight, [f_ret] = `return` was executed.
   The text between the markers is the translator's output (`python -m harness.exec_translate --ref /repo`); every
   check of C01-C04/C13 translates the CURRENT source again (work/<ID>/Gen_exec.v) and proves the result equal to
   [ref_execute]; SM/SrcExecProofs.v proves [ref_execute] equal to the phased model [exec_step] of SM/Model.v.
   No proofs in this file. *)
From Coq Require Import ZArith List Bool.
From RecordUpdate Require Import RecordSet.
Import ListNotations RecordSetNotations.
From RV Require Import SM.Model.
Open Scope Z_scope.
Open Scope bool_scope.

Record frame := { f_m : sm; f_now : Z; f_tm : Z; f_state : option name; f_done : bool; f_nss : Z;
                  f_ev : list event; f_err : bool; f_ret : bool }.
Definition is_err (e : event) : bool := match e with EvErr => true | _ => false end.
Definition seqf (g : frame -> frame) (f : frame) : frame := if f_err f || f_ret f then f else g f.

Definition is_timed (sh : shape) (s : name) : bool := match lookup sh s with Some d => d_timed d | None => false end.


(* BEGIN translator output *)
(* now = getTime() *)
Definition ref_s0 (sh : shape) (body : nat -> name -> Z -> Z -> bool -> list action) (nested : sm -> Z -> sm * list event) (now : Z) (f : frame) : frame :=
  (Build_frame (Build_sm (should (f_m f)) (engaged (f_m f)) (cur (f_m f)) (start (f_m f)) (sdat (f_m f)) (dur (f_m f)) (nt_cur (f_m f)) (auto_on (f_m f)) now (ncall (f_m f))) now (f_tm f) (f_state f) (f_done f) (f_nss f) (f_ev f) (f_err f) (f_ret f)).
(* if not self.__engaged: *)
Definition ref_s1 (sh : shape) (body : nat -> name -> Z -> Z -> bool -> list action) (nested : sm -> Z -> sm * list event) (now : Z) (f : frame) : frame :=
  (if (engaged (f_m f)) then (Build_frame (f_m f) (f_now f) (f_tm f) (f_state f) (f_done f) (f_nss f) (f_ev f) (f_err f) (f_ret f)) else (if (should (f_m f)) then (Build_frame (Build_sm (should (f_m f)) true (cur (f_m f)) (f_now f) (sdat (f_m f)) (dur (f_m f)) (nt_cur (f_m f)) (auto_on (f_m f)) (clk (f_m f)) (ncall (f_m f))) (f_now f) (f_tm f) (f_state f) (f_done f) (f_nss f) (f_ev f) (f_err f) (f_ret f)) else (match (sh_default sh) with Some s1 => (Build_frame (f_m f) (f_now f) (f_tm f) (f_state f) (f_done f) (f_nss f) (f_ev f) (f_err f) (f_ret f)) | None => (Build_frame (f_m f) (f_now f) (f_tm f) (f_state f) (f_done f) (f_nss f) (f_ev f) (f_err f) true) end))).
(* tm = now - self.__start *)
Definition ref_s2 (sh : shape) (body : nat -> name -> Z -> Z -> bool -> list action) (nested : sm -> Z -> sm * list event) (now : Z) (f : frame) : frame :=
  (Build_frame (f_m f) (f_now f) ((f_now f) - (start (f_m f))) (f_state f) (f_done f) (f_nss f) (f_ev f) (f_err f) (f_ret f)).
(* state = self.__state *)
Definition ref_s3 (sh : shape) (body : nat -> name -> Z -> Z -> bool -> list action) (nested : sm -> Z -> sm * list event) (now : Z) (f : frame) : frame :=
  (Build_frame (f_m f) (f_now f) (f_tm f) (cur (f_m f)) (f_done f) (f_nss f) (f_ev f) (f_err f) (f_ret f)).
(* done_called = False *)
Definition ref_s4 (sh : shape) (body : nat -> name -> Z -> Z -> bool -> list action) (nested : sm -> Z -> sm * list event) (now : Z) (f : frame) : frame :=
  (Build_frame (f_m f) (f_now f) (f_tm f) (f_state f) false (f_nss f) (f_ev f) (f_err f) (f_ret f)).
(* new_state_start = tm *)
Definition ref_s5 (sh : shape) (body : nat -> name -> Z -> Z -> bool -> list action) (nested : sm -> Z -> sm * list event) (now : Z) (f : frame) : frame :=
  (Build_frame (f_m f) (f_now f) (f_tm f) (f_state f) (f_done f) (f_tm f) (f_ev f) (f_err f) (f_ret f)).
(* if state is not None and state.ran and (state.expires < tm): *)
Definition ref_s6 (sh : shape) (body : nat -> name -> Z -> Z -> bool -> list action) (nested : sm -> Z -> sm * list event) (now : Z) (f : frame) : frame :=
  (match (f_state f) with Some s1 => (if (ran ((sdat (f_m f)) s1)) then (if ((st_exp ((sdat (f_m f)) s1)) <? (f_tm f)) then (match lookup sh s1 with Some dc2 => if d_timed dc2 then (match d_next dc2 with Some nx3 => (if is_state sh nx3 then (let m4 := next_state (f_m f) nx3 in (Build_frame m4 (f_now f) (f_tm f) (cur m4) (f_done f) (st_exp ((sdat (f_m f)) s1)) (f_ev f ++ [EvEnter nx3]) (f_err f) (f_ret f))) else (Build_frame (f_m f) (f_now f) (f_tm f) (Some s1) (f_done f) (st_exp ((sdat (f_m f)) s1)) (f_ev f) true (f_ret f))) | None => (let m5 := done sh (f_m f) in (if (should m5) then (if is_state sh (sh_first sh) then (let m6 := next_state (Build_sm (should m5) true (cur m5) ((start m5) + (st_exp ((sdat m5) s1))) (sdat m5) (dur m5) (nt_cur m5) (auto_on m5) (clk m5) (ncall m5)) (sh_first sh) in (Build_frame m6 (f_now f) ((f_tm f) - (st_exp ((sdat m5) s1))) (cur m6) true 0 (f_ev f ++ [EvDone] ++ [EvEnter (sh_first sh)]) (f_err f) (f_ret f))) else (Build_frame (Build_sm (should m5) true (cur m5) ((start m5) + (st_exp ((sdat m5) s1))) (sdat m5) (dur m5) (nt_cur m5) (auto_on m5) (clk m5) (ncall m5)) (f_now f) ((f_tm f) - (st_exp ((sdat m5) s1))) (Some s1) true 0 (f_ev f ++ [EvDone]) true (f_ret f))) else (Build_frame m5 (f_now f) (f_tm f) None true (st_exp ((sdat (f_m f)) s1)) (f_ev f ++ [EvDone]) (f_err f) (f_ret f)))) end) else (Build_frame (f_m f) (f_now f) (f_tm f) (Some s1) (f_done f) (st_exp ((sdat (f_m f)) s1)) (f_ev f) true (f_ret f)) | None => (Build_frame (f_m f) (f_now f) (f_tm f) (Some s1) (f_done f) (st_exp ((sdat (f_m f)) s1)) (f_ev f) true (f_ret f)) end) else (Build_frame (f_m f) (f_now f) (f_tm f) (Some s1) (f_done f) (f_nss f) (f_ev f) (f_err f) (f_ret f))) else (Build_frame (f_m f) (f_now f) (f_tm f) (Some s1) (f_done f) (f_nss f) (f_ev f) (f_err f) (f_ret f))) | None => (Build_frame (f_m f) (f_now f) (f_tm f) None (f_done f) (f_nss f) (f_ev f) (f_err f) (f_ret f)) end).
(* if not (self.__should_engage or (state is not None and state.must_finish)): *)
Definition ref_s7 (sh : shape) (body : nat -> name -> Z -> Z -> bool -> list action) (nested : sm -> Z -> sm * list event) (now : Z) (f : frame) : frame :=
  (if (should (f_m f)) then (Build_frame (f_m f) (f_now f) (f_tm f) (f_state f) (f_done f) (f_nss f) (f_ev f) (f_err f) (f_ret f)) else (match (f_state f) with Some s1 => (if (is_must sh s1) then (Build_frame (f_m f) (f_now f) (f_tm f) (Some s1) (f_done f) (f_nss f) (f_ev f) (f_err f) (f_ret f)) else (Build_frame (f_m f) (f_now f) (f_tm f) None (f_done f) (f_nss f) (f_ev f) (f_err f) (f_ret f))) | None => (Build_frame (f_m f) (f_now f) (f_tm f) None (f_done f) (f_nss f) (f_ev f) (f_err f) (f_ret f)) end)).
(* if state is None and self.__engaged and (not done_called): *)
Definition ref_s8 (sh : shape) (body : nat -> name -> Z -> Z -> bool -> list action) (nested : sm -> Z -> sm * list event) (now : Z) (f : frame) : frame :=
  (match (f_state f) with Some s1 => (Build_frame (f_m f) (f_now f) (f_tm f) (Some s1) (f_done f) (f_nss f) (f_ev f) (f_err f) (f_ret f)) | None => (if (engaged (f_m f)) then (if (f_done f) then (Build_frame (f_m f) (f_now f) (f_tm f) None (f_done f) (f_nss f) (f_ev f) (f_err f) (f_ret f)) else (let m2 := done sh (f_m f) in (Build_frame m2 (f_now f) (f_tm f) None true (f_nss f) (f_ev f ++ [EvDone]) (f_err f) (f_ret f)))) else (Build_frame (f_m f) (f_now f) (f_tm f) None (f_done f) (f_nss f) (f_ev f) (f_err f) (f_ret f))) end).
(* if state is None and self.__default_state is not None: *)
Definition ref_s9 (sh : shape) (body : nat -> name -> Z -> Z -> bool -> list action) (nested : sm -> Z -> sm * list event) (now : Z) (f : frame) : frame :=
  (match (f_state f) with Some s1 => (Build_frame (f_m f) (f_now f) (f_tm f) (Some s1) (f_done f) (f_nss f) (f_ev f) (f_err f) (f_ret f)) | None => (match (sh_default sh) with Some s2 => (if (negb (is_some_eq (cur (f_m f)) s2)) then (Build_frame (Build_sm (should (f_m f)) (engaged (f_m f)) (Some s2) (start (f_m f)) (upd (sdat (f_m f)) s2 (((sdat (f_m f)) s2) <| ran := false |>)) (dur (f_m f)) (nt_cur (f_m f)) (auto_on (f_m f)) (clk (f_m f)) (ncall (f_m f))) (f_now f) (f_tm f) (Some s2) (f_done f) (f_nss f) (f_ev f) (f_err f) (f_ret f)) else (Build_frame (f_m f) (f_now f) (f_tm f) (Some s2) (f_done f) (f_nss f) (f_ev f) (f_err f) (f_ret f))) | None => (Build_frame (f_m f) (f_now f) (f_tm f) None (f_done f) (f_nss f) (f_ev f) (f_err f) (f_ret f)) end) end).
(* if state is not None: *)
Definition ref_s10 (sh : shape) (body : nat -> name -> Z -> Z -> bool -> list action) (nested : sm -> Z -> sm * list event) (now : Z) (f : frame) : frame :=
  (match (f_state f) with Some s1 => (if (negb (ran ((sdat (f_m f)) s1))) then (if (is_timed sh s1) then (let ra := run_actions sh nested (body (ncall (f_m f)) s1 (f_tm f) ((f_tm f) - (st_start (((sdat (f_m f)) s1) <| ran := true |> <| st_start := (f_nss f) |> <| st_exp := ((f_nss f) + ((dur (f_m f)) s1)) |>))) (negb (ran ((sdat (f_m f)) s1)))) (Build_sm (should (f_m f)) (engaged (f_m f)) (cur (f_m f)) (start (f_m f)) (upd (sdat (f_m f)) s1 (((sdat (f_m f)) s1) <| ran := true |> <| st_start := (f_nss f) |> <| st_exp := ((f_nss f) + ((dur (f_m f)) s1)) |>)) (dur (f_m f)) (nt_cur (f_m f)) (auto_on (f_m f)) (clk (f_m f)) (S (ncall (f_m f)))) in let m2 := fst ra in (Build_frame m2 (f_now f) (f_tm f) (Some s1) (f_done f) (f_nss f) (f_ev f ++ EvCall s1 (f_tm f) ((f_tm f) - (st_start (((sdat (f_m f)) s1) <| ran := true |> <| st_start := (f_nss f) |> <| st_exp := ((f_nss f) + ((dur (f_m f)) s1)) |>))) (negb (ran ((sdat (f_m f)) s1))) (engaged (f_m f)) :: filter observable (snd ra)) (existsb is_err (snd ra)) (f_ret f))) else (let ra := run_actions sh nested (body (ncall (f_m f)) s1 (f_tm f) ((f_tm f) - (st_start (((sdat (f_m f)) s1) <| ran := true |> <| st_start := (f_nss f) |> <| st_exp := ((f_nss f) + (sh_inf sh)) |>))) (negb (ran ((sdat (f_m f)) s1)))) (Build_sm (should (f_m f)) (engaged (f_m f)) (cur (f_m f)) (start (f_m f)) (upd (sdat (f_m f)) s1 (((sdat (f_m f)) s1) <| ran := true |> <| st_start := (f_nss f) |> <| st_exp := ((f_nss f) + (sh_inf sh)) |>)) (dur (f_m f)) (nt_cur (f_m f)) (auto_on (f_m f)) (clk (f_m f)) (S (ncall (f_m f)))) in let m3 := fst ra in (Build_frame m3 (f_now f) (f_tm f) (Some s1) (f_done f) (f_nss f) (f_ev f ++ EvCall s1 (f_tm f) ((f_tm f) - (st_start (((sdat (f_m f)) s1) <| ran := true |> <| st_start := (f_nss f) |> <| st_exp := ((f_nss f) + (sh_inf sh)) |>))) (negb (ran ((sdat (f_m f)) s1))) (engaged (f_m f)) :: filter observable (snd ra)) (existsb is_err (snd ra)) (f_ret f)))) else (let ra := run_actions sh nested (body (ncall (f_m f)) s1 (f_tm f) ((f_tm f) - (st_start ((sdat (f_m f)) s1))) (negb (ran ((sdat (f_m f)) s1)))) (Build_sm (should (f_m f)) (engaged (f_m f)) (cur (f_m f)) (start (f_m f)) (sdat (f_m f)) (dur (f_m f)) (nt_cur (f_m f)) (auto_on (f_m f)) (clk (f_m f)) (S (ncall (f_m f)))) in let m4 := fst ra in (Build_frame m4 (f_now f) (f_tm f) (Some s1) (f_done f) (f_nss f) (f_ev f ++ EvCall s1 (f_tm f) ((f_tm f) - (st_start ((sdat (f_m f)) s1))) (negb (ran ((sdat (f_m f)) s1))) (engaged (f_m f)) :: filter observable (snd ra)) (existsb is_err (snd ra)) (f_ret f)))) | None => (if (f_done f) then (Build_frame (f_m f) (f_now f) (f_tm f) None (f_done f) (f_nss f) (f_ev f) (f_err f) (f_ret f)) else (let m5 := done sh (f_m f) in (Build_frame m5 (f_now f) (f_tm f) None (f_done f) (f_nss f) (f_ev f ++ [EvDone]) (f_err f) (f_ret f)))) end).
(* self.__should_engage = False *)
Definition ref_s11 (sh : shape) (body : nat -> name -> Z -> Z -> bool -> list action) (nested : sm -> Z -> sm * list event) (now : Z) (f : frame) : frame :=
  (Build_frame (Build_sm false (engaged (f_m f)) (cur (f_m f)) (start (f_m f)) (sdat (f_m f)) (dur (f_m f)) (nt_cur (f_m f)) (auto_on (f_m f)) (clk (f_m f)) (ncall (f_m f))) (f_now f) (f_tm f) (f_state f) (f_done f) (f_nss f) (f_ev f) (f_err f) (f_ret f)).
Definition ref_execute (sh : shape) (body : nat -> name -> Z -> Z -> bool -> list action) (nested : sm -> Z -> sm * list event) (m : sm) (now : Z) : frame :=
  seqf (ref_s11 sh body nested now) (
  seqf (ref_s10 sh body nested now) (
  seqf (ref_s9 sh body nested now) (
  seqf (ref_s8 sh body nested now) (
  seqf (ref_s7 sh body nested now) (
  seqf (ref_s6 sh body nested now) (
  seqf (ref_s5 sh body nested now) (
  seqf (ref_s4 sh body nested now) (
  seqf (ref_s3 sh body nested now) (
  seqf (ref_s2 sh body nested now) (
  seqf (ref_s1 sh body nested now) (
  seqf (ref_s0 sh body nested now) (
    (Build_frame m 0 0 None false 0 [] false false))))))))))))).

(* END translator output *)
